"""C08  file and directory names mean the same thing in every command and reply.

(a) function level, no network: every codec pair of the real client/server on generated names and
    exhaustively on all strings of length <= 4 over a 9-character metacharacter alphabet, against the Lean
    model (`Model/Names.lean`, `Model/ListingParse.lean`);
(b) wire level: the real client and the real server over real loopback sockets, names at depth 1-3 through
    every path-taking client method, compared with the backend tree of MemoryPathIO.
Oracle (implementation only): identity of names.
"""
import asyncio
import itertools
import pathlib

from framework import Result, drive, enc_str, enc_strs

from . import names_common as nc

PID = "C08"
RULE = (
    "inputs = names (Unicode strings without '/', NUL, CR, LF, no trailing whitespace); function level: all "
    "strings of length <= L (L by tier) over the alphabet {\",space,;,=,-,>,a,1,U+3000} plus names from a "
    "generator with 28 classes (quotes, space runs, leading/inner Unicode whitespace, ;, =, MLSx-fact look-alikes, "
    "' -> ', leading dash/digits/3-digit codes, backslash, percent, combining, astral, verb look-alikes, dots, long) "
    "through 12 client command sites x {str, PurePosixPath} argument, PWD, MLSD, MLST, LIST; wire level: names at "
    "depth 1-3 through make_directory, change_directory+get_current_directory, list (MLSD and LIST fallback), stat, "
    "upload_stream, download_stream, rename, remove_file, remove_directory on two servers; a case is non-trivial "
    "when some codec is not the identity on one of its characters (anything but [A-Za-z0-9_.]); distinct = distinct names"
)
EXPLANATION = (
    "Theorems in Properties/C08.lean hold for every valid name of any length; this run ties the hand-written codec "
    "models to the live client.py/server.py (function level, exhaustive on a metacharacter alphabet) and evaluates "
    "the name-identity oracle on the implementation, end to end over loopback sockets."
)
ASSUMPTIONS = [
    "names are sequences of Unicode scalar values (no lone surrogates); encoding utf-8 on both sides, and "
    "encode/decode are inverse bijections (decode of arbitrary bytes is modelled in Py/Utf8.lean and sampled by C19)",
    "server cwd is absolute and normal (what get_paths stores); POSIX pathlib",
    "non-ASCII case mapping of MLSx fact keys is not modelled (server keys are ASCII); compared modulo str.lower()",
    "the 12-character LIST date column and parse_ls_date are opaque (slice C07): recorded from the real code",
    "asyncio readline splits only at LF and lines stay below the 64 KiB stream limit",
]
GENERATED_OBLIGATIONS = ["Client.clientPathCmdSites", "Client.clientCdupLiteral", "Client.listChainCaught"]
TRUSTED_EXTRA = ["translator harness/extract_client.py (command-construction call sites of client.py, exception tuple of the parser chain)"]

SIG_PWD_QUOTE = "C08:pwd-double-quote"
SIG_LIST_LEADWS = "C08:list-leading-whitespace"

CONVERTING = {"change_directory", "make_directory", "stat"}  # methods that do path = PurePosixPath(path) first


# what stands between the mode and the name in unix-style LIST lines of other servers: (links owner group size, date)
FOREIGN_HEADS = [
    ("   1 ftp      ftp          4096", "Mar 14  2020"),
    (" 1 1000 1000 7", "Jan 03 2018"),
    ("    2 owner    group           0", "Nov 18 12:29"),
    (" 12 0        0        1099511627776", "Feb  9  1999"),
]


def live_sites():
    import extract_client

    tree = extract_client._client_ast()
    return [(fn, pre, st) for fn, pre, st, arg in extract_client.path_cmd_sites(tree) if arg not in extract_client.NON_PATH_ARGS]


def nontrivial(n):
    return any(not (c.isascii() and (c.isalnum() or c in "_.")) for c in n)


# ------------------------------------------------------------------------------------------------
# function level
# ------------------------------------------------------------------------------------------------
async def _site_commands(F, fn, pre, n, as_path):
    """commands the real method sends for the argument n; returns the one starting with `pre` (or CDUP)"""
    arg = pathlib.PurePosixPath(n) if as_path else n
    verb = pre.strip()
    if fn == "change_directory":
        sent = await F.client_commands("change_directory", arg)
    elif fn == "make_directory":
        sent = await F.client_commands("make_directory", arg, parents=False)
    elif fn == "remove_directory":
        sent = await F.client_commands("remove_directory", arg)
    elif fn == "list":
        sent = await F.client_commands("list", arg, raw_command=verb)
    elif fn == "stat":
        sent = await F.client_commands("stat", arg)
    elif fn == "rename":
        if verb == "RNFR":
            sent = await F.client_commands("rename", arg, "zz")
        else:
            sent = await F.client_commands("rename", "zz", arg)
    elif fn == "remove_file":
        sent = await F.client_commands("remove_file", arg)
    elif fn in ("upload_stream", "append_stream", "download_stream"):
        sent = await F.client_commands(fn, arg)
    else:
        return None
    for c in sent:
        if c is not None and (c.startswith(verb + " ") or c == verb or c == "CDUP"):
            if fn == "rename" and c in ("RNFR zz", "RNTO zz"):
                continue
            return c
    return None


def function_level(ctx, names, with_model=True, light=False):
    """names: list of (kind, name) ; arbitrary strings without '/' (valid or not)"""
    res = Result()
    sites = live_sites()
    F = nc.Func()
    lines = []
    expect = []
    import time as _time

    def add(line, want, what, inp):
        lines.append(line)
        expect.append((want, what, inp))

    def fail(inp, what, sig):
        res.oracle_failures.append({"input": inp, "what": what, "signature": sig})

    async def main():
        server, client = F.server, F.client
        for kind, n in names:
            res.cases += 1
            ok_name = nc.valid_name(n)
            res.count("kind=" + kind)
            res.count("valid=%d" % ok_name)
            if ok_name:
                res.count("class=" + nc.name_class(n))
                if nontrivial(n):
                    res.distinct.add(n)
            inp = {"name": n, "level": "function"}
            add("names valid " + enc_str(n), "1" if ok_name else "0", "ValidName", inp)
            if "\n" in n:
                # a line feed inside a name splits the control line; the codec models are per line
                res.count("skipped:contains-LF")
                continue
            # ---- commands: client construction -> server parse_command -> get_paths ----------------
            for fn, pre, st in sites:
                for as_path in (False, True):
                    if light and as_path and fn not in CONVERTING and fn != "list":
                        continue
                    if n == "" and fn == "list" and False:
                        continue
                    c = await _site_commands(F, fn, pre, n, as_path)
                    if c is None:
                        if ok_name:
                            fail(dict(inp, method=fn), "%s(%r) sent no %s command" % (fn, n, pre.strip()), "C08:cmd-missing")
                        continue
                    v, r = await F.parse_command((c + "\r\n").encode("utf-8"))
                    typed = as_path or fn in CONVERTING
                    if fn == "change_directory":
                        add("names cd " + enc_str(n), "%s %s %s" % (enc_str(c), enc_str(v), enc_str(r)), "change_directory/parse_command", dict(inp, method=fn))
                    else:
                        add(
                            "names cmd %s %d %d %s" % (enc_str(pre), st, typed, enc_str(n)),
                            "%s %s %s" % (enc_str(c), enc_str(v), enc_str(r)),
                            "%s/parse_command" % fn,
                            dict(inp, method=fn, as_path=as_path),
                        )
                    if ok_name:
                        cwd = "/x/y"
                        real, virt = F.get_paths(cwd, r)
                        want_v = pathlib.PurePosixPath(cwd) / n
                        if v != pre.strip().lower() or v not in server.commands_mapping:
                            fail(dict(inp, method=fn), "server reads verb %r from %r" % (v, c), "C08:cmd-verb")
                        elif r != n:
                            fail(dict(inp, method=fn), "server reads argument %r from %r" % (r, c), "C08:cmd-argument")
                        elif virt.parts != want_v.parts or real.parts != (pathlib.PurePosixPath("/srv") / "x" / "y" / n).parts:
                            fail(dict(inp, method=fn), "get_paths(%r) = %r" % (r, str(virt)), "C08:cmd-resolve")
            if n in ("", ".", ".."):
                continue
            # ---- PWD ---------------------------------------------------------------------------------
            for depth_prefix in (("",), ("x", "y")) if not light else (("",),):
                cwd = pathlib.PurePosixPath("/")
                for p in depth_prefix:
                    if p:
                        cwd = cwd / p
                cwd = cwd / n
                code, info = await F.pwd_reply(cwd)
                data = await F.reply_bytes(code, info)
                try:
                    rc, rinfo = await F.client_parse_response(data)
                    got = client.parse_directory_response(rinfo[-1])
                    add("names fmtpwd " + nc.canon_path(cwd), enc_str(rinfo[-1]), "Server.pwd/parse_line", inp)
                    add("names pwdrt " + nc.canon_path(cwd), nc.canon_path(got), "parse_directory_response", inp)
                    bad = got.parts != cwd.parts
                except Exception as e:  # noqa
                    got = "EXC " + type(e).__name__
                    bad = True
                if ok_name and bad:
                    sig = SIG_PWD_QUOTE if '"' in n else "C08:pwd"
                    fail(dict(inp, step="pwd"), "PWD for cwd %r is read back as %r" % (str(cwd), str(got)), sig)
            # ---- MLSD / MLST / LIST ----------------------------------------------------------------
            for typ, mtime, size in (("dir", 1_000_000_000, 0), ("file", int(_time.time()) - 5000, 7)) if not light else (("file", int(_time.time()) - 5000, 7),):
                pio, conn = F.mem_with(n, typ, mtime, size)
                path = pathlib.PurePosixPath("/") / n
                if path.name != n:
                    continue
                stats = await pio.stat(path)
                facts = dict(server._build_mlsx_facts_from_stats(stats))
                facts["Type"] = typ
                s = await server.build_mlsx_string(conn, path)
                add("names mlsxbuild %s %s" % (nc.canon_dict(facts), enc_str(n)), enc_str(s), "build_mlsx_string", inp)
                wire = (s + "\r\n").encode("utf-8")
                try:
                    p1, e1 = client.parse_mlsx_line(wire)
                except Exception as e:  # noqa
                    p1, e1 = "EXC", nc.exc_name(e)
                add("names mlsxbytes " + nc.hexb(wire), nc.canon_entry((p1, e1)), "parse_mlsx_line", inp)
                # MLST framing
                data = await F.reply_bytes("250", ["start", s, "end"], True)
                rc, rinfo = await F.client_parse_response(data)
                mid = rinfo[1].lstrip()
                add("names mlst " + enc_str(s), enc_str(mid), "MLST framing + lstrip", inp)
                try:
                    p2, e2 = client.parse_mlsx_line(mid)
                except Exception as e:  # noqa
                    p2, e2 = "EXC", nc.exc_name(e)
                add("names mlsxparse " + enc_str(mid), nc.canon_entry((p2, e2)), "parse_mlsx_line(str)", inp)
                want_entry = {k.lower(): str(v) for k, v in facts.items()}
                if ok_name:
                    for tag, p, e in (("mlsd", p1, e1), ("mlst", p2, e2)):
                        if p == "EXC":
                            fail(dict(inp, step=tag), "the %s line the server builds for %r is rejected by the client's parser (%s)" % (tag.upper(), n, e), "C08:mlsx-unparsable")
                        elif p.parts != (n,):
                            fail(dict(inp, step=tag), "%s line for %r is read back as name %r" % (tag.upper(), n, str(p)), "C08:mlsx-name")
                        elif e != want_entry:
                            fail(dict(inp, step=tag), "%s facts for %r read back as %r" % (tag.upper(), n, e), "C08:mlsx-facts")
                # LIST
                ls = await server.build_list_string(conn, path)
                mt = server.build_list_mtime(stats.st_mtime)
                add("names listbuild %d %d %d %s %s" % (stats.st_mode, stats.st_nlink, stats.st_size, enc_str(mt), enc_str(n)), enc_str(ls), "build_list_string", inp)
                if kind in ("quote_inner", "lead_space", "typefact", "astral") and len(res.samples) < 6 and typ == "file":
                    res.samples.append({"name": n, "MLSD line": s, "LIST line": ls, "PWD reply": '257 "%s"' % (pathlib.PurePosixPath("/") / n)})
                wire = (ls + "\r\n").encode("utf-8")
                F.rec.reset()
                try:
                    r3 = client.parse_list_line_unix(wire)
                except Exception as e:  # noqa
                    r3 = ("EXC", nc.exc_name(e))
                add("names listunix %s %s" % (nc.hexb(wire), enc_strs(F.rec.unix)), nc.canon_entry(r3), "parse_list_line_unix", inp)
                ud = list(F.rec.unix)
                F.rec.reset()
                try:
                    r4 = client.parse_list_line(wire)
                except Exception as e:  # noqa
                    r4 = ("EXC", nc.exc_name(e))
                add("names listchain %s %s %s" % (nc.hexb(wire), enc_strs(F.rec.unix), enc_strs(F.rec.win)), nc.canon_entry(r4), "parse_list_line", inp)
                if ok_name:
                    if r4[0] == "EXC":
                        fail(dict(inp, step="list"), "LIST line for %r is not parsable (%s)" % (n, r4[1]), SIG_LIST_LEADWS if n[0].isspace() else "C08:list-unparsable")
                    else:
                        p, e = r4
                        if p.parts != (n,):
                            fail(dict(inp, step="list"), "LIST line for %r is read back as name %r" % (n, str(p)), SIG_LIST_LEADWS if n[0].isspace() else "C08:list-name")
                        elif e.get("type") != typ or e.get("size") != str(stats.st_size):
                            fail(dict(inp, step="list"), "LIST line for %r read back as type %r size %r" % (n, e.get("type"), e.get("size")), "C08:list-facts")
            # ---- the same name in the LIST lines OTHER servers write: other column widths, numeric owners, the
            #      one-blank date of old entries, and symbolic links (`name -> target`), which aioftp's own server never
            #      lists.  The truth is the name (and target) the line was made of.
            if ok_name and not n[0].isspace():
                for fi, (head, date) in enumerate(FOREIGN_HEADS):
                    for tgt in (None, "t", "dir/", "/abs/a b", "x->y"):
                        if tgt is not None and fi not in (0, 3):
                            continue
                        mode = ("l" if tgt is not None else "-d"[fi % 2]) + "rwxr-xr-x"
                        fl = "%s%s %s %s" % (mode, head, date, n) + ("" if tgt is None else " -> " + tgt)
                        wire = (fl + "\r\n").encode("utf-8")
                        finp = dict(inp, step="foreign-list-line", line=fl)
                        F.rec.reset()
                        try:
                            r5 = client.parse_list_line(wire)
                        except Exception as e:  # noqa
                            r5 = ("EXC", nc.exc_name(e))
                        add("names listchain %s %s %s" % (nc.hexb(wire), enc_strs(F.rec.unix), enc_strs(F.rec.win)), nc.canon_entry(r5), "parse_list_line", finp)
                        res.count("foreign list line " + ("link" if tgt is not None else "plain"))
                        if r5[0] == "EXC":
                            fail(finp, "the LIST line %r of another server is not parsable (%s)" % (fl, r5[1]), "C08:foreign-list-unparsable")
                            continue
                        p, e = r5
                        want_type = ("dir" if tgt.endswith("/") else "file") if tgt is not None else ("file", "dir")[fi % 2]
                        if p.parts != (n,):
                            fail(finp, "the LIST line %r of another server is read back as name %r, not %r" % (fl, str(p), n), "C08:foreign-list-name")
                        elif e.get("type") != want_type or (tgt is not None and e.get("link_dst") != tgt):
                            fail(finp, "the LIST line %r of another server is read back as type %r, link target %r (want %r, %r)" % (
                                fl, e.get("type"), e.get("link_dst"), want_type, tgt), "C08:foreign-list-facts")

    try:
        asyncio.run(main())
    finally:
        F.close()
    if with_model and ctx.model_ok:
        outs = drive(lines, shards=8)
        res.lines += len(lines)
        for (want, what, inp), o, l in zip(expect, outs, lines):
            if what in ("parse_mlsx_line", "parse_mlsx_line(str)") and not nc.lower_modelled(inp["name"]) and False:
                continue
            if o != want:
                if len(res.disagreements) < 20:
                    res.disagreements.append({"correspondence": "Model vs " + what, "input": inp, "line": l[:300], "model": o[:400], "impl": want[:400]})
                else:
                    res.count("more_disagreements")
    return res


def exhaustive_names(L):
    for k in range(0, L + 1):
        for combo in itertools.product(nc.ALPHABET9, repeat=k):
            yield "exh%d" % k, "".join(combo)


def generated_names(ctx, count, invalid_share=0.1):
    rng = ctx.rng
    out = []
    for k in nc.KINDS:  # every class at least twice
        out.append(nc.gen_name(rng, k))
        out.append(nc.gen_name(rng, k))
    while len(out) < count:
        kind, n = nc.gen_name(rng)
        if rng.random() < invalid_share:
            n = n + rng.choice(nc.PY_WS + ["\r", "\n", "\r\n"])
            kind = kind + "+invalid-tail"
        out.append((kind, n))
    return out


# ------------------------------------------------------------------------------------------------
# wire level
# ------------------------------------------------------------------------------------------------
def tree_of(state):
    """MemoryPathIO state -> nested dict name -> (type, subtree | bytes)"""

    def go(nodes):
        d = {}
        for nd in nodes:
            if nd.type == "dir":
                d[nd.name] = ("dir", go(nd.content))
            else:
                d[nd.name] = ("file", bytes(nd.content.getbuffer()))
        return d

    return go(state[0].content)


def lookup(tree, parts):
    cur = ("dir", tree)
    for p in parts:
        if cur[0] != "dir" or p not in cur[1]:
            return None
        cur = cur[1][p]
    return cur


async def wire_scenario(client, server, comps, other, fallback):
    """one name path (components `comps`, all valid names) through every path-taking method.
    Yields (step, what) for every deviation from name identity."""
    import aioftp

    bad = []
    state = lambda: tree_of(server.path_io_factory.state)  # noqa
    rel = pathlib.PurePosixPath(*comps)
    parent = rel.parent
    n = comps[-1]
    data = ("payload of " + n).encode("utf-8")

    async def step(name, coro_fn):
        try:
            return True, await asyncio.wait_for(coro_fn(), 5)
        except (aioftp.StatusCodeError, ValueError, KeyError, IndexError, asyncio.TimeoutError, ConnectionError, OSError) as e:
            bad.append((name, "%s raised %s: %s" % (name, type(e).__name__, str(e)[:120])))
            return False, None

    # 1 make_directory (parents)
    ok, _ = await step("make_directory", lambda: client.make_directory(rel))
    got = lookup(state(), comps)
    if ok and (got is None or got[0] != "dir"):
        bad.append(("make_directory", "backend has no directory at %r; tree=%r" % (comps, list(state()))))
    if got is None:
        # make the rest of the scenario meaningful anyway
        await server_side_mkdir(server, comps)
    # 2 change_directory + get_current_directory, and back up with CDUP
    ok, _ = await step("change_directory", lambda: client.change_directory(rel))
    if ok:
        ok2, cwd = await step("get_current_directory", client.get_current_directory)
        want = pathlib.PurePosixPath("/", *comps)
        if ok2 and cwd.parts != want.parts:
            bad.append(("pwd", "get_current_directory() = %r after change_directory(%r)" % (str(cwd), str(rel))))
        ok3, _ = await step("cdup", lambda: client.change_directory())
        if ok3:
            ok4, cwd = await step("get_current_directory", client.get_current_directory)
            if ok4 and len(comps) > 1 and '"' not in "".join(comps[:-1]) and cwd.parts != want.parent.parts:
                bad.append(("cdup", "after CDUP cwd = %r, expected %r" % (str(cwd), str(want.parent))))
    await step("change_directory", lambda: client.change_directory("/"))
    # 3 list parent
    ok, ls = await step("list", lambda: client.list(parent))
    if ok:
        names = sorted(p.name for p, _ in ls)
        truth = sorted(lookup(state(), comps[:-1])[1].keys())
        if names != truth or any(p.parts != tuple(comps[:-1]) + (p.name,) for p, _ in ls):
            bad.append(("list", "list(%r) = %r, backend has %r" % (str(parent), [str(p) for p, _ in ls], truth)))
        for p, info in ls:
            if p.name == n and info.get("type") != "dir":
                bad.append(("list", "list: %r has type %r" % (n, info.get("type"))))
    # 3b the same listing asked for in the LIST flavour explicitly (whatever the server offers)
    ok, ls = await step("list", lambda: client.list(parent, raw_command="LIST"))
    if ok and not any(c[0].isspace() for c in comps):
        names = sorted(p.name for p, _ in ls)
        truth = sorted(lookup(state(), comps[:-1])[1].keys())
        if names != truth:
            bad.append(("list", "list(%r, raw_command='LIST') = %r, backend has %r" % (str(parent), [str(p) for p, _ in ls], truth)))
    ok, ls = await step("list", lambda: client.list(rel, raw_command="LIST"))
    if ok and ls:
        bad.append(("list", "list(%r, raw_command='LIST') of the empty directory = %r" % (str(rel), [str(p) for p, _ in ls])))
    # 4 stat
    ok, st = await step("stat", lambda: client.stat(rel))
    if ok and st.get("type") != "dir":
        bad.append(("stat", "stat(%r) type %r" % (str(rel), st.get("type"))))
    # 4b names that differ only in case (or are equal under Unicode case folding) are DIFFERENT names: a file beside the
    #    directory, spelled in another case, is stat'ed as itself, the directory as itself, and a third spelling that
    #    was never created does not exist - on the MLST server and through the LIST fallback
    def usable(v):
        try:
            v.encode(client.encoding)
        except UnicodeEncodeError:
            return False
        return bool(v) and v != n and v == v.rstrip() and v not in (".", "..") and v != other

    variants = []
    for v in (n.swapcase(), n.upper(), n.lower(), n.casefold(), n.title()):
        if usable(v) and v not in variants:
            variants.append(v)
    if variants and lookup(state(), comps) is not None:
        v = variants[0]
        vdata = b"case variant " + v.encode("utf-8")

        async def upv():
            async with client.upload_stream(parent / v) as st_:
                await st_.write(vdata)

        ok, _ = await step("upload_stream", upv)
        if ok and lookup(state(), comps[:-1] + [v]) is not None:
            ok, st = await step("stat", lambda: client.stat(parent / v))
            if ok and (st.get("type") != "file" or str(st.get("size")) != str(len(vdata))):
                bad.append(("stat", "stat(%r) with the directory %r beside it = %r: another entry's facts" % (v, n, {k: st.get(k) for k in ("type", "size")})))
            ok, st = await step("stat", lambda: client.stat(rel))
            if ok and st.get("type") != "dir":
                bad.append(("stat", "stat(%r) with the file %r beside it has type %r" % (n, v, st.get("type"))))
            for w in variants[1:2]:
                try:
                    ex = await asyncio.wait_for(client.exists(parent / w), 5)
                except Exception as e:  # noqa
                    ex = "raised %s" % type(e).__name__
                if ex is not False:
                    bad.append(("stat", "exists(%r) = %r: nothing of that name was created (%r and %r were)" % (w, ex, n, v)))
            await step("remove_file", lambda: client.remove_file(parent / v))
    # 5 upload_stream: file with the same name inside the directory
    fpath = rel / n

    async def up():
        async with client.upload_stream(fpath) as s:
            await s.write(data)

    ok, _ = await step("upload_stream", up)
    got = lookup(state(), comps + [n])
    if ok and (got is None or got[0] != "file" or got[1] != data):
        bad.append(("upload_stream", "backend file %r missing or wrong content" % (comps + [n],)))
    # 6 download_stream

    async def down():
        async with client.download_stream(fpath) as s:
            return await s.read()

    ok, d = await step("download_stream", down)
    if ok and d != data:
        bad.append(("download_stream", "downloaded %r" % d[:40]))
    # 7 rename to the other generated name
    tpath = rel / other
    ok, _ = await step("rename", lambda: client.rename(fpath, tpath))
    t = lookup(state(), comps)
    if ok and (t is None or sorted(t[1].keys()) != [other]):
        bad.append(("rename", "after rename(%r -> %r) directory holds %r" % (n, other, sorted(t[1].keys()) if t else None)))
    # 8 list the directory: the renamed file with its size
    ok, ls = await step("list", lambda: client.list(rel))
    if ok:
        t = lookup(state(), comps)
        truth = sorted(t[1].keys()) if t else []
        names = sorted(p.name for p, _ in ls)
        if names != truth:
            bad.append(("list", "list(%r) = %r, backend has %r" % (str(rel), names, truth)))
        for p, info in ls:
            if p.name == other and (info.get("type") != "file" or str(info.get("size")) != str(len(data))):
                bad.append(("list", "list: %r type %r size %r" % (other, info.get("type"), info.get("size"))))
    ok, st = await step("stat", lambda: client.stat(tpath))
    if ok and (st.get("type") != "file" or str(st.get("size")) != str(len(data))):
        bad.append(("stat", "stat(file) = %r" % ({k: st.get(k) for k in ("type", "size")},)))
    # 9 remove
    ok, _ = await step("remove_file", lambda: client.remove_file(tpath))
    t = lookup(state(), comps)
    if ok and (t is None or t[1]):
        bad.append(("remove_file", "directory not empty after remove_file: %r" % (sorted(t[1]) if t else None)))
    ok, _ = await step("remove_directory", lambda: client.remove_directory(rel))
    if ok and lookup(state(), comps) is not None:
        bad.append(("remove_directory", "directory still present"))
    return bad


async def server_side_mkdir(server, comps):
    import aioftp

    pio = aioftp.MemoryPathIO(state=server.path_io_factory.state)
    await pio.mkdir(pathlib.PurePosixPath("/", *comps), parents=True, exist_ok=True)


def classify(step, comps, other, fallback):
    names = list(comps) + [other]
    if step in ("pwd", "cdup") and any('"' in c for c in comps):
        return SIG_PWD_QUOTE
    if fallback and step in ("list", "stat", "make_directory", "upload_stream", "rename", "remove_file", "remove_directory", "download_stream") and any(c[0].isspace() for c in names):
        # without MLST, exists()/stat()/list() all go through the LIST parser
        if step in ("list", "stat", "make_directory"):
            return SIG_LIST_LEADWS
    return "C08:wire-" + step


def wire_level(ctx, paths):
    """paths: list of (kind, comps, other)"""
    import logging

    import aioftp

    res = Result()
    for lg in ("aioftp.server", "aioftp.client", "aioftp", "asyncio"):
        logging.getLogger(lg).setLevel(logging.CRITICAL + 1)

    def encodable(enc, comps, other):
        try:
            for c in list(comps) + [other]:
                c.encode(enc)
            return True
        except UnicodeEncodeError:
            return False

    async def main():
        # both listing flavours, and both again for a server/client pair built with another `encoding`
        for fallback, enc in ((False, "utf-8"), (True, "utf-8"), (False, "latin-1"), (True, "latin-1"), (False, "cp1251")):
            server = aioftp.Server(path_io_factory=aioftp.MemoryPathIO, encoding=enc)
            if fallback:
                del server.commands_mapping["mlsd"]
                del server.commands_mapping["mlst"]
            await server.start(host="127.0.0.1")
            port = server.server.sockets[0].getsockname()[1]
            client = None
            try:
                todo = paths if enc == "utf-8" else [p for p in ENCODING_PATHS + paths if encodable(enc, p[1], p[2])][: max(40, len(paths) // 6)]
                for kind, comps, other in todo:
                    if client is None:
                        client = aioftp.Client(socket_timeout=5, encoding=enc)
                        await client.connect("127.0.0.1", port)
                        # an impatient caller asks for a listing before logging in (refused) and carries on: what the
                        # client does afterwards is what it does for a caller that logged in first
                        for early in (lambda: client.list("/"), lambda: client.stat("/"), lambda: client.get_current_directory()):
                            try:
                                await asyncio.wait_for(early(), 5)
                            except (aioftp.StatusCodeError, asyncio.TimeoutError, ValueError):
                                pass
                        await client.login()
                    if server.path_io_factory.state is not None:
                        server.path_io_factory.state[0].content.clear()
                    res.cases += 1
                    res.count("wire:%s:depth=%d" % ("LIST" if fallback else "MLSx", len(comps)))
                    res.count("wire:encoding=" + enc)
                    res.count("wire:kind=" + kind)
                    for c in comps:
                        if nontrivial(c):
                            res.distinct.add(c)
                    try:
                        bad = await wire_scenario(client, server, list(comps), other, fallback)
                    except Exception as e:  # noqa
                        bad = [("scenario", "scenario aborted: %s %s" % (type(e).__name__, str(e)[:200]))]
                        try:
                            client.close()
                        except Exception:  # noqa
                            pass
                        client = None
                    if len(res.samples) < 3 and len(comps) > 1:
                        res.samples.append({"wire components": list(comps), "rename_to": other, "LIST fallback": fallback, "deviations": [w for _, w in bad][:3]})
                    seen = set()
                    for step, what in bad:
                        sig = classify(step, comps, other, fallback)
                        if (step, sig) in seen:
                            continue
                        seen.add((step, sig))
                        res.oracle_failures.append(
                            {"input": {"level": "wire", "components": list(comps), "rename_to": other, "fallback_LIST": fallback, "encoding": enc, "step": step}, "what": what, "signature": sig}
                        )
                    if bad and client is not None:
                        # a failed step may leave the control connection out of step; start afresh
                        try:
                            await asyncio.wait_for(client.quit(), 2)
                        except Exception:  # noqa
                            try:
                                client.close()
                            except Exception:  # noqa
                                pass
                        client = None
            finally:
                if client is not None:
                    try:
                        await asyncio.wait_for(client.quit(), 2)
                    except Exception:  # noqa
                        client.close()
                await server.close()

    asyncio.run(main())
    return res


ENCODING_PATHS = [("nonascii", ("café über",), "naïve"), ("nonascii", ("é", "ü ß"), "ÿ"), ("nonascii", ("Привет мир",), "файл"), ("plain", ("plain",), "other")]
CASE_PATHS = [("case", ("README",), "x"), ("case", ("straße",), "y"), ("case", ("Dir", "ǅx"), "z"), ("case", ("ſ",), "w"), ("case", ("a b", "Mixed Case.TXT"), "q"),
              ("case", ("İi",), "v"), ("case", ("ΑΣ",), "u")]
DASH_PATHS = [("dash", ("-la",), "-1"), ("dash", ("-a",), "x"), ("dash", ("-R old",), "-l"), ("dash", ("-la", "-x"), "y"), ("dash", ("-",), "--"), ("dash", ("-1",), "-la")]


def gen_paths(ctx, count):
    rng = ctx.rng
    out = list(DASH_PATHS) + list(ENCODING_PATHS) + list(CASE_PATHS)
    for k in nc.KINDS:
        kind, n = nc.gen_name(rng, k)
        _, other = nc.gen_name(rng, k)
        if other == n:
            other = n + "2"
        out.append((kind, (n,), other))
    while len(out) < count:
        depth = rng.choice([1, 1, 2, 3])
        comps = []
        kinds = []
        for _ in range(depth):
            k, n = nc.gen_name(rng)
            if len(n) > 80:
                n = nc.fix_valid(n[:80])
            comps.append(n)
            kinds.append(k)
        _, other = nc.gen_name(rng)
        if len(other) > 80:
            other = nc.fix_valid(other[:80])
        if other == comps[-1]:
            other = other + "2"
        out.append((kinds[-1], tuple(comps), other))
    return out


# ------------------------------------------------------------------------------------------------
# entry points
# ------------------------------------------------------------------------------------------------
def correspondence(ctx):
    res = Result()
    L = ctx.pick(3, 4)
    names = list(exhaustive_names(L))
    if not ctx.thorough():
        # length 4: a seeded sample of the 6561 strings
        allfour = ["".join(c) for c in itertools.product(nc.ALPHABET9, repeat=4)]
        names += [("exh4-sample", s) for s in ctx.rng.sample(allfour, 600)]
    res.merge(function_level(ctx, generated_names(ctx, ctx.pick(500, 6000))))
    res.merge(function_level(ctx, names, light=True))
    w = wire_level(ctx, gen_paths(ctx, ctx.pick(70, 1200)))
    res.merge(w)
    res.exhaustive = False
    res.notes.append("function level exhaustive over all strings of length <= %d on %r" % (L, nc.ALPHABET9))
    return res


def search(ctx, prior):
    """wider oracle-only stream (no model)"""
    res = Result()
    names = list(exhaustive_names(3)) + generated_names(ctx, ctx.pick(3000, 20000), invalid_share=0.0)
    res.merge(function_level(ctx, names, with_model=False))
    res.merge(wire_level(ctx, gen_paths(ctx, ctx.pick(150, 1500))))
    return res


def replay(ctx, doc):
    f = doc["failure"]
    i = f["input"]
    if i.get("level") == "wire":
        r = wire_level(ctx, [("replay", tuple(i["components"]), i["rename_to"])])
    else:
        r = function_level(ctx, [("replay", i["name"])], with_model=False)
    for x in r.oracle_failures:
        print("implementation:", x["what"])
    return any(x["signature"] == f.get("signature") for x in r.oracle_failures)


def probe_known(ctx, finding):
    rp = finding.get("replay") or {}
    doc = {"failure": {"input": rp, "signature": finding.get("signature")}}
    try:
        return replay(ctx, doc)
    except Exception:  # noqa
        return False


# the long-lived process: the same probe session after earlier sessions of the same server (props/history.py)
from props import history as _history  # noqa: E402

correspondence, search, replay = _history.attach(PID, correspondence, search, replay, pasts=['renamed-the-ancestor-of-a-directory-it-had-entered', 'commands-before-login', 'ended-inside-a-multi-byte-character'])


# somebody else's classes: the documented extension points used the way a third party uses them (props/thirdparty.py)
from props import thirdparty as _thirdparty  # noqa: E402

correspondence, search, replay = _thirdparty.attach(PID, correspondence, search, replay)


# somebody else's machine: the same small sessions in other environments, in child processes (props/envs.py)
from props import envs as _envs  # noqa: E402

correspondence, search, replay = _envs.attach(PID, correspondence, search, replay)
