"""C19  malformed input from the peer is contained.

Client half: `c19_parsers` (listing / passive-reply parsers, model predicts result or exception class).
Server half: `c19_server` (arbitrary control bytes: contained, bystander undisturbed, slot released).
"""
from framework import Result

from . import c19_parsers

PID = "C19"
RULE = (
    "client-parser half: inputs = byte strings for the listing-line parsers (valid unix / windows / MLSx lines, "
    "names from the C08 generator inside valid lines, 1-3 grammar-aware string mutations, byte-level mutations incl. "
    "invalid UTF-8, raw garbage) and text for parse_pasv_response / parse_epsv_response / parse_directory_response "
    "(valid replies, mutations, garbage, 4300/4301-digit numbers); every input goes to every parser and through "
    "Client.list over a fake data stream; distinct = distinct (parser, outcome class, input family) triples plus distinct accepted lines"
)
EXPLANATION = (
    "Theorems in Properties/C19.lean (client-parser section) hold for every byte string; this run checks that the "
    "model predicts the result or the exception class of the real parsers on every generated input, and evaluates "
    "the containment oracle (ValueError-or-result for parse_list_line and Client.list, ordinary exceptions for the rest)."
)
ASSUMPTIONS = [
    "exception classes of CPython primitives as transcribed in Py/StrErr.lean, Py/Utf8.lean (sampled here on every input)",
    "parse_ls_date / strptime raise only ValueError (slice C07); their answers are recorded from the real code",
    "Client(parse_list_line_custom=None, encoding='utf-8'), i.e. the defaults",
    "non-ASCII case mapping of MLSx fact keys is not modelled (lines with such keys are compared on the path only)",
]
GENERATED_OBLIGATIONS = ["Client.listChainCaught", "Client.listChainParsers", "Client.listTypeLookupRaises (how Client.list reads the type fact)", "Server.replyWriterFinishesInFinally / replyWriterDrainsOnFailure / replySkipsDeadWriter (response_writer and connection.response: join_cannot_hang)"]
TRUSTED_EXTRA = ["translator harness/extract_client.py (exception tuple and parser order of parse_list_line)"]


def correspondence(ctx):
    from . import c19_server

    res = Result()
    res.merge(c19_parsers.correspondence_parsers(ctx))
    res.merge(c19_server.run(ctx))
    return res


def search(ctx, prior):
    from . import c19_server

    res = Result()
    res.merge(c19_parsers.search_parsers(ctx))
    res.merge(c19_server.run(ctx, compare=False))
    return res


def replay(ctx, doc):
    if doc["failure"]["input"].get("family") == "overlong-line":
        r = Result()
        c19_parsers.overlong_cases(ctx, r)
        want = doc["failure"]["input"]
        hit = [f for f in r.oracle_failures if all(f["input"].get(k) == want.get(k) for k in ("kind", "position", "length"))]
        for f in hit:
            print("implementation:", f["what"])
        return bool(hit)
    if doc["failure"]["input"].get("family") == "custom-names":
        r = Result()
        c19_parsers.custom_names_cases(ctx, r)
        for f in r.oracle_failures:
            print("implementation:", f["what"])
        return bool(r.oracle_failures)
    if doc["failure"]["input"].get("family") == "custom-parser":
        r = Result()
        c19_parsers.custom_parser_cases(ctx, r)
        hit = [f for f in r.oracle_failures if f["input"] == doc["failure"]["input"]]
        for f in hit:
            print("implementation:", f["what"])
        return bool(hit)
    if doc["failure"]["input"].get("family") == "stat-fallback":
        r = Result()
        c19_parsers.stat_fallback_cases(ctx, r)
        want = doc["failure"]["input"]
        hit = [f for f in r.oracle_failures if f["input"] == want]
        for f in hit:
            print("implementation:", f["what"])
        return bool(hit)
    if doc["failure"]["input"].get("kind") == "control-bytes":
        from . import c19_server

        return c19_server.replay(doc["failure"]["input"])
    return c19_parsers.replay_parsers(ctx, doc)


def probe_known(ctx, finding):
    rp = finding.get("replay") or {}
    doc = {"failure": {"input": rp, "signature": finding.get("signature")}}
    try:
        return replay(ctx, doc)
    except Exception:  # noqa
        return False


# the long-lived process: the same probe session after earlier sessions of the same server (props/history.py)
from props import history as _history  # noqa: E402

correspondence, search, replay = _history.attach(PID, correspondence, search, replay, pasts=['ended-inside-a-multi-byte-character', 'listing-failed-half-way', 'commands-before-login'])


# somebody else's machine: the same small sessions in other environments, in child processes (props/envs.py)
from props import envs as _envs  # noqa: E402

correspondence, search, replay = _envs.attach(PID, correspondence, search, replay)
