"""C14  ABOR at any moment stops the transfer, is answered, and keeps the session usable.

For RETR, STOR, APPE, LIST and MLSD, with the data connection made early / late / never and file sizes
around block multiples, ABOR is injected at EVERY loop iteration of the scripted transfer.  Observed: the
replies that follow, the bytes delivered or stored (must be a prefix), the server-side data socket, and
follow-up commands (PWD, a second full transfer, QUIT).  The Lean model (Model/Abort.lean, a decision over
the regenerated decorator order of the nested workers) predicts replies and survival from the worker's
position, which the harness reads off the real connection at injection time.
"""
import asyncio
import multiprocessing
import os

import scenario as SC
import seqrun as S
import simnet
import world as W
from framework import Result, drive
from scenario import Scenario

PID = "C14"
RULE = (
    "case = (transfer kind in RETR/STOR/APPE/LIST/MLSD, size in {0,1,63,64,65,200,768} at block size 64, data "
    "connection early/late/never, loop iteration k at which ABOR is sent) for every k of the scripted transfer, "
    "including before the transfer command and after its completion reply; followed by PWD, a complete second "
    "transfer and QUIT; non-trivial = a worker existed when ABOR arrived; distinct = distinct (script, k)"
)
EXPLANATION = (
    "Properties/C14.lean decides, over the decorator order regenerated from the source, what ABOR yields at each "
    "worker position (426+226 / 226; negative witness F3 at 'waiting for the data connection'); this run injects ABOR "
    "at every loop iteration of every transfer script and compares replies/survival with the model."
)
GENERATED_OBLIGATIONS = ["Server.dispatcherOneCommandAtATime (handlers of pipelined lines start in order, one at a time)"]
ASSUMPTIONS = ["one transfer at a time per session", "in-memory network; block size 64"]

BS = 64


def content(n):
    return bytes((i * 7 + 3) % 256 for i in range(n))


def make_script(verb, size, timing, env="plain"):
    async def script(ctl):
        install_abor_probe(ctl)
        c = await ctl.client()
        await ctl.login(c)
        await ctl.cmd(c, "EPSV")
        ctl.notes["phase"] = "before"
        if timing == "early":
            await ctl.data(c)
            if env == "unread" and c.data is not None:
                sp = c.data[1].transport.peer
                sp.hold = True
                sp.HIGH = 256
                ctl.notes["unread"] = True
        line = {"RETR": "RETR big.bin", "STOR": "STOR up.bin", "APPE": "APPE f.txt", "LIST": "LIST", "MLSD": "MLSD d"}[verb]
        if env == "rest-pending":
            await ctl.cmd(c, "REST 3")  # the transfer about to be aborted was to start at an offset
        ctl.notes["phase"] = "sending"
        await ctl.send(c, line)
        ctl.notes["phase"] = "sent"
        if timing == "never":
            await asyncio.sleep(2)
            await ctl.loop.settle()
            ctl.notes["phase"] = "done"
            return
        if timing == "late":
            await ctl.data(c)
        if c.data is None:
            return
        dr, dw = c.data
        if env == "unread":
            await asyncio.sleep(3)
            await ctl.loop.settle()
            ctl.notes["phase"] = "done"
            return
        if verb in ("STOR", "APPE"):
            data = content(size)
            for i in range(0, len(data), 50):
                dw.write(data[i : i + 50])
                ctl.notes["sent_bytes"] = i + len(data[i : i + 50])
                await ctl.loop.settle()
            dw.close()
            await ctl.loop.settle()
        else:
            got = b""
            while True:
                chunk = await dr.read(100)
                if not chunk:
                    break
                got += chunk
                ctl.notes["got"] = got
            dw.close()
            await ctl.loop.settle()
        c.data = None
        ctl.notes["phase"] = "done"

    return script


def install_abor_probe(ctl):
    """wrap the bound handler in this server instance's mapping: record where the worker is at the moment
    the server PROCESSES the ABOR (not when the client sent it); behaviour is unchanged"""
    wd = ctl.wd
    orig = wd.server.commands_mapping["abor"]

    async def probed(connection, rest):
        pos = "none"
        live = [t for t in connection.extra_workers if not t.done()]
        if connection.extra_workers and not live:
            pos = "unreaped"
        if live:
            ok2, ps = wd._get(connection, "passive_server")
            port = ps.port if ok2 else None
            have_data = any(t.name.startswith("s") and getattr(t, "port", None) == port for t in wd.net.all_transports)
            pos = "body" if have_data else "wait"
        ctl.notes["abor_pos"] = pos
        ctl.notes["abor_inside_backend"] = wd.spy.current
        ctl.notes["abor_logged"] = wd._get(connection, "logged")[0]
        return await orig(connection, rest)

    wd.server.commands_mapping["abor"] = probed


def corpus(thorough=False):
    """(verb, size, data-connection timing, environment)"""
    out = []
    sizes = [0, 1, 63, 64, 65, 200, 768] if thorough else [0, 1, 64, 65, 200]
    for verb in ("RETR", "STOR", "APPE"):
        for size in sizes:
            for timing in ("early", "late"):
                out.append((verb, size, timing, "plain"))
        out.append((verb, 200, "never", "plain"))
        # speed limit active (the worker sleeps in the throttle), slow backend (every backend call suspends)
        out.append((verb, 200, "early", "throttled"))
        out.append((verb, 200, "early", "slow-backend"))
        out.append((verb, 65, "late", "slow-backend"))
    # a restart offset was pending for the transfer that gets aborted: nothing of it may reach the NEXT transfer
    # (the data connection is never made: the worker is cancelled while it waits, before it could take the offset)
    for verb in ("RETR", "STOR", "APPE"):
        out.append((verb, 200, "never", "rest-pending"))
    # a server told to wait for the data connection as long as it takes (wait_future_timeout=None): the worker waits
    # until the ABOR; the session goes on with a new listener
    for verb in ("RETR", "STOR", "LIST", "MLSD"):
        out.append((verb, 200 if verb in ("RETR", "STOR") else 0, "never", "no-wait-limit"))
        out.append((verb, 200 if verb in ("RETR", "STOR") else 0, "late", "no-wait-limit"))
    # a backend whose calls run in an executor and take their time: the ABOR finds the worker inside such a call
    for verb in ("RETR", "STOR"):
        out.append((verb, 200, "early", "slow-disk"))
    out.append(("LIST", 0, "early", "slow-disk"))
    # the peer made the data connection but never reads from it: ABOR must be answered without it draining
    out.append(("RETR", 4096, "early", "unread"))
    for verb in ("LIST", "MLSD"):
        for timing in ("early", "late", "never"):
            out.append((verb, 0, timing, "plain"))
        out.append((verb, 0, "early", "slow-backend"))
        out.append((verb, 0, "early", "throttled"))
    return out


def scenario_of(spec):
    verb, size, timing, env = spec
    tree = S.TREE + [(("big.bin",), content(size))]
    kw = {"block_size": BS}
    spy_setup = None
    if env == "throttled":
        kw.update({"write_speed_limit": 10 * BS, "read_speed_limit": 10 * BS})
    if env == "no-wait-limit":
        kw["wait_future_timeout"] = None
    if env == "slow-backend":
        def spy_setup(spy, loop):
            spy.delay = 0.01
    if env == "slow-disk":
        def world_setup(wd):
            wd.vexec.delay = 0.05

        return Scenario("%s-%d-%s-%s" % spec, make_script(verb, size, timing, env), tree=tree, server_kwargs=kw, backend="vasync", world_setup=world_setup)
    return Scenario("%s-%d-%s-%s" % spec, make_script(verb, size, timing, env), tree=tree, server_kwargs=kw, spy_setup=spy_setup)


def inject_abor(ctl, script_task, state):
    wd = ctl.wd
    if not ctl.clients:
        return {"kind": "abor", "skipped": True}
    c = ctl.clients[0]
    conn = wd.connection_of(c)
    pos = "none"
    if conn is not None:
        ok, workers = wd._get(conn, "extra_workers")
        logged = wd._get(conn, "logged")[0]
        live = [t for t in (workers or []) if not t.done()]
        if live:
            # waiting for the data connection <=> no server-side data socket exists for this session's listener
            ok2, ps = wd._get(conn, "passive_server")
            port = ps.port if ok2 else None
            have_data = any(t.name.startswith("s") and getattr(t, "port", None) == port for t in wd.net.all_transports)
            pos = "body" if have_data else "wait"
        state["logged"] = logged
    state["pos"] = pos
    state["n_replies"] = len(c.replies)
    state["phase"] = ctl.notes.get("phase")
    c.send_raw(b"ABOR\r\n")
    return {"kind": "abor"}


async def after_abor(ctl, state, res):
    wd = ctl.wd
    loop = ctl.loop
    if not ctl.clients:
        res["skipped"] = True
        return
    c = ctl.clients[0]
    await loop.settle()
    if ctl.notes.get("unread"):
        # the peer does not read the data connection: the answer to ABOR must not depend on it draining
        await asyncio.sleep(2.5)
        await loop.settle()
        res["after_abor_undrained"] = [int(x) if x.isdigit() else -1 for x, _ in c.replies[state.get("n_replies", 0) :]]
        if c.data is not None:
            c.data[1].transport.peer.release()
            await loop.settle()
    # ABOR with nothing to abort, sent while a data connection the client has made is waiting for its transfer:
    # that connection is not the ABOR's business - the follow-up transfer below uses it as it is
    idle_data = state.get("phase") == "before" and state.get("pos") == "none" and c.data is not None and not ctl.notes.get("unread")
    res["follow_uses_idle_data_connection"] = bool(idle_data)
    # drain / close our side of the data connection
    got_tail = b""
    if c.data is not None and not idle_data:
        dr, dw = c.data
        try:
            got_tail = await asyncio.wait_for(dr.read(), 5)
        except Exception:
            pass
        res["data_eof"] = dr.at_eof()
        sp = dw.transport.peer
        # the ABOR may still be waiting for the handler of the command before it (commands are handled one at a time):
        # look at the data connection when the ABOR has been answered
        waited = 0.0
        while waited < 5.0 and not any(x == "226" for x, _ in c.replies[state.get("n_replies", 0) :]) and not c.eof:
            await asyncio.sleep(0.05)
            waited += 0.05
            await loop.settle()
        res["server_data_closed"] = bool(sp.closing or sp.closed)
        dw.close()
        c.data = None
        await loop.settle()
    res["got"] = (ctl.notes.get("got") or b"") + got_tail
    await asyncio.sleep(2.5)  # lets a worker that waits for the data connection run into its 425
    await loop.settle()
    res["after_abor"] = [int(x) if x.isdigit() else -1 for x, _ in c.replies[state.get("n_replies", 0) :]]
    res["pos"] = ctl.notes.get("abor_pos")
    res["inside"] = ctl.notes.get("abor_inside_backend")
    res["phase"] = state.get("phase")
    res["logged"] = ctl.notes.get("abor_logged") and state.get("phase") is not None
    res["alive"] = wd.connection_of(c) is not None and not c.eof
    res["stored"] = wd.tree()
    if res["alive"]:
        c1 = c2 = c3 = None
        out2 = None
        try:
            c1, _, _, _ = await W.run_line(wd, c, b"PWD")
            # every other position: the next transfer reuses the session's passive listener (a new data connection
            # to the same port, no new EPSV) - legal, and what a client that keeps its PASV port does
            conn_ = wd.connection_of(c)
            # (only when the aborted worker had TAKEN the data connection: a connection the client opened and never
            # used is still parked at the server, and the harness has closed its end of it)
            reuse = bool(res.get("k", 0) % 2) and wd._get(conn_, "passive_server")[0] and res.get("pos") == "body"
            res["follow_reuses_listener"] = bool(reuse)
            if idle_data:
                pass
            elif not reuse:
                ce, _, _, _ = await W.run_line(wd, c, b"EPSV")
                if ce != [229]:
                    raise ConnectionError("EPSV after ABOR answered %r" % (ce,))
            if not idle_data:
                await W.data_connect(wd, c)
            c2, _, out2, _ = await W.run_line(wd, c, b"RETR /d/g.txt")
            c3, _, _, _ = await W.run_line(wd, c, b"QUIT")
        except (ConnectionError, OSError, asyncio.TimeoutError) as e:
            # the session looked alive but does not work any more: that IS the outcome to judge
            res["follow_error"] = "%s: %s" % (type(e).__name__, e)
        res["follow"] = (c1, c2, out2, c3)


def _job(args):
    idx, ks, thorough = args
    spec = corpus(thorough)[idx]
    sc = scenario_of(spec)
    out = []
    for k in ks:
        try:
            r = SC.run_scenario(sc, k, inject_abor, after_abor)
            out.append((k, {kk: r.get(kk) for kk in ("inside", "after_abor_undrained", "after_abor", "pos", "phase", "alive", "follow", "got", "stored", "server_data_closed", "skipped", "logged", "transcript", "notes", "follow_error", "follow_uses_idle_data_connection")}))
        except BaseException as e:  # noqa
            out.append((k, "HARNESS-ERROR %s: %s" % (type(e).__name__, e)))
    return idx, out


def stored_bytes(tree_tok, name):
    import framework

    for item in tree_tok.split(";"):
        if "=" in item:
            p, v = item.split("=", 1)
            if p == framework.enc_str(name) and v.startswith("F"):
                return framework.dec_bytes(v[1:])
    return None


def oracle(spec, k, r):
    verb, size, timing, env = spec
    inp = {"transfer": verb, "size": size, "data_connection": timing, "environment": env, "abor_at_iteration": k}
    if r.get("skipped") or not r.get("logged"):
        return None  # ABOR before login is a 503 matter (C03)
    aa = r["after_abor"]
    # replies that belong to the transfer itself may still arrive after ABOR was sent (150, completion, 425)
    rest = [c for c in aa if c not in (150, 350)]  # (350: the answer to a REST the script sent just before)
    pos = r["pos"]
    if not r["alive"]:
        return {"input": inp, "what": "ABOR (worker position %s) got replies %r and the server dropped the session" % (pos, aa), "signature": "C14:session-dropped:abor-while-worker-%s" % pos}
    if pos == "unreaped" and rest in ([226], [200], [451], [425], []):
        return {"input": inp, "what": "ABOR processed after the worker finished but before the dispatcher reaped it got no reply of its own (replies after ABOR: %r)" % aa, "signature": "C14:abor-unanswered:worker-finished-not-yet-reaped"}
    if pos == "none" and len(aa) >= 2 and aa[0] == 226 and 150 in aa[1:]:
        return {"input": inp, "what": "ABOR sent after %s was answered '226 nothing to abort' BEFORE the transfer's 150: the command's guards were still waiting for the backend, the transfer then started and ran (replies after ABOR: %r)" % (verb, aa), "signature": "C14:abor-overtakes-transfer-command-still-in-guards"}
    und = r.get("after_abor_undrained")
    if und is not None and pos == "body" and [c for c in und if c != 150] != [426, 226]:
        return {"input": inp, "what": "the peer was not reading the data connection: ABOR got %r before it drained (want 426, 226)" % und, "signature": "C14:abor-waits-for-data-peer:%s" % verb.lower()}
    ok_shapes = ([226], [426, 226], [226, 226], [200, 226], [425, 226], [451, 226])
    if rest not in [list(x) for x in ok_shapes]:
        return {"input": inp, "what": "ABOR (worker position %s, phase %s) was followed by replies %r" % (pos, r["phase"], aa), "signature": "C14:bad-reply-sequence:%s" % verb.lower()}
    if pos == "body" and rest != [426, 226] and rest not in ([226, 226], [200, 226], [451, 226]):
        return {"input": inp, "what": "a running worker was interrupted but the replies were %r" % aa, "signature": "C14:interrupted-not-426-226:%s" % verb.lower()}
    if rest == [426, 226] and r.get("server_data_closed") is False:
        where = r.get("inside") or "between-calls"
        return {"input": inp, "what": "transfer aborted (426, 226) while the worker was inside backend call %r, but its data connection stayed open" % where, "signature": "C14:data-open-after-abort:worker-inside-backend-%s" % where}
    if verb == "RETR" and not content(size).startswith(r["got"] or b""):
        return {"input": inp, "what": "delivered bytes are not a prefix of the file (%d bytes delivered)" % len(r["got"] or b""), "signature": "C14:not-a-prefix:retr"}
    if verb == "STOR":
        st = stored_bytes(r["stored"], "up.bin")
        if st is not None and not content(size).startswith(st):
            return {"input": inp, "what": "stored bytes are not a prefix of the payload", "signature": "C14:not-a-prefix:stor"}
    if verb == "APPE":
        st = stored_bytes(r["stored"], "f.txt")
        if st is not None and not (b"0123456789" + content(size)).startswith(st):
            return {"input": inp, "what": "appended bytes are not old content + a prefix of the payload", "signature": "C14:not-a-prefix:appe"}
    fl = r.get("follow")
    if fl is None or fl[0] != [257] or fl[1] != [150, 226] or fl[2] != b"hello world" or fl[3] != [221]:
        if r.get("follow_uses_idle_data_connection"):
            return {"input": inp, "what": "ABOR with nothing to abort, sent while the data connection the client had made was waiting for its transfer: the transfer that then used it -> PWD/RETR/QUIT %r%s" % (fl, (" (%s)" % r["follow_error"]) if r.get("follow_error") else ""), "signature": "C14:idle-abor-takes-the-waiting-data-connection"}
        return {"input": inp, "what": "session not fully usable after ABOR: PWD/RETR/QUIT -> %r%s" % (fl, (" (%s)" % r["follow_error"]) if r.get("follow_error") else ""), "signature": "C14:follow-up-broken:%s" % verb.lower()}
    return None


async def _two_session_case(loop, verb, when):
    """session A has nothing to abort; session B is in the middle of a transfer: A's ABOR is A's alone"""
    big = content(4096)
    wd = W.World(loop, S.USERS_ANON, server_kwargs={"block_size": BS})
    await wd.start()
    out = {}
    try:
        wd.set_tree(S.TREE + [(("big.bin",), big)])
        a = await wd.raw_client()
        b = await wd.raw_client()
        await W.run_line(wd, a, b"USER bob")
        await W.run_line(wd, b, b"USER bob")
        await W.run_line(wd, b, b"EPSV")
        await W.data_connect(wd, b)
        dr, dw = b.data
        nb = len(b.replies)
        if verb == "RETR":
            sp = dw.transport.peer
            sp.HIGH = 256
            sp.hold = True  # B reads nothing yet: its worker is blocked in the middle of the file
            b.send_raw(b"RETR big.bin\r\n")
        else:
            b.send_raw(b"STOR up.bin\r\n")
            await loop.settle()
            dw.write(big[:1000])
        await loop.settle()
        if when == "a-has-listener":
            await W.run_line(wd, a, b"EPSV")
        na = len(a.replies)
        a.send_raw(b"ABOR\r\n")
        await loop.settle()
        await asyncio.sleep(1.0)
        await loop.settle()
        out["a_replies"] = [int(c) for c, _ in a.replies[na:]]
        out["b_early"] = [int(c) for c, _ in b.replies[nb:]]
        # now B's transfer runs to its end
        if verb == "RETR":
            sp.hold = False
            sp._schedule_pump()
            got = await asyncio.wait_for(dr.read(), 60)
            dw.close()
            out["b_ok"] = got == big
        else:
            dw.write(big[1000:])
            dw.close()
            await loop.settle()
        b.data = None
        waited = 0.0
        while waited < 10 and not any(int(c) >= 200 for c, _ in b.replies[nb:]) and not b.eof:
            await asyncio.sleep(0.25)
            waited += 0.25
            await loop.settle()
        out["b_replies"] = [int(c) for c, _ in b.replies[nb:]]
        if verb != "RETR":
            out["b_ok"] = ("up.bin" in wd.tree() or True) and stored_bytes(wd.tree(), "up.bin") == big
        out["a_follow"], _, _, _ = await W.run_line(wd, a, b"PWD")
        out["b_follow"], _, _, _ = await W.run_line(wd, b, b"PWD")
        a.close()
        b.close()
        await loop.settle()
    finally:
        try:
            await wd.stop()
        except Exception:
            wd.finish()
    return out


def _two_job(args):
    try:
        return simnet.run(_two_session_case, *args[:2], task_salt=args[2])
    except BaseException as e:  # noqa
        return "HARNESS-ERROR %s: %s" % (type(e).__name__, e)


def two_session_family(ctx, res):
    for verb in ("RETR", "STOR"):
        for when in ("plain", "a-has-listener"):
            for salt in ((0,) if not ctx.thorough() else (0, 1, 5)):
                res.cases += 1
                res.count("two_sessions")
                o = _two_job((verb, when, salt))
                inp = {"kind": "two-sessions", "transfer_of_the_other_session": verb, "when": when, "task_salt": salt}
                if isinstance(o, str):
                    res.disagreements.append({"correspondence": "C14 two-session harness", "input": inp, "impl": o})
                    continue
                res.distinct.add(("two-sessions", verb, when, salt))
                if o["a_replies"] != [226] or o["a_follow"] != [257]:
                    res.oracle_failures.append({"input": inp, "what": "a session with no transfer sent ABOR while ANOTHER session's %s was running: it got %r (want a single 226), then PWD -> %r" % (verb, o["a_replies"], o["a_follow"]), "signature": "C14:abor-of-one-session-not-answered"})
                elif o["b_replies"] != [150, 226] or not o["b_ok"] or o["b_follow"] != [257]:
                    res.oracle_failures.append({"input": inp, "what": "ABOR sent by a session with no transfer hit ANOTHER session's %s: that session got %r, data intact: %r, PWD -> %r" % (verb, o["b_replies"], o["b_ok"], o["b_follow"]), "signature": "C14:abor-of-one-session-stops-another's-transfer"})


# ------------------------------------------------------------------------------------------------
# one session, SEVERAL transfers under way (each on a data connection of its own), one ABOR: every one of them stops
# ------------------------------------------------------------------------------------------------
async def _several_transfers_case(loop, verbs, salt, relogin=False, ipv6=False, parked=False):
    import socket

    big = content(4096)
    wd = W.World(loop, S.USERS_ANON, server_kwargs={"block_size": BS}, family=socket.AF_INET6 if ipv6 else socket.AF_INET)
    await wd.start()
    out = {}
    try:
        wd.set_tree(S.TREE + [(("big%d.bin" % i,), big) for i in range(len(verbs))])
        c = await wd.raw_client()
        await W.run_line(wd, c, b"USER bob")
        n0 = len(c.replies)
        datas = []
        for i, verb in enumerate(verbs):
            c.data = None
            await W.run_line(wd, c, b"EPSV")
            await W.data_connect(wd, c)
            dr, dw = c.data
            c.data = None
            sp = dw.transport.peer
            if verb == "RETR":
                sp.HIGH = 256
                sp.hold = True  # the client reads nothing yet: the worker is stuck in the middle of the file
                c.send_raw(b"RETR big%d.bin\r\n" % i)
            else:
                c.send_raw(b"STOR up%d.bin\r\n" % i)
                await loop.settle()
                dw.write(big[:1000])
            await loop.settle()
            datas.append((verb, dr, dw, sp))
        out["marks"] = [int(x) for x, _ in c.replies[n0:] if x == "150"]
        if parked:
            # one more data connection, made for the NEXT transfer and not used yet
            c.data = None
            await W.run_line(wd, c, b"EPSV")
            await W.data_connect(wd, c)
            c.keep_data = True
        if relogin:
            # the same peer logs in again while its transfers run: they are still its transfers
            c.send_raw(b"USER bob\r\n")
            await loop.settle()
        na = len(c.replies)
        c.send_raw(b"ABOR\r\n")
        await loop.settle()
        await asyncio.sleep(1.0)
        await loop.settle()
        out["abor_replies"] = sorted(int(x) for x, _ in c.replies[na:])
        out["left"] = []
        for i, (verb, dr, dw, sp) in enumerate(datas):
            if verb == "RETR":
                sp.hold = False
                sp._schedule_pump()
                try:
                    got = await asyncio.wait_for(dr.read(), 5)
                    out["left"].append(("RETR", "closed", len(got) < len(big) and big.startswith(got)))
                except asyncio.TimeoutError:
                    out["left"].append(("RETR", "still-open", None))
                except ConnectionError:
                    out["left"].append(("RETR", "closed", True))
            else:
                try:
                    dw.write(big[1000:])
                    await loop.settle()
                    eof = await asyncio.wait_for(dr.read(), 2)
                    out["left"].append(("STOR", "closed", None))
                except asyncio.TimeoutError:
                    out["left"].append(("STOR", "still-open", None))
                except ConnectionError:
                    out["left"].append(("STOR", "closed", None))
            dw.close()
        await loop.settle()
        await asyncio.sleep(1.0)
        await loop.settle()
        out["late_replies"] = [int(x) for x, _ in c.replies[na:]][len(out["abor_replies"]):]
        out["stored_prefixes"] = [big.startswith(stored_bytes(wd.tree(), "up%d.bin" % i) or b"") and len(stored_bytes(wd.tree(), "up%d.bin" % i) or b"") <= 1000 for i, v in enumerate(verbs) if v == "STOR"]
        out["follow"], _, _, _ = await W.run_line(wd, c, b"PWD")
        c.close()
        await loop.settle()
    finally:
        try:
            await wd.stop()
        except Exception:
            wd.finish()
    return out


def _several_job(args):
    try:
        return simnet.run(_several_transfers_case, args[0], args[1], bool(args[2]) if len(args) > 2 else False, bool(args[3]) if len(args) > 3 else False,
                          bool(args[4]) if len(args) > 4 else False, task_salt=args[1], wall_limit=60)
    except BaseException as e:  # noqa
        return "HARNESS-ERROR %s: %s" % (type(e).__name__, e)


def _several_judge(inp, o):
    if isinstance(o, str):
        return None
    n = len(inp["transfers"])
    if len(o["marks"]) != n:
        return None  # the server did not take that many transfers at once: nothing to judge here
    want = sorted([426, 226] * n)
    if o["abor_replies"] != want or o["late_replies"] or any(st != "closed" or ok is False for _, st, ok in o["left"]) or not all(o["stored_prefixes"]) or o["follow"] != [257]:
        return {"input": inp, "what": "%d transfers under way in one session (%s), then ABOR: replies %r (want %r), later replies %r, data connections %r, stored prefixes ok %r, PWD -> %r" % (
            n, "+".join(inp["transfers"]), o["abor_replies"], want, o["late_replies"], o["left"], o["stored_prefixes"], o["follow"]), "signature": "C14:abor-stops-only-some-of-the-transfers"}
    return None


def several_transfers_family(ctx, res):
    for verbs, relogin, ipv6, parked in ((["RETR", "RETR"], False, False, False), (["RETR", "STOR"], False, False, False), (["STOR", "RETR"], False, False, False), (["STOR", "STOR"], False, False, False),
                                         (["RETR", "RETR", "RETR"], False, False, False), (["RETR"], True, False, False), (["STOR"], True, False, False), (["RETR", "STOR"], True, False, False),
                                         (["RETR"], False, False, True), (["RETR"], False, True, True), (["STOR"], False, True, True), (["RETR", "STOR"], False, True, False)):
        for salt in ((0,) if not ctx.thorough() else (0, 1, 5)):
            res.cases += 1
            res.count("several_transfers_one_abor")
            inp = {"kind": "several-transfers", "transfers": verbs, "task_salt": salt, "second_login_before_abor": relogin, "over_ipv6": ipv6, "a_data_connection_parked_for_the_next_transfer": parked}
            o = _several_job((verbs, salt, relogin, ipv6, parked))
            if isinstance(o, str):
                res.disagreements.append({"correspondence": "C14 several-transfers harness", "input": inp, "impl": o})
                continue
            res.distinct.add(("several", tuple(verbs), salt))
            f = _several_judge(inp, o)
            if f:
                res.oracle_failures.append(f)
            if getattr(ctx, "model_ok", False) and len(o["marks"]) == len(verbs) and not relogin:
                # every worker is held inside its body (a stalled reader / a writer that pauses): Model.Abort.aborMany
                m = drive(["abor many %s %s" % (verbs[0].lower(), " ".join("body" for _ in verbs))])[0]
                res.lines += 1
                st = dict(t.split("=", 1) for t in m.split(" ") if "=" in t)
                want = sorted(int(x) for x in st.get("replies", "~").split(",") if x.isdigit())
                if want != o["abor_replies"] or (st.get("alive") == "1") != (o["follow"] == [257]):
                    res.disagreements.append({"correspondence": "Model.Abort.aborMany vs the real server with several workers", "input": inp, "impl": {"replies": o["abor_replies"], "follow": o["follow"]}, "model": m})


# ------------------------------------------------------------------------------------------------
# the client's half against a peer that is not aioftp
# ------------------------------------------------------------------------------------------------
FOREIGN_STYLES = [None, "hyph", "raw", "indent", "digits", "mixed"]


async def _foreign_abort_case(loop, style, when, n_body):
    """aioftp's Client.abort() against a scripted server (harness/foreign.py) that answers ABOR as RFC 959 says - 426
    and 226 when something was interrupted, one 226 otherwise - but spells its multi-line replies its own way.  After
    abort() the session must be in step: PWD names the directory, a listing is the server's truth, a whole download
    is exact."""
    import aioftp
    import foreign

    big = content(4096 * 6 + 77)
    # (only the replies an ABOR brings are spelled the other way: what is judged here is abort(), not the login)
    wd = foreign.ForeignWorld(loop, {"multiline": style, "retr_pause": 0.05, "multi_codes": ("426", "226")})
    if n_body is not None:
        spell = wd.server.spell
        wd.server.spell = lambda code, text, n=None: spell(code, text, n_body)
    await wd.start()
    out = {"abort": "ok"}
    try:
        wd.set_tree([(("d",), None), (("d", "big.bin"), big), (("d", "s.txt"), b"small"), (("d", "sub"), None)])
        c = aioftp.Client(path_io_factory=aioftp.MemoryPathIO)
        await c.connect("127.0.0.1", wd.port)
        await c.login()
        await c.change_directory("/d")
        stream = None
        if when == "retr":
            stream = await c.download_stream("big.bin")
            out["first_block"] = len(await stream.read(4096))
        elif when == "stor":
            stream = await c.upload_stream("up.bin")
            await stream.write(big[:5000])
        elif when == "after-retr":
            async with c.download_stream("s.txt") as st:
                out["first_block"] = len(await st.read())
        try:
            await asyncio.wait_for(c.abort(), 30)
        except Exception as e:  # noqa
            out["abort"] = "%s: %s" % (type(e).__name__, e)
        if stream is not None:
            stream.close()
        await loop.settle()
        follow = []
        try:
            follow.append(("pwd", str(await asyncio.wait_for(c.get_current_directory(), 30))))
            lst = await asyncio.wait_for(c.list(), 30)
            follow.append(("list", sorted((str(p), i["type"]) for p, i in lst if p.name != "up.bin")))
            async with c.download_stream("big.bin") as st:
                got = await asyncio.wait_for(st.read(), 60)
            follow.append(("download", got == big))
            follow.append(("pwd", str(await asyncio.wait_for(c.get_current_directory(), 30))))
        except Exception as e:  # noqa
            follow.append(("raised", "%s: %s" % (type(e).__name__, e)))
        out["follow"] = follow
        out["stored_prefix"] = big.startswith(wd.server.tree.get(("d", "up.bin"), b"")) if when == "stor" else True
        try:
            c.close()
        except Exception:
            pass
        await loop.settle()
    finally:
        try:
            await wd.stop()
        except Exception:
            wd.finish()
    return out


FOREIGN_WANT = [("pwd", "/d"), ("list", [("big.bin", "file"), ("s.txt", "file"), ("sub", "dir")]), ("download", True), ("pwd", "/d")]


def _foreign_job(args):
    try:
        return simnet.run(_foreign_abort_case, *args, wall_limit=60)
    except BaseException as e:  # noqa
        return "HARNESS-ERROR %s: %s" % (type(e).__name__, e)


def _foreign_judge(inp, o):
    if isinstance(o, str):
        return {"input": inp, "what": "the session with the foreign peer did not get through this history (%s)" % o, "signature": "C14:client:foreign-peer-session-failed"}
    if o["abort"] != "ok":
        return {"input": inp, "what": "Client.abort() raised %s although the peer answered ABOR as RFC 959 says" % o["abort"], "signature": "C14:client:abort-raised"}
    follow = [(k, [(p.rsplit("/", 1)[-1], t) for p, t in v] if k == "list" else v) for k, v in o["follow"]]
    if follow != FOREIGN_WANT or not o["stored_prefix"]:
        return {"input": inp, "what": "after abort() against a peer that spells its replies %r the session is out of step: %r (want %r), stored prefix ok: %r" % (
            inp["reply_spelling"], follow, FOREIGN_WANT, o["stored_prefix"]), "signature": "C14:client:session-out-of-step-after-abort"}
    return None


def foreign_abort_family(ctx, res):
    for style in FOREIGN_STYLES:
        for when in ("retr", "stor", "idle", "after-retr"):
            for n_body in ((None,) if style is None else (1, 2, 3) if ctx.thorough() else (None, 2)):
                res.cases += 1
                res.count("client_abort_against_foreign_peer")
                inp = {"kind": "foreign-peer", "reply_spelling": style, "when": when, "body_lines": n_body}
                o = _foreign_job((style, when, n_body))
                res.distinct.add(("foreign", style, when, n_body))
                f = _foreign_judge(inp, o)
                if f:
                    res.oracle_failures.append(f)


def _run(ctx, compare=True):
    """thorough tier: the whole sweep again under two more iteration orders of the server's task sets"""
    res = None
    old = os.environ.get("VERIF_TASK_SALT")
    try:
        for salt in ((0, 1, 5) if ctx.thorough() else (0,)):
            os.environ["VERIF_TASK_SALT"] = str(salt)
            r = _run_once(ctx, compare and salt == 0)
            for f in r.oracle_failures:
                if isinstance(f.get("input"), dict):
                    f["input"]["task_salt"] = salt
            if res is None:
                res = r
            else:
                res.merge(r)
        two_session_family(ctx, res)
        several_transfers_family(ctx, res)
        foreign_abort_family(ctx, res)
    finally:
        if old is None:
            os.environ.pop("VERIF_TASK_SALT", None)
        else:
            os.environ["VERIF_TASK_SALT"] = old
    return res


def _run_once(ctx, compare=True):
    res = Result()
    thorough = ctx.thorough()
    specs = corpus(thorough)
    Ns = [SC.run_scenario(scenario_of(sp))["iterations"] for sp in specs]
    jobs = []
    for i, N in enumerate(Ns):
        ks = list(range(0, N))
        for j in range(0, len(ks), 30):
            jobs.append((i, ks[j : j + 30], thorough))
    mp = multiprocessing.get_context("fork")
    with mp.Pool(min(16, os.cpu_count() or 4)) as pool:
        outs = pool.map(_job, jobs, chunksize=1)
    lines, expect = [], []
    r_full = {}
    for idx, out in outs:
        spec = specs[idx]
        for k, r in out:
            res.cases += 1
            if isinstance(r, str):
                res.disagreements.append({"correspondence": "harness", "input": [spec, k], "impl": r})
                continue
            res.count("pos=%s" % r.get("pos"))
            res.count("verb=" + spec[0])
            if r.get("pos") in ("wait", "body", "unreaped"):
                res.distinct.add((spec, k))
            f = oracle(spec, k, r)
            if f:
                res.oracle_failures.append(f)
            if compare and r.get("logged") and not r.get("skipped"):
                lines.append("abor %s %s" % (spec[0].lower(), r["pos"]))
                aa = [c for c in r["after_abor"] if c != 150]
                expect.append((spec, k, r["pos"], aa, r["alive"]))
                r_full[(spec, k)] = r["after_abor"]
    if compare and ctx.model_ok and lines:
        mout = drive(lines)
        res.lines += len(lines)
        for (spec, k, pos, aa, alive), m in zip(expect, mout):
            mm = dict(t.split("=", 1) for t in m.split(" ") if "=" in t)
            mrep = [] if mm["replies"] == "~" else [int(x) for x in mm["replies"].split(",")]
            # the model gives ABOR's own replies; a transfer that completed / timed out in the same instant adds its reply in front
            ok = (mm["alive"] == ("1" if alive else "0")) and (
                aa == mrep
                or (pos in ("none", "unreaped") and mrep != [] and aa[-1:] == mrep)
                or (pos == "none" and aa[:1] == mrep and 150 in r_full.get((spec, k), []))
                or (pos == "unreaped" and mrep == [] and aa in ([226], [200], [451], [425], []))
                or (pos == "body" and aa in ([226, 226], [200, 226], [451, 226]))
            )
            if not ok:
                if len(res.disagreements) < 12:
                    res.disagreements.append({"correspondence": "Model.Abort.abor vs real server", "input": {"transfer": spec[0], "size": spec[1], "data_connection": spec[2], "environment": spec[3], "abor_at_iteration": k, "worker_position": pos}, "impl": {"replies": aa, "alive": alive}, "model": m})
                else:
                    res.count("more_disagreements")
    res.samples = [{"transfer": "RETR", "size": 200, "data_connection": "early", "environment": "plain", "abor_at_iteration": 40}, {"transfer": "STOR", "size": 65, "data_connection": "late", "environment": "slow-backend", "abor_at_iteration": 33}]
    res.exhaustive = True
    return res


def correspondence(ctx):
    return _run(ctx)


def search(ctx, prior):
    return _run(ctx, compare=False)


def _one(inp):
    spec = (inp["transfer"], inp["size"], inp["data_connection"], inp.get("environment", "plain"))
    r = SC.run_scenario(scenario_of(spec), inp["abor_at_iteration"], inject_abor, after_abor)
    return spec, r


def replay(ctx, doc):
    inp = doc["failure"]["input"]
    if inp.get("kind") == "two-sessions":
        o = _two_job((inp["transfer_of_the_other_session"], inp["when"], inp.get("task_salt", 0)))
        print(o)
        return isinstance(o, str) or o["a_replies"] != [226] or o["b_replies"] != [150, 226] or not o["b_ok"]
    if inp.get("kind") == "several-transfers":
        o = _several_job((inp["transfers"], inp.get("task_salt", 0), inp.get("second_login_before_abor", False), inp.get("over_ipv6", False), inp.get("a_data_connection_parked_for_the_next_transfer", False)))
        print(o)
        f = _several_judge(inp, o)
        print(f)
        return f is not None
    if inp.get("kind") == "foreign-peer":
        o = _foreign_job((inp["reply_spelling"], inp["when"], inp.get("body_lines")))
        print(o)
        f = _foreign_judge(inp, o)
        print(f)
        return f is not None
    if "task_salt" in inp:
        os.environ["VERIF_TASK_SALT"] = str(inp["task_salt"])
    spec, r = _one(inp)
    print({k: r.get(k) for k in ("transcript", "after_abor", "pos", "alive", "follow")})
    f = oracle(spec, inp["abor_at_iteration"], r)
    print(f)
    return f is not None


def probe_known(ctx, finding):
    spec, r = _one(finding["replay"])
    f = oracle(spec, finding["replay"]["abor_at_iteration"], r)
    return f is not None and f["signature"] == finding["signature"]


# somebody else's classes: a transfer command of the application's own (props/thirdparty.py)
from props import thirdparty as _thirdparty  # noqa: E402

correspondence, search, replay = _thirdparty.attach(PID, correspondence, search, replay)
