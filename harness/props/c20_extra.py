"""C20, more canary families (implementation-side oracle only):
 (3) refusals that involve the user OBJECT: per-user connection limits reached, the same user logging in on several
     sessions, a session ending while others of that user stay - error paths that may want to name the user;
 (1) encoding mismatch: the PASS line reaches the server in an encoding it cannot decode (latin-1 bytes,
     utf-8 server), raw and through Client(encoding="latin-1");
 (2) scripted server dialogues for Client.login: every order of 331 / 332 steps a server may answer with.
The password must not appear in any record of either side."""
import asyncio
import itertools

from framework import Result
from props import c20


class _Scripted:
    """control stream of a client talking to a scripted server: replies are consumed one per command"""

    def __init__(self, replies):
        self.replies = [l for r in replies for l in r.encode("utf-8").splitlines(keepends=True)]
        self.written = []

    async def readline(self):
        return self.replies.pop(0) if self.replies else b""

    async def write(self, data):
        self.written.append(data)

    def close(self):
        pass


DIALOGUES = []
for n in range(1, 5):
    for steps in itertools.product(("331", "332"), repeat=n):
        DIALOGUES.append(list(steps) + ["230"])
DIALOGUES += [["331", "530"], ["332", "331", "530"], ["331", "332", "331", "331", "230"]]
# a server that is not aioftp may answer PASS (or ACCT) with ANY code - 421 when it is shutting down or full, 5xx when it
# does not like the moment, 1xx/2xx of its own: the client fails or goes on, and logs no secret either way
DIALOGUES += [["331", "%03d" % c] for c in range(100, 600)] + [["331", "332", "%03d" % c] for c in (421, 451, 500, 502, 530, 120, 202)]
DIALOGUES += [["331", "230-welcome\r\n230-two\r\n230"], ["331", "421-going down\r\n421"], ["331", "530-no\r\n plain\r\n530"]]


def run(ctx, scale=1):
    import aioftp

    res = Result()
    rng = ctx.rng
    out_fail = []

    async def scripted(cap):
        for steps in DIALOGUES:
            for shape in ("bare", "percent", "nonascii", "inner_blank"):
                pw, canaries = c20.make_password(rng, shape)
                client = aioftp.Client()
                client.stream = _Scripted(["%s step\r\n" % s for s in steps])
                cap.take()
                try:
                    await client.login("bob", pw, "acct-" + c20.token(rng))
                except Exception:  # noqa
                    pass
                recs = cap.take()
                res.cases += 1
                res.count("scripted_dialogues")
                res.distinct.add(("scripted", tuple(steps), shape))
                hits = c20.canary_hits(recs, canaries)
                if hits:
                    out_fail.append({"input": {"kind": "scripted-login", "server_replies": steps, "password": pw}, "what": "client logged the password after the dialogue %s: %r" % (steps, hits[0][3]), "signature": "C20:client-login-dialogue-leak"})

    async def mismatch(cap):
        for i in range(30 * scale):
            head, tail = c20.token(rng, 6), c20.token(rng, 6)
            pw = head + rng.choice("éüñßø") + tail
            canaries = [head, tail]
            for mode in ("raw", "client"):
                users = [aioftp.User("bob", pw if i % 2 else "other-Pw")]
                server = aioftp.Server(users)
                await server.start("127.0.0.1", 0)
                cap.take()
                try:
                    if mode == "raw":
                        r, w = await asyncio.open_connection("127.0.0.1", server.server_port)
                        await r.readline()
                        w.write(b"USER bob\r\n")
                        await r.readline()
                        w.write(("PASS " + pw + "\r\n").encode("latin-1"))
                        try:
                            await asyncio.wait_for(r.readline(), 1)
                        except Exception:  # noqa
                            pass
                        w.close()
                    else:
                        client = aioftp.Client(encoding="latin-1")
                        try:
                            await asyncio.wait_for(client.connect("127.0.0.1", server.server_port), 2)
                            await asyncio.wait_for(client.login("bob", pw), 2)
                        except Exception:  # noqa
                            pass
                        client.close()
                    await asyncio.sleep(0.01)
                finally:
                    await server.close()
                recs = cap.take()
                res.cases += 1
                res.count("encoding_mismatch_" + mode)
                res.distinct.add(("mismatch", mode, i))
                hits = c20.canary_hits(recs, canaries)
                if hits:
                    out_fail.append({"input": {"kind": "encoding-mismatch", "mode": mode, "password": pw}, "what": "password fragment %r in record %r" % (hits[0][4], hits[0][3]), "signature": "C20:undecodable-pass-line-leak"})

    async def limits(cap):
        for i in range(6 * scale):
            pw, canaries = c20.make_password(rng, ("bare", "percent", "nonascii")[i % 3])
            users = [aioftp.User("bob", pw, maximum_connections=1 + i % 2), aioftp.User("eve", "other-Pw", maximum_connections=1)]
            server = aioftp.Server(users, maximum_connections=4)
            await server.start("127.0.0.1", 0)
            cap.take()
            clients = []
            try:
                for k in range(4):
                    c = aioftp.Client()
                    try:
                        await asyncio.wait_for(c.connect("127.0.0.1", server.server_port), 2)
                        await asyncio.wait_for(c.login("bob", pw), 2)
                    except Exception:  # noqa
                        pass
                    clients.append(c)
                # one more control connection than the server admits, and an abrupt end of a logged-in session
                try:
                    r, w = await asyncio.open_connection("127.0.0.1", server.server_port)
                    await asyncio.wait_for(r.readline(), 1)
                    w.close()
                except Exception:  # noqa
                    pass
                for c in clients:
                    c.close()
                await asyncio.sleep(0.02)
            finally:
                await server.close()
            recs = cap.take()
            res.cases += 1
            res.count("limit_refusals")
            res.distinct.add(("limits", i))
            hits = c20.canary_hits(recs, canaries)
            if hits:
                out_fail.append({"input": {"kind": "limit-refusal", "password": pw, "maximum_connections": 1 + i % 2}, "what": "password fragment %r in record %r (per-user connection limit reached)" % (hits[0][4], hits[0][3]), "signature": "C20:limit-refusal-leak"})

    async def slow_manager(cap):
        """user managers that bound their own calls with the library's `with_timeout` (what AbstractUserManager's
        `timeout` argument is for) and overrun it, or fail, while the password is in their hands: whatever the server
        then logs - message, exception text, traceback - must not carry it"""

        def make(kind, delay):
            class Manager(aioftp.MemoryUserManager):
                def __init__(self, users):
                    super().__init__(users, timeout=0.05)

                @aioftp.with_timeout
                async def authenticate(self, user, password):
                    if kind == "slow":
                        await asyncio.sleep(delay)
                    elif kind == "raises":
                        raise RuntimeError("backend of the user database is down")
                    return await super().authenticate(user, password)

                @aioftp.with_timeout
                async def get_user(self, login):
                    if kind == "slow-user":
                        await asyncio.sleep(delay)
                    return await super().get_user(login)

            return Manager

        for i, kind in enumerate(("slow", "raises", "slow-user", "fast") * scale):
            stored, c1 = c20.make_password(rng, "bare")
            given, c2 = c20.make_password(rng, ("bare", "percent", "nonascii")[i % 3])
            if i % 2:
                given, c2 = stored, c1
            manager = make(kind, 0.3)([aioftp.User("bob", stored)])
            server = aioftp.Server(manager)
            await server.start("127.0.0.1", 0)
            cap.take()
            try:
                try:
                    await asyncio.wait_for(c20._raw_session(server.server_port, [b"USER bob\r\n", ("PASS %s\r\n" % given).encode("utf-8"), b"PWD\r\n"]), 3)
                except Exception:  # noqa
                    pass
                await asyncio.sleep(0.05)
            finally:
                await server.close()
            recs = cap.take()
            res.cases += 1
            res.count("slow_user_manager:" + kind)
            res.distinct.add(("slow-manager", kind, i % 2))
            hits = c20.canary_hits(recs, c1 + c2)
            if hits:
                out_fail.append({"input": {"kind": "user-manager-under-with_timeout", "manager": kind, "stored": stored, "given": given}, "what": "password fragment %r in a %s record of %s (%s): %r" % (hits[0][4], hits[0][1], hits[0][0], hits[0][2], hits[0][3][-300:]), "signature": "C20:user-manager-failure-leak"})

    async def late_reply(cap):
        """a client with a socket_timeout whose PASS is answered too late (or never): whatever the client then logs or
        raises on the way must not carry the password"""

        def make(delay):
            class Manager(aioftp.MemoryUserManager):
                async def authenticate(self, user, password):
                    await asyncio.sleep(delay)
                    return await super().authenticate(user, password)

            return Manager

        for i in range(3 * scale):
            stored, c1 = c20.make_password(rng, "bare")
            given, c2 = c20.make_password(rng, ("bare", "percent", "nonascii")[i % 3])
            if i % 2:
                given, c2 = stored, c1
            server = aioftp.Server(make(0.4)([aioftp.User("bob", stored)]))
            await server.start("127.0.0.1", 0)
            cap.take()
            client = aioftp.Client(socket_timeout=0.1)
            outcome = "logged in"
            try:
                await asyncio.wait_for(client.connect("127.0.0.1", server.server_port), 2)
                await asyncio.wait_for(client.login("bob", given), 2)
            except Exception as e:  # noqa
                outcome = "client raised %s" % type(e).__name__
                if any(c and c in str(e) for c in c1 + c2):
                    out_fail.append({"input": {"kind": "late-reply", "stored": stored, "given": given}, "what": "the exception the client raised carries the password: %r" % str(e)[:200], "signature": "C20:late-reply-leak"})
            client.close()
            await asyncio.sleep(0.5)
            await server.close()
            recs = cap.take()
            res.cases += 1
            res.count("late_pass_reply:" + outcome)
            res.distinct.add(("late-reply", i % 3, i % 2))
            hits = c20.canary_hits(recs, c1 + c2)
            if hits:
                out_fail.append({"input": {"kind": "late-reply", "stored": stored, "given": given}, "what": "password fragment %r in a %s record of %s (%s) after the reply to PASS did not arrive within socket_timeout: %r" % (hits[0][4], hits[0][1], hits[0][0], hits[0][2], hits[0][3][-300:]), "signature": "C20:late-reply-leak"})

    async def same_account(cap):
        """several sessions of ONE account, one of them ends, another logs in again (as itself, as somebody else):
        state the server keeps per user is shared between them, and an error on that path may want to name the user"""
        for i in range(4 * scale):
            pw, canaries = c20.make_password(rng, ("bare", "percent", "nonascii", "bare")[i % 4])
            users = [aioftp.User("bob", pw, read_speed_limit=100000 if i % 2 else None), aioftp.User("eve", "other-Pw")]
            server = aioftp.Server(users)
            await server.start("127.0.0.1", 0)
            cap.take()
            try:
                socks = []
                for k in range(2):
                    r, w = await asyncio.open_connection("127.0.0.1", server.server_port)
                    await asyncio.wait_for(r.readline(), 1)
                    for line in (b"USER bob\r\n", ("PASS %s\r\n" % pw).encode("utf-8")):
                        w.write(line)
                        await asyncio.wait_for(r.readline(), 1)
                    socks.append((r, w))
                socks[0][1].close()
                await asyncio.sleep(0.05)
                r, w = socks[1]
                follow = [b"USER bob\r\n", ("PASS %s\r\n" % pw).encode("utf-8"), b"PWD\r\n"] if i < 2 * scale else [b"USER eve\r\n", b"PASS other-Pw\r\n", b"USER bob\r\n", ("PASS %s\r\n" % pw).encode("utf-8")]
                for line in follow:
                    try:
                        w.write(line)
                        await asyncio.wait_for(r.readline(), 1)
                    except Exception:  # noqa
                        break
                w.close()
                await asyncio.sleep(0.05)
            finally:
                await server.close()
            recs = cap.take()
            res.cases += 1
            res.count("sessions_of_one_account")
            res.distinct.add(("same-account", i))
            hits = c20.canary_hits(recs, canaries)
            if hits:
                out_fail.append({"input": {"kind": "sessions-of-one-account", "password": pw, "then": [x.decode("utf-8", "replace").strip().split(" ")[0] for x in follow]}, "what": "password fragment %r in a %s record of %s (%s) after one of two sessions of the account had gone and the other logged in again: %r" % (
                    hits[0][4], hits[0][1], hits[0][0], hits[0][2], hits[0][3][-300:]), "signature": "C20:account-shared-state-leak"})

    async def unencodable(cap):
        """a password the client's encoding cannot represent: the command cannot be sent; whatever is logged or raised
        on the way must not carry it"""
        for i, (enc, mk) in enumerate((("latin-1", lambda a, b: a + "\u043f\u0430\u0440\u043e\u043b\u044c" + b), ("latin-1", lambda a, b: a + "\u03a9" + b), ("ascii", lambda a, b: a + "\u00e9" + b),
                                      ("utf-8", lambda a, b: a + "\udc80" + b), ("cp1251", lambda a, b: a + "\u00e9\u4e2d" + b)) * scale):
            head, tail = c20.token(rng, 6), c20.token(rng, 6)
            pw = mk(head, tail)
            server = aioftp.Server([aioftp.User("bob", "other-Pw")])
            await server.start("127.0.0.1", 0)
            cap.take()
            client = aioftp.Client(encoding=enc)
            outcome = "sent"
            try:
                await asyncio.wait_for(client.connect("127.0.0.1", server.server_port), 2)
                await asyncio.wait_for(client.login("bob", pw), 2)
            except UnicodeEncodeError:
                outcome = "UnicodeEncodeError"  # (its text shows the whole string: the caller's own argument, not a log record)
            except Exception as e:  # noqa
                outcome = type(e).__name__
            client.close()
            await asyncio.sleep(0.02)
            await server.close()
            recs = cap.take()
            res.cases += 1
            res.count("unencodable_password:" + outcome)
            res.distinct.add(("unencodable", enc, i % 5))
            hits = c20.canary_hits(recs, [head, tail])
            if hits:
                out_fail.append({"input": {"kind": "unencodable-password", "encoding": enc, "password": pw.encode("ascii", "backslashreplace").decode("ascii")}, "what": "password fragment %r in a %s record of %s (%s): the client (encoding %s) could not encode the PASS line: %r" % (
                    hits[0][4], hits[0][1], hits[0][0], hits[0][2], enc, hits[0][3][-300:]), "signature": "C20:unencodable-pass-line-leak"})

    async def split_long_pass(cap):
        """a PASS line longer than the server's line limit (64 KiB) that arrives in pieces - the first piece already over
        the limit, the CRLF in a later one: whatever the server makes of the pieces, no record carries any of it"""
        for i, (first, pause) in enumerate(((66000, 0.05), (70000, 0.05), (66000, 0.3), (131072, 0.05)) * scale):
            t = c20.token(rng)
            pw = (t + "-") * (150000 // (len(t) + 1))
            server = aioftp.Server([aioftp.User("bob", "other-Pw")])
            await server.start("127.0.0.1", 0)
            cap.take()
            try:
                r, w = await asyncio.open_connection("127.0.0.1", server.server_port)
                await asyncio.wait_for(r.readline(), 1)
                w.write(b"USER bob\r\n")
                await asyncio.wait_for(r.readline(), 1)
                line = ("PASS " + pw + "\r\n").encode("utf-8")
                w.write(line[:first])
                await w.drain()
                await asyncio.sleep(pause)
                try:
                    w.write(line[first:])
                    await w.drain()
                    await asyncio.wait_for(r.read(200), 0.5)
                except Exception:  # noqa
                    pass
                w.close()
                await asyncio.sleep(0.05)
            finally:
                await server.close()
            recs = cap.take()
            res.cases += 1
            res.count("long_pass_line_in_pieces")
            res.distinct.add(("split-long-pass", first, pause))
            hits = c20.canary_hits(recs, [t])
            if hits:
                out_fail.append({"input": {"kind": "long-pass-line-in-pieces", "first_piece": first, "pause": pause, "password_length": len(pw)}, "what": "password fragment %r in a %s record of %s (%s): the PASS line (%d bytes) arrived in two pieces, the first of %d bytes: %r" % (
                    hits[0][4], hits[0][1], hits[0][0], hits[0][2], len(pw) + 7, first, hits[0][3][:120]), "signature": "C20:long-pass-line-leak"})

    async def main(cap):
        await split_long_pass(cap)
        await same_account(cap)
        await unencodable(cap)
        await late_reply(cap)
        await scripted(cap)
        await mismatch(cap)
        await limits(cap)
        await slow_manager(cap)

    with c20._Installed() as cap:
        asyncio.run(main(cap))
    res.oracle_failures = out_fail
    return res
