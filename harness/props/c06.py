"""C06  reply framing: what the server encodes is what the client decodes.

Correspondence (no sockets): the real `Server.write_response` writes into a capturing stream; the bytes go,
cut into segments, through a real `asyncio.StreamReader` (fed while the consumer is already waiting) wrapped
in `aioftp.ThrottleStreamIO` and assigned to a real `aioftp.Client().stream`; the real `parse_response` /
`command(None, expected, wait)` / `Server.parse_command` read from it.  Every call is also one line for the
Lean driver (`framing …`), and both outputs are diffed.  `Code.matches` is compared exhaustively over masks
of length <= 3 on {0-9,x,-} x all 3-digit codes, plus Unicode-digit masks/codes.

Oracle (implementation outputs only): decoded == encoded, no desynchronisation inside a reply sequence,
identical result for every segmentation, a code mismatch is rejected and the next reply still decodes,
mask semantics, wait/expect loop, command split.

Regions outside the theorems' domain, each probed here on the real code (correspondence only, the oracle is
silent there) and what the code does with them:
  * code not exactly three isdigit characters ("25", "2500", "abc", ""): the client keeps reading / cuts the code
    at three characters; the following reply is swallowed or rejected (Lean: example in Properties/C06.lean).
    server.py only ever passes three ASCII digits (theorem server_codes_digits3 over the regenerated table).
  * a line containing LF: it is read as two lines; can desynchronise.  No server.py call site can produce one:
    literals are LF-free (server_literals_no_lf), interpolated values come from a command line (LF-terminated by
    construction), from repr(), from digits, or from configuration (home/base path names).
  * list mode with fewer than two lines, plain mode with none: ValueError before anything is written
    (server.py: the only list-mode site passes three, server_list_sites_shape).
  * non-encodable characters under latin-1: UnicodeEncodeError after the earlier lines were already written.
  * a line of 64 KiB or more: asyncio raises ValueError (LimitOverrunError) in readline — implementation-only probe.
  * a line ending in whitespace: decoded without it (parse_line does rstrip()).  THIS ONE IS REACHABLE:
    theorem server_hole_tailed_sites lists the call sites whose text ends in interpolated material —
      ConnectionConditions (fail_info: constants), PathConditions (message: constants), Server.user (user manager's
      info: constants / repr), Server.pasv (ends in ")"), Server.rest (digits, or repr) and Server.mlst, whose line
      ends in path.name, taken from the client's argument: `MKD x /` + `MLST x /` -> finding C06-F1
    (signature C06:trailing-whitespace-lost, KNOWN_FINDINGS).
"""
import asyncio
import itertools
import unicodedata

from framework import Result, drive, enc_bytes, enc_str, enc_strs

PID = "C06"
RULE = (
    "inputs = reply streams: 1..4 items, each a reply (code, lines, mode) written by the real write_response or a "
    "hand-made malformed byte string, x encoding {utf-8, latin-1} x 4 segmentations (whole, per byte, random cuts, "
    "cuts around CR/LF and inside multi-byte characters); lines drawn from classes {empty, word, starts-with-digits, "
    "header look-alike with the same / another code, leading '-', leading spaces, non-ASCII, Unicode digits, inner CR / "
    "control / line-separator characters, trailing whitespace, embedded LF, long}; codes 000-999 plus non-3-digit / "
    "non-digit / Unicode-digit codes; Code.matches exhaustive over masks of length<=3 on {0-9,x,-} x 000..999; "
    "command(None, expected, wait) over sequences of 1..4 replies x mask sets; parse_command over verb/argument "
    "classes.  A case is non-trivial when it is not a single one-line ASCII reply fed in one segment; "
    "distinct = distinct (stream bytes, segmentation) pairs, mask rows, command and parse_command inputs"
)
EXPLANATION = (
    "Theorems in Properties/C06.lean hold for every code, line list, encoding, segmentation and reply sequence; "
    "this run ties Model/Framing.lean (writeResponse, readlines, parseResponse, command, codeMatches, parseCommand) "
    "to the live server.py/client.py and a real asyncio.StreamReader, and evaluates the decoded==encoded oracle on "
    "the implementation."
)
ASSUMPTIONS = [
    "asyncio.StreamReader.readline returns the bytes up to and including the next b'\\n', the unterminated remainder "
    "at EOF, then b''; lines are shorter than its 64 KiB limit (longer lines raise ValueError and are out of the "
    "theorems' domain; C19 exercises them)",
    "utf-8 / latin-1 strict codecs behave as transcribed in Py/Bytes.lean (round trip proved there, agreement with "
    "CPython sampled here); Python strings with lone surrogates are not representable in the model",
    "str.rstrip / str.isdigit / str.lower / slicing behave as transcribed in Py/Str.lean with the generated tables",
    "a reply is in the property's domain when its code is three str.isdigit characters, no line contains LF, "
    "list mode has >= 2 lines and every line is encodable; outside it the run only ties the model to the code",
]
GENERATED_OBLIGATIONS = ["Replies.lean: server_codes_digits3, server_list_sites_shape, server_hole_tailed_sites, server_literals_no_lf",
                         "Unicode.lean: digit_not_space", "UnicodeCase.lean: tables of Py.lowerFull"]
# everything Driver.lean imports has to be compiled before `lean --run`
EXTRA_LEAN_TARGETS = ["AioftpModel.Driver.Framing", "AioftpModel.Driver.Codec", "AioftpModel.Model.Paths"]
TRUSTED_EXTRA = ["asyncio.StreamReader (feed_data/feed_eof/readline) as modelled by Model.Reader"]

SIG_TRAILING_WS = "C06:trailing-whitespace-lost"


# ------------------------------------------------------------------------------------------------
# running the real code
# ------------------------------------------------------------------------------------------------
ENC_PY = {"utf8": "utf-8", "latin1": "latin-1"}


class _Cap:
    def __init__(self):
        self.chunks = []

    async def write(self, data):
        self.chunks.append(bytes(data))


class _NullWriter:
    def close(self):
        pass

    def write(self, data):
        pass

    async def drain(self):
        pass


def _exc(e):
    import aioftp

    if isinstance(e, aioftp.StatusCodeError):
        return ("SCE", tuple(str(x) for x in e.expected_codes), tuple(str(x) for x in e.received_codes), list(e.info))
    name = type(e).__name__
    if name in ("ConnectionResetError", "UnicodeDecodeError", "UnicodeEncodeError", "ValueError"):
        return ("EXC", name)
    return ("EXC", "Other:" + name)


class Impl:
    """the real objects, created once inside the running loop"""

    def __init__(self):
        import aioftp

        self.aioftp = aioftp
        self.servers = {k: aioftp.Server(encoding=v) for k, v in ENC_PY.items()}
        self.clients = {k: aioftp.Client(encoding=v) for k, v in ENC_PY.items()}

    async def write(self, enc, code, lines, lst):
        cap = _Cap()
        try:
            await self.servers[enc].write_response(cap, code, lines, lst)
        except Exception as e:  # noqa
            return cap.chunks, _exc(e)
        return cap.chunks, None

    def _stream(self):
        r = asyncio.StreamReader()
        return r, self.aioftp.ThrottleStreamIO(r, _NullWriter())

    @staticmethod
    async def _feed(r, segs, interleave):
        for s in segs:
            r.feed_data(s)
            if interleave:
                await asyncio.sleep(0)
        r.feed_eof()

    async def parse(self, enc, n, segs, interleave=True):
        c = self.clients[enc]
        r, c.stream = self._stream()
        ft = asyncio.ensure_future(self._feed(r, segs, interleave))
        out = []
        for _ in range(n):
            try:
                code, info = await c.parse_response()
                out.append(("OK", str(code), list(info)))
            except Exception as e:  # noqa
                out.append(_exc(e))
        await ft
        return out, bytes(r._buffer)

    async def command(self, enc, expected, wait, segs, interleave=True):
        c = self.clients[enc]
        r, c.stream = self._stream()
        ft = asyncio.ensure_future(self._feed(r, segs, interleave))
        try:
            got = await c.command(None, expected, wait)
            out = ("NONE",) if got is None else ("OK", str(got[0]), list(got[1]))
        except Exception as e:  # noqa
            out = _exc(e)
        await ft
        return out, bytes(r._buffer)

    async def parsecmd(self, enc, segs, interleave=True):
        s = self.servers[enc]
        r, stream = self._stream()
        ft = asyncio.ensure_future(self._feed(r, segs, interleave))
        try:
            cmd, rest = await s.parse_command(stream)
            out = ("OK", cmd, rest)
        except Exception as e:  # noqa
            out = _exc(e)
        await ft
        return out, bytes(r._buffer)


# ------------------------------------------------------------------------------------------------
# canonical forms (must equal the driver's output)
# ------------------------------------------------------------------------------------------------
def enc_bytes_list(l):
    l = list(l)
    return "~" if not l else "|".join(enc_bytes(b) for b in l)


def canon_err(x):
    if x[0] == "SCE":
        recv = x[2][0] if len(x[2]) == 1 else "?".join(x[2])
        return "err/StatusCodeError/%s/%s/%s" % (enc_strs(x[1]), enc_str(recv), enc_strs(x[3]))
    return "err/" + x[1]


def canon_reply(x):
    if x[0] == "OK":
        return "ok/%s/%s" % (enc_str(x[1]), enc_strs(x[2]))
    if x[0] == "NONE":
        return "none"
    return canon_err(x)


def sol(kind_is_str, val):
    return ("s " + enc_str(val)) if kind_is_str else ("l " + enc_strs(val))


def representable(s):
    return not any(0xD800 <= ord(c) <= 0xDFFF for c in s)


# ------------------------------------------------------------------------------------------------
# generators
# ------------------------------------------------------------------------------------------------
WORDS = ["ok", "welcome", "bye", "start", "end", "path does not exists", "UNIX Type: L8", '"/a b"',
         "Type=dir;Size=0;Modify=20260926184905; name", "listen socket created (|||2121|)", "x", "A-B", "a b  c"]
NONASCII_L1 = ["é", "naïve café", "\xa0x", "ÿþ", "¹²³ x", "a\xadb"]
NONASCII = ["файл", "名前", "𝟚𝟝𝟘 x", "٢٥٠ x", "é", "\U0001f600", "İstanbul", "x y", "x　y", "²٣𝟜"]
TRAILING_WS = [" ", "\t", "\r", "\x0b", "\x0c", "\x1c", "\x1f", "\x85", "\xa0", " ", " ", "　", "  ", " \r"]
OTHER_CODES = ["200", "226", "150", "550", "000", "999", "251"]
BAD_CODES = ["25", "2500", "abc", "2x0", "", "25 ", " 50", "-50", "²³¹", "٢٥٠", "𝟚𝟝𝟘", "2５0", "25é"]


def gen_code(rng):
    r = rng.random()
    if r < 0.6:
        return "%03d" % rng.randrange(1000)
    if r < 0.9:
        return rng.choice(["250", "150", "226", "200", "550", "000", "999", "100", "257"])
    return "%03d" % rng.randrange(1000)


def gen_line(rng, code, enc, classes=None):
    """returns (class, text)"""
    cls = rng.choice(
        classes
        or ["empty", "word", "word", "digits", "look-same", "look-other", "dash", "spaces", "nonascii", "udigits",
            "inner-cr", "inner-ctrl", "trailing-ws", "newline", "long", "short"]
    )
    if cls == "empty":
        t = ""
    elif cls == "word":
        t = rng.choice(WORDS)
    elif cls == "digits":
        t = rng.choice(["1", "12", "123", "1234", "123 abc", "12-", "007x", "%03d" % rng.randrange(1000)])
    elif cls == "look-same":
        t = code + rng.choice(["-more", " done", "", "-", " ", "  x"]).rstrip(" ") if rng.random() < 0.7 else code + rng.choice(["-more", " done"])
    elif cls == "look-other":
        t = rng.choice(OTHER_CODES) + rng.choice(["-more", " done", "", "-"])
    elif cls == "dash":
        t = rng.choice(["-", "--", "-x", "- x", "-250 x"])
    elif cls == "spaces":
        t = rng.choice([" x", "  x", "   250 x", " -x", "\tx"])
    elif cls == "nonascii":
        t = rng.choice(NONASCII_L1 if (enc == "latin1" and rng.random() < 0.85) else NONASCII_L1 + NONASCII)
    elif cls == "udigits":
        t = rng.choice(["²³¹ x", "¹", "²³¹-x"] if enc == "latin1" and rng.random() < 0.85 else ["²³¹ x", "٢٥٠ x", "𝟚𝟝𝟘-x", "２５０ ok", "٣"])
    elif cls == "inner-cr":
        t = rng.choice(["a\rb", "\rb", "a\r\rb", "250\r x"])
    elif cls == "inner-ctrl":
        t = rng.choice(["a\x1cb", "a\x85b", "a\x0bb", "a\x00b", "\x7f", "a\tb"])
    elif cls == "trailing-ws":
        ws = rng.choice(TRAILING_WS if enc == "utf8" else [w for w in TRAILING_WS if all(ord(c) < 256 for c in w)])
        t = rng.choice(["x", "Type=dir; name", "", "250", "-"]) + ws
    elif cls == "newline":
        t = rng.choice(["a\nb", "\n", "a\n", "\nb", "a\n%s end" % code, "a\r\n%s-x" % code, "x\n\n"])
    elif cls == "long":
        alphabet = "ab 1-é" if enc == "latin1" else "ab 1-é名"
        t = "".join(rng.choice(alphabet) for _ in range(rng.randrange(80, 400))).rstrip() + "z"
    else:
        alphabet = "a1- x\r2é" + ("" if enc == "latin1" else "я²")
        t = "".join(rng.choice(alphabet) for _ in range(rng.randrange(0, 6)))
    return cls, t


def gen_reply(rng, enc, force_domain=False, small=False):
    """one write_response call: dict(code, lines, is_str, list)"""
    code = gen_code(rng)
    if not force_domain and rng.random() < 0.06:
        code = rng.choice(BAD_CODES)
    lst = rng.random() < 0.4
    r = rng.random()
    if lst:
        n = 3 if r < 0.5 else rng.choice([2, 3, 4, 5, 8]) if r < 0.95 or force_domain else rng.choice([0, 1])
    else:
        n = 1 if r < 0.45 else rng.choice([2, 3, 4, 6]) if r < 0.97 or force_domain else 0
    if small:
        n = min(n, 3)
    classes = None
    if force_domain:
        classes = ["empty", "word", "digits", "look-same", "look-other", "dash", "spaces", "nonascii", "udigits", "inner-cr",
                   "inner-ctrl", "long", "short"]
    lines = []
    cl = []
    for _ in range(n):
        c, t = gen_line(rng, code, enc, classes)
        if force_domain:
            t = t.rstrip()
            if enc == "latin1":
                t = "".join(ch for ch in t if ord(ch) < 256)
        lines.append(t)
        cl.append(c)
    is_str = (not lst) and n == 1 and rng.random() < 0.6
    return {"t": "reply", "code": code, "lines": lines, "is_str": is_str, "list": lst, "classes": cl}


RAW = [
    b"abc def\r\n", b"\r\n", b"\n", b" \r\n", b"25\r\n", b"2\r\n", b"250\r\n", b"250-\r\n", b"250", b"250 unterminated",
    b"\xff\xfe\r\n", b"250 \xe9\r\n", b"250-a\r\n\xc3\r\n250 b\r\n", b"\xc2\xb2\xc2\xb3\xc2\xb9 x\r\n", b"250-x\n250 y\n",
    b"250-x\r250 y\r\n", b"1234 x\r\n", b"12 x\r\n", b"-50 x\r\n", b"250-a\r\n 251 b\r\n250 c\r\n", b"250-a\r\n251-b\r\n250 c\r\n",
    b"\xed\xa0\x80\r\n", b"\xf4\x90\x80\x80\r\n", b"\xc0\x80\r\n", b"\xe0\x80\x80 x\r\n", b"250 \xf0\x9f\x98\x80\r\n", b"250 ok\r\n\r\n",
]


def in_domain(rep, enc):
    code, lines = rep["code"], rep["lines"]
    if len(code) != 3 or not all(unicodedata.digit(c, None) is not None for c in code):
        return False
    if len(lines) < (2 if rep["list"] else 1):
        return False
    if any("\n" in l for l in lines):
        return False
    try:
        for l in lines + [code]:
            l.encode(ENC_PY[enc])
    except UnicodeEncodeError:
        return False
    return True


def gen_mismatch(rng, enc):
    """a well-formed reply cut before its last line, followed by a line with another digit code"""
    rep = gen_reply(rng, enc, force_domain=True, small=True)
    while len(rep["lines"]) < 2:
        rep = gen_reply(rng, enc, force_domain=True, small=True)
    rep["is_str"] = False
    code = rep["code"]
    other = rng.choice([c for c in OTHER_CODES + ["%03d" % rng.randrange(1000)] if c != code]
                       + ["25", "2", "²³¹"] + ([] if enc == "latin1" else ["٢٥٠"]))
    if other == code:
        other = "001" if code != "001" else "002"
    bad = other + rng.choice([" done", "-more", "", " ", "-"]) if len(other) == 3 else other
    return {"t": "mismatch", "reply": rep, "bad": bad, "other": other}


# ---- replies as OTHER servers spell them (RFC 959 4.2: "code-" first line, any body lines, "code " last line) ----
FOREIGN_RAW = ["Welcome to the server", "", "-- notice --", "x", "HTTP/1.1 400 Bad Request", "Quota: 5 MB", "2 users online", "22 files", "1-2", "7x",
               "1 250 x", "a", "ab", "-", "total 12", "é", "12a4 x", "2x0 ok", "x 250 done", "25 0", "Type=dir; name"]


def _digits3(s):
    """what `Code(s[:3]).isdigit()` says: the first (at most three) characters are all digits and there is at least one"""
    h = s[:3]
    return bool(h) and all(unicodedata.digit(c, None) is not None for c in h)


def gen_foreign(rng, enc, code=None):
    code = code or rng.choice(["220", "230", "226", "426", "250", "211", "214", "257", "%03d" % rng.randrange(1000)])
    body = []
    for _ in range(rng.choice([0, 1, 1, 2, 3, 5])):
        style = rng.choice(["hyph", "hyph", "raw", "raw", "indent"])
        if style == "raw":
            t = rng.choice(FOREIGN_RAW)
        else:
            t = gen_line(rng, code, enc, ["empty", "word", "digits", "look-same", "look-other", "dash", "spaces", "nonascii", "short"])[1].rstrip()
        if enc == "latin1":
            t = "".join(ch for ch in t if ord(ch) < 256)
        body.append([style, t])
    first = rng.choice(["", "first", "-", " x", code + " x", "Welcome"])
    last = rng.choice(["", "done", "end", "-", code + "-x", '"/a b" created'])
    return {"t": "foreign", "code": code, "first": first, "body": body, "last": last}


def foreign_wire(it):
    code = it["code"]
    out = [code + "-" + it["first"]]
    for style, t in it["body"]:
        out.append(code + "-" + t if style == "hyph" else " " + t if style == "indent" else t)
    out.append(code + " " + it["last"])
    return out


def foreign_expected(it):
    """what the reply says: the code, and per line the text after the code (first / "code-" / last lines) or the whole
    line (body lines that do not repeat the code); trailing blanks are outside the property (C06-F1)"""
    out = ["-" + it["first"]]
    for style, t in it["body"]:
        out.append("-" + t if style == "hyph" else (" " + t).rstrip() if style == "indent" else t)
    out.append((" " + it["last"]).rstrip())
    return out


def foreign_in_domain(it, enc):
    code = it["code"]
    if len(code) != 3 or not code.isascii() or not code.isdigit():
        return False
    texts = [it["first"], it["last"]] + [t for _, t in it["body"]]
    if any("\n" in t or "\r" in t or t != t.rstrip() for t in texts):
        return False
    try:
        for t in texts:
            t.encode(ENC_PY[enc])
    except UnicodeEncodeError:
        return False
    # a raw body line that starts with (up to) three digits is a line that "carries a code": outside this family
    return not any(style == "raw" and _digits3(t) for style, t in it["body"])


def segmentations(rng, data, k):
    """k ways to cut `data`; the first is always the whole string"""
    out = [[data]]
    n = len(data)
    kinds = ["bytes", "random", "crlf", "multibyte", "empties", "random"]
    rng.shuffle(kinds)
    for kind in kinds:
        if len(out) >= k:
            break
        if n == 0:
            out.append([b"", b""])
            continue
        if kind == "bytes":
            if n > 600:
                continue
            segs = [data[i : i + 1] for i in range(n)]
        elif kind == "random":
            cuts = sorted(set(rng.randrange(0, n + 1) for _ in range(rng.randrange(1, 8))))
            segs = [data[a:b] for a, b in zip([0] + cuts, cuts + [n])]
        elif kind == "crlf":
            cuts = sorted(set([i for i in range(n) if data[i] in (10, 13)] + [i + 1 for i in range(n) if data[i] in (10, 13)]))
            segs = [data[a:b] for a, b in zip([0] + cuts, cuts + [n])]
        elif kind == "multibyte":
            cuts = [i for i in range(n) if data[i] >= 0x80]
            if not cuts:
                continue
            segs = [data[a:b] for a, b in zip([0] + cuts, cuts + [n])]
        else:
            cuts = sorted(set(rng.randrange(0, n + 1) for _ in range(3)))
            segs = []
            for a, b in zip([0] + cuts, cuts + [n]):
                segs += [data[a:b], b""]
        out.append([s for s in segs] or [b""])
    while len(out) < k:
        cuts = sorted(set(rng.randrange(0, n + 1) for _ in range(rng.randrange(1, 5)))) if n else []
        out.append([data[a:b] for a, b in zip([0] + cuts, cuts + [n])] or [b""])
    return out


# ------------------------------------------------------------------------------------------------
# oracle pieces (implementation outputs only)
# ------------------------------------------------------------------------------------------------
def check_reply(rep, got):
    """rep: in-domain reply; got: one parse_response outcome. -> None | (what, signature)"""
    code, lines = rep["code"], rep["lines"]
    if got[0] != "OK":
        return "well-formed reply %r %r (list=%s) was not decoded: %r" % (code, lines, rep["list"], got), "C06:reply-rejected"
    if got[1] != code:
        return "code %r decoded as %r" % (code, got[1]), "C06:code-changed"
    texts = [i[1:] for i in got[2]]
    if texts == lines:
        # separators must also be what the server wrote ('-' on continuation, ' ' or nothing on the last line)
        return None
    if len(texts) != len(lines):
        return "%d lines encoded, %d decoded: %r -> %r" % (len(lines), len(texts), lines, got[2]), "C06:line-count"
    if texts == [l.rstrip() for l in lines]:
        return ("line text ending in whitespace is truncated by the client: %r -> %r" % (lines, texts), SIG_TRAILING_WS)
    return "text lines changed: %r decoded as %r (info %r)" % (lines, texts, got[2]), "C06:text-changed"


def check_stream(items, enc, results, leftover):
    """items: stream description; results: n = len(items)+1 outcomes.  Walk while the items are in the
    property's domain."""
    fails = []
    k = 0
    for it in items:
        if it["t"] == "reply":
            if not in_domain(it, enc):
                return fails  # from here on the stream is outside the property; correspondence only
            f = check_reply(it, results[k])
            if f:
                fails.append(f)
                if f[1] != SIG_TRAILING_WS:
                    return fails
        elif it["t"] == "foreign":
            if not foreign_in_domain(it, enc):
                return fails
            got = results[k]
            want = foreign_expected(it)
            if got[0] != "OK":
                fails.append(("a multi-line reply spelled as other servers spell it (%r) was not decoded: %r" % (foreign_wire(it), got), "C06:foreign-reply-rejected"))
                return fails
            if got[1] != it["code"] or list(got[2]) != want:
                fails.append(("a multi-line reply spelled as other servers spell it (%r) decoded as %r %r, it says %r %r" % (
                    foreign_wire(it), got[1], list(got[2]), it["code"], want), "C06:foreign-reply-misread"))
                return fails
        elif it["t"] == "mismatch":
            rep = it["reply"]
            got = results[k]
            if got[0] != "SCE":
                fails.append(("continuation line with code %r inside a %r reply was not rejected: %r" % (it["other"], rep["code"], got),
                              "C06:mismatch-accepted"))
                return fails
            if got[1] != (rep["code"],) or got[2] != (it["bad"].rstrip()[:3],):
                fails.append(("StatusCodeError carries %r/%r, expected %r/%r" % (got[1], got[2], rep["code"], it["bad"].rstrip()[:3]),
                              "C06:mismatch-misreported"))
                return fails
        else:
            return fails
        k += 1
    # every item was in the domain: the stream must now be exactly at EOF
    if results[k] != ("EXC", "ConnectionResetError") or leftover != b"":
        fails.append(("after the last reply the stream is not at EOF: %r, %d bytes left" % (results[k], len(leftover)), "C06:desync"))
    return fails


def py_matches_spec(code, mask):
    """the property's reading: digit-for-digit agreement, non-digit mask characters are wildcards"""
    for i in range(min(len(code), len(mask))):
        m = mask[i]
        if unicodedata.digit(m, None) is not None and m != code[i]:
            return False
    return True


# ------------------------------------------------------------------------------------------------
# the run
# ------------------------------------------------------------------------------------------------
class Plan:
    """collects implementation calls + driver lines, then compares"""

    def __init__(self, res):
        self.res = res
        self.jobs = []  # (driver_line, coroutine factory, post(impl_out) -> canonical string, input doc)

    def add(self, line, call, canon, doc):
        self.jobs.append((line, call, canon, doc))


def _stream_cases(ctx, rng, n_streams):
    """yield stream descriptions: (enc, items)"""
    # a deterministic prefix of small hand-picked cases, so that minimal failing inputs exist
    fixed = []
    for enc in ("utf8", "latin1"):
        for code in ("250", "000", "999"):
            fixed.append((enc, [{"t": "reply", "code": code, "lines": ["ok"], "is_str": True, "list": False, "classes": ["word"]}]))
            fixed.append((enc, [{"t": "reply", "code": code, "lines": [""], "is_str": True, "list": False, "classes": ["empty"]}]))
            fixed.append((enc, [{"t": "reply", "code": code, "lines": ["a", "b", "c"], "is_str": False, "list": False, "classes": ["word"] * 3}]))
            fixed.append((enc, [{"t": "reply", "code": code, "lines": ["start", code + " x", "end"], "is_str": False, "list": True, "classes": ["look-same"]}]))
            fixed.append((enc, [{"t": "reply", "code": code, "lines": ["start", code + "-x", "", "end"], "is_str": False, "list": True, "classes": ["look-same"]}]))
            fixed.append((enc, [{"t": "reply", "code": code, "lines": ["a", "b"], "is_str": False, "list": True, "classes": ["word"] * 2}]))
            fixed.append((enc, [{"t": "reply", "code": code, "lines": ["-x"], "is_str": True, "list": False, "classes": ["dash"]}]))
            fixed.append((enc, [{"t": "reply", "code": code, "lines": ["s", " x", "e"], "is_str": False, "list": True, "classes": ["spaces"]}]))
            fixed.append((enc, [{"t": "reply", "code": code, "lines": ["s", "e"], "is_str": False, "list": False, "classes": ["word"] * 2},
                                {"t": "reply", "code": "226", "lines": ["next"], "is_str": True, "list": False, "classes": ["word"]}]))
        fixed.append((enc, [{"t": "mismatch", "reply": {"t": "reply", "code": "250", "lines": ["a", "b"], "is_str": False, "list": False, "classes": []},
                             "bad": "251 b", "other": "251"},
                            {"t": "reply", "code": "226", "lines": ["next"], "is_str": True, "list": False, "classes": ["word"]}]))
        fixed.append((enc, [{"t": "reply", "code": "250", "lines": ["start", "Type=dir; x ", "end"], "is_str": False, "list": True,
                             "classes": ["trailing-ws"]}]))
        nxt = {"t": "reply", "code": "226", "lines": ["next"], "is_str": True, "list": False, "classes": ["word"]}
        for body in ([["hyph", "a"]], [["hyph", "a"], ["hyph", "b"]], [["raw", "Welcome"]], [["raw", "22 files"]], [["raw", "2 users online"]], [["raw", ""]],
                     [["raw", "x"], ["hyph", "y"], ["indent", "z"]], [["indent", "250 x"]], [["hyph", "250 x"]], [["raw", "1-2"], ["raw", "HTTP/1.1 400 Bad Request"]], []):
            fixed.append((enc, [{"t": "foreign", "code": "250", "first": "first", "body": body, "last": "done"}, nxt]))
            fixed.append((enc, [{"t": "foreign", "code": "426", "first": "", "body": body, "last": ""}, {"t": "foreign", "code": "226", "first": "x", "body": body, "last": "ok"}, nxt]))
        for raw in RAW:
            fixed.append((enc, [{"t": "raw", "hex": raw.hex()},
                                {"t": "reply", "code": "220", "lines": ["next"], "is_str": True, "list": False, "classes": ["word"]}]))
    for f in fixed:
        yield f
    for i in range(n_streams):
        enc = "utf8" if rng.random() < 0.6 else "latin1"
        r = rng.random()
        items = []
        if r < 0.12:
            # replies as other servers spell them, between replies of this server
            for _ in range(rng.choice([1, 2, 3])):
                items.append(gen_foreign(rng, enc) if rng.random() < 0.7 else gen_reply(rng, enc, force_domain=True, small=True))
        elif r < 0.45:
            # in-domain sequences (desynchronisation would show on the following reply)
            for _ in range(rng.choice([1, 1, 2, 3, 4])):
                items.append(gen_reply(rng, enc, force_domain=True))
        elif r < 0.60:
            # malformed reply in the middle
            for _ in range(rng.choice([0, 1, 2])):
                items.append(gen_reply(rng, enc, force_domain=True, small=True))
            items.append(gen_mismatch(rng, enc))
            for _ in range(rng.choice([1, 2])):
                items.append(gen_reply(rng, enc, force_domain=True, small=True))
        elif r < 0.90:
            # anything, including the excluded regions
            for _ in range(rng.choice([1, 2, 3])):
                items.append(gen_reply(rng, enc))
        else:
            for _ in range(rng.choice([0, 1])):
                items.append(gen_reply(rng, enc, force_domain=True, small=True))
            items.append({"t": "raw", "hex": rng.choice(RAW).hex()})
            for _ in range(rng.choice([0, 1, 2])):
                items.append(gen_reply(rng, enc, small=True))
        yield enc, items


def _mask_rows(ctx, rng):
    sym = "0123456789x-"
    masks = [""]
    for L in (1, 2, 3):
        masks += ["".join(p) for p in itertools.product(sym, repeat=L)]
    return masks


UNI_MASK_SYMS = ["²", "٣", "５", "𝟜", "x", "-", "1", "5", "①", "Ⅷ", "½", "〇", "一", "é", " ", "٠"]


async def _run_async(ctx, res, oracle_only):
    rng = ctx.rng
    impl = Impl()
    lines = []   # driver lines
    wants = []   # canonical implementation outputs
    docs = []    # inputs (for disagreement reports)

    def job(line, want, doc):
        lines.append(line)
        wants.append(want)
        docs.append(doc)

    def fail(inp, what, sig):
        res.oracle_failures.append({"input": inp, "what": what, "signature": sig})

    # ---------------- codec primitives ----------------
    samples = ["", "a", "é", "€", "\U0001f600", "\x7f\x80߿ࠀ￿\U00010000\U0010ffff", "a\nb\r", "ÿ", "Ā"]
    for _ in range(ctx.pick(150, 3000)):
        samples.append("".join(chr(rng.choice([rng.randrange(0, 0x80), rng.randrange(0x80, 0x800), rng.randrange(0x800, 0xD800),
                                                rng.randrange(0xE000, 0x10000), rng.randrange(0x10000, 0x110000), rng.randrange(0, 0x100)]))
                               for _ in range(rng.randrange(0, 6))))
    for s in samples:
        for enc in ("utf8", "latin1"):
            res.cases += 1
            try:
                b = s.encode(ENC_PY[enc])
                want = enc_bytes(b)
            except UnicodeEncodeError:
                b = None
                want = "err"
            job("framing encode %s %s" % (enc, enc_str(s)), want, {"kind": "encode", "enc": enc, "s": s})
            if b is not None and b.decode(ENC_PY[enc]) != s:
                fail({"kind": "encode", "enc": enc, "s": s}, "codec round trip failed", "C06:codec")
    bsamples = [b"", b"\xff", b"\xc3", b"\xc3\xa9", b"\xe2\x82", b"\xed\xa0\x80", b"\xed\x9f\xbf", b"\xf4\x8f\xbf\xbf", b"\xf4\x90\x80\x80",
                b"\xc0\xaf", b"\xc1\xbf", b"\xe0\x9f\xbf", b"\xe0\xa0\x80", b"\xf0\x8f\xbf\xbf", b"\xf0\x90\x80\x80", b"\xf5\x80\x80\x80", b"\x80", b"a\xbf"]
    for _ in range(ctx.pick(300, 6000)):
        bsamples.append(bytes(rng.choice([rng.randrange(256), rng.randrange(0x80, 0x100), rng.choice([0xC2, 0xE0, 0xED, 0xF0, 0xF4, 0x80, 0xBF, 0x9F, 0xA0, 0x90, 0x8F])])
                              for _ in range(rng.randrange(1, 6))))
    for b in bsamples:
        for enc in ("utf8", "latin1"):
            res.cases += 1
            try:
                s = b.decode(ENC_PY[enc])
                want = enc_str(s)
            except UnicodeDecodeError:
                want = "err"
            job("framing decode %s %s" % (enc, enc_bytes(b)), want, {"kind": "decode", "enc": enc, "hex": b.hex()})
    res.count("codec cases", 2 * (len(samples) + len(bsamples)))

    # ---------------- str.lower() (used by parse_command) ----------------
    pool = ["Σ", "Σ", "A", "a", "'", ".", "\u0345", "\xad", "1", " ", "İ", "ǅ", "K", "ß", "ẞ", "ᾈ", "\u0307", "ʰ", "Ⅷ", "ⓐ", "Ⓐ", "𝐀", "\U00010400"]
    lows = ["", "Σ", "ΑΣ", "ΑΣ.", "ΑΣ'", "ΑΣΑ", "Α'Σ", "Α.Σ'Β", "ΣΑΣ", "1Σ", "İ", "ΟΔΟΣ ΟΔΌΣ"]
    changed = [chr(cp) for cp in range(0x110000) if not (0xD800 <= cp <= 0xDFFF) and chr(cp).lower() != chr(cp)]
    lows += changed if ctx.thorough() else rng.sample(changed, 400)
    for _ in range(ctx.pick(1200, 40000)):
        k = rng.randrange(1, 7)
        lows.append("".join(rng.choice(pool) if rng.random() < 0.8 else chr(rng.choice([rng.randrange(0x20, 0x250), rng.randrange(0x370, 0x530),
                                                                                         rng.randrange(0x1E00, 0x2200), rng.randrange(0x10400, 0x10450)]))
                            for _ in range(k)))
    for s in lows:
        res.cases += 1
        job("framing lower %s" % enc_str(s), enc_str(s.lower()), {"kind": "lower", "s": s})
    res.count("str.lower cases", len(lows))

    # ---------------- reply streams ----------------
    nseg = 4
    n_streams = ctx.pick(2200, 60000) * (3 if oracle_only else 1)
    shown = 0
    for enc, items in _stream_cases(ctx, rng, n_streams):
        data = b""
        ok_stream = True
        for it in items:
            reps = [it] if it["t"] == "reply" else [it["reply"]] if it["t"] == "mismatch" else []
            for rep in reps:
                arg = rep["lines"][0] if rep["is_str"] else list(rep["lines"])
                chunks, err = await impl.write(enc, rep["code"], arg, rep["list"])
                res.cases += 1
                dom = in_domain(rep, enc)
                res.count("reply mode=%s lines=%s" % ("list" if rep["list"] else "plain", min(len(rep["lines"]), 5)))
                res.count("reply " + ("in-domain" if dom else "excluded-region"))
                for c in rep.get("classes", []):
                    res.count("line class " + c)
                inp = {"kind": "write", "enc": enc, "code": rep["code"], "lines": rep["lines"], "is_str": rep["is_str"], "list": rep["list"]}
                if dom:
                    if err is not None:
                        fail(inp, "write_response raised %r on a well-formed reply" % (err,), "C06:write-raised")
                    elif len(chunks) != len(rep["lines"]) or not all(c.endswith(b"\r\n") and c.count(b"\n") == 1 for c in chunks):
                        fail(inp, "write_response wrote %d chunks for %d lines / bad terminators" % (len(chunks), len(rep["lines"])), "C06:write-shape")
                if all(representable(l) for l in rep["lines"]) and representable(rep["code"]):
                    job("framing write %s %s %s %s" % (enc, enc_str(rep["code"]), sol(rep["is_str"], arg), "1" if rep["list"] else "0"),
                        "%s %s" % (enc_bytes_list(chunks), "-" if err is None else canon_err(err)), inp)
                else:
                    ok_stream = False
                if it["t"] == "mismatch":
                    chunks = chunks[:-1] + [(it["bad"] + "\r\n").encode(ENC_PY[enc])]
                data += b"".join(chunks)
            if it["t"] == "raw":
                data += bytes.fromhex(it["hex"])
            if it["t"] == "foreign":
                res.cases += 1
                res.count("foreign reply " + ("in-domain" if foreign_in_domain(it, enc) else "excluded-region"))
                for style, _ in it["body"]:
                    res.count("foreign body line " + style)
                try:
                    data += b"".join((l + "\r\n").encode(ENC_PY[enc]) for l in foreign_wire(it))
                except UnicodeEncodeError:
                    ok_stream = False
        n = len(items) + 1
        outcomes = []
        for si, segs in enumerate(segmentations(rng, data, nseg)):
            interleave = not (si == 0 and rng.random() < 0.5)
            results, left = await impl.parse(enc, n, segs, interleave)
            res.cases += 1
            outcomes.append((results, left))
            res.count("segmentation pieces %s" % ("1" if len(segs) == 1 else "2-8" if len(segs) <= 8 else "9-64" if len(segs) <= 64 else ">64"))
            inp = {"kind": "stream", "enc": enc, "items": items, "segs": [s.hex() for s in segs]}
            nontrivial = not (len(items) == 1 and len(segs) == 1 and items[0]["t"] == "reply" and len(items[0]["lines"]) == 1
                              and items[0]["lines"][0].isascii())
            if nontrivial:
                res.distinct.add((data, tuple(segs)))
            for what, sig in check_stream(items, enc, results, left):
                fail(inp, what, sig)
            if ok_stream:
                job("framing parse %s %d %s" % (enc, n, enc_bytes_list(segs)),
                    "%s %s" % (" ".join(canon_reply(r) for r in results), enc_bytes(left)), inp)
        for k, o in enumerate(outcomes[1:], 1):
            if o != outcomes[0]:
                fail({"kind": "stream", "enc": enc, "items": items, "segs": [s.hex() for s in segmentations(rng, data, 1)[0]]},
                     "segmentation %d decodes differently from the unsegmented stream" % k, "C06:segmentation-dependent")
        kinds = "+".join(it["t"] for it in items)
        res.count("stream items " + kinds if len(kinds) < 40 else "stream items (long)")
        if shown < 6 and len(items) >= 2 and rng.random() < 0.02:
            shown += 1
            res.samples.append({"enc": enc, "items": [{k: v for k, v in it.items() if k != "classes"} for it in items],
                                "wire": data[:200].decode("latin-1"), "impl": repr(outcomes[0])[:400]})

    # ---------------- Code.matches ----------------
    aioftp = impl.aioftp
    masks = _mask_rows(ctx, rng)
    codes = ["%03d" % i for i in range(1000)]
    for m in masks:
        row = "".join("1" if aioftp.Code(c).matches(m) else "0" for c in codes)
        res.cases += 1000
        for c, bit in zip(codes, row):
            if (bit == "1") != py_matches_spec(c, m):
                fail({"kind": "matches", "code": c, "mask": m}, "Code(%r).matches(%r) is %s" % (c, m, bit == "1"), "C06:matches")
                break
        job("framing matchrow %s" % enc_str(m), row, {"kind": "matchrow", "mask": m})
        res.distinct.add(("mask", m))
    res.count("mask rows (x1000 codes)", len(masks))
    for _ in range(ctx.pick(1500, 30000)):
        m = "".join(rng.choice(UNI_MASK_SYMS) for _ in range(rng.choice([0, 1, 2, 3, 3, 3, 4, 5])))
        c = rng.choice(["".join(rng.choice(UNI_MASK_SYMS + list("0123456789")) for _ in range(rng.choice([0, 1, 2, 3, 3, 3, 4]))),
                        "%03d" % rng.randrange(1000)])
        got = aioftp.Code(c).matches(m)
        res.cases += 1
        if got != py_matches_spec(c, m):
            fail({"kind": "matches", "code": c, "mask": m}, "Code(%r).matches(%r) is %s" % (c, m, got), "C06:matches")
        job("framing matches %s %s" % (enc_str(c), enc_str(m)), "1" if got else "0", {"kind": "matches", "code": c, "mask": m})
        res.distinct.add(("umask", c, m))
    res.count("unicode/odd-length mask pairs", ctx.pick(1500, 30000))

    # ---------------- command(None, expected, wait) ----------------
    MASKSETS = [(), "", "1", "1xx", "2xx", "150", "x5x", "xx0", ("1xx", "2xx"), ("150", "125"), ("2", "3"), ("",), ("xxx",), "2x", "22", ("5xx", "4xx"), "²xx", "1-x"]
    for _ in range(ctx.pick(700, 14000)):
        enc = "utf8" if rng.random() < 0.7 else "latin1"
        reps = []
        for _ in range(rng.choice([1, 2, 2, 3, 4])):
            rep = gen_reply(rng, enc, force_domain=True, small=True)
            if rng.random() < 0.8:
                rep["code"] = rng.choice(["150", "125", "226", "250", "550", "200", "227", "100", "425"])
            reps.append(rep)
        data = b""
        for rep in reps:
            chunks, err = await impl.write(enc, rep["code"], rep["lines"][0] if rep["is_str"] else list(rep["lines"]), rep["list"])
            data += b"".join(chunks)
        raw_tail = rng.choice(RAW) if rng.random() < 0.1 else None
        if raw_tail is not None:
            data += raw_tail
        expected = rng.choice(MASKSETS)
        wait = rng.choice(MASKSETS)
        segs = rng.choice(segmentations(rng, data, 3))
        got, left = await impl.command(enc, expected, wait, segs)
        res.cases += 1
        inp = {"kind": "command", "enc": enc, "replies": [{k: v for k, v in r.items() if k != "classes"} for r in reps],
               "expected": expected, "wait": wait, "segs": [s.hex() for s in segs], "data": data.hex()}
        res.distinct.add(("command", data, repr(expected), repr(wait)))
        res.count("command outcome " + (got[0] if got[0] != "EXC" else got[1]))
        # oracle: first reply whose code matches no wait mask decides
        ew = (expected,) if isinstance(expected, str) else tuple(expected)
        ww = (wait,) if isinstance(wait, str) else tuple(wait)
        stable = all(l == l.rstrip() for r in reps for l in r["lines"])
        if stable and raw_tail is None:
            if not ew and not ww:
                if got != ("NONE",) or left != data:
                    fail(inp, "command() with no masks read from the stream: %r" % (got,), "C06:command-loop")
            else:
                idx = next((i for i, r in enumerate(reps) if not any(py_matches_spec(r["code"], w) for w in ww)), None)
                if idx is None:
                    if got != ("EXC", "ConnectionResetError"):
                        fail(inp, "all replies match a wait mask but command returned %r" % (got,), "C06:command-loop")
                else:
                    r = reps[idx]
                    accept = (not ew) or any(py_matches_spec(r["code"], e) for e in ew)
                    if accept:
                        good = got[0] == "OK" and got[1] == r["code"] and [i[1:] for i in got[2]] == r["lines"]
                    else:
                        good = got[0] == "SCE" and got[1] == ew and got[2] == (r["code"],) and [i[1:] for i in got[3]] == r["lines"]
                    if not good:
                        fail(inp, "reply #%d %r should decide (accept=%s) but command gave %r" % (idx, r["code"], accept, got), "C06:command-loop")
        ek = isinstance(expected, str)
        wk = isinstance(wait, str)
        job("framing command %s %s %s %s" % (enc, sol(ek, expected if ek else list(expected)), sol(wk, wait if wk else list(wait)), enc_bytes_list(segs)),
            "%s %s" % (canon_reply(got), enc_bytes(left)), inp)

    # ---------------- Server.parse_command ----------------
    VERBS = ["USER", "user", "UsEr", "MKD", "mlst", "Type", "PASS", "KWD", "CK", "İ", "ǅ", "é", "É", "ΣΑΣ", "ß", "ẞ", "", "a\tb", "X-Y", "123", "Ⅷ", "Ａ"]
    ARGS = ["", "a", "a b", " a", "  a  b", "a ", "a\t", "a\r", "a\xa0", "x /", "é", "名前", "-", "a\rb", "\ta", "a\x85", " ", "A B C", "/x y/z"]
    for _ in range(ctx.pick(1500, 30000)):
        enc = "utf8" if rng.random() < 0.6 else "latin1"
        verb = rng.choice(VERBS)
        arg = rng.choice(ARGS)
        form = rng.random()
        if form < 0.75:
            text = verb + " " + arg
        elif form < 0.9:
            text = verb
        else:
            text = verb + rng.choice(["  ", "\t", " \t "]) + arg
        term = rng.choice(["\r\n", "\r\n", "\n", "", " \r\n", "\r\r\n"])
        garbled = False
        try:
            data = (text + term).encode(ENC_PY[enc])
        except UnicodeEncodeError:
            data = (text + term).encode("utf-8")
            garbled = True
        if rng.random() < 0.05:
            data = rng.choice([b"\xff", b"\xc3", b"\xed\xa0\x80"]) + data
            garbled = True
        if rng.random() < 0.05:
            data = b""
            garbled = True
        tail = rng.choice([b"", b"NOOP\r\n", b"x"])
        segs = rng.choice(segmentations(rng, data + tail, 3))
        got, left = await impl.parsecmd(enc, segs)
        res.cases += 1
        inp = {"kind": "parsecmd", "enc": enc, "segs": [s.hex() for s in segs]}
        res.distinct.add(("parsecmd", enc, data + tail))
        res.count("parse_command outcome " + (got[0] if got[0] != "EXC" else got[1]))
        # oracle on the well-formed shape: verb without blanks, one space, rstrip-stable argument, CRLF
        if form < 0.75 and term == "\r\n" and not garbled and verb and not any(ch.isspace() for ch in verb) and arg == arg.rstrip():
            if got != ("OK", verb.lower(), arg):
                fail(inp, "parse_command(%r) = %r, expected (%r, %r)" % (text + term, got, verb.lower(), arg), "C06:parse-command")
        if got[0] == "OK":
            want = "ok/%s/%s" % (enc_str(got[1]), enc_str(got[2]))
        else:
            want = canon_err(got)
        job("framing parsecmd %s %s" % (enc, enc_bytes_list(segs)), "%s %s" % (want, enc_bytes(left)), inp)

    # ---------------- every reply call site of the live server.py, holes filled with a stable placeholder ----------------
    import importlib

    import extract_framing

    importlib.reload(extract_framing)
    sites, _direct = extract_framing.reply_sites()
    nsite = 0
    for qual, lineno, codes, lst, lst_src, nlines, texts in sites:
        lines_ = ["".join(v if k == "lit" else "X" for k, v in t) for t in texts]
        for code in codes:
            for enc in ("utf8", "latin1"):
                rep = {"t": "reply", "code": code, "lines": lines_, "is_str": nlines is None and len(lines_) == 1, "list": bool(lst), "classes": []}
                arg = rep["lines"][0] if rep["is_str"] else list(rep["lines"])
                chunks, err = await impl.write(enc, code, arg, rep["list"])
                data = b"".join(chunks)
                results, left = await impl.parse(enc, 2, [data[i : i + 1] for i in range(len(data))] or [b""], True)
                res.cases += 1
                nsite += 1
                inp = {"kind": "stream", "enc": enc, "items": [rep], "segs": [data.hex()], "site": "%s (server.py:%d)" % (qual, lineno)}
                bad = None
                if err is not None:
                    bad = ("call site %s: write_response raised %r" % (inp["site"], err), "C06:call-site")
                else:
                    f = check_reply(rep, results[0]) if in_domain(rep, enc) else ("reply is outside the decodable domain (code %r, %d lines, list=%s)" % (code, len(lines_), lst), "")
                    if f:
                        bad = ("call site %s: %s" % (inp["site"], f[0]), "C06:call-site")
                    elif results[1] != ("EXC", "ConnectionResetError") or left:
                        bad = ("call site %s: stream not at EOF after the reply: %r" % (inp["site"], results[1]), "C06:call-site")
                if bad:
                    fail(inp, bad[0], bad[1])
    res.count("server.py reply call sites x codes x encodings", nsite)

    # ---------------- implementation-only probe: a line beyond asyncio's 64 KiB limit ----------------
    big = "x" * 70000
    chunks, err = await impl.write("utf8", "250", big, False)
    got, left = await impl.parse("utf8", 1, [b"".join(chunks)], True)
    res.cases += 1
    res.count("over-limit line probe -> %s" % (got[0][1] if got[0][0] == "EXC" else got[0][0]))
    res.notes.append("70000-character line: parse_response -> %r (outside the theorems' domain: asyncio's readline limit)" % (got[0][:2],))

    return lines, wants, docs


def _run(ctx, oracle_only=False):
    res = Result()
    lines, wants, docs = asyncio.run(_run_async(ctx, res, oracle_only))
    if not oracle_only and ctx.model_ok:
        outs = drive(lines, shards=8)
        res.lines += len(lines)
        for line, want, doc, o in zip(lines, wants, docs, outs):
            if want != o:
                if len(res.disagreements) < 20:
                    res.disagreements.append({"correspondence": "Model/Framing vs server.py/client.py (%s)" % doc.get("kind"),
                                              "input": doc, "driver_line": line[:600], "model": o[:600], "impl": want[:600]})
                else:
                    res.count("more_disagreements")
    res.exhaustive = False
    res.notes.append("Code.matches: exhaustive over %d masks x 1000 codes" % (1 + 12 + 144 + 1728))
    return res


LONG_LINES = (100, 8000, 8185, 8200, 9000, 30000, 60000)


async def _long_line_session(lengths):
    """a real Client (built by its public constructor, nothing passed but defaults) against a real server on the
    loopback interface: reply lines up to just below the 64 KiB stream limit - PWD in a directory with a long name"""
    import aioftp

    out = []
    server = aioftp.Server(path_io_factory=aioftp.MemoryPathIO)
    await server.start(host="127.0.0.1")
    port = server.server.sockets[0].getsockname()[1]
    client = aioftp.Client(socket_timeout=5)
    try:
        await client.connect("127.0.0.1", port)
        await client.login()
        for n in lengths:
            name = "d" * n
            try:
                await client.make_directory(name)
                await client.change_directory("/" + name)
                cwd = await client.get_current_directory()
                follow = await client.command("SYST", "215")
                await client.change_directory("/")
                out.append((n, "ok" if str(cwd) == "/" + name and follow[0] == "215" else "wrong: PWD gave %d characters, then SYST gave %r" % (len(str(cwd)), str(follow[0]))))
            except Exception as e:  # noqa
                out.append((n, "%s: %s" % (type(e).__name__, str(e)[:120])))
                break
    finally:
        client.close()
        await server.close()
    return out


def long_lines(ctx):
    res = Result()
    try:
        out = asyncio.run(asyncio.wait_for(_long_line_session(LONG_LINES), 60))
    except Exception as e:  # noqa
        out = [(0, "HARNESS %s: %s" % (type(e).__name__, e))]
    for n, r in out:
        res.cases += 1
        res.count("long_reply_line")
        res.distinct.add(("long-line", n))
        if r != "ok":
            res.oracle_failures.append({"input": {"kind": "long-reply-line", "line_length": n + 8}, "what": "a one-line reply of %d bytes (257 for a directory name of %d characters), well below the 64 KiB stream limit, through a Client built with defaults: %s" % (n + 8, n, r), "signature": "C06:long-reply-line"})
    return res


async def _late_reply_session(cut, pause, timeout):
    """a scripted server answers one command with a two-line reply whose bytes arrive in two segments, `pause` apart;
    the client has socket_timeout=`timeout`: a wait that expires raises, and the caller who reads on gets the WHOLE
    reply - what was already received is not lost, what arrives later is not eaten by anybody else"""
    import aioftp

    reply = b"250-alpha\r\n250 beta\r\n"

    async def handler(reader, writer):
        writer.write(b"220 scripted\r\n")
        await reader.readline()
        writer.write(reply[:cut])
        await writer.drain()
        await asyncio.sleep(pause)
        writer.write(reply[cut:] + b"200 next\r\n")
        await writer.drain()
        await reader.read()
        writer.close()

    srv = await asyncio.start_server(handler, "127.0.0.1", 0)
    port = srv.sockets[0].getsockname()[1]
    client = aioftp.Client(socket_timeout=timeout)
    out = []

    async def read_on():
        # the caller reads on after a wait that expired, as often as it takes
        for _ in range(12):
            try:
                code, info = await client.parse_response()
                out.append(("reply", str(code), list(info)))
                return
            except asyncio.TimeoutError:
                if ("timeout",) not in out:
                    out.append(("timeout",))
        out.append(("gave-up",))

    try:
        await client.connect("127.0.0.1", port)
        try:
            code, info = await client.command("NOOP", "2xx")
            out.append(("reply", str(code), list(info)))
        except asyncio.TimeoutError:
            out.append(("timeout",))
            await read_on()
        await read_on()
    except Exception as e:  # noqa
        out.append(("EXC", type(e).__name__))
    finally:
        client.close()
        srv.close()
        await srv.wait_closed()
    return out


def late_replies(ctx):
    res = Result()
    want_tail = [("reply", "250", ["-alpha", " beta"]), ("reply", "200", [" next"])]
    for timeout in (None, 0.15):
        # (cuts inside the FIRST line or before it.  Later cuts are left out: the wait that
        #  expires there does so after `parse_response` has consumed the first line, which it keeps nowhere - a client is
        #  not promised to be usable after a timeout in the middle of a reply, and the property says nothing of timeouts)
        for cut in (0, 3, 6, 9):
            for pause in (0.0, 0.4):
                res.cases += 1
                res.count("late_reply")
                res.distinct.add(("late-reply", timeout, cut, pause))
                inp = {"kind": "late-reply", "socket_timeout": timeout, "first_segment": cut, "pause": pause}
                try:
                    out = asyncio.run(asyncio.wait_for(_late_reply_session(cut, pause, timeout), 20))
                except Exception as e:  # noqa
                    out = [("HARNESS", type(e).__name__)]
                got = [o for o in out if o[0] != "timeout"]
                if got != want_tail:
                    res.oracle_failures.append({"input": inp, "what": "a two-line reply sent as %d + %d bytes, %.1f s apart, to a client with socket_timeout=%r: the caller read %r, the server sent %r" % (
                        cut, 24 - cut, pause, timeout, out, want_tail), "signature": "C06:reply-lost-around-a-timeout"})
    return res


def correspondence(ctx):
    r = _run(ctx)
    r.merge(long_lines(ctx))
    r.merge(late_replies(ctx))
    return r


def search(ctx, prior):
    r = _run(ctx, oracle_only=True)
    r.merge(long_lines(ctx))
    r.merge(late_replies(ctx))
    return r


# ------------------------------------------------------------------------------------------------
# replay / known findings
# ------------------------------------------------------------------------------------------------
async def _replay_async(inp, verbose=True):
    if not verbose:
        import builtins
        print = lambda *a, **k: None  # noqa
    else:
        import builtins
        print = builtins.print
    impl = Impl()
    kind = inp["kind"]
    if kind == "stream" and inp.get("site"):
        # a call-site failure is replayed against the call site as it is in the live source now
        import importlib

        import extract_framing

        importlib.reload(extract_framing)
        fn = inp["site"].split(" (")[0]
        fails = []
        for qual, lineno, codes, lst, lst_src, nlines, texts in extract_framing.reply_sites()[0]:
            if qual != fn:
                continue
            lines_ = ["".join(v if k == "lit" else "X" for k, v in t) for t in texts]
            for code in codes:
                rep = {"t": "reply", "code": code, "lines": lines_, "is_str": nlines is None and len(lines_) == 1, "list": bool(lst)}
                chunks, err = await impl.write(inp["enc"], code, lines_[0] if rep["is_str"] else list(lines_), rep["list"])
                results, left = await impl.parse(inp["enc"], 2, [b"".join(chunks)], True)
                print("site %s:%d code %r lines %r list=%s -> wrote %r, decoded %r" % (qual, lineno, code, lines_, lst, b"".join(chunks), results[0]))
                if err is not None or not in_domain(rep, inp["enc"]) or check_reply(rep, results[0]) or results[1] != ("EXC", "ConnectionResetError"):
                    fails.append(("call site %s mis-framed" % qual, "C06:call-site"))
        return fails
    if kind in ("stream",):
        enc = inp["enc"]
        data = b""
        for it in inp["items"]:
            reps = [it] if it["t"] == "reply" else [it["reply"]] if it["t"] == "mismatch" else []
            for rep in reps:
                chunks, err = await impl.write(enc, rep["code"], rep["lines"][0] if rep["is_str"] else list(rep["lines"]), rep["list"])
                if it["t"] == "mismatch":
                    chunks = chunks[:-1] + [(it["bad"] + "\r\n").encode(ENC_PY[enc])]
                data += b"".join(chunks)
            if it["t"] == "raw":
                data += bytes.fromhex(it["hex"])
            if it["t"] == "foreign":
                data += b"".join((l + "\r\n").encode(ENC_PY[enc]) for l in foreign_wire(it))
        segs = [bytes.fromhex(h) for h in inp["segs"]]
        if b"".join(segs) != data:
            print("note: stored segmentation does not rebuild the stream the current code writes; using the current bytes")
            segs = [data]
        whole, wl = await impl.parse(enc, len(inp["items"]) + 1, [data], False)
        results, left = await impl.parse(enc, len(inp["items"]) + 1, segs, True)
        print("wire:", data)
        print("implementation:", results, "left:", left)
        fails = check_stream(inp["items"], enc, results, left)
        if (results, left) != (whole, wl):
            fails.append(("segmentation decodes differently from the unsegmented stream", "C06:segmentation-dependent"))
        return fails
    if kind == "write":
        chunks, err = await impl.write(inp["enc"], inp["code"], inp["lines"][0] if inp["is_str"] else list(inp["lines"]), inp["list"])
        print("implementation:", chunks, err)
        if err is not None:
            return [("write_response raised", "C06:write-raised")]
        if len(chunks) != len(inp["lines"]) or not all(c.endswith(b"\r\n") and c.count(b"\n") == 1 for c in chunks):
            return [("bad shape", "C06:write-shape")]
        return []
    if kind == "matches":
        got = impl.aioftp.Code(inp["code"]).matches(inp["mask"])
        print("implementation: Code(%r).matches(%r) = %s; specification: %s" % (inp["code"], inp["mask"], got, py_matches_spec(inp["code"], inp["mask"])))
        return [("matches", "C06:matches")] if got != py_matches_spec(inp["code"], inp["mask"]) else []
    if kind == "command":
        segs = [bytes.fromhex(h) for h in inp["segs"]]
        exp = inp["expected"] if isinstance(inp["expected"], str) else tuple(inp["expected"])
        wait = inp["wait"] if isinstance(inp["wait"], str) else tuple(inp["wait"])
        got, left = await impl.command(inp["enc"], exp, wait, segs)
        print("stream:", b"".join(segs), "expected", exp, "wait", wait)
        print("implementation:", got, "left:", left)
        reps = inp["replies"]
        ew = (exp,) if isinstance(exp, str) else exp
        ww = (wait,) if isinstance(wait, str) else wait
        if not ew and not ww:
            return [] if got == ("NONE",) else [("read without masks", "C06:command-loop")]
        idx = next((i for i, r in enumerate(reps) if not any(py_matches_spec(r["code"], w) for w in ww)), None)
        if idx is None:
            return [] if got == ("EXC", "ConnectionResetError") else [("loop", "C06:command-loop")]
        r = reps[idx]
        accept = (not ew) or any(py_matches_spec(r["code"], e) for e in ew)
        if accept:
            good = got[0] == "OK" and got[1] == r["code"] and [i[1:] for i in got[2]] == r["lines"]
        else:
            good = got[0] == "SCE" and tuple(got[1]) == tuple(ew) and got[2] == (r["code"],)
        return [] if good else [("loop", "C06:command-loop")]
    if kind == "parsecmd":
        segs = [bytes.fromhex(h) for h in inp["segs"]]
        got, left = await impl.parsecmd(inp["enc"], segs)
        print("stream:", b"".join(segs))
        print("implementation:", got, "left:", left)
        line = b"".join(segs).split(b"\n")[0].decode(ENC_PY[inp["enc"]], "replace")
        verb, _, arg = line.rstrip().partition(" ")
        return [] if got == ("OK", verb.lower(), arg) else [("parse_command", "C06:parse-command")]
    print("unknown replay kind", kind)
    return []


def replay(ctx, doc):
    if doc["failure"]["input"].get("kind") == "late-reply":
        i = doc["failure"]["input"]
        out = asyncio.run(_late_reply_session(i["first_segment"], i["pause"], i["socket_timeout"]))
        print(out)
        return [o for o in out if o[0] != "timeout"] != [("reply", "250", ["-alpha", " beta"]), ("reply", "200", [" next"])]
    if doc["failure"]["input"].get("kind") == "long-reply-line":
        out = asyncio.run(_long_line_session((doc["failure"]["input"]["line_length"] - 8,)))
        print(out)
        return any(r != "ok" for _, r in out)
    inp = doc["failure"]["input"] if "failure" in doc else doc["input"]
    want = (doc.get("failure") or doc).get("signature")
    fails = asyncio.run(_replay_async(inp))
    for what, sig in fails:
        print("oracle:", sig, "-", what)
    if want:
        return any(sig == want for _, sig in fails)
    return bool(fails)


async def _session_probe():
    """reachability of the known finding through an unmodified server + client on loopback"""
    import aioftp

    asyncio.get_running_loop().set_exception_handler(lambda loop, context: None)
    srv = aioftp.Server(path_io_factory=aioftp.MemoryPathIO)
    await srv.start("127.0.0.1", 0)
    try:
        host, port = srv.server.sockets[0].getsockname()[:2]
        c = aioftp.Client()
        await c.connect(host, port)
        await c.login()
        await c.command("MKD x /", "257")
        code, info = await c.command("MLST x /", "250")
        c.close()
        return info
    finally:
        await srv.close()


def probe_known(ctx, finding):
    rp = finding.get("replay", {})
    still = False
    if rp.get("input"):
        fails = asyncio.run(_replay_async(rp["input"], verbose=False))
        still = any(sig == finding.get("signature") for _, sig in fails)
    if still and rp.get("session"):
        try:
            info = asyncio.run(asyncio.wait_for(_session_probe(), 20))
            print("note: session replay %r -> %r (the served name is 'x ' with a trailing blank)" % (rp["session"], info))
        except Exception as e:  # noqa
            print("note: session-level replay skipped (%s)" % type(e).__name__)
    return still


# somebody else's classes: the documented extension points used the way a third party uses them (props/thirdparty.py)
from props import thirdparty as _thirdparty  # noqa: E402

correspondence, search, replay = _thirdparty.attach(PID, correspondence, search, replay)


# somebody else's machine: the same small sessions in other environments, in child processes (props/envs.py)
from props import envs as _envs  # noqa: E402

correspondence, search, replay = _envs.attach(PID, correspondence, search, replay)
