"""C04, wire level: sessions on a permission table.  Every effect must lie under an entry that allows it:
tree changes only under writable entries (the path addressed when the command was RECEIVED), successful
reads only under readable entries, and a 550 changes neither tree nor working directory.  The same
histories are compared with the Lean session model (which interprets the regenerated guard stacks)."""
import socket

import framework as F
import seqrun as S
from framework import Result, drive

W_PERMS = [("/", True, True), ("/ro", True, False), ("/ro/rw", True, True), ("/wo", False, True), ("/none", False, False), ("/ro/rw/deep/ro2", True, False)]
W_TREE = [
    (("ro",), None), (("ro", "a.txt"), b"ro-a"), (("ro", "rw"), None), (("ro", "rw", "b.txt"), b"rw-b"), (("ro", "rw", "deep"), None),
    (("ro", "rw", "deep", "ro2"), None), (("ro", "rw", "deep", "ro2", "c.txt"), b"ro2-c"), (("wo",), None), (("wo", "d.txt"), b"wo-d"),
    (("none",), None), (("none", "e.txt"), b"none-e"), (("free",), None), (("free", "a.txt"), b"free-a"), (("top.txt",), b"top"),
    # the same relative spelling below two working directories, under entries that differ
    (("free", "wo"), None), (("free", "wo", "d.txt"), b"free-wo-d"), (("free", "ro"), None), (("free", "ro", "a.txt"), b"free-ro-a"),
]
W_DIRS = ["/", "/ro", "/ro/rw", "/ro/rw/deep/ro2", "/wo", "/none", "/free"]
W_NAMES = ["a.txt", "b.txt", "c.txt", "d.txt", "e.txt", "top.txt", "new.bin", "newdir"]


# a second table whose entries and names are not ASCII: each protected name has a canonically equivalent twin spelling
# (composed / decomposed) that is a DIFFERENT name - to the permission table, to the backend and on the wire
NFC_E, NFD_E = "priv\u00e9", "prive\u0301"
NFC_N, NFD_N = "ma\u00f1ana", "man\u0303ana"
U_PERMS = [("/", True, True), ("/" + NFC_E, False, False), ("/" + NFD_N, True, False), ("/open", True, True)]
U_TREE = [
    ((NFC_E,), None), ((NFC_E, "secret.txt"), b"secret"), ((NFC_E, "sub"), None), ((NFD_N,), None), ((NFD_N, "ro.txt"), b"ro"),
    (("open",), None), (("open", "a.txt"), b"a"), (("\u212b.txt",), b"angstrom sign"),
]
U_ARGS = ["/" + NFC_E, "/" + NFD_E, "/" + NFC_E + "/secret.txt", "/" + NFD_E + "/secret.txt", "/" + NFD_E + "/sub", "/" + NFD_E + "/new.bin", NFD_E, NFD_E + "/secret.txt",
          "/open/../" + NFD_E + "/secret.txt", "/" + NFC_N + "/ro.txt", "/" + NFD_N + "/ro.txt", "/" + NFC_N, "/" + NFC_N + "/new.bin", "/open/a.txt", "/\u00c5.txt", "/\u212b.txt",
          "/A\u030a.txt", "/" + NFC_E.upper(), "/open/" + NFD_E]


def users(perms=None):
    import world as W

    return [W.UserSpec("bob", None, home="/", perms=perms or W_PERMS)]


def gen_unicode(ctx):
    rng = ctx.rng
    hist = []
    for verb in ("MLST", "CWD", "DELE", "RMD", "MKD", "RNFR"):
        for a in U_ARGS:
            hist.append([verb + " " + a, "PWD"])
    for a in U_ARGS:
        hist.append(["RNFR " + a, "RNTO /open/moved"])
        hist.append(["RNFR /open/a.txt", "RNTO " + a])
        for v in ("RETR", "STOR", "APPE", "LIST", "MLSD"):
            hist.append(["EPSV", "@data", v + " " + a])
        hist.append(["CWD " + a, "EPSV", "@data", "RETR secret.txt", "DELE secret.txt", "MKD made", "CDUP", "PWD"])
    for _ in range(ctx.pick(60, 800)):
        seq = []
        for _ in range(rng.randint(2, 6)):
            v = rng.choice(["MKD", "RMD", "DELE", "RNFR", "RNTO", "STOR", "APPE", "RETR", "CWD", "MLST", "LIST", "MLSD"])
            if v in ("STOR", "APPE", "RETR", "LIST", "MLSD"):
                seq += ["EPSV", "@data"]
            seq.append(v + " " + rng.choice(U_ARGS))
        hist.append(seq)
    return hist


def nearest(parts, perms=None):
    best = None
    for p, r, w in perms or W_PERMS:
        pp = [x for x in p.split("/") if x]
        if parts[: len(pp)] == pp and (best is None or len(pp) > best[0]):
            best = (len(pp), r, w)
    return best[1], best[2]


def walk(cwd, arg):
    pos = [] if arg.startswith("/") else [x for x in cwd.split("/") if x]
    for seg in arg.split("/"):
        if seg in ("", "."):
            continue
        if seg == "..":
            if pos:
                pos.pop()
        else:
            pos.append(seg)
    return pos


def gen(ctx):
    rng = ctx.rng
    hist = []

    def spell(target_dir, name):
        base = target_dir.rstrip("/")
        return rng.choice([base + "/" + name, "/free/.." + base + "/" + name, base + "/./" + name])

    # RNFR in one place, CWD elsewhere, RNTO: the source stays the one addressed at RNFR time
    for d1 in W_DIRS:
        for d2 in W_DIRS:
            for name in ("a.txt", "b.txt", "d.txt", "top.txt"):
                hist.append(["CWD " + d1, "RNFR " + name, "CWD " + d2, "RNTO /free/moved.txt"])
                hist.append(["CWD " + d1, "RNFR " + name, "CWD " + d2, "RNTO moved.txt"])
    verbs = ["MKD", "RMD", "DELE", "RNFR", "RNTO", "STOR", "APPE", "RETR", "CWD", "MLST", "LIST", "MLSD", "CDUP"]
    for _ in range(ctx.pick(400, 5000)):
        seq = []
        for _ in range(rng.randint(2, 8)):
            v = rng.choice(verbs)
            if v == "CDUP":
                seq.append("CDUP")
                continue
            d = rng.choice(W_DIRS)
            n = rng.choice(W_NAMES)
            arg = rng.choice([n, spell(d, n), d, "../" + n, d.rstrip("/") + "/../" + n])
            if v in ("RNFR", "RNTO", "RMD", "DELE", "MKD") and arg == "/":
                arg = "/free"  # mutations aimed at the virtual root itself are outside the property (see C18)
            if v in ("STOR", "APPE", "RETR", "LIST", "MLSD"):
                seq += ["EPSV", "@data"]
            seq.append(v + " " + arg)
        hist.append(seq)
    return hist


def parse_tree(tok):
    out = {}
    if tok in ("~", None):
        return out
    for item in tok.split(";"):
        p, v = item.split("=", 1)
        out[tuple(F.dec_str(x) for x in p.split("|"))] = v
    return out


def cwd_of(snap):
    parts = snap["cwd"].split(":", 1)[1]
    return "/" if parts == "~" else "/" + "/".join(F.dec_str(x) for x in parts.split("|"))


def oracle(cmds, snaps, perms=None):
    """`snaps[0]` is the state before `cmds[0]`"""
    prev = snaps[0]
    for c, snap in zip(cmds, snaps[1:]):
        if snap is None or prev is None or snap["alive"] != "1":
            break
        if c.startswith("@"):
            prev = snap
            continue
        a, b = parse_tree(prev["fs"]), parse_tree(snap["fs"])
        changed = [k for k in set(a) | set(b) if a.get(k) != b.get(k)]
        # a moved / removed directory takes its descendants along: only the paths actually addressed count
        top = [k for k in changed if not any(k[:n] in changed for n in range(1, len(k)))]
        for k in top:
            r, w = nearest(list(k), perms)
            if not w:
                return {"what": "%r changed /%s which lies under a non-writable permission entry (replies %s)" % (c, "/".join(k), snap["replies"]), "signature": "C04:wire:modified-under-non-writable"}
        verb, _, arg = c.partition(" ")
        codes = snap["replies"].split(",") if snap["replies"] != "~" else []
        ok = bool(codes) and all(x[0] in "123" for x in codes)
        target = walk(cwd_of(prev), arg if verb != "CDUP" else "..")
        r, w = nearest(target, perms)
        if ok and verb in ("CWD", "LIST", "MLSD", "MLST", "RETR", "DELE", "RMD", "RNFR") and target and tuple(target) not in a:
            # the permission looked up for this spelling is the permission of a path the tree does not hold: whatever
            # was served or changed lies somewhere else
            return {"what": "%r succeeded (%s) although the tree holds nothing at /%s" % (c, snap["replies"], "/".join(target)), "signature": "C04:wire:served-a-path-the-tree-does-not-hold"}
        if ok and verb in ("CWD", "CDUP", "LIST", "MLSD", "MLST", "RETR") and not r:
            return {"what": "%r succeeded (%s) on /%s whose nearest permission entry is not readable" % (c, snap["replies"], "/".join(target)), "signature": "C04:wire:read-allowed-under-non-readable"}
        if ok and verb in ("MKD", "RMD", "DELE", "RNFR", "RNTO", "STOR", "APPE") and not w:
            return {"what": "%r succeeded (%s) on /%s whose nearest permission entry is not writable" % (c, snap["replies"], "/".join(target)), "signature": "C04:wire:write-allowed-under-non-writable"}
        if codes == ["550"] and prev["fs"] != snap["fs"]:
            return {"what": "%r was refused with 550 but the tree changed" % c, "signature": "C04:wire:refused-but-changed"}
        if codes == ["550"] and prev["cwd"] != snap["cwd"]:
            return {"what": "%r was refused with 550 but the working directory changed" % c, "signature": "C04:wire:refused-but-cwd-changed"}
        prev = snap
    return None


async def _pipelined_session(loop, start_dir, lines, delay):
    """`lines` sent in ONE segment from working directory `start_dir`, on a backend whose calls suspend: the handlers
    run side by side.  Returns (tree before, tree after, reply codes)."""
    import asyncio

    import spyio
    import world as W

    spy = spyio.Spy()
    wd = W.World(loop, users(), spy=spy)
    await wd.start()
    try:
        wd.set_tree(W_TREE)
        raw = await wd.raw_client()
        await W.run_line(wd, raw, b"USER bob")
        await W.run_line(wd, raw, ("CWD " + start_dir).encode())
        before = wd.tree()
        spy.delay = abs(delay)
        if delay < 0:
            # calls about FILES are slow, calls about directories fast: a CWD overtakes the checks of a file command
            spy.delay_fn = lambda name, shown: 0.05 if "." in str(shown).rsplit("/", 1)[-1] else 0
        n0 = len(raw.replies)
        raw.send_raw("".join(l + "\r\n" for l in lines).encode())
        await loop.settle()
        waited = 0.0
        while waited < 4.0 and not raw.eof and len([c for c, _ in raw.replies[n0:] if not c.startswith("1")]) < len(lines):
            await asyncio.sleep(0.25)
            waited += 0.25
            await loop.settle()
        spy.delay = 0
        spy.delay_fn = None
        codes = [c for c, _ in raw.replies[n0:]]
        after = wd.tree()
        raw.close()
        await loop.settle()
    finally:
        try:
            await wd.stop()
        except Exception:
            wd.finish()
    return before, after, codes


def _pipelined_job(args):
    import simnet

    try:
        return simnet.run(_pipelined_session, *args[:3], task_salt=args[3])
    except BaseException as e:  # noqa
        return "HARNESS-ERROR %s: %s" % (type(e).__name__, e)


def run_pipelined(ctx):
    """a mutating command with a RELATIVE argument and a CWD in one segment: whichever way the two handlers
    interleave, what changes lies under an entry that allows it (the path the permission was judged for)"""
    import multiprocessing
    import os

    res = Result()
    jobs = []
    firsts = ["DELE a.txt", "DELE b.txt", "RMD rw", "RMD deep", "MKD newdir", "RNFR a.txt\r\nRNTO moved.txt", "RNFR d.txt\r\nRNTO /free/moved.txt", "DELE ../top.txt"]
    for start in W_DIRS:
        for first in firsts:
            for d2 in W_DIRS:
                if d2 == start:
                    continue
                for delay, salt in ((0.01, 0), (-0.01, 1), (-0.01, 0), (0, 0)) if ctx.thorough() else ((-0.01 if len(jobs) % 2 else 0.01, (len(jobs) % 3)),):
                    jobs.append((start, [first, "CWD " + d2, "PWD"], delay, salt))
                    if ctx.thorough():
                        jobs.append((start, ["CWD " + d2, first], delay, salt))
    mp = multiprocessing.get_context("fork")
    with mp.Pool(min(16, os.cpu_count() or 4)) as pool:
        outs = pool.map(_pipelined_job, jobs, chunksize=8)
    for job, o in zip(jobs, outs):
        res.cases += 1
        res.count("wire_pipelined_pairs")
        inp = {"kind": "pipelined", "start": job[0], "lines": job[1], "backend_delay": job[2], "task_salt": job[3]}
        if isinstance(o, str):
            res.disagreements.append({"correspondence": "C04 pipelined harness", "input": inp, "impl": o})
            continue
        res.distinct.add(("pipelined", job[0], tuple(job[1])))
        a, b = parse_tree(o[0]), parse_tree(o[1])
        changed = [k for k in set(a) | set(b) if a.get(k) != b.get(k)]
        top = [k for k in changed if not any(k[:n] in changed for n in range(1, len(k)))]
        for k in top:
            r, w = nearest(list(k))
            if not w:
                res.oracle_failures.append({"input": inp, "what": "%r sent in one segment from %s changed /%s, which lies under a non-writable permission entry (replies %s)" % (job[1], job[0], "/".join(k), o[2]), "signature": "C04:wire:modified-under-non-writable"})
                break
    return res


def run_late(ctx):
    """a transfer checked in one working directory, a CWD, and only then the data connection"""
    from props import late_common as LC

    us = users()
    return LC.run_family(ctx, "C04", LC.c04_plans(ctx, W_DIRS), lambda p: (us, [None], W_TREE, p, ["USER bob"]),
                         lambda plan, recs: LC.c04_oracle(plan, recs, nearest))


def run(ctx, compare=True):
    from props import c05

    res = Result()
    for tag, perms, tree, hist in (("ascii", W_PERMS, W_TREE, gen(ctx)), ("unicode", U_PERMS, U_TREE, gen_unicode(ctx))):
        _run_universe(ctx, res, tag, perms, tree, hist, compare)
    return res


def _run_universe(ctx, res, tag, perms, tree, hist, compare):
    from props import c05

    W_TREE = tree  # noqa: N806 (the names below are those of the original single-table version)
    us = users(perms)
    jobs = [(us, W_TREE, c05.to_events(["USER bob"] + cmds), "memory", None, socket.AF_INET) for cmds in hist]
    outs = S.run_many(jobs)
    all_lines, spans = [], []
    for cmds, snaps in zip(hist, outs):
        res.cases += 1
        res.count("wire_histories_" + tag)
        if isinstance(snaps, str):
            res.disagreements.append({"correspondence": "wire harness", "input": cmds, "impl": snaps})
            continue
        res.distinct.add(("wire", tuple(cmds)))
        # snaps: [connect, USER bob, cmds…]
        f = oracle(cmds, snaps[1:], perms) if len(snaps) > 2 else None
        if f:
            f["input"] = {"wire_commands": cmds, "table": tag}
            res.oracle_failures.append(f)
        if compare:
            lines = S.model_lines(us, W_TREE, c05.to_events(["USER bob"] + cmds))
            spans.append((len(all_lines), len(lines), cmds, snaps))
            all_lines += lines
    if compare and ctx.model_ok and all_lines:
        mout = drive(all_lines)
        res.lines += len(all_lines)
        for start, n, cmds, snaps in spans:
            diffs = S.compare(snaps, mout[start : start + n])
            if diffs:
                if len(res.disagreements) < 10:
                    i, k, a, b = diffs[0]
                    res.disagreements.append({"correspondence": "Model.Session.step (permission guards) vs real dispatcher", "input": {"wire_commands": cmds, "table": tag}, "event": i, "field": k, "impl": a, "model": b})
                else:
                    res.count("more_disagreements")


def replay(inp):
    from props import c05

    if inp.get("kind") == "pipelined":
        o = _pipelined_job((inp["start"], inp["lines"], inp["backend_delay"], inp["task_salt"]))
        if isinstance(o, str):
            print(o)
            return True
        a, b = parse_tree(o[0]), parse_tree(o[1])
        changed = sorted(k for k in set(a) | set(b) if a.get(k) != b.get(k))
        print("replies", o[2], "changed", changed)
        return any(not nearest(list(k))[1] for k in changed if not any(k[:n] in changed for n in range(1, len(k))))

    cmds = inp["wire_commands"]
    perms, tree = (U_PERMS, U_TREE) if inp.get("table") == "unicode" else (W_PERMS, W_TREE)
    snaps = S.run_history(users(perms), tree, c05.to_events(["USER bob"] + cmds))
    for c, s in zip(["@connect", "USER bob"] + cmds, snaps):
        print(repr(c), "->", s and (s["replies"], s["cwd"]))
    f = oracle(cmds, snaps[1:], perms)
    print(f)
    return f is not None
