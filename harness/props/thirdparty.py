"""Somebody else's classes: the documented extension points, used the way a third party uses them.

The library is meant to be extended - a storage backend written against `AbstractPathIO` (or a subclass of a shipped
one), a user manager written against `AbstractUserManager`, a `Server` subclass that adds or wraps command handlers or
re-implements `parse_command`, `User` objects of the application's own.  The shipped classes exercise only ONE legal
behaviour of each hook.  Here small, legal third-party classes exercise others:

 backends   reads shorter than asked before EOF; `aioftp.PathIOError()` raised directly (no `reason`); file handles that
            are plain integers starting at 0 (falsy); an instance that cannot take overlapping calls; a constructor that
            takes `*args, **kwargs`
 servers    an extra path-taking command built from the public decorators (SIZE), a handler that calls `get_paths` with a
            `PurePosixPath`, handlers that answer with a generator / a list of lines, a stock handler wrapped in the
            command table, `parse_command` re-implemented, a command table without PASS
 managers   a manager that is falsy (`__len__`), one that keeps digests (users without `.password`), hooks that raise

Judged against the same session on the stock classes (transcripts equal, ledger clean) or against the hook's own
contract.  Each property's check runs the parts that bear on it and reports under its own id."""
import asyncio
import functools
import hashlib
import pathlib

import aioftp

import scenario as SC
import simnet
import world as W
from framework import Result
from props import history as H


# ---- backends -----------------------------------------------------------------------------------------------------
class ShortReadIO(aioftp.MemoryPathIO):
    """a paged store: a read returns at most three bytes, EOF is the empty read (the documented signal)"""

    async def read(self, file, block_size):
        return await super().read(file, min(block_size, 3))


class DirectErrorIO(aioftp.MemoryPathIO):
    """a store with a frozen part: it refuses with the documented exception, raised directly"""

    async def mkdir(self, path, **kw):
        if "frozen" in str(path):
            raise aioftp.PathIOError()
        return await super().mkdir(path, **kw)

    async def unlink(self, path):
        if "frozen" in str(path):
            raise aioftp.PathIOError()
        return await super().unlink(path)

    async def _open(self, path, *args, **kwargs):
        if "frozen" in str(path):
            raise aioftp.PathIOError()
        return await super()._open(path, *args, **kwargs)


class HandleIO(aioftp.MemoryPathIO):
    """files are small integers, lowest free first: the first open file is handle 0"""

    handles = None

    def _table(self):
        if type(self).handles is None:
            type(self).handles = {}
        return type(self).handles

    async def _open(self, path, *args, **kwargs):
        real = await super()._open(path, *args, **kwargs)
        t = self._table()
        h = 0
        while h in t:
            h += 1
        t[h] = real
        return h

    async def seek(self, file, *args, **kwargs):
        return await super().seek(self._table()[file], *args, **kwargs)

    async def write(self, file, *args, **kwargs):
        return await super().write(self._table()[file], *args, **kwargs)

    async def read(self, file, *args, **kwargs):
        return await super().read(self._table()[file], *args, **kwargs)

    async def close(self, file):
        real = self._table().pop(file)
        return await super().close(real)


class OneCursorIO(aioftp.MemoryPathIO):
    """one cursor per instance (a database connection): a query's result is fetched in a second step"""

    _cur = None

    async def _fetch(self, value):
        self._cur = ("row", value)
        await asyncio.sleep(0)
        row, self._cur = self._cur, None
        return row[1] if row else None

    async def exists(self, path):
        return await self._fetch(await super().exists(path))

    async def is_dir(self, path):
        return await self._fetch(await super().is_dir(path))

    async def is_file(self, path):
        return await self._fetch(await super().is_file(path))


BACKENDS = {"reads-shorter-than-asked": ShortReadIO, "integer-file-handles-from-0": HandleIO, "one-cursor-per-instance": OneCursorIO, "refuses-with-PathIOError-directly": DirectErrorIO}


# ---- servers ------------------------------------------------------------------------------------------------------
FEAT_LINES = ["Features:", "SIZE", "MLST type*;size*;modify*;", "", "", "End"]


class AppServer(aioftp.Server):
    def __init__(self, *args, **kwargs):
        super().__init__(*args, **kwargs)
        self.commands_mapping["size"] = self.size
        self.commands_mapping["xsum"] = self.xsum
        self.commands_mapping["featg"] = self.featg
        self.commands_mapping["featl"] = self.featl
        self.commands_mapping["xget"] = self.xget
        stock = self.commands_mapping["retr"]

        async def audited(connection, rest):
            return await stock(connection, rest)

        self.commands_mapping["retr"] = audited
        self.commands_mapping["appe"] = functools.partial(self.commands_mapping["appe"])

    @aioftp.ConnectionConditions(aioftp.ConnectionConditions.login_required)
    @aioftp.PathConditions(aioftp.PathConditions.path_must_exists, aioftp.PathConditions.path_must_be_file)
    @aioftp.PathPermissions(aioftp.PathPermissions.readable)
    async def size(self, connection, rest):
        real_path, virtual_path = self.get_paths(connection, rest)
        st = await connection.path_io.stat(real_path)
        connection.response("213", str(st.st_size))
        return True

    @aioftp.ConnectionConditions(aioftp.ConnectionConditions.login_required)
    async def xsum(self, connection, rest):
        # the side-car of a file, addressed as a path object (`get_paths` takes "str or PurePosixPath")
        real_path, virtual_path = self.get_paths(connection, pathlib.PurePosixPath(rest).with_name(pathlib.PurePosixPath(rest).name + ".sha256"))
        found = await connection.path_io.exists(real_path)
        connection.response("213", "%s|%s|%s" % (virtual_path, real_path, found))
        return True

    @aioftp.ConnectionConditions(aioftp.ConnectionConditions.login_required, aioftp.ConnectionConditions.passive_server_started)
    async def xget(self, connection, rest):
        """a transfer command of the application's own, as the developer tutorial shows - with a worker that handles
        its own cancellation (its own clean-up, its own 426/226) instead of the `worker` decorator"""

        @aioftp.ConnectionConditions(aioftp.ConnectionConditions.data_connection_made, wait=True, fail_code="425", fail_info="Can't open data connection")
        async def xget_worker(self, connection, rest):
            stream = connection.data_connection
            del connection.data_connection
            try:
                async with stream:
                    for i in range(4000):
                        await stream.write(i.to_bytes(8, "big"))
            except asyncio.CancelledError:
                connection.response("426", "transfer aborted")
                connection.response("226", "abort successful")
                return True
            connection.response("226", "done")
            return True

        task = asyncio.create_task(xget_worker(self, connection, rest))
        connection.extra_workers.add(task)
        connection.response("150", "started")
        return True

    async def featg(self, connection, rest):
        connection.response("211", (l for l in FEAT_LINES), True)
        return True

    async def featl(self, connection, rest):
        connection.response("211", list(FEAT_LINES), True)
        return True


class OwnParserServer(aioftp.Server):
    """legacy clients: the command hook re-implemented (strips a byte-order mark some of them send)"""

    async def parse_command(self, stream, censor_commands=()):
        line = await stream.readline()
        if not line:
            raise ConnectionResetError
        s = line.decode(encoding=self.encoding).rstrip().lstrip("﻿")
        cmd, _, rest = s.partition(" ")
        return cmd.lower(), rest


class MirrorServer(aioftp.Server):
    """an anonymous read-only mirror: a whitelist of verbs, PASS is not one of them"""

    def __init__(self, *args, **kwargs):
        super().__init__(*args, **kwargs)
        keep = ("user", "quit", "pwd", "cwd", "cdup", "type", "epsv", "pasv", "list", "mlsd", "mlst", "retr", "abor")
        self.commands_mapping = {k: v for k, v in self.commands_mapping.items() if k in keep}


# ---- managers -----------------------------------------------------------------------------------------------------
class RegistryManager(aioftp.AbstractUserManager):
    """accounts live elsewhere (a registry filled at run time); passwords are kept as digests; `len()` is the number of
    accounts registered at run time - none yet"""

    def __init__(self, accounts, *, fail=(), timeout=None):
        super().__init__(timeout=timeout)
        self.accounts = {login: hashlib.sha256(pw.encode()).hexdigest() for login, pw in accounts.items()}
        self.users = {login: aioftp.User(login) for login in accounts}  # .password stays None: this manager keeps digests
        self.fail = set(fail)
        self.calls = []

    def __len__(self):
        return 0

    async def get_user(self, login):
        self.calls.append(("get_user", login))
        if "get_user" in self.fail:
            raise asyncio.TimeoutError("directory not answering")
        if login not in self.accounts:
            return aioftp.AbstractUserManager.GetUserResponse.ERROR, None, "no such username"
        return aioftp.AbstractUserManager.GetUserResponse.PASSWORD_REQUIRED, self.users[login], "password required"

    async def authenticate(self, user, password):
        self.calls.append(("authenticate", user.login))
        if "authenticate" in self.fail:
            raise asyncio.TimeoutError("directory not answering")
        return hashlib.sha256(password.encode()).hexdigest() == self.accounts[user.login]

    async def notify_logout(self, user):
        self.calls.append(("notify_logout", user.login))
        if "notify_logout" in self.fail:
            raise asyncio.TimeoutError("audit sink not answering")


class DbUser(aioftp.User):
    """rights are loaded from a store at the first lookup; the inherited `permissions` attribute is left alone"""

    TABLE = [("/", True, False), ("/priv", False, False), ("/pub", True, True)]

    async def get_permissions(self, path):
        await asyncio.sleep(0)
        path = pathlib.PurePosixPath(path)
        best = None
        for p, r, w in self.TABLE:
            pp = pathlib.PurePosixPath(p)
            if pp == path or pp in path.parents:
                if best is None or len(pp.parts) > len(best[0].parts):
                    best = (pp, r, w)
        return aioftp.Permission(best[0], readable=best[1], writable=best[2])


# ---- runs -----------------------------------------------------------------------------------------------------------
async def _world(loop, backend_cls=None, server_cls=None, users=None, manager_factory=None, **kw):
    wd = W.World(loop, users or H.USERS, server_kwargs=dict(H.CFG, wait_future_timeout=1, **kw), manager_factory=manager_factory)
    wd.backend_cls = backend_cls
    wd.server_cls = server_cls
    await wd.start()
    wd.notes = []
    return wd


async def _stop(wd):
    try:
        await wd.stop()
    except Exception:
        wd.finish()


async def _probe_case(loop, backend_name):
    HandleIO.handles = None
    wd = await _world(loop, backend_cls=BACKENDS.get(backend_name))
    try:
        wd.set_tree(H.TREE)
        # two sessions before the probe: what one stores the next one finds
        c = await wd.raw_client()
        await H._line(wd, c, "USER bob")
        await H._passive(wd, c)
        await W.run_line(wd, c, b"STOR /first.bin", b"0123456789abcdef")
        await H._line(wd, c, "MKD /made")
        await H._line(wd, c, "QUIT")
        c = await wd.raw_client()
        await H._line(wd, c, "USER bob")
        types = []
        for target in ("/d", "/d/sub", "/made", "/first.bin", "/f.txt"):
            codes = await H._line(wd, c, "MLST " + target)
            txt = " ".join(c.replies[-1][1]).lower() if c.replies else ""
            types.append((target, codes, "type=dir" in txt, "type=file" in txt))
        await H._passive(wd, c)
        codes, _, out, _ = await W.run_line(wd, c, b"RETR /first.bin")
        await H._line(wd, c, "QUIT")
        rec = {"types": types, "first": (codes, out.hex()), "probe": await H.probe(wd)}
        await asyncio.sleep(1)
        await loop.settle()
        rec["ledger"] = SC.ledger_clean(SC.ledger(wd), H.CFG)
        rec["handles_left"] = sorted((HandleIO.handles or {}).keys()) if backend_name == "integer-file-handles-from-0" else []
        return rec
    finally:
        await _stop(wd)


async def x_direct_error(loop):
    bad = []
    wd = await _world(loop, backend_cls=DirectErrorIO)
    try:
        wd.set_tree(H.TREE + [(("frozen",), None), (("frozen", "old.txt"), b"old")])
        c = await wd.raw_client()
        await H._line(wd, c, "USER bob")
        for line in ("MKD /frozen/x", "DELE /frozen/old.txt"):
            a = await H._line(wd, c, line)
            b = await H._line(wd, c, "PWD")
            if a != [451] or b != [257]:
                bad.append("a backend refused %r with `aioftp.PathIOError()` raised directly: the reply was %r (want 451), then PWD -> %r (the session must go on)" % (line, a, b))
                if c.eof:
                    c = await wd.raw_client()
                    await H._line(wd, c, "USER bob")
        await H._passive(wd, c)
        a, _, _, _ = await W.run_line(wd, c, b"STOR /frozen/up.bin", b"data")
        b = await H._line(wd, c, "PWD")
        if 451 not in a or b != [257]:
            bad.append("a backend refused to open /frozen/up.bin with `aioftp.PathIOError()` raised directly: STOR -> %r (want 451), then PWD -> %r" % (a, b))
    finally:
        await _stop(wd)
    return bad


async def x_app_server(loop):
    bad = []
    wd = await _world(loop, server_cls=AppServer)
    try:
        wd.set_tree(H.TREE + [((" x",), b"with a blank"), (("x",), b"x"), (("d", " only here"), b"12345"), (("private",), None), (("private", "k.sha256"), b"secret")])
        c = await wd.raw_client()
        await H._line(wd, c, "USER bob")
        for arg, want in ((" x", "12"), ("x", "1"), ("d/ only here", "5")):
            codes = await H._line(wd, c, "SIZE " + arg)
            said = c.replies[-1][1][-1].strip() if c.replies else None
            if codes != [213] or said != want:
                bad.append("a SIZE command added through the command table and the public decorators: 'SIZE %s' -> %r %r (the file has %s bytes)" % (arg, codes, said, want))
        await H._line(wd, c, "CWD d")
        codes = await H._line(wd, c, "SIZE  only here")
        said = c.replies[-1][1][-1].strip() if c.replies else None
        if codes != [213] or said != "5":
            bad.append("'SIZE  only here' (a relative name that starts with a blank) in /d -> %r %r (the file has 5 bytes)" % (codes, said))
        await H._line(wd, c, "CWD /")
        for arg in ("/../private/k", "/d/../../private/k", "../private/k"):
            codes = await H._line(wd, c, "XSUM " + arg)
            said = c.replies[-1][1][-1].strip() if c.replies else ""
            virt, _, rest = said.partition("|")
            real = rest.partition("|")[0]
            if codes != [213] or ".." in pathlib.PurePosixPath(real).parts or virt != "/private/k.sha256":
                bad.append("a handler that calls get_paths() with a PurePosixPath: 'XSUM %s' resolved to virtual %r real %r (want /private/k.sha256 and a real path without '..')" % (arg, virt, real))
        a = await H._line(wd, c, "FEATG")
        ga = list(c.replies[-1][1]) if c.replies else None
        b = await H._line(wd, c, "FEATL")
        gb = list(c.replies[-1][1]) if c.replies else None
        if a != [211] or a != b or ga != gb:
            bad.append("a handler that answers with a GENERATOR of lines got %r %r on the wire; the same lines as a list: %r %r" % (a, ga, b, gb))
        await H._line(wd, c, "PWD")
        # ABOR reaches a transfer command of the application's own
        await H._line(wd, c, "EPSV")
        await W.data_connect(wd, c)
        dr, dw = c.data
        c.data = None
        sp = dw.transport.peer
        sp.HIGH = 256
        sp.hold = True
        n0 = len(c.replies)
        c.send_raw(b"XGET\r\n")
        await loop.settle()
        c.send_raw(b"ABOR\r\n")
        await loop.settle()
        await asyncio.sleep(1)
        await loop.settle()
        got = sorted(int(x) for x, _ in c.replies[n0:] if x.isdigit())
        sp.hold = False
        sp._schedule_pump()
        try:
            data = await asyncio.wait_for(dr.read(), 5)
            closed = len(data) < 32000
        except (asyncio.TimeoutError, ConnectionError):
            closed = False
        dw.close()
        pwd = await H._line(wd, c, "PWD")
        if got != [150, 226, 426] or not closed or pwd != [257]:
            bad.append("a transfer command of the application's own (its worker is in connection.extra_workers and answers its own cancellation): XGET, then ABOR -> %r (want 150, 426, 226), transfer stopped: %r, PWD -> %r" % (got, closed, pwd))
        # REST reaches a transfer handler that the application wrapped in the command table
        await H._line(wd, c, "EPSV")
        await W.data_connect(wd, c)
        await H._line(wd, c, "REST 4")
        codes, _, out, _ = await W.run_line(wd, c, b"RETR f.txt")
        if codes != [150, 226] or out != b"456789":
            bad.append("REST 4 then RETR f.txt through a RETR handler wrapped in the command table delivered %r %r (want bytes 4.. of the file)" % (codes, out))
        await H._line(wd, c, "EPSV")
        await W.data_connect(wd, c)
        await H._line(wd, c, "REST 2")
        codes, _, _, _ = await W.run_line(wd, c, b"APPE f.txt", b"ZZ")
        got = H.entries_of(wd.tree())
        body = dict(got).get(("f.txt",))
        if codes != [150, 226] or body != b"01ZZ456789":
            bad.append("REST 2 then APPE f.txt (the handler is a functools.partial in the command table) left %r %r (want 01ZZ456789)" % (codes, body))
    finally:
        await _stop(wd)
    return bad


async def x_own_parser(loop):
    bad = []
    wd = await _world(loop, server_cls=OwnParserServer, idle_timeout=3)
    try:
        wd.set_tree(H.TREE)
        c = await wd.raw_client()
        a = await H._line(wd, c, "USER bob")
        b = await H._line(wd, c, "PWD")
        t0 = loop.time()
        for _ in range(40):
            if c.eof:
                break
            await asyncio.sleep(0.25)
        dt = loop.time() - t0
        if a != [230] or b != [257] or not c.eof or not (2.9 <= dt <= 3.6):
            bad.append("a Server subclass that re-implements parse_command, idle_timeout=3: USER/PWD -> %r %r; silent afterwards, the session was %s (want dropped after 3 s)" % (a, b, "dropped after %.2f s" % dt if c.eof else "not dropped within 10 s"))
        await loop.settle()
        if len(wd.server.connections):
            bad.append("the idle session is still in the server's table")
    finally:
        await _stop(wd)
    return bad


async def x_mirror(loop):
    bad = []
    canary = "Zq9mirrorCanary"
    wd = await _world(loop, server_cls=MirrorServer, users=[W.UserSpec(None, None)])
    try:
        wd.set_tree(H.TREE)
        c = await wd.raw_client()
        n0 = len(wd.log.records)
        await H._line(wd, c, "USER anonymous")
        a = await H._line(wd, c, "PASS " + canary)
        await H._line(wd, c, "pAsS " + canary)
        await H._line(wd, c, "QUIT")
        hits = [m for _, _, m in wd.log.records[n0:] if canary.lower() in m.lower()]
        said = [l for _, ls in c.replies for l in ls if canary.lower() in l.lower()]
        if hits or said:
            bad.append("a Server subclass whose command table has no PASS: 'PASS <password>' was answered %r; the password appears in %d log record(s) (%r) and %d reply line(s)" % (a, len(hits), (hits or [""])[0][:120], len(said)))
    finally:
        await _stop(wd)
    return bad


async def x_registry_manager(loop):
    bad = []
    holder = {}

    def factory(users):
        holder["m"] = RegistryManager({"admin": "right-pw", "guest": "g"})
        return holder["m"]

    wd = await _world(loop, manager_factory=factory)
    try:
        wd.set_tree(H.TREE)
        c = await wd.raw_client()
        a = await H._line(wd, c, "USER anonymous")
        served = await H._line(wd, c, "PWD")
        if a != [530] or served == [257]:
            bad.append("a user manager of one's own that is falsy (`len()` == 0): USER anonymous -> %r, PWD -> %r; the manager was asked %r (want 530 from IT, nothing served)" % (a, served, holder["m"].calls[:3]))
        a = await H._line(wd, c, "USER admin")
        b = await H._line(wd, c, "PASS wrong")
        served = await H._line(wd, c, "PWD")
        if a != [331] or b != [530] or served == [257]:
            bad.append("a user manager that keeps digests (its User objects have no .password): USER admin -> %r, PASS wrong -> %r, PWD -> %r (want 331, 530, not served)" % (a, b, served))
        await H._line(wd, c, "USER admin")
        b = await H._line(wd, c, "PASS")
        if b == [230]:
            bad.append("a user manager that keeps digests: an empty PASS was answered 230")
        await H._line(wd, c, "USER admin")
        b = await H._line(wd, c, "PASS right-pw")
        if b != [230]:
            bad.append("a user manager that keeps digests: the right password was answered %r" % (b,))
        await H._line(wd, c, "QUIT")
    finally:
        await _stop(wd)
    return bad


async def x_failing_hooks(loop):
    bad = []
    canary = "Zq7hookCanary"
    for hook in ("notify_logout", "authenticate"):
        holder = {}

        def factory(users, hook=hook):
            holder["m"] = RegistryManager({"admin": canary}, fail=(hook,))
            return holder["m"]

        wd = await _world(loop, manager_factory=factory)
        try:
            wd.set_tree(H.TREE)
            n0 = len(wd.log.records)
            for end in ("QUIT", "close"):
                c = await wd.raw_client()
                await H._line(wd, c, "USER admin")
                await H._line(wd, c, "PASS " + canary)
                await H._line(wd, c, "EPSV")
                if end == "QUIT":
                    await H._line(wd, c, "QUIT")
                else:
                    c.close()
                await loop.settle()
                await asyncio.sleep(1)
                await loop.settle()
            led = SC.ledger_clean(SC.ledger(wd), H.CFG)
            led = [x for x in led if "loop" not in x]
            if hook == "notify_logout" and led:
                bad.append("a user manager whose notify_logout raises (its audit sink timed out): after the sessions were gone the server still held: %s" % "; ".join(led)[:300])
            hits = [m for _, _, m in wd.log.records[n0:] if canary.lower() in m.lower()]
            if hits:
                bad.append("a user manager whose %s raises: the password appears in %d log record(s): %r" % (hook, len(hits), hits[0][:160]))
        finally:
            await _stop(wd)
    return bad


async def x_db_user(loop):
    bad = []
    wd = W.World(loop, [W.UserSpec("bob", None)], server_kwargs=dict(wait_future_timeout=1))
    await wd.start()
    try:
        wd.set_tree([(("priv",), None), (("priv", "secret.txt"), b"s"), (("pub",), None), (("pub", "readme.txt"), b"r")])
        # the application's own User class
        db = DbUser("bob", base_path=wd.users[0].base_path)
        wd.server.user_manager.users[:] = [db]
        wd.server.user_manager.available_connections[db] = aioftp.server.AvailableConnections(None)
        c = await wd.raw_client()
        await H._line(wd, c, "USER bob")
        want = {"CWD /priv": 550, "MLST /priv/secret.txt": 550, "DELE /pub/readme.txt": 250, "MKD /new": 550, "MKD /pub/new": 257, "MLST /pub/new": 250, "RNFR /priv/secret.txt": 550}
        for line, code in want.items():
            a = await H._line(wd, c, line)
            if a != [code]:
                bad.append("a User subclass that overrides the coroutine get_permissions() (table %r): %r -> %r (want %d)" % (DbUser.TABLE, line, a, code))
    finally:
        await _stop(wd)
    return bad


EXTRAS = {
    "C02": [x_app_server], "C03": [x_registry_manager], "C04": [x_db_user], "C05": [x_app_server], "C06": [x_app_server], "C08": [x_app_server],
    "C10": [x_failing_hooks], "C11": [x_failing_hooks], "C12": [x_failing_hooks], "C13": [x_direct_error], "C14": [x_app_server], "C16": [x_own_parser], "C20": [x_mirror, x_failing_hooks],
}
PROBES = {
    "C01": ["reads-shorter-than-asked"], "C07": ["one-cursor-per-instance"], "C12": ["integer-file-handles-from-0"], "C13": ["refuses-with-PathIOError-directly"],
    "C18": ["reads-shorter-than-asked", "integer-file-handles-from-0", "one-cursor-per-instance"], "C17": ["integer-file-handles-from-0"],
}


def _job(fn, *args):
    try:
        return simnet.run(fn, *args, wall_limit=90)
    except BaseException as e:  # noqa
        return "HARNESS-ERROR %s: %s" % (type(e).__name__, e)


def judge_probe(pid, name):
    inp = {"kind": "third-party", "backend": name}
    o = _job(_probe_case, name)
    stock = _job(_probe_case, None)
    if isinstance(stock, str):
        return [{"input": inp, "what": "harness: the stock run failed (%s)" % stock, "signature": "%s:third-party:harness" % pid}]
    if isinstance(o, str):
        return [{"input": inp, "what": "a server on a third-party backend (%s) did not get through the sessions (%s)" % (name, o), "signature": "%s:third-party:%s:failed" % (pid, name)}]
    fails = []
    for key in ("types", "first", "probe"):
        if o[key] != stock[key]:
            a, b = o[key], stock[key]
            if isinstance(a, list):
                d = [(x, y) for x, y in zip(a, b) if x != y][:2]
                a, b = [x[0] for x in d], [x[1] for x in d]
            fails.append({"input": inp, "what": "the same sessions on a third-party backend (%s: a MemoryPathIO subclass with another legal behaviour) and on MemoryPathIO differ in %s: %r / %r" % (name, key, a, b),
                          "signature": "%s:third-party:%s:differs" % (pid, name)})
            break
    if o["ledger"] or o["handles_left"]:
        fails.append({"input": inp, "what": "after the sessions on a third-party backend (%s): %s; file handles never closed: %r" % (name, "; ".join(o["ledger"])[:200], o["handles_left"]), "signature": "%s:third-party:%s:left-behind" % (pid, name)})
    return fails


def run(ctx, pid):
    res = Result()
    for name in PROBES.get(pid, []):
        res.cases += 1
        res.count("third_party backend=" + name)
        res.distinct.add(("third-party", name))
        res.oracle_failures += judge_probe(pid, name)
    for fn in EXTRAS.get(pid, []):
        res.cases += 1
        res.count("third_party extra=" + fn.__name__)
        res.distinct.add(("third-party-extra", fn.__name__))
        o = _job(fn)
        for what in ([o] if isinstance(o, str) else o):
            res.oracle_failures.append({"input": {"kind": "third-party", "extra": fn.__name__}, "what": what, "signature": "%s:third-party:%s" % (pid, fn.__name__)})
    return res


def replay(pid, inp):
    if "extra" in inp:
        fn = {f.__name__: f for fs in EXTRAS.values() for f in fs}[inp["extra"]]
        o = _job(fn)
        bad = [o] if isinstance(o, str) else o
        for b in bad:
            print(b)
        return bool(bad)
    fails = judge_probe(pid, inp["backend"])
    for f in fails:
        print(f["signature"], f["what"])
    return bool(fails)


def attach(pid, correspondence, search, replay_fn):
    def corr(ctx):
        r = correspondence(ctx)
        r.merge(run(ctx, pid))
        return r

    def srch(ctx, prior):
        # (a search of the property's own that crashes on the changed code must not hide what this family finds)
        try:
            r = search(ctx, prior)
        except Exception:
            r = run(ctx, pid)
            if not r.oracle_failures:
                raise
            return r
        r.merge(run(ctx, pid))
        return r

    def rep(ctx, doc):
        inp = (doc.get("failure") or {}).get("input")
        if isinstance(inp, dict) and inp.get("kind") == "third-party":
            return replay(pid, inp)
        return replay_fn(ctx, doc)

    return corr, srch, rep
