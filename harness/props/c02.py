"""C02  every client-supplied path stays inside the user's base directory.

Correspondence: real `Server.get_paths` on a real `Connection` vs `Model.getPaths` (Lean), exhaustive over
segment sequences up to a bound plus random deep paths; oracle = lexical containment + independent walk.
"""
import asyncio
import itertools
import pathlib

from framework import Result, drive, enc_str, enc_strs

PID = "C02"
RULE = (
    "inputs = (base, cwd, argument string); exhaustive over segment sequences from "
    "{a,b,..,.,'',a\\b,c:,...,..a} up to the tier's length x leading-slash count 0..3 x 4 working directories, "
    "plus seeded random deep paths and the path-typed CDUP call; a case is non-trivial when the argument "
    "contains a '..', '.', empty segment or leading slash; distinct = distinct (cwd, argument) pairs"
)
EXPLANATION = (
    "Theorems in Properties/C02.lean hold for every argument string, base and normal cwd; this run ties "
    "Model.getPaths to the live Server.get_paths and evaluates the containment/walk oracle on the implementation."
)
ASSUMPTIONS = [
    "home_path is normal (absolute, no '..'); POSIX flavour of pathlib (Windows flavours are not modelled)",
    "pathlib.PurePosixPath parsing/joining behaves as transcribed in Model/Paths.lean (sampled here)",
]
GENERATED_OBLIGATIONS = []

SEGS = ["a", "b", "..", ".", "", "a\\b", "c:", "...", "..a"]
CWDS = ["/", "/a", "/a/b", "/x/y/z"]
BASES = ["/srv/ftp", ".", "rel/base", "/"]


def canon(p):
    root = len(p.root)
    parts = list(p.parts[1:] if p.root else p.parts)
    return "%d:%s" % (root, enc_strs(parts))


def py_walk(cwd_parts, s):
    """independent reading of the string (the specification, in Python)"""
    pos = [] if s.startswith("/") else list(cwd_parts)
    for seg in s.split("/"):
        if seg in ("", "."):
            continue
        if seg == "..":
            if pos:
                pos.pop()
        else:
            pos.append(seg)
    return pos


def gen_inputs(ctx, oracle_only=False):
    L = ctx.pick(4, 5)
    if oracle_only:
        L = ctx.pick(5, 6)
    n = 0
    for k in range(L + 1):
        for combo in itertools.product(SEGS, repeat=k):
            body = "/".join(combo)
            for lead in ("", "/", "//", "///"):
                if k == 0 and lead == "" and False:
                    continue
                arg = lead + body
                # rotate cwd/base so that the product stays within budget; all cwds for short args
                if k <= 3:
                    for cwd in CWDS:
                        yield BASES[n % len(BASES)], cwd, arg
                        n += 1
                else:
                    yield BASES[n % len(BASES)], CWDS[n % len(CWDS)], arg
                    n += 1
    rng = ctx.rng
    names = SEGS + ["d", "e e", "é", "-x", '"q"']
    for _ in range(ctx.pick(4000, 60000) * (4 if oracle_only else 1)):
        depth = rng.randint(1, 40)
        arg = rng.choice(["", "/", "//", "///", "////"]) + "/".join(rng.choice(names) for _ in range(depth))
        if rng.random() < 0.2:
            arg += "/"
        cwd = "/" + "/".join(rng.choice(["a", "b", "x", "y z"]) for _ in range(rng.randint(0, 4)))
        yield rng.choice(BASES), cwd, arg


def impl_eval(inputs):
    """run the real get_paths; returns list of (real, virtual) PurePaths or exception names"""
    import aioftp

    out = []

    async def main():
        for base, cwd, arg, typed in inputs:
            user = aioftp.User(base_path=base)
            conn = aioftp.server.Connection(current_directory=pathlib.PurePosixPath(cwd), user=user)
            a = pathlib.PurePosixPath(cwd).parent if typed else arg
            try:
                out.append(aioftp.Server.get_paths(conn, a))
            except Exception as e:  # noqa
                out.append(("EXC", type(e).__name__))

    asyncio.run(main())
    return out


def oracle(base, cwd, arg, typed, got):
    """None if fine, else description"""
    if got[0] == "EXC":
        return "get_paths raised %s" % got[1]
    real, virt = got
    b = pathlib.PurePosixPath(base)
    bparts = list(b.parts)
    rparts = list(real.parts)
    if rparts[: len(bparts)] != bparts:
        return "real path %r not under base %r" % (str(real), base)
    tail = rparts[len(bparts) :]
    if any(x in ("..", ".", "") or "/" in x for x in tail):
        return "real path %r has a non-name component below base" % str(real)
    cwd_parts = [x for x in cwd.split("/") if x]
    if typed:
        want = cwd_parts[:-1]
    else:
        want = py_walk(cwd_parts, arg)
    if str(virt) != "/" + "/".join(want) or virt.root != "/":
        return "virtual path %r is not the walk %r" % (str(virt), "/" + "/".join(want))
    if tail != want:
        return "real path %r does not address the walk %r" % (str(real), "/" + "/".join(want))
    return None


def _run(ctx, oracle_only=False):
    res = Result()
    inputs = []
    seen = set()
    for base, cwd, arg in gen_inputs(ctx, oracle_only):
        inputs.append((base, cwd, arg, False))
    for base in BASES:
        for cwd in CWDS + ["/a/b/c/d"]:
            inputs.append((base, cwd, "", True))
    got = impl_eval(inputs)
    lines = []
    for (base, cwd, arg, typed), g in zip(inputs, got):
        res.cases += 1
        nontrivial = typed or arg.startswith("/") or any(s in ("..", ".", "") for s in arg.split("/"))
        if nontrivial:
            res.distinct.add((cwd, arg, typed))
        res.count("lead_slashes=%d" % min(4, len(arg) - len(arg.lstrip("/"))))
        res.count("dotdots=%d" % min(6, arg.split("/").count("..")))
        why = oracle(base, cwd, arg, typed, g)
        if why:
            res.oracle_failures.append(
                {"input": {"base": base, "cwd": cwd, "arg": arg, "cdup_form": typed}, "what": why, "signature": "C02:" + why.split(" ")[0]}
            )
        b = canon(pathlib.PurePosixPath(base))
        c = canon(pathlib.PurePosixPath(cwd))
        if typed:
            lines.append("paths getpathsP %s %s %s" % (b, c, canon(pathlib.PurePosixPath(cwd).parent)))
        else:
            lines.append("paths getpaths %s %s %s" % (b, c, enc_str(arg)))
    if not oracle_only and ctx.model_ok:
        outs = drive(lines, shards=8)
        res.lines += len(lines)
        for inp, g, o in zip(inputs, got, outs):
            want = "EXC" if g[0] == "EXC" else "%s %s" % (canon(g[0]), canon(g[1]))
            if want != o:
                if len(res.disagreements) < 20:
                    res.disagreements.append(
                        {"correspondence": "Model.getPaths vs Server.get_paths", "input": inp, "model": o, "impl": want}
                    )
                else:
                    res.count("more_disagreements")
    res.samples = [
        {"base": i[0], "cwd": i[1], "arg": i[2], "impl": (str(g[0]), str(g[1])) if g[0] != "EXC" else g}
        for i, g in list(zip(inputs, got))[5000:5004]
    ]
    res.exhaustive = False
    return res


def correspondence(ctx):
    return _run(ctx)


def search(ctx, prior):
    return _run(ctx, oracle_only=True)


def replay(ctx, doc):
    i = doc["failure"]["input"]
    got = impl_eval([(i["base"], i["cwd"], i["arg"], i.get("cdup_form", False))])[0]
    why = oracle(i["base"], i["cwd"], i["arg"], i.get("cdup_form", False), got)
    print("implementation:", got, "->", why)
    return why is not None
