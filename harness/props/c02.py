"""C02  every client-supplied path stays inside the user's base directory.

Correspondence: real `Server.get_paths` on a real `Connection` vs `Model.getPaths` (Lean), exhaustive over
segment sequences up to a bound plus random deep paths; oracle = lexical containment + independent walk.
"""
import asyncio
import itertools
import pathlib

from framework import Result, drive, enc_str, enc_strs

PID = "C02"
RULE = (
    "inputs = (base, cwd, argument string); exhaustive over segment sequences from "
    "{a,b,..,.,'',a\\b,c:,...,..a} up to the tier's length x leading-slash count 0..3 x 4 working directories, "
    "plus seeded random deep paths and the path-typed CDUP call; a case is non-trivial when the argument "
    "contains a '..', '.', empty segment or leading slash; distinct = distinct (cwd, argument) pairs"
)
EXPLANATION = (
    "Theorems in Properties/C02.lean hold for every argument string, base and normal cwd; this run ties "
    "Model.getPaths to the live Server.get_paths and evaluates the containment/walk oracle on the implementation."
)
ASSUMPTIONS = [
    "home_path is normal (absolute, no '..'); POSIX flavour of pathlib (Windows flavours are not modelled)",
    "pathlib.PurePosixPath parsing/joining behaves as transcribed in Model/Paths.lean (sampled here)",
]
GENERATED_OBLIGATIONS = []

SEGS = ["a", "b", "..", ".", "", "a\\b", "c:", "...", "..a"]
# characters that LOOK like dots, or become dots / slashes under a compatibility normalisation: to the server they are names
LOOKALIKES = ["\u2025", "\uff0e\uff0e", "\u2024\u2024", "\uff0e", "\u2024", "a\uff0fb", "\u2215", ".\u200b."]
CWDS = ["/", "/a", "/a/b", "/x/y/z"]
BASES = ["/srv/ftp", ".", "rel/base", "/"]


def canon(p):
    root = len(p.root)
    parts = list(p.parts[1:] if p.root else p.parts)
    return "%d:%s" % (root, enc_strs(parts))


def py_walk(cwd_parts, s):
    """independent reading of the string (the specification, in Python)"""
    pos = [] if s.startswith("/") else list(cwd_parts)
    for seg in s.split("/"):
        if seg in ("", "."):
            continue
        if seg == "..":
            if pos:
                pos.pop()
        else:
            pos.append(seg)
    return pos


def gen_inputs(ctx, oracle_only=False):
    L = ctx.pick(4, 5)
    if oracle_only:
        L = ctx.pick(5, 6)
    n = 0
    for k in range(L + 1):
        for combo in itertools.product(SEGS, repeat=k):
            body = "/".join(combo)
            for lead in ("", "/", "//", "///"):
                if k == 0 and lead == "" and False:
                    continue
                arg = lead + body
                # rotate cwd/base so that the product stays within budget; all cwds for short args
                if k <= 3:
                    for cwd in CWDS:
                        yield BASES[n % len(BASES)], cwd, arg
                        n += 1
                else:
                    yield BASES[n % len(BASES)], CWDS[n % len(CWDS)], arg
                    n += 1
    # the look-alikes at every position of short arguments, among the real dots and names
    for k in range(1, 4):
        for combo in itertools.product(SEGS[:4] + LOOKALIKES, repeat=k):
            if not any(c in LOOKALIKES for c in combo):
                continue
            for lead in ("", "/"):
                yield BASES[n % len(BASES)], CWDS[n % len(CWDS)], lead + "/".join(combo)
                n += 1
    rng = ctx.rng
    names = SEGS + LOOKALIKES + ["d", "e e", "é", "-x", '"q"']
    for _ in range(ctx.pick(4000, 60000) * (4 if oracle_only else 1)):
        depth = rng.randint(1, 40)
        arg = rng.choice(["", "/", "//", "///", "////"]) + "/".join(rng.choice(names) for _ in range(depth))
        if rng.random() < 0.2:
            arg += "/"
        cwd = "/" + "/".join(rng.choice(["a", "b", "x", "y z"]) for _ in range(rng.randint(0, 4)))
        yield rng.choice(BASES), cwd, arg


def impl_eval(inputs):
    """run the real get_paths; returns list of (real, virtual) PurePaths or exception names"""
    import aioftp

    out = []

    async def main():
        for base, cwd, arg, typed in inputs:
            user = aioftp.User(base_path=base)
            conn = aioftp.server.Connection(current_directory=pathlib.PurePosixPath(cwd), user=user)
            a = pathlib.PurePosixPath(cwd).parent if typed else arg
            try:
                out.append(aioftp.Server.get_paths(conn, a))
            except Exception as e:  # noqa
                out.append(("EXC", type(e).__name__))

    asyncio.run(main())
    return out


def oracle(base, cwd, arg, typed, got):
    """None if fine, else description"""
    if got[0] == "EXC":
        return "get_paths raised %s" % got[1]
    real, virt = got
    b = pathlib.PurePosixPath(base)
    bparts = list(b.parts)
    rparts = list(real.parts)
    if rparts[: len(bparts)] != bparts:
        return "real path %r not under base %r" % (str(real), base)
    tail = rparts[len(bparts) :]
    if any(x in ("..", ".", "") or "/" in x for x in tail):
        return "real path %r has a non-name component below base" % str(real)
    cwd_parts = [x for x in cwd.split("/") if x]
    if typed:
        want = cwd_parts[:-1]
    else:
        want = py_walk(cwd_parts, arg)
    if str(virt) != "/" + "/".join(want) or virt.root != "/":
        return "virtual path %r is not the walk %r" % (str(virt), "/" + "/".join(want))
    if tail != want:
        return "real path %r does not address the walk %r" % (str(real), "/" + "/".join(want))
    return None


def _run(ctx, oracle_only=False):
    res = Result()
    inputs = []
    seen = set()
    for base, cwd, arg in gen_inputs(ctx, oracle_only):
        inputs.append((base, cwd, arg, False))
    for base in BASES:
        for cwd in CWDS + ["/a/b/c/d"]:
            inputs.append((base, cwd, "", True))
    got = impl_eval(inputs)
    lines = []
    for (base, cwd, arg, typed), g in zip(inputs, got):
        res.cases += 1
        nontrivial = typed or arg.startswith("/") or any(s in ("..", ".", "") for s in arg.split("/"))
        if nontrivial:
            res.distinct.add((cwd, arg, typed))
        res.count("lead_slashes=%d" % min(4, len(arg) - len(arg.lstrip("/"))))
        res.count("dotdots=%d" % min(6, arg.split("/").count("..")))
        why = oracle(base, cwd, arg, typed, g)
        if why:
            res.oracle_failures.append(
                {"input": {"base": base, "cwd": cwd, "arg": arg, "cdup_form": typed}, "what": why, "signature": "C02:" + why.split(" ")[0]}
            )
        b = canon(pathlib.PurePosixPath(base))
        c = canon(pathlib.PurePosixPath(cwd))
        if typed:
            lines.append("paths getpathsP %s %s %s" % (b, c, canon(pathlib.PurePosixPath(cwd).parent)))
        else:
            lines.append("paths getpaths %s %s %s" % (b, c, enc_str(arg)))
    if not oracle_only and ctx.model_ok:
        outs = drive(lines, shards=8)
        res.lines += len(lines)
        for inp, g, o in zip(inputs, got, outs):
            want = "EXC" if g[0] == "EXC" else "%s %s" % (canon(g[0]), canon(g[1]))
            if want != o:
                if len(res.disagreements) < 20:
                    res.disagreements.append(
                        {"correspondence": "Model.getPaths vs Server.get_paths", "input": inp, "model": o, "impl": want}
                    )
                else:
                    res.count("more_disagreements")
    res.samples = [
        {"base": i[0], "cwd": i[1], "arg": i[2], "impl": (str(g[0]), str(g[1])) if g[0] != "EXC" else g}
        for i, g in list(zip(inputs, got))[5000:5004]
    ]
    res.exhaustive = False
    return res


# ------------------------------------------------------------------------------------------------
# wire level: every path the storage backend receives, under sessions whose state changes while a
# transfer is pending (the path a command addresses is fixed when the command is received)
# ------------------------------------------------------------------------------------------------
WIRE_TREE = [
    (("ub",), None), (("ub", "a"), None), (("ub", "a", "x.txt"), b"ub-a-x"), (("ub", "a", "b"), None),
    (("ub", "a", "b", "y.txt"), b"ub-a-b-y"), (("ub", "x.txt"), b"ub-x"), (("ub", "pub"), None), (("ub", "pub", "x.txt"), b"ub-pub-x"),
    (("uc",), None), (("uc", "pub"), None), (("uc", "pub", "x.txt"), b"uc-pub-x"), (("uc", "x.txt"), b"uc-x"), (("uc", "a"), None),
    (("uc", "a", "x.txt"), b"uc-a-x"),
]
TRANSFERS = ["RETR x.txt", "RETR a/x.txt", "RETR ../x.txt", "STOR n.bin", "STOR a/../n.bin", "APPE x.txt", "LIST", "LIST a", "MLSD .", "MLSD a/b/.."]
INTERPOSED = ["CWD a", "CWD /a/b", "CDUP", "CWD /pub", "USER carl", "USER bob", "PWD", "CWD ..", "REST 2", "MKD zz", "RNFR x.txt"]
PLAIN = ["CWD a", "CWD /a/b", "CDUP", "CWD /", "CWD pub", "MKD q/r", "MLST x.txt", "DELE n.bin", "RNFR x.txt", "RNTO x2.txt", "RMD q/r", "PWD",
         "MLST a/../x.txt", "MKD a/../q2", "DELE /a/b/../../n2.bin", "CWD a/./b/..", "MLST ../../x.txt", "RNFR a/b/../x.txt", "MLST //a//x.txt", "RMD a/../q2"]
PATH_VERBS = {"cwd", "mkd", "mlst", "dele", "rnfr", "rnto", "rmd", "retr", "stor", "appe", "list", "mlsd"}


def _wire_users():
    import world as W

    return [W.UserSpec("bob", None, home="/"), W.UserSpec("carl", None, home="/pub")]


# written-out histories of past failures: they run first, on every tier
PAST_FAILURES = [
    # F15: a pending RNFR survived a re-login: the next user's RNTO moved a file out of the previous user's base
    [("cmd", "RNFR x.txt"), ("cmd", "USER carl"), ("cmd", "RNTO x2.txt")],
    [("cmd", "CWD a"), ("cmd", "RNFR x.txt"), ("cmd", "USER carl"), ("cmd", "CWD /"), ("cmd", "RNTO taken.txt")],
    [("cmd", "RNFR a"), ("cmd", "USER bob"), ("cmd", "RNTO a2")],
    [("cmd", "CWD /"), ("late", "LIST a", ["RNFR x.txt", "MKD zz", "USER carl"]), ("cmd", "RNTO x2.txt"), ("cmd", "RMD q/r")],
]


def relogin_plans():
    """the same path command, from the same working directory, before and after a re-login as a user with
    another base directory (carl's home is /pub): nothing resolved for the first login may serve the second"""
    plans = []
    cmds = ["MLST x.txt", "DELE x.txt", "MKD zz", "RMD a", "CWD a", "RNFR x.txt", "MLST ../x.txt", "MLST /pub/x.txt"]
    for c in cmds:
        plans.append([("cmd", "CWD /pub"), ("cmd", c), ("cmd", "USER carl"), ("cmd", c)])
        plans.append([("cmd", "CWD /pub"), ("cmd", c), ("cmd", "USER carl"), ("cmd", "USER bob"), ("cmd", "CWD /pub"), ("cmd", c)])
    for t in ["RETR x.txt", "LIST", "MLSD .", "STOR n.bin"]:
        plans.append([("cmd", "CWD /pub"), ("late", t, []), ("cmd", "USER carl"), ("late", t, [])])
    return plans


def gen_wire_plans(ctx):
    plans = [list(p) for p in PAST_FAILURES] + relogin_plans()
    for t in TRANSFERS:
        plans.append([("late", t, [])])
        for i in INTERPOSED:
            plans.append([("late", t, [i])])
            plans.append([("cmd", "CWD a"), ("late", t, [i])])
        for i, j in itertools.product(INTERPOSED[:6], repeat=2):
            plans.append([("late", t, [i, j])])
    rng = ctx.rng
    for _ in range(ctx.pick(150, 2000)):
        plan = []
        for _ in range(rng.randint(1, 6)):
            if rng.random() < 0.5:
                plan.append(("cmd", rng.choice(PLAIN)))
            else:
                plan.append(("late", rng.choice(TRANSFERS), [rng.choice(INTERPOSED) for _ in range(rng.randint(0, 3))]))
        plans.append(plan)
    return plans


async def _wire_session(loop, plan):
    """returns list of records: per transfer {cmd, cwd_at_receive, base_at_receive, opens: [paths], calls: [(name, paths)]}"""
    import world as W
    import spyio

    users = _wire_users()
    spy = spyio.Spy()
    wd = W.World(loop, users, spy=spy)
    await wd.start()
    # distinct base paths per user
    recs = []
    try:
        wd.set_tree(WIRE_TREE)
        wd.users[0].base_path = pathlib.Path("ub")
        wd.users[1].base_path = pathlib.Path("uc")
        raw = await wd.raw_client()
        # the path each permission lookup is made for
        perm_log = []
        for u in wd.users:
            def spy_permissions(path, _orig=u.get_permissions):
                perm_log.append(str(path))
                return _orig(path)

            u.get_permissions = spy_permissions
        await W.run_line(wd, raw, b"USER bob")

        def state():
            conn = wd.connection_of(raw)
            if conn is None:
                return None
            ok, u = wd._get(conn, "user")
            ok2, c = wd._get(conn, "current_directory")
            return (str(u.base_path) if ok else None, str(c) if ok2 else "/")

        for step in plan:
            st = state()
            if st is None or raw.eof:
                break
            n0 = len(spy.log)
            q0 = len(perm_log)
            if step[0] == "cmd":
                await W.run_line(wd, raw, step[1].encode())
                recs.append({"cmd": step[1], "state": st, "calls": [(n, p) for _, n, p in spy.log[n0:]], "late": False, "perm": perm_log[q0:]})
            else:
                await W.run_line(wd, raw, b"EPSV")
                st = state()
                n0 = len(spy.log)
                q0 = len(perm_log)
                c0 = len(raw.replies)
                raw.send_raw(step[1].encode() + b"\r\n")
                await loop.settle()
                accepted = any(c == "150" for c, _ in raw.replies[c0:])
                n1 = len(spy.log)
                q1 = len(perm_log)
                inter = []
                for line in step[2]:
                    await W.run_line(wd, raw, line.encode())
                    inter.append(line)
                n2 = len(spy.log)
                if accepted and not raw.eof and wd.connection_of(raw) is not None:
                    ok = await W.data_connect(wd, raw)
                    if ok and raw.data is not None:
                        dr, dw = raw.data
                        if step[1].split(" ")[0] in ("STOR", "APPE"):
                            dw.write(b"NEW")
                            dw.close()
                        else:
                            try:
                                await asyncio.wait_for(dr.read(), 30)
                            except Exception:
                                pass
                            dw.close()
                        raw.data = None
                        await loop.settle()
                    else:
                        await asyncio.sleep(1.5)
                        await loop.settle()
                recs.append(
                    {
                        "cmd": step[1],
                        "state": st,
                        "late": True,
                        "interposed": inter,
                        "perm": perm_log[q0:q1],
                        "accepted": accepted,
                        "calls": [(n, p) for _, n, p in spy.log[n0:n1]],
                        "worker_calls": [(n, p) for _, n, p in spy.log[n2:]],
                        "interposed_calls": [(n, p) for _, n, p in spy.log[n1:n2]],
                    }
                )
        raw.close()
        await loop.settle()
    finally:
        try:
            await wd.stop()
        except Exception:
            wd.finish()
    return recs


def _wire_job(plan):
    import simnet

    try:
        return simnet.run(_wire_session, plan)
    except BaseException as e:  # noqa
        return "HARNESS-ERROR %s: %s" % (type(e).__name__, e)


PATH_CALLS = {"exists", "is_dir", "is_file", "mkdir", "rmdir", "unlink", "list", "stat", "open", "rename"}


def _paths_of(call):
    name, p = call
    if p is None or name not in PATH_CALLS:
        return []
    if isinstance(p, list):
        return [x for x in p if not x.startswith("'")][: 2 if name == "rename" else 1]
    return [p]


def wire_oracle(plan, recs):
    """containment of every backend path + the worker of a pending transfer uses the path addressed at receive time"""
    for r in recs:
        base, cwd = r["state"]
        if base is None:
            continue
        all_calls = r["calls"] + r.get("worker_calls", [])
        for call in all_calls:
            for p in _paths_of(call):
                parts = pathlib.PurePosixPath(p).parts
                bparts = pathlib.PurePosixPath(base).parts
                if parts[: len(bparts)] != bparts or ".." in parts:
                    return {"what": "backend %s(%s) for %r is outside the base %r of the user who sent it" % (call[0], p, r["cmd"], base), "signature": "C02:wire:outside-base"}
        verb, _, arg0 = r["cmd"].partition(" ")
        if verb.lower() in PATH_VERBS or verb.lower() == "cdup":
            want_v = "/" + "/".join(py_walk([x for x in cwd.split("/") if x], arg0 if verb.lower() != "cdup" else ".."))
            for got_v in r.get("perm", []):
                if got_v != want_v:
                    return {"what": "%r received in cwd %r: the permission lookup was made for %r, the normalised absolute form of the location addressed is %r" % (r["cmd"], cwd, got_v, want_v), "signature": "C02:wire:permission-lookup-not-normalised"}
        if r.get("late") and r.get("accepted"):
            arg = r["cmd"].partition(" ")[2]
            cwd_parts = [x for x in cwd.split("/") if x]
            want = "/".join(list(pathlib.PurePosixPath(base).parts) + py_walk(cwd_parts, arg))
            for name, p in r["worker_calls"]:
                if name == "open":
                    got = _paths_of((name, p))[0]
                    if got != want:
                        return {
                            "what": "%r received in cwd %r (base %r) addressed %r but the worker opened %r after %r" % (r["cmd"], cwd, base, want, got, r.get("interposed")),
                            "signature": "C02:wire:path-resolved-after-state-change",
                        }
                if name == "list" and p is not None:
                    got = _paths_of((name, p))[0]
                    if got != want:
                        return {
                            "what": "%r received in cwd %r addressed %r but the worker listed %r after %r" % (r["cmd"], cwd, want, got, r.get("interposed")),
                            "signature": "C02:wire:path-resolved-after-state-change",
                        }
    return None


def _wire(ctx, compare=True):
    import multiprocessing
    import os

    res = Result()
    plans = gen_wire_plans(ctx)
    mp = multiprocessing.get_context("fork")
    with mp.Pool(min(16, os.cpu_count() or 4)) as pool:
        outs = pool.map(_wire_job, plans, chunksize=8)
    lines, expect = [], []
    for plan, recs in zip(plans, outs):
        res.cases += 1
        res.count("wire_plans")
        if isinstance(recs, str):
            res.disagreements.append({"correspondence": "wire harness", "input": plan, "impl": recs})
            continue
        if any(s[0] == "late" and s[2] for s in plan):
            res.distinct.add(("wire", repr(plan)))
        f = wire_oracle(plan, recs)
        if f:
            f["input"] = {"wire_plan": plan}
            res.oracle_failures.append(f)
        # model: the path every accepted pending transfer opens/lists is Model.getPaths at receive time
        for r in recs:
            if r.get("late") and r.get("accepted") and r["state"][0] is not None:
                base, cwd = r["state"]
                arg = r["cmd"].partition(" ")[2]
                for name, p in r["worker_calls"]:
                    if name in ("open", "list") and p is not None:
                        got = _paths_of((name, p))[0]
                        lines.append("paths getpaths %s %s %s" % (canon(pathlib.PurePosixPath(base)), canon(pathlib.PurePosixPath(cwd)), enc_str(arg)))
                        expect.append((plan, r["cmd"], canon(pathlib.PurePosixPath(got))))
                        break
    if compare and ctx.model_ok and lines:
        outs = drive(lines)
        res.lines += len(lines)
        for (plan, cmd, got), o in zip(expect, outs):
            if o.split(" ")[0] != got:
                if len(res.disagreements) < 10:
                    res.disagreements.append({"correspondence": "Model.getPaths vs path the backend received (wire)", "input": {"wire_plan": plan, "cmd": cmd}, "model": o.split(" ")[0], "impl": got})
    res.samples = [{"wire_plan": plans[5]}, {"wire_plan": plans[-1]}]
    return res


# ------------------------------------------------------------------------------------------------
# listings on the filesystem backends: the directory listed is the directory addressed, literally
# ------------------------------------------------------------------------------------------------
GLOB_TREE = [
    (("private",), None), (("private", "secret.txt"), b"s"), (("pub",), None), (("pub", "x"), b"x"), (("pxb",), None), (("pxb", "y"), b"y"),
    (("*",), None), (("p?b",), None), (("[p]rivate",), None), (("[p]rivate", "own.txt"), b"o"), (("pu[b]",), None), (("{pub,private}",), None),
    (("~",), None), (("$HOME",), None), (("%s",), None), (("a", ), None), (("a", "*"), None), (("a", "b"), None), (("a", "b", "deep"), b"d"),
]
GLOB_DIRS = ["*", "p?b", "[p]rivate", "pu[b]", "{pub,private}", "~", "$HOME", "%s", "a/*", "a"]


async def _glob_session(loop, backend, flavour):
    import world as W
    import spyio

    spy = spyio.Spy()
    wd = W.World(loop, [W.UserSpec("bob", None, home="/")], spy=spy, backend=backend)
    await wd.start()
    fails = []
    try:
        wd.set_tree(GLOB_TREE)
        children = {}
        for path, _ in GLOB_TREE:
            children.setdefault("/".join(path[:-1]), set()).add(path[-1])
        raw = await wd.raw_client()
        await W.run_line(wd, raw, b"USER bob")
        for d in GLOB_DIRS:
            for how in ("relative", "absolute", "cwd"):
                await W.run_line(wd, raw, b"CWD /")
                if how == "cwd":
                    await W.run_line(wd, raw, ("CWD " + d).encode())
                    arg = ""
                else:
                    arg = d if how == "relative" else "/" + d
                await W.run_line(wd, raw, b"EPSV")
                await W.data_connect(wd, raw)
                n0 = len(spy.log)
                codes, crashed, out, listing = await W.run_line(wd, raw, (flavour + (" " + arg if arg else "")).encode())
                want = sorted(children.get(d, set()))
                if listing is None or sorted(listing) != want:
                    fails.append("%s %r (%s) lists %r, the directory addressed holds %r (replies %r)" % (flavour, arg, how, listing, want, codes))
                    continue
                # every backend call of the listing is at or below the directory addressed
                top = None
                for _, name, p in spy.log[n0:]:
                    for q in _paths_of((name, p)):
                        if name == "list":
                            top = q
                        elif top is not None and name in ("stat", "exists", "is_file", "is_dir") and q != top and not q.startswith(top.rstrip("/") + "/"):
                            fails.append("%s %r (%s): backend %s(%s) is not inside the directory listed (%s)" % (flavour, arg, how, name, q, top))
        raw.close()
        await loop.settle()
    finally:
        try:
            await wd.stop()
        except Exception:
            wd.finish()
    return fails


def _glob_family(ctx):
    import simnet

    res = Result()
    for backend in ("pathio", "async", "memory"):
        for flavour in ("LIST", "MLSD"):
            res.cases += 1
            res.count("wire_listing_of_literal_names_" + backend)
            res.distinct.add(("glob-names", backend, flavour))
            try:
                fails = simnet.run(_glob_session, backend, flavour)
            except BaseException as e:  # noqa
                res.disagreements.append({"correspondence": "C02 listing harness", "input": [backend, flavour], "impl": "%s: %s" % (type(e).__name__, e)})
                continue
            if fails:
                res.oracle_failures.append({"input": {"kind": "literal-names-listing", "backend": backend, "flavour": flavour}, "what": fails[0], "signature": "C02:wire:listing-of-another-directory"})
    return res


def correspondence(ctx):
    r = _run(ctx)
    r.merge(_wire(ctx))
    r.merge(_glob_family(ctx))
    return r


def search(ctx, prior):
    r = _run(ctx, oracle_only=True)
    r.merge(_wire(ctx, compare=False))
    r.merge(_glob_family(ctx))
    return r


def replay(ctx, doc):
    i = doc["failure"]["input"]
    if i.get("kind") == "literal-names-listing":
        import simnet

        fails = simnet.run(_glob_session, i["backend"], i["flavour"])
        for f in fails[:5]:
            print("implementation:", f)
        return bool(fails)
    if "wire_plan" in i:
        plan = [tuple(x) for x in i["wire_plan"]]
        recs = _wire_job(plan)
        f = wire_oracle(plan, recs) if not isinstance(recs, str) else {"what": recs}
        print("records:", recs)
        print("oracle:", f)
        return f is not None
    got = impl_eval([(i["base"], i["cwd"], i["arg"], i.get("cdup_form", False))])[0]
    why = oracle(i["base"], i["cwd"], i["arg"], i.get("cdup_form", False), got)
    print("implementation:", got, "->", why)
    return why is not None


# the long-lived process: the operator re-points a base directory between sessions (props/history.py)
from props import history as _history  # noqa: E402

correspondence, search, replay = _history.attach(PID, correspondence, search, replay, pasts=[])


# somebody else's classes: the documented extension points used the way a third party uses them (props/thirdparty.py)
from props import thirdparty as _thirdparty  # noqa: E402

correspondence, search, replay = _thirdparty.attach(PID, correspondence, search, replay)
