"""Sequential session histories: run them on the real server (simulated network), produce the driver
lines for the Lean session model, compare field by field.  Shared by C03, C04 (wire), C05, C18."""
import asyncio
import multiprocessing
import os
import pathlib
import socket

import simnet
import spyio
import world as W
from framework import enc_bytes, enc_str

# users of the standard universe
USERS_ANON = [
    W.UserSpec(None, None),  # anonymous
    W.UserSpec("alice", "secret", home="/d"),
    W.UserSpec("bob", None),
]
USERS_NOANON = [
    W.UserSpec("alice", "secret", home="/d"),
    W.UserSpec("bob", None),
    W.UserSpec("carol", "", home="/"),  # empty-string password
]

TREE = [
    (("d",), None),
    (("d", "sub"), None),
    (("d", "g.txt"), b"hello world"),
    (("e",), None),
    (("f.txt",), b"0123456789"),
]

COMPARE_KEYS = ["replies", "crashed", "alive", "user", "logged", "cwd", "rnfr", "rest", "passive", "data", "out", "listing", "srvfree", "ufree", "fs"]
DEAD_KEYS = ["replies", "crashed", "alive", "fs"]


def canon_tree(tree):
    """the token World.tree() gives for an untouched initial tree"""
    items = [("|".join(enc_str(x) for x in path) + ("=D" if c is None else "=F" + enc_bytes(c))) for path, c in tree]
    return ";".join(sorted(items)) if items else "~"


def ev_line(text, payload=b""):
    return ("line", text if isinstance(text, bytes) else text.encode("utf-8"), payload)


def driver_lines_for(users, tree, events, max_conn=None, ipv6=False, sid=0):
    lines = []
    for ev in events:
        if ev[0] == "connect":
            lines.append("sess ev %d connect" % sid)
        elif ev[0] == "dataconnect":
            lines.append("sess ev %d dataconnect" % sid)
        elif ev[0] == "finish":
            lines.append("sess ev %d finish" % sid)
        else:
            raw = ev[1].decode("utf-8")
            lines.append("sess ev %d line %s %s" % (sid, enc_str(raw), enc_bytes(ev[2])))
    return lines


async def _run_history(loop, users, tree, events, backend="memory", server_kwargs=None, family=socket.AF_INET):
    """single session; returns list of snapshots (one per event)"""
    wd = W.World(loop, users, backend=backend, server_kwargs=server_kwargs, family=family)
    await wd.start()
    snaps = []
    try:
        wd.set_tree(tree)
        raw = None
        for ev in events:
            if ev[0] == "connect":
                e0 = wd.log.exceptions
                raw = await wd.raw_client()
                codes = [int(c) for c, _ in raw.replies]
                snaps.append(wd.snapshot(raw, codes, wd.log.exceptions > e0))
            elif ev[0] == "dataconnect":
                await W.data_connect(wd, raw)
                snaps.append(wd.snapshot(raw, [], False))
            elif ev[0] == "finish":
                raw.close()
                await loop.settle()
                snaps.append(wd.snapshot(raw, [], False))
            else:
                if raw.eof or wd.connection_of(raw) is None:
                    snaps.append(None)  # session already gone: event not delivered
                    continue
                codes, crashed, out, listing = await W.run_line(wd, raw, ev[1], ev[2])
                snaps.append(wd.snapshot(raw, codes, crashed, out, listing))
        if raw is not None:
            raw.close()
        await loop.settle()
    finally:
        try:
            await wd.stop()
        except Exception:
            wd.finish()
    return snaps


async def _run_pipelined(loop, users, tree, lines, backend="memory", server_kwargs=None):
    """all command lines in ONE segment, without waiting for replies in between; returns the final snapshot,
    the reply codes in arrival order and the spy/listener counters"""
    wd = W.World(loop, users, backend=backend, server_kwargs=server_kwargs)
    await wd.start()
    try:
        wd.set_tree(tree)
        raw = await wd.raw_client()
        n0 = len(raw.replies)
        raw.send_raw(b"".join((l if isinstance(l, bytes) else l.encode("utf-8")) + b"\r\n" for l in lines))
        await loop.settle()
        waited = 0.0
        def finals():
            return [c for c, _ in raw.replies[n0:] if not c.startswith("1")]
        while waited < 6.0 and not raw.eof and len(finals()) < len(lines) and wd.connection_of(raw) is not None:
            await asyncio.sleep(0.25)
            waited += 0.25
            await loop.settle()
        codes = [int(c) if c.isdigit() else -1 for c, _ in raw.replies[n0:]]
        snap = wd.snapshot(raw, codes, False)
        raw.close()
        await loop.settle()
    finally:
        try:
            await wd.stop()
        except Exception:
            wd.finish()
    return snap


def run_pipelined(users, tree, lines, backend="memory", server_kwargs=None):
    return simnet.run(_run_pipelined, users, tree, lines, backend, server_kwargs)


def _pworker(job):
    users, tree, lines = job
    try:
        return run_pipelined(users, tree, lines)
    except BaseException as e:  # noqa
        return "HARNESS-ERROR %s: %s" % (type(e).__name__, e)


def run_many_pipelined(jobs, procs=None):
    procs = procs or min(16, os.cpu_count() or 4)
    ctx = multiprocessing.get_context("fork")
    with ctx.Pool(procs) as pool:
        return pool.map(_pworker, jobs, chunksize=max(1, len(jobs) // (procs * 8)))


def run_history(users, tree, events, backend="memory", server_kwargs=None, family=socket.AF_INET):
    return simnet.run(_run_history, users, tree, events, backend, server_kwargs, family)


def _worker(job):
    users, tree, events, backend, kw, fam = job
    try:
        return run_history(users, tree, events, backend, kw, fam)
    except BaseException as e:  # noqa
        return "HARNESS-ERROR %s: %s" % (type(e).__name__, e)


def run_many(jobs, procs=None):
    """jobs: list of (users, tree, events, backend, server_kwargs, family)"""
    procs = procs or min(16, os.cpu_count() or 4)
    if len(jobs) < 40 or procs <= 1:
        return [_worker(j) for j in jobs]
    ctx = multiprocessing.get_context("fork")
    with ctx.Pool(procs) as pool:
        return pool.map(_worker, jobs, chunksize=max(1, len(jobs) // (procs * 8)))


def model_lines(wd_users, tree, events, max_conn=None, ipv6=False):
    """init + fs + new + events for one fresh single-session history"""
    mc = "n" if max_conn is None else str(max_conn)
    fs_tok = ";".join(
        ("|".join(enc_str(x) for x in path) + ("=D" if c is None else "=F" + enc_bytes(c))) for path, c in tree
    ) or "~"
    head = ["sess init %s %d %s" % (mc, 1 if ipv6 else 0, " ".join(u.token() for u in wd_users)), "sess fs " + fs_tok, "sess new"]
    return head + driver_lines_for(wd_users, tree, events)


def compare(snaps, model_out, skip_head=3):
    """returns list of (event index, key, impl, model) differences; stops at the first dead event"""
    diffs = []
    outs = model_out[skip_head:]
    dead = False
    for i, (snap, mo) in enumerate(zip(snaps, outs)):
        if snap is None:
            # not delivered: the model must agree the session is dead already
            continue
        m = W.parse_model_state(mo)
        keys = DEAD_KEYS if (dead or snap["alive"] == "0") else COMPARE_KEYS
        for k in keys:
            if snap.get(k) != m.get(k):
                diffs.append((i, k, snap.get(k), m.get(k)))
        # the offset handed to transfers at dispatch: compared when the tree under check has the attribute
        if keys is COMPARE_KEYS and snap.get("xfer", "-") != "-" and m.get("xfer") is not None and snap["xfer"] != m["xfer"]:
            diffs.append((i, "xfer", snap["xfer"], m["xfer"]))
        if snap["alive"] == "0":
            dead = True
        if diffs:
            break
    return diffs
