"""Translator, client part: every `"<VERB> " + str(<path>)` command-construction call site of
client.py (function, literal prefix, whether the sum is wrapped in `.strip()`), the literal commands
`"CDUP"` / `"PWD"`, the `PurePosixPath("..")` special case of change_directory, and the exception tuple
of the listing-parser chain.  Theorems in Properties/C08.lean quantify over the generated table."""
import ast
import sys

try:
    from .extract import lean_list, lean_str
except ImportError:  # run as a script
    from extract import lean_list, lean_str  # type: ignore


def lean_chars(s):
    if not s:
        return "[]"
    return "[" + ", ".join(("'%s'" % c) if (c.isascii() and (c.isalnum() or c in " .-_")) else "Char.ofNat %d" % ord(c) for c in s) + "]"


def _client_ast():
    import aioftp.client  # noqa

    mod = sys.modules["aioftp.client"]
    with open(mod.__file__) as f:
        return ast.parse(f.read())


def path_cmd_sites(tree):
    """(function name, prefix literal, stripped?) for every  "<lit>" + str(x)  in client.py"""
    out = []

    class V(ast.NodeVisitor):
        def __init__(self):
            self.stack = []

        def visit_FunctionDef(self, node):
            self.stack.append(node.name)
            self.generic_visit(node)
            self.stack.pop()

        visit_AsyncFunctionDef = visit_FunctionDef

        def visit_Call(self, node):
            # ( "<lit>" + str(x) ).strip()
            f = node.func
            if isinstance(f, ast.Attribute) and f.attr == "strip" and not node.args and _is_site(f.value):
                out.append((self.fn(), f.value.left.value, True, ast.unparse(f.value.right.args[0])))
                for a in ast.iter_child_nodes(f.value.right):
                    self.visit(a)
                return
            self.generic_visit(node)

        def visit_BinOp(self, node):
            if _is_site(node):
                out.append((self.fn(), node.left.value, False, ast.unparse(node.right.args[0])))
            self.generic_visit(node)

        def fn(self):
            # outermost public method that contains the site
            return self.stack[0] if self.stack else "<module>"

    def _is_site(n):
        return (
            isinstance(n, ast.BinOp)
            and isinstance(n.op, ast.Add)
            and isinstance(n.left, ast.Constant)
            and isinstance(n.left.value, str)
            and isinstance(n.right, ast.Call)
            and isinstance(n.right.func, ast.Name)
            and n.right.func.id == "str"
            and len(n.right.args) == 1
        )

    V().visit(tree)
    return out


def chain_exceptions(tree):
    """names in the `except (...)` tuple of parse_list_line"""
    for node in ast.walk(tree):
        if isinstance(node, ast.FunctionDef) and node.name == "parse_list_line":
            for h in ast.walk(node):
                if isinstance(h, ast.ExceptHandler) and h.type is not None:
                    t = h.type
                    if isinstance(t, ast.Tuple):
                        return [ast.unparse(e) for e in t.elts]
                    return [ast.unparse(t)]
    return []


def chain_parsers(tree):
    """the `parsers = [...]` list literal of parse_list_line (attribute names, in order)"""
    for node in ast.walk(tree):
        if isinstance(node, ast.FunctionDef) and node.name == "parse_list_line":
            for a in ast.walk(node):
                if isinstance(a, ast.Assign) and isinstance(a.value, ast.List) and any(
                    isinstance(t, ast.Name) and t.id == "parsers" for t in a.targets
                ):
                    return [e.attr for e in a.value.elts if isinstance(e, ast.Attribute)]
    return []


def cdup_special(tree):
    """(compared literal, command literal) of the `if path == PurePosixPath(<lit>): cmd = <lit>` in change_directory"""
    for node in ast.walk(tree):
        if isinstance(node, (ast.AsyncFunctionDef, ast.FunctionDef)) and node.name == "change_directory":
            for i in ast.walk(node):
                if isinstance(i, ast.If) and isinstance(i.test, ast.Compare) and len(i.test.comparators) == 1:
                    c = i.test.comparators[0]
                    if isinstance(c, ast.Call) and c.args and isinstance(c.args[0], ast.Constant):
                        for st in i.body:
                            if isinstance(st, ast.Assign) and isinstance(st.value, ast.Constant):
                                return c.args[0].value, st.value.value
    raise RuntimeError("change_directory: CDUP special case not found")


def list_type_lookup_raises(tree):
    """`Client.list` -> `AsyncLister.__anext__`: how the loop reads the entry's `type` fact.
    True: a subscript `info["type"]` (KeyError when the fact is absent); False: only `.get("type")`-style reads"""
    for node in ast.walk(tree):
        if isinstance(node, ast.AsyncFunctionDef) and node.name == "__anext__":
            subs = [n for n in ast.walk(node) if isinstance(n, ast.Subscript) and isinstance(n.slice, ast.Constant) and n.slice.value == "type"
                    and isinstance(n.ctx, ast.Load)]
            gets = [n for n in ast.walk(node) if isinstance(n, ast.Call) and isinstance(n.func, ast.Attribute) and n.func.attr == "get"
                    and n.args and isinstance(n.args[0], ast.Constant) and n.args[0].value == "type"]
            if subs:
                return True
            if gets:
                return False
            raise RuntimeError("Client.list.__anext__: no read of the `type` fact found")
    raise RuntimeError("Client.list: __anext__ not found")


NON_PATH_ARGS = ("offset",)


def upload_relative(tree):
    """the `relative = <expr>` assignments inside `Client.upload`, each with the `if` test that guards it
    ("" = unconditional, "not <test>" for the else branch), in source order"""
    out = []

    def walk(body, guard):
        for st in body:
            if isinstance(st, ast.Assign) and any(isinstance(t, ast.Name) and t.id == "relative" for t in st.targets):
                out.append((guard, ast.unparse(st.value)))
            elif isinstance(st, ast.If):
                t = ast.unparse(st.test)
                walk(st.body, t if not guard else guard + " and " + t)
                walk(st.orelse, ("not " + t) if not guard else guard + " and not " + t)
            else:
                for fld in ("body", "orelse", "finalbody"):
                    sub = getattr(st, fld, None)
                    if isinstance(sub, list) and sub and isinstance(sub[0], ast.stmt):
                        walk(sub, guard)

    for n in ast.walk(tree):
        if isinstance(n, ast.AsyncFunctionDef) and n.name == "upload":
            # only the loop over the children of a directory matters: guards above it (is_file / is_dir) are structural
            for loop in ast.walk(n):
                if isinstance(loop, ast.AsyncFor):
                    walk(loop.body, "")
    return out


def pwd_doubles_quotes():
    """does `Server.pwd` double the quotes of the directory before putting it between quotes?
    True when the method applies `.replace('"', '""')` to an expression mentioning current_directory."""
    import aioftp.server  # noqa

    with open(sys.modules["aioftp.server"].__file__) as f:
        tree = ast.parse(f.read())
    for cls in [n for n in tree.body if isinstance(n, ast.ClassDef) and n.name == "Server"]:
        for fn in [n for n in cls.body if isinstance(n, ast.AsyncFunctionDef) and n.name == "pwd"]:
            for n in ast.walk(fn):
                if (
                    isinstance(n, ast.Call)
                    and isinstance(n.func, ast.Attribute)
                    and n.func.attr == "replace"
                    and len(n.args) == 2
                    and all(isinstance(a, ast.Constant) for a in n.args)
                    and n.args[0].value == '"'
                    and n.args[1].value == '""'
                    and "current_directory" in ast.unparse(n.func.value)
                ):
                    return True
    return False


def make_directory_stops_at_dotdot(tree):
    """the test of the `while` loop of `Client.make_directory`: True when it also stops at a `..` component
    (`path.name != '..'`), False for the plain `path.name and not await self.exists(path)` and for any other shape"""
    for n in ast.walk(tree):
        if isinstance(n, ast.AsyncFunctionDef) and n.name == "make_directory":
            loops = [x for x in ast.walk(n) if isinstance(x, ast.While)]
            if len(loops) != 1:
                break
            t = ast.unparse(loops[0].test)
            if t == "path.name and (not await self.exists(path))":
                return False
            if t == "path.name and path.name != '..' and (not await self.exists(path))":
                return True
            return False  # a shape the translator does not know: the value under which C09's fact does not check
    return False


def gen_client():
    tree = _client_ast()
    rel = upload_relative(tree)
    all_sites = path_cmd_sites(tree)
    # `"REST " + str(offset)` carries a number, not a path
    sites = [x[:3] for x in all_sites if x[3] not in NON_PATH_ARGS]
    others = [x for x in all_sites if x[3] in NON_PATH_ARGS]
    if not sites:
        raise RuntimeError("no command construction sites found in client.py")
    exc = chain_exceptions(tree)
    parsers = chain_parsers(tree)
    cd_lit, cd_cmd = cdup_special(tree)
    lines = [
        "/- GENERATED by harness/extract_client.py from /repo/src/aioftp/client.py. Do not edit. -/",
        "namespace Generated",
        "",
        '/-- every `"<prefix>" + str(path)` command construction in client.py:',
        "    (enclosing public method, prefix as characters, whether the sum is wrapped in `.strip()`) -/",
        "def clientPathCmdSites : List (String × List Char × Bool) := "
        + lean_list(
            ("(%s, %s, %s)" % (lean_str(fn), lean_chars(pre), "true" if st else "false") for fn, pre, st in sites), per_line=1
        ),
        "",
        "/-- the same shape with a non-path argument (listed for completeness, not part of C08) -/",
        "def clientNonPathStrSites : List (String × List Char × String) := "
        + lean_list(("(%s, %s, %s)" % (lean_str(fn), lean_chars(pre), lean_str(arg)) for fn, pre, st, arg in others), per_line=1),
        "",
        "/-- `change_directory`: the path literal compared against, and the command sent instead of `CWD ` -/",
        "def clientCdupLiteral : List Char := " + lean_chars(cd_lit),
        "def clientCdupCommand : List Char := " + lean_chars(cd_cmd),
        "",
        "/-- the exception classes caught by the `parse_list_line` chain, as written -/",
        "def listChainCaught : List String := " + lean_list((lean_str(e) for e in exc), per_line=8),
        "",
        "/-- the built-in parsers of the chain, in order -/",
        "def listChainParsers : List String := " + lean_list((lean_str(e) for e in parsers), per_line=8),
        "",
        "/-- `Server.pwd` doubles the double quotes of the directory before quoting it (RFC 959) -/",
        "def pwdDoublesQuotes : Bool := %s" % ("true" if pwd_doubles_quotes() else "false"),
        "",
        "/-- `Client.list.__anext__` reads the entry's type with a subscript (`info[\"type\"]`: KeyError when absent) -/",
        "def listTypeLookupRaises : Bool := %s" % ("true" if list_type_lookup_raises(tree) else "false"),
        "",
        "/-- `Client.make_directory` never asks for, nor tries to create, a `..` component (its loop stops there) -/",
        "def makeDirectoryStopsAtDotDot : Bool := %s" % ("true" if make_directory_stops_at_dotdot(tree) else "false"),
        "",
        "/-- `Client.upload`: the `relative = <expr>` assignments of the loop over a directory's children,",
        "    as (guarding test, expression) in source order; \"\" = unconditional -/",
        "def uploadRelative : List (String × String) := "
        + lean_list(("(%s, %s)" % (lean_str(g), lean_str(e)) for g, e in rel), per_line=1),
        "",
        "end Generated",
        "",
    ]
    return "\n".join(lines)


GENERATORS = {"Client.lean": gen_client}

if __name__ == "__main__":
    print(gen_client())
