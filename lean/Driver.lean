/- Line-protocol driver: one operation per input line, one canonical answer per line.
   Imports model files only (no Mathlib), run with `lake env lean --run Driver.lean`. -/
import AioftpModel.Driver.Codec
import AioftpModel.Model.Paths

open Codec Model Py

def encPPath (p : PPath) : String := s!"{p.root}:{encStrs p.parts}"

def decPPath (tok : String) : Option PPath :=
  match tok.splitOn ":" with
  | [r, ps] => match r.toNat?, decStrs ps with
    | some n, some l => some ⟨n, l⟩
    | _, _ => none
  | _ => none

def handlePaths : List String → Option String
  | ["parse", s] => do
    let s ← decStr s
    pure (encPPath (PPath.parse s))
  | ["getpaths", base, cwd, arg] => do
    let b ← decPPath base; let c ← decPPath cwd; let a ← decStr arg
    let (r, v) := getPaths b c a
    pure s!"{encPPath r} {encPPath v}"
  | ["getpathsP", base, cwd, arg] => do
    let b ← decPPath base; let c ← decPPath cwd; let a ← decPPath arg
    let (r, v) := getPathsP b c a
    pure s!"{encPPath r} {encPPath v}"
  | ["walk", cwd, arg] => do
    let c ← decStrs cwd; let a ← decStr arg
    pure (encStrs (walk c a))
  | ["str", p] => do
    let p ← decPPath p
    pure (encStr p.str)
  | _ => none

def handle (line : String) : String :=
  let toks := (line.splitOn " ").filter (· ≠ "")
  let r := match toks with
    | "paths" :: rest => handlePaths rest
    | _ => none
  r.getD "bad-op"

partial def loop (h : IO.FS.Stream) (out : IO.FS.Stream) : IO Unit := do
  let line ← h.getLine
  if line.isEmpty then return ()
  let line := String.ofList (line.toList.filter (fun c => c != (Char.ofNat 10) && c != (Char.ofNat 13)))
  out.putStrLn (handle line)
  loop h out

def main : IO Unit := do
  let out ← IO.getStdout
  loop (← IO.getStdin) out
  out.flush
