/- Line-protocol driver: one operation per input line, one canonical answer per line.
   Imports model files only (no Mathlib), run with `lake env lean --run Driver.lean`. -/
import AioftpModel.Driver.Codec
import AioftpModel.Model.Paths
import AioftpModel.Driver.Session
import AioftpModel.Driver.Lifecycle
import AioftpModel.Driver.Perms
import AioftpModel.Driver.Faults
import AioftpModel.Driver.Abort
import AioftpModel.Driver.Logs
import AioftpModel.Driver.Framing
import AioftpModel.Driver.Throttle
import AioftpModel.Driver.Transfer
import AioftpModel.Driver.Counters
import AioftpModel.Driver.PortPool
import AioftpModel.Driver.Names
import AioftpModel.Driver.Calendar
import AioftpModel.Driver.ClientTree
import AioftpModel.Driver.Backends
import AioftpModel.Driver.Timers
import AioftpModel.Driver.MemHandles

open Codec Model Py

def encPPath (p : PPath) : String := s!"{p.root}:{encStrs p.parts}"

def decPPath (tok : String) : Option PPath :=
  match tok.splitOn ":" with
  | [r, ps] => match r.toNat?, decStrs ps with
    | some n, some l => some ⟨n, l⟩
    | _, _ => none
  | _ => none

def handlePaths : List String → Option String
  | ["parse", s] => do
    let s ← decStr s
    pure (encPPath (PPath.parse s))
  | ["getpaths", base, cwd, arg] => do
    let b ← decPPath base; let c ← decPPath cwd; let a ← decStr arg
    let (r, v) := getPaths b c a
    pure s!"{encPPath r} {encPPath v}"
  | ["getpathsP", base, cwd, arg] => do
    let b ← decPPath base; let c ← decPPath cwd; let a ← decPPath arg
    let (r, v) := getPathsP b c a
    pure s!"{encPPath r} {encPPath v}"
  | ["walk", cwd, arg] => do
    let c ← decStrs cwd; let a ← decStr arg
    pure (encStrs (walk c a))
  | ["str", p] => do
    let p ← decPPath p
    pure (encStr p.str)
  | _ => none

/-- state of the stateful components -/
structure DState where
  sess : DriverSession.DState := {}
  sys : DriverCounters.DState := {}
  pool : DriverPortPool.DState := {}
  sessp : DriverSession.DState := {}
  bk : DriverBackends.ApiState := {}

/-- pure components: tokens after the component word → answer -/
def handlePure : List String → Option String
  | "paths" :: rest => handlePaths rest
  | "life" :: rest => DriverLifecycle.handleLife rest
  | "perms" :: rest => DriverPerms.handlePerms rest
  | "fault" :: rest => DriverFaults.handleFaults rest
  | "abor" :: rest => DriverAbort.handleAbort rest
  | "logs" :: rest => DriverLogs.handleLogs rest
  | "framing" :: rest => DriverFraming.handleFraming rest
  | "throttle" :: rest => handleThrottle rest
  | "xfer" :: rest => DriverTransfer.handleTransfer rest
  | "cnt" :: rest => DriverCounters.handleCnt rest
  | "poolrun" :: rest => DriverPortPool.handlePortPool rest
  | "names" :: rest => DriverNames.handleNames rest
  | "calendar" :: rest => handleCalendar rest
  | "ct" :: rest => DriverClientTree.handleClientTree rest
  | "timers" :: rest => DriverTimers.handleTimers rest
  | "memh" :: rest => DriverMemHandles.handleMemHandles rest
  | _ => none

def handle (st : DState) (line : String) : DState × String :=
  let toks := (line.splitOn " ").filter (· ≠ "")
  match toks with
  | "sess" :: rest =>
    let (s', r) := DriverSession.handle st.sess rest
    ({ st with sess := s' }, r.getD "bad-op")
  | "sys" :: rest =>
    let (s', r) := DriverCounters.handle st.sys rest
    ({ st with sys := s' }, r.getD "bad-op")
  | "pool" :: rest =>
    let (s', r) := DriverPortPool.handle st.pool rest
    ({ st with pool := s' }, r.getD "bad-op")
  | "sessp" :: rest =>
    let (s', r) := DriverBackends.handleSessP st.sessp rest
    ({ st with sessp := s' }, r.getD "bad-op")
  | "bk" :: rest =>
    let (s', r) := DriverBackends.handleApi st.bk rest
    ({ st with bk := s' }, r.getD "bad-op")
  | _ => (st, (handlePure toks).getD "bad-op")

partial def loop (h : IO.FS.Stream) (out : IO.FS.Stream) (st : DState) : IO Unit := do
  let line ← h.getLine
  if line.isEmpty then return ()
  let line := String.ofList (line.toList.filter (fun c => c != (Char.ofNat 10) && c != (Char.ofNat 13)))
  let (st', r) := handle st line
  out.putStrLn r
  loop h out st'

def main : IO Unit := do
  let out ← IO.getStdout
  loop (← IO.getStdin) out {}
  out.flush
