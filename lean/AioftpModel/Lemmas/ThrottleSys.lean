/-
  C15: the invariant behind `shared_sum` / `rate_bound`, over every event trace of `Model.Throttling.Sys`.
  Ghost (specification-level) quantities for one throttle `x` are computed alongside the run.
-/
import AioftpModel.Lemmas.Throttle

namespace Model.Throttling
open Py

/-! ## key invariant of one throttle -/

/-- `limit · start + sum`: the instant (scaled by the limit) up to which the accounted bytes are paid -/
def Throttle.debt (t : Throttle) (l : Int) : Rat := (l : Rat) * t.start.getD 0 + t.sum

/-- 1 when this `append` folds the window *and* `round` changes `elapsed · limit`, else 0:
    the number of half-bytes the key quantity may move by -/
def Throttle.foldSlack (t : Throttle) (st : Rat) : Nat :=
  match t.limit, t.start with
  | some l, some s =>
    if t.folds st = true ∧ (roundHalfEven ((st - s) * (l : Rat)) : Rat) ≠ (st - s) * (l : Rat) then 1 else 0
  | _, _ => 0

theorem debt_append (t : Throttle) (l : Int) (n : Nat) (st : Rat) (hl : t.limit = some l) (hp : 0 < l) :
    (t.start = none → (t.append n st).start = some st ∧
        (t.append n st).debt l = (l : Rat) * st + t.sum + n) ∧
    (∀ s, t.start = some s →
      ∃ s', (t.append n st).start = some s' ∧
        (t.append n st).debt l - (t.debt l + n) ≤ (t.foldSlack st : Rat) / 2 ∧
        -((t.foldSlack st : Rat) / 2) ≤ (t.append n st).debt l - (t.debt l + n)) := by
  obtain ⟨_, _, h⟩ := append_on t l n st hl hp
  constructor
  · intro hs
    rcases h with ⟨_, h1, h2⟩ | ⟨s, h0, _⟩ | ⟨s, h0, _⟩
    · refine ⟨h1, ?_⟩
      simp only [Throttle.debt, h1, h2, Option.getD_some]
      push_cast; ring
    · rw [hs] at h0; cases h0
    · rw [hs] at h0; cases h0
  · intro s hs
    rcases h with ⟨h0, _⟩ | ⟨s1, h0, hf, h1, h2⟩ | ⟨s1, h0, hf, h1, h2⟩
    · rw [hs] at h0; cases h0
    · rw [hs] at h0; cases h0
      have z : t.foldSlack st = 0 := by simp [Throttle.foldSlack, hl, hs, hf]
      refine ⟨s, h1, ?_, ?_⟩ <;>
        · simp only [Throttle.debt, h1, h2, hs, z, Option.getD_some]
          push_cast; simp; linarith
    · rw [hs] at h0; cases h0
      have r := round_err ((st - s) * (l : Rat))
      by_cases hx : (roundHalfEven ((st - s) * (l : Rat)) : Rat) = (st - s) * (l : Rat)
      · have z : t.foldSlack st = 0 := by simp [Throttle.foldSlack, hl, hs, hf, hx]
        refine ⟨st, h1, ?_, ?_⟩ <;>
          · simp only [Throttle.debt, h1, h2, hs, z, Option.getD_some]
            push_cast; simp; linarith
      · have z : t.foldSlack st = 1 := by simp [Throttle.foldSlack, hl, hs, hf, hx]
        refine ⟨st, h1, ?_, ?_⟩
        · simp only [Throttle.debt, h1, h2, hs, z, Option.getD_some]
          push_cast
          linarith [r.1]
        · simp only [Throttle.debt, h1, h2, hs, z, Option.getD_some]
          push_cast
          linarith [r.2]

theorem foldSlack_le (t : Throttle) (st : Rat) :
    t.foldSlack st ≤ 1 ∧ (t.folds st = false → t.foldSlack st = 0) := by
  unfold Throttle.foldSlack
  split
  · split_ifs with h
    · exact ⟨le_refl _, fun hf => by rw [hf] at h; exact absurd h.1 (by simp)⟩
    · exact ⟨Nat.zero_le _, fun _ => rfl⟩
  · exact ⟨Nat.zero_le _, fun _ => rfl⟩

theorem folds_gap (t : Throttle) (l : Int) (s st : Rat) (hl : t.limit = some l) (hs : t.start = some s)
    (hf : t.folds st = true) : t.resetRate < st - s := by
  simp only [Throttle.folds, hl, hs, Option.getD_some, Bool.and_eq_true, decide_eq_true_eq] at hf
  exact hf.2

/-! ## finite sums over stream indices -/

def sumTo : Nat → (Nat → Nat) → Nat
  | 0, _ => 0
  | n + 1, F => sumTo n F + F n

theorem sumTo_congr (n : Nat) (F G : Nat → Nat) (h : ∀ k, k < n → F k = G k) : sumTo n F = sumTo n G := by
  induction n with
  | zero => rfl
  | succ n ih =>
    simp only [sumTo]
    rw [ih (fun k hk => h k (Nat.lt_succ_of_lt hk)), h n (Nat.lt_succ_self n)]

theorem sumTo_le (n : Nat) (F G : Nat → Nat) (h : ∀ k, k < n → F k ≤ G k) : sumTo n F ≤ sumTo n G := by
  induction n with
  | zero => exact le_refl _
  | succ n ih =>
    simp only [sumTo]
    exact Nat.add_le_add (ih (fun k hk => h k (Nat.lt_succ_of_lt hk))) (h n (Nat.lt_succ_self n))

theorem sumTo_add (n : Nat) (F G : Nat → Nat) : sumTo n (fun k => F k + G k) = sumTo n F + sumTo n G := by
  induction n with
  | zero => rfl
  | succ n ih => simp only [sumTo, ih]; omega

/-- changing one index changes the sum by that term -/
theorem sumTo_update (n j : Nat) (F F' : Nat → Nat) (hj : j < n) (h : ∀ k, k ≠ j → F' k = F k) :
    sumTo n F' + F j = sumTo n F + F' j := by
  induction n with
  | zero => omega
  | succ n ih =>
    simp only [sumTo]
    by_cases e : j = n
    · subst e
      rw [sumTo_congr j F' F (fun k hk => h k (by omega))]
      omega
    · have := ih (by omega)
      rw [h n (fun e' => e e'.symm)]
      omega

/-! ## ghost state for throttle `x` -/

structure Ghost where
  /-- bytes appended to `x` so far (completed I/Os) -/
  acc : Nat
  /-- start stamp of the first I/O appended to `x` -/
  t0 : Rat
  /-- number of `reset_rate` folds of `x` in which `round` was not exact (see `Throttle.foldSlack`) -/
  folds : Nat
  /-- bytes of I/Os that have started on streams holding `x` (completed or in flight) -/
  moved : Nat
  /-- instant the first I/O on a stream holding `x` started -/
  fb : Option Rat
  /-- `acc` at stream k's latest call of `wait` -/
  a : Nat → Nat
  /-- size of stream k's latest completed block -/
  β : Nat → Nat
  /-- the largest `a k` among calls whose I/O has started -/
  anch : Nat

def Ghost.init : Ghost := ⟨0, 0, 0, 0, none, fun _ => 0, fun _ => 0, 0⟩

def holds (x : Nat) (s : Sys) (j : Nat) : Bool :=
  match s.procs[j]? with
  | some p => decide (x ∈ p.ids)
  | none => false

def gstep (x : Nat) (s : Sys) (g : Ghost) : Ev → Ghost
  | .call j _ => if holds x s j then { g with a := fun k => if k = j then g.acc else g.a k } else g
  | .begin j T n =>
    if holds x s j then
      { g with anch := max g.anch (g.a j), moved := g.moved + n, fb := some (g.fb.getD T) }
    else g
  | .done j _ =>
    match s.procs[j]?, s.store[x]? with
    | some ⟨ids, .inflight st n⟩, some t =>
      if x ∈ ids ∧ t.on then
        { g with acc := g.acc + n, β := fun k => if k = j then n else g.β k,
                 folds := g.folds + t.foldSlack st,
                 t0 := if t.start = none then st else g.t0 }
      else g
    | _, _ => g

/-- run the model and the ghost side by side -/
def grun (x : Nat) : Sys → Ghost → List Ev → Option (Sys × Ghost)
  | s, g, [] => some (s, g)
  | s, g, e :: es => match s.step e with
    | some s' => grun x s' (gstep x s g e) es
    | none => none

theorem grun_fst (x : Nat) (s : Sys) (g : Ghost) (evs : List Ev) :
    (grun x s g evs).map Prod.fst = s.run evs := by
  induction evs generalizing s g with
  | nil => rfl
  | cons e es ih =>
    simp only [grun, Sys.run]
    cases s.step e with
    | none => rfl
    | some s' => exact ih s' _

/-! ### per-stream terms -/

/-- term of the anchor inequality -/
def hT (x : Nat) (θ a β : Nat) : Option Proc → Nat
  | some p => if x ∈ p.ids then
      (match p.phase with
        | .idle => β
        | .waiting _ => if θ < a then β else 0
        | .inflight _ _ => 0)
    else 0
  | none => 0

/-- bytes in flight -/
def fT (x : Nat) : Option Proc → Nat
  | some p => if x ∈ p.ids then
      (match p.phase with
        | .inflight _ n => n
        | _ => 0)
    else 0
  | none => 0

/-- one block per stream: the one in flight, else the last completed one -/
def cT (x : Nat) (β : Nat) : Option Proc → Nat
  | some p => if x ∈ p.ids then
      (match p.phase with
        | .inflight _ n => n
        | _ => β)
    else 0
  | none => 0

theorem hT_fT_le_cT (x θ a β : Nat) (p : Option Proc) : hT x θ a β p + fT x p ≤ cT x β p := by
  unfold hT fT cT
  cases p with
  | none => simp
  | some p =>
    by_cases h : x ∈ p.ids
    · simp only [h, if_true]
      cases p.phase with
      | idle => simp
      | waiting u => simp only; split_ifs <;> omega
      | inflight st n => simp
    · simp [h]

/-- the blocks the bound allows on top of `limit · elapsed`: one per stream holding `x` -/
def blocks (x : Nat) (s : Sys) (g : Ghost) : Nat :=
  sumTo s.procs.length (fun k => cT x (g.β k) s.procs[k]?)

/-! ### the invariant -/

structure Inv (x : Nat) (l : Int) (s : Sys) (g : Ghost) : Prop where
  nodup : ∀ (j : Nat) (p : Proc), s.procs[j]? = some p → p.ids.Nodup
  thr : ∃ t, s.store[x]? = some t ∧ t.limit = some l ∧
    (t.start = none → t.sum = 0 ∧ g.acc = 0 ∧ g.anch = 0 ∧ g.folds = 0) ∧
    (∀ st, t.start = some st →
        (l : Rat) * st + t.sum - ((l : Rat) * g.t0 + g.acc) ≤ (g.folds : Rat) / 2 ∧
        -((g.folds : Rat) / 2) ≤ (l : Rat) * st + t.sum - ((l : Rat) * g.t0 + g.acc) ∧
        g.t0 ≤ s.now ∧ (∃ f, g.fb = some f ∧ f ≤ g.t0) ∧
        (0 ≤ t.resetRate → t.resetRate * (g.folds : Rat) ≤ st - g.t0) ∧ st ≤ s.now) ∧
    (∀ (j : Nat) ids u, s.procs[j]? = some (⟨ids, .waiting u⟩ : Proc) → x ∈ ids →
        g.a j = 0 ∨ (t.start ≠ none ∧ (l : Rat) * g.t0 + g.a j ≤ (l : Rat) * u + (g.folds : Rat) / 2)) ∧
    (g.anch = 0 ∨ (t.start ≠ none ∧ (l : Rat) * g.t0 + g.anch ≤ (l : Rat) * s.now + (g.folds : Rat) / 2))
  infl : ∀ (j : Nat) ids st n, s.procs[j]? = some (⟨ids, .inflight st n⟩ : Proc) → x ∈ ids →
    st ≤ s.now ∧ ∃ f, g.fb = some f ∧ f ≤ st
  fbnow : ∀ f, g.fb = some f → f ≤ s.now
  anchor : ∀ θ, g.anch ≤ θ →
    g.acc ≤ θ + sumTo s.procs.length (fun k => hT x θ (g.a k) (g.β k) s.procs[k]?)
  moved : g.moved = g.acc + sumTo s.procs.length (fun k => fT x s.procs[k]?)

theorem setPhase_get (procs : List Proc) (j k : Nat) (ph : Phase) :
    (setPhase procs j ph)[k]? =
      if k = j then procs[k]?.map (fun p => { p with phase := ph }) else procs[k]? := by
  unfold setPhase
  exact updAt_get _ _ _ _

theorem setPhase_length (procs : List Proc) (j : Nat) (ph : Phase) :
    (setPhase procs j ph).length = procs.length := updAt_length _ _ _

theorem lt_length_of_get {α : Type} (l : List α) (j : Nat) (a : α) (h : l[j]? = some a) : j < l.length := by
  rcases Nat.lt_or_ge j l.length with h' | h'
  · exact h'
  · rw [List.getElem?_eq_none h'] at h; cases h

/-! ### what a step is -/

theorem step_call {s s' : Sys} {j : Nat} {w : Rat} (h : s.step (.call j w) = some s') :
    ∃ ids, s.procs[j]? = some ⟨ids, .idle⟩ ∧ s.now ≤ w ∧
      s' = { s with procs := setPhase s.procs j (.waiting (waitAll s.store ids w)), now := w } := by
  simp only [Sys.step] at h
  split at h
  · rename_i ids hp
    split at h
    · rename_i hw
      cases h
      exact ⟨ids, hp, hw, rfl⟩
    · cases h
  · cases h

theorem step_begin {s s' : Sys} {j : Nat} {T : Rat} {n : Nat} (h : s.step (.begin j T n) = some s') :
    ∃ ids u, s.procs[j]? = some ⟨ids, .waiting u⟩ ∧ s.now ≤ T ∧ u ≤ T ∧
      s' = { s with procs := setPhase s.procs j (.inflight T n), now := T } := by
  simp only [Sys.step] at h
  split at h
  · rename_i ids u hp
    split at h
    · rename_i hw
      cases h
      exact ⟨ids, u, hp, hw.1, hw.2, rfl⟩
    · cases h
  · cases h

theorem step_done {s s' : Sys} {j : Nat} {e : Rat} (h : s.step (.done j e) = some s') :
    ∃ ids st n, s.procs[j]? = some ⟨ids, .inflight st n⟩ ∧ s.now ≤ e ∧
      s' = { store := appendAll s.store ids n st, procs := setPhase s.procs j .idle, now := e } := by
  simp only [Sys.step] at h
  split at h
  · rename_i ids st n hp
    split at h
    · rename_i hw
      cases h
      exact ⟨ids, st, n, hp, hw, rfl⟩
    · cases h
  · cases h

end Model.Throttling
