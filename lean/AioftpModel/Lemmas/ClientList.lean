/- `Client.list(path, recursive=True)`: every descendant exactly once, under its correct path. -/
import AioftpModel.Lemmas.ClientRemove

namespace Model
namespace ClientTree
open Py Fs

/-- `path / rel` for a relative tail -/
def ext (p0 : PPath) (rel : Path) : PPath := ⟨p0.root, p0.parts ++ rel⟩

theorem ext_nil (p : PPath) : ext p [] = p := by cases p; simp [ext]

theorem ext_join (p0 : PPath) (rel : Path) (n : Str) : (ext p0 rel).join ⟨0, [n]⟩ = ext p0 (rel ++ [n]) := by
  simp [ext, PPath.join]

theorem landing_ext (cwd p0 : PPath) (rel : Path) : landing cwd (ext p0 rel) = landing cwd p0 ++ rel := by
  unfold landing ext
  split <;> simp

theorem SafeP.ext {p0 : PPath} (hp : SafeP p0) {rel : Path} (hrel : ∀ x ∈ rel, SafeName x) : SafeP (ext p0 rel) := by
  refine ⟨hp.1, ?_⟩
  intro x hx
  rcases List.mem_append.mp hx with h | h
  · exact hp.2 x h
  · exact hrel x h

theorem ext_inj (p0 : PPath) {a b : Path} (h : ext p0 a = ext p0 b) : a = b := by
  unfold ext at h
  injection h with _ h
  exact List.append_cancel_left h

theorem mem_lk_of_nodup {fs : Fs} (hnd : (fs.map (·.1)).Nodup) {q : Path} {e : Entry} (h : (q, e) ∈ fs) :
    lk fs q = some e := by
  induction fs with
  | nil => cases h
  | cons x rest ih =>
    rw [List.map_cons, List.nodup_cons] at hnd
    rw [lk_cons]
    rcases List.mem_cons.mp h with h | h
    · subst h; simp
    · have : ¬ x.1 = q := by
        intro hx
        apply hnd.1
        rw [hx]
        exact List.mem_map.mpr ⟨(q, e), h, rfl⟩
      rw [if_neg this]
      exact ih hnd.2 h

theorem childNames_nodup (fs : Fs) (hnd : (fs.map (·.1)).Nodup) (t : Path) :
    ((childEntries fs t).map (·.1)).Nodup := by
  induction fs with
  | nil => simp [childEntries]
  | cons x rest ih =>
    rw [List.map_cons, List.nodup_cons] at hnd
    rw [childEntries_cons]
    split
    · rename_i hc
      obtain ⟨n, hn⟩ := (child_filter_iff t x).mp hc
      rw [List.map_cons, List.nodup_cons]
      refine ⟨?_, ih hnd.2⟩
      intro hmem
      obtain ⟨y, hy, hy1⟩ := List.mem_map.mp hmem
      obtain ⟨e, he, m, hm, rfl⟩ := mem_childEntries.mp hy
      apply hnd.1
      have : x.1 = e.1 := by
        rw [hn, hm]
        simp only at hy1
        rw [hy1, hn]; simp
      rw [this]
      exact List.mem_map.mpr ⟨e, he, rfl⟩
    · exact ih hnd.2

/-- with distinct keys a listing's type is the tree's type -/
theorem mem_childEntries_iff_lookup {fs : Fs} (hnd : (fs.map (·.1)).Nodup) {t : Path} {n : Str} {k : Kind} :
    (n, k) ∈ childEntries fs t ↔ ∃ e, lookup fs (t ++ [n]) = some e ∧ kindOf e = k := by
  have hne : t ++ [n] ≠ [] := by simp
  rw [lookup_ne_nil _ hne]
  constructor
  · intro h
    obtain ⟨e, he, m, hm, hx⟩ := mem_childEntries.mp h
    injection hx with h1 h2
    subst h1
    refine ⟨e.2, ?_, h2.symm⟩
    apply mem_lk_of_nodup hnd
    rw [← hm]; exact he
  · rintro ⟨e, he, rfl⟩
    exact mem_childEntries.mpr ⟨_, lk_some_mem he, n, rfl, rfl⟩

/-- no element of the queue is a prefix of another -/
def Antichain (Q : List Path) : Prop := Q.Pairwise (fun a b => ¬ a <+: b ∧ ¬ b <+: a)

theorem prefix_snoc {a d : Path} {n : Str} (h : a <+: d ++ [n]) : a <+: d ∨ a = d ++ [n] := by
  by_cases he : a = d ++ [n]
  · exact Or.inr he
  · left
    have := (prefix_dropLast_iff' he).mp h
    simpa using this
where
  prefix_dropLast_iff' {q t : Path} (hne : q ≠ t) : q <+: t ↔ q <+: t.dropLast := by
    constructor
    · intro h
      obtain ⟨s, rfl⟩ := h
      have hs : s ≠ [] := by intro h0; subst h0; simp at hne
      rw [List.dropLast_append_of_ne_nil hs]
      exact List.prefix_append _ _
    · intro h
      exact h.trans (List.dropLast_prefix t)

theorem listRecLoop_spec (r : Remote) (hr : RInv r) (hnd : (r.fs.map (·.1)).Nodup) (p0 : PPath) (hp0 : SafeP p0) :
    ∀ (fuel : Nat) (Q : List Path) (out : List (PPath × Kind)),
      (∀ d ∈ Q, ∀ x ∈ d, SafeName x) → Antichain Q →
      listRecLoop r fuel (Q.map (ext p0)) = .ok out →
      ∃ outs : List (Path × Kind), out = outs.map (fun x => (ext p0 x.1, x.2)) ∧
        (outs.map (·.1)).Nodup ∧
        ∀ rel k, (rel, k) ∈ outs ↔
          ((∃ d ∈ Q, d <+: rel ∧ d ≠ rel) ∧
            ∃ e, lookup r.fs (landing r.cwd p0 ++ rel) = some e ∧ kindOf e = k) := by
  intro fuel
  induction fuel with
  | zero =>
    intro Q out _ _ h
    cases Q with
    | nil =>
      simp only [List.map_nil, listRecLoop] at h
      injection h with h; subst h
      exact ⟨[], rfl, by simp, by simp⟩
    | cons d Q' => simp [listRecLoop] at h
  | succ fuel IH =>
    intro Q out hsafe hanti h
    cases Q with
    | nil =>
      simp only [List.map_nil, listRecLoop] at h
      injection h with h; subst h
      exact ⟨[], rfl, by simp, by simp⟩
    | cons d Q' =>
      simp only [List.map_cons, listRecLoop] at h
      have hd : ∀ x ∈ d, SafeName x := hsafe d (by simp)
      rw [listDir_eq r (ext p0 d) hr.cwd (hp0.ext hd) hr.safe, landing_ext] at h
      by_cases hex : lookup r.fs (landing r.cwd p0 ++ d) = none
      · rw [if_pos hex] at h; cases h
      · rw [if_neg hex] at h
        simp only at h
        -- the new queue, as a list of tails
        let ce := childEntries r.fs (landing r.cwd p0 ++ d)
        have hq : Q'.map (ext p0) ++
            ((ce.map (fun e => ((ext p0 d).join ⟨0, [e.1]⟩, e.2))).filter (fun e => e.2 = Kind.dir)).map (·.1) =
            (Q' ++ (ce.filter (fun e => e.2 = Kind.dir)).map (fun e => d ++ [e.1])).map (ext p0) := by
          rw [List.map_append, List.filter_map, List.map_map, List.map_map]
          congr 1
          apply List.map_congr_left
          intro e _
          simp [ext_join]
        rw [hq] at h
        split at h
        · cases h
        · rename_i more hmore
          injection h with h
          subst h
          have hce_safe : ∀ x ∈ ce, SafeName x.1 := fun x hx => (childEntries_safe hr.safe hx).1
          have hnames := childNames_nodup r.fs hnd (landing r.cwd p0 ++ d)
          have hQ'anti : Antichain Q' := (List.pairwise_cons.mp hanti).2
          have hdQ' : ∀ a ∈ Q', ¬ d <+: a ∧ ¬ a <+: d := (List.pairwise_cons.mp hanti).1
          obtain ⟨outs', hout', hnd', hmem'⟩ := IH _ more
            (by
              intro a ha x hx
              rcases List.mem_append.mp ha with ha | ha
              · exact hsafe a (List.mem_cons_of_mem _ ha) x hx
              · obtain ⟨e, he, rfl⟩ := List.mem_map.mp ha
                rcases List.mem_append.mp hx with hx | hx
                · exact hd x hx
                · simp at hx; subst hx; exact hce_safe e (List.mem_filter.mp he).1)
            (by
              unfold Antichain
              rw [List.pairwise_append]
              refine ⟨hQ'anti, ?_, ?_⟩
              · rw [List.pairwise_map]
                have : ((ce.filter (fun e => e.2 = Kind.dir)).map (·.1)).Nodup :=
                  (List.Nodup.sublist (List.Sublist.map _ List.filter_sublist) hnames)
                rw [List.Nodup, List.pairwise_map] at this
                refine this.imp ?_
                intro a b hab
                constructor
                · intro hpre
                  have := hpre.eq_of_length (by simp)
                  exact hab (by simpa using this)
                · intro hpre
                  have := hpre.eq_of_length (by simp)
                  exact hab (by simpa using this.symm)
              · intro a ha b hb
                obtain ⟨e, _, rfl⟩ := List.mem_map.mp hb
                constructor
                · intro hpre
                  rcases prefix_snoc hpre with h1 | h1
                  · exact (hdQ' a ha).2 h1
                  · exact (hdQ' a ha).1 (h1 ▸ List.prefix_append _ _)
                · intro hpre
                  exact (hdQ' a ha).1 ((List.prefix_append _ _).trans hpre))
            hmore
          subst hout'
          refine ⟨ce.map (fun e => (d ++ [e.1], e.2)) ++ outs', ?_, ?_, ?_⟩
          · rw [List.map_append, List.map_map]
            congr 1
            apply List.map_congr_left
            intro e _
            simp [ext_join]
          · rw [List.map_append, List.nodup_append]
            refine ⟨?_, hnd', ?_⟩
            · rw [List.map_map]
              have : (ce.map ((fun x => x.1) ∘ fun e => (d ++ [e.1], e.2))) =
                  (ce.map (·.1)).map (fun n => d ++ [n]) := by
                rw [List.map_map]; rfl
              rw [this]
              exact List.Pairwise.map (fun n => d ++ [n]) (fun a b hab h => hab (by simpa using h)) hnames
            · intro a ha b hb hab
              subst hab
              obtain ⟨x, hx, hxa⟩ := List.mem_map.mp ha
              obtain ⟨e, he, rfl⟩ := List.mem_map.mp hx
              simp only at hxa
              obtain ⟨y, hy, hya⟩ := List.mem_map.mp hb
              have hyy : (y.1, y.2) ∈ outs' := by cases y; exact hy
              obtain ⟨⟨d', hd', hpre, hne⟩, _⟩ := (hmem' y.1 y.2).mp hyy
              rw [hya, ← hxa] at hpre hne
              rcases List.mem_append.mp hd' with hd' | hd'
              · rcases prefix_snoc hpre with h1 | h1
                · exact (hdQ' d' hd').2 h1
                · exact hne h1
              · obtain ⟨e', _, rfl⟩ := List.mem_map.mp hd'
                have := hpre.eq_of_length (by simp)
                exact hne this
          · intro rel k
            rw [List.mem_append]
            constructor
            · rintro (hm | hm)
              · obtain ⟨e, he, hx⟩ := List.mem_map.mp hm
                injection hx with h1 h2
                subst h1; subst h2
                have hek : (e.1, e.2) ∈ childEntries r.fs (landing r.cwd p0 ++ d) := by cases e; exact he
                obtain ⟨e', he', hk⟩ := (mem_childEntries_iff_lookup hnd).mp hek
                refine ⟨⟨d, by simp, List.prefix_append _ _, by simp⟩, e', ?_, hk⟩
                rw [← List.append_assoc]; exact he'
              · obtain ⟨⟨d', hd', hpre, hne⟩, hex'⟩ := (hmem' rel k).mp hm
                refine ⟨?_, hex'⟩
                rcases List.mem_append.mp hd' with hd' | hd'
                · exact ⟨d', List.mem_cons_of_mem _ hd', hpre, hne⟩
                · obtain ⟨e, _, rfl⟩ := List.mem_map.mp hd'
                  refine ⟨d, by simp, (List.prefix_append _ _).trans hpre, ?_⟩
                  intro he
                  have := hpre.length_le
                  rw [← he] at this
                  simp at this
                  omega
            · rintro ⟨⟨d', hd', hpre, hne⟩, e, he, hk⟩
              rcases List.mem_cons.mp hd' with hd' | hd'
              · subst hd'
                obtain ⟨n, hn⟩ := prefix_cons_child hpre hne
                by_cases hreln : d' ++ [n] = rel
                · left
                  subst hreln
                  apply List.mem_map.mpr
                  refine ⟨(n, k), ?_, rfl⟩
                  apply (mem_childEntries_iff_lookup hnd).mpr
                  exact ⟨e, by rw [List.append_assoc]; exact he, hk⟩
                · right
                  apply (hmem' rel k).mpr
                  refine ⟨⟨d' ++ [n], ?_, hn, hreln⟩, e, he, hk⟩
                  apply List.mem_append_right
                  apply List.mem_map.mpr
                  refine ⟨(n, Kind.dir), ?_, rfl⟩
                  rw [List.mem_filter]
                  refine ⟨?_, by simp⟩
                  apply (mem_childEntries_iff_lookup hnd).mpr
                  refine ⟨.dir, ?_, rfl⟩
                  have hpre2 : landing r.cwd p0 ++ d' ++ [n] <+: landing r.cwd p0 ++ rel := by
                    rw [List.append_assoc]
                    exact (List.prefix_append_right_inj _).mpr hn
                  apply hr.pc.prefix_dir (by rw [he]; simp) hpre2
                  intro heq
                  apply hreln
                  rw [List.append_assoc] at heq
                  exact List.append_cancel_left heq
              · right
                apply (hmem' rel k).mpr
                exact ⟨⟨d', List.mem_append_left _ hd', hpre, hne⟩, e, he, hk⟩

end ClientTree
end Model
