import AioftpModel.Model.Logs

/-! Helper lemmas for C20: `rstrip` over concatenation, `partition(" ")`, verbs that lower-case to a
    censored command contain no white space. -/

namespace Model.Logs
open Py

theorem dropWhile_eq_nil_iff' {α : Type} (p : α → Bool) (l : List α) :
    l.dropWhile p = [] ↔ ∀ x ∈ l, p x = true := by
  induction l with
  | nil => simp
  | cons a t ih =>
    by_cases h : p a = true
    · simp [h, ih]
    · simp [h]

theorem rstrip_eq_nil_iff (s : Str) : rstrip s = [] ↔ ∀ c ∈ s, isSpace c = true := by
  unfold rstrip
  rw [List.reverse_eq_nil_iff, dropWhile_eq_nil_iff']
  simp

theorem rstrip_append_of_nil (a b : Str) (h : rstrip b = []) : rstrip (a ++ b) = rstrip a := by
  have hb := (rstrip_eq_nil_iff b).1 h
  unfold rstrip
  rw [List.reverse_append, List.dropWhile_append_of_pos]
  intro c hc
  exact hb c (List.mem_reverse.1 hc)

theorem rstrip_append_of_ne_nil (a b : Str) (h : rstrip b ≠ []) : rstrip (a ++ b) = a ++ rstrip b := by
  unfold rstrip at h ⊢
  have h' : b.reverse.dropWhile isSpace ≠ [] := fun e => h (by rw [e]; rfl)
  rw [List.reverse_append, List.dropWhile_append]
  have : (List.dropWhile isSpace b.reverse).isEmpty = false := by
    cases hx : List.dropWhile isSpace b.reverse with
    | nil => exact absurd hx h'
    | cons _ _ => rfl
  simp [this]

theorem rstrip_of_no_space (v : Str) (h : ∀ c ∈ v, isSpace c = false) : rstrip v = v := by
  unfold rstrip
  cases hv : v.reverse with
  | nil =>
    have : v = [] := List.reverse_eq_nil_iff.1 hv
    simp [this]
  | cons x xs =>
    have hx : x ∈ v := List.mem_reverse.1 (by rw [hv]; simp)
    rw [List.dropWhile_cons_of_neg (by simp [h x hx]), ← hv, List.reverse_reverse]

theorem partitionSpace_nosp (v : Str) (h : ' ' ∉ v) : partitionSpace v = (v, []) := by
  induction v with
  | nil => rfl
  | cons c cs ih =>
    have hc : c ≠ ' ' := fun e => h (by simp [e])
    have hcs : ' ' ∉ cs := fun e => h (by simp [e])
    simp [partitionSpace, hc, ih hcs]

theorem partitionSpace_append (v r : Str) (h : ' ' ∉ v) : partitionSpace (v ++ ' ' :: r) = (v, r) := by
  induction v with
  | nil => simp [partitionSpace]
  | cons c cs ih =>
    have hc : c ≠ ' ' := fun e => h (by simp [e])
    have hcs : ' ' ∉ cs := fun e => h (by simp [e])
    simp [partitionSpace, hc, ih hcs]

theorem isSpace_blank : isSpace ' ' = true := by decide
theorem isSpace_cr : isSpace '\r' = true := by decide
theorem isSpace_lf : isSpace '\n' = true := by decide

/-- what `parse_command` makes of `verb<SP>p` when the verb is censored and free of white space:
    the record shows the verb as typed and one star per character of `p.rstrip()`; the handler gets
    `p.rstrip()` -/
theorem parseCommand_censored (censor : List Str) (verb p : Str)
    (hc : censor.contains (lower verb) = true) (hv : ∀ c ∈ verb, isSpace c = false) :
    parseCommand censor (verb ++ ' ' :: p) =
      (fmt2 verb (stars (rstrip p).length), (lower verb, rstrip p)) := by
  have hsp : ' ' ∉ verb := fun h => by have := hv _ h; rw [isSpace_blank] at this; exact absurd this (by simp)
  unfold parseCommand
  by_cases hp : rstrip p = []
  · have hp' : rstrip (' ' :: p) = [] := by
      rw [rstrip_eq_nil_iff] at hp ⊢
      intro c hc'
      rcases List.mem_cons.1 hc' with rfl | h
      · exact isSpace_blank
      · exact hp c h
    have hs : rstrip (verb ++ ' ' :: p) = verb := by
      rw [rstrip_append_of_nil _ _ hp', rstrip_of_no_space verb hv]
    simp only [hs, partitionSpace_nosp verb hsp, hc, if_true, hp, List.length_nil]
  · have hp' : rstrip (' ' :: p) = ' ' :: rstrip p := by
      have := rstrip_append_of_ne_nil [' '] p hp
      simpa using this
    have hs : rstrip (verb ++ ' ' :: p) = verb ++ ' ' :: rstrip p := by
      rw [rstrip_append_of_ne_nil _ _ (by rw [hp']; simp), hp']
    simp only [hs, partitionSpace_append verb _ hsp, hc, if_true]

/-- an uncensored verb is echoed with its argument in clear -/
theorem parseCommand_clear (censor : List Str) (verb p : Str)
    (hc : censor.contains (lower verb) = false) (hv : ∀ c ∈ verb, isSpace c = false)
    (hp : rstrip p ≠ []) :
    (parseCommand censor (verb ++ ' ' :: p)).1 = fmt2 verb (rstrip p) := by
  have hsp : ' ' ∉ verb := fun h => by have := hv _ h; rw [isSpace_blank] at this; exact absurd this (by simp)
  unfold parseCommand
  have hp' : rstrip (' ' :: p) = ' ' :: rstrip p := by
    have := rstrip_append_of_ne_nil [' '] p hp
    simpa using this
  have hs : rstrip (verb ++ ' ' :: p) = verb ++ ' ' :: rstrip p := by
    rw [rstrip_append_of_ne_nil _ _ (by rw [hp']; simp), hp']
  have hc' : ¬ lower verb ∈ censor := fun h => by
    rw [List.contains_iff_mem.2 h] at hc; exact absurd hc (by simp)
  simp [hs, partitionSpace_append verb _ hsp, hc']

/-! ### white space never lower-cases into a censored verb -/

/-- all code points of a range table, expanded -/
def expandRanges (rs : List (Nat × Nat)) : List Nat :=
  rs.flatMap (fun r => List.range' r.1 (r.2 + 1 - r.1))

theorem inRanges_mem_expand (rs : List (Nat × Nat)) (n : Nat) (h : inRanges rs n = true) :
    n ∈ expandRanges rs := by
  unfold inRanges at h
  rw [List.any_eq_true] at h
  obtain ⟨r, hr, hrn⟩ := h
  simp only [Bool.and_eq_true, decide_eq_true_eq] at hrn
  unfold expandRanges
  rw [List.mem_flatMap]
  refine ⟨r, hr, ?_⟩
  rw [List.mem_range']
  exact ⟨n - r.1, by omega, by omega⟩

/-- every white-space character is its own `lower()` (checked on the generated `isspace` table) -/
theorem lowerCh_space_table :
    ∀ n ∈ expandRanges Generated.pySpaceRanges, lowerCh (Char.ofNat n) = Char.ofNat n := by decide

theorem lowerCh_of_space (c : Char) (h : isSpace c = true) : lowerCh c = c := by
  have := lowerCh_space_table c.toNat (inRanges_mem_expand _ _ h)
  rwa [Char.ofNat_toNat] at this

/-- no censored command contains a white-space character (generated list) -/
theorem censor_no_space : ∀ w ∈ censorList, ∀ c ∈ w, isSpace c = false := by decide

/-- a verb whose `lower()` is a censored command contains no white space -/
theorem censored_verb_no_space (verb : Str) (h : censorList.contains (lower verb) = true) :
    ∀ c ∈ verb, isSpace c = false := by
  intro c hc
  cases hs : isSpace c with
  | false => rfl
  | true =>
    have hmem : lower verb ∈ censorList := List.contains_iff_mem.1 h
    have hl : lowerCh c ∈ lower verb := List.mem_map.2 ⟨c, hc, rfl⟩
    rw [lowerCh_of_space c hs] at hl
    have := censor_no_space _ hmem c hl
    rw [hs] at this
    exact absurd this (by simp)

theorem stars_length (n : Nat) : (stars n).length = n := by simp [stars]

end Model.Logs
