/- Glue between the per-operation lemmas and the property statements: overlay facts, the two destination
   shapes for which `upload`'s `relative` is right, decidable checkers for the well-formedness predicates. -/
import AioftpModel.Lemmas.ClientUpload

namespace Model
namespace ClientTree
open Py Fs

/-! ### overlay facts -/

/-- a single file written at `T` (parents made) is the overlay of a source whose entry at `S` is that file -/
theorem file_overlay {base src fs' : Fs} {T S : Path} {c : Bytes} (hsrc : PC src)
    (hS : lookup src S = some (.file c))
    (h : ∀ q, lookup fs' q = if q = T then some (.file c) else ensured base T.dropLast q) :
    ∀ q, lookup fs' q = Overlay base T src S q := by
  intro q
  rw [h]; unfold Overlay
  by_cases hq : q = T
  · subst hq
    simp [hS]
  · rw [if_neg hq]
    by_cases hpre : T <+: q
    · rw [if_pos hpre]
      have hbelow : lookup src (S ++ q.drop T.length) = none := by
        apply hsrc.file_below hS (List.prefix_append _ _)
        intro he
        obtain ⟨s, rfl⟩ := hpre
        have : s = [] := by simpa using he.symm
        subst this; simp at hq
      rw [hbelow]
      unfold ensured
      rw [if_neg]
      rintro ⟨_, hp', _⟩
      exact not_prefix_of_longer hpre hq (List.dropLast_prefix T) hp'
    · rw [if_neg hpre]
      unfold ensured
      by_cases hq0 : q = []
      · simp [hq0]
      · have := prefix_dropLast_iff (q := q) (t := T) hq
        by_cases hl0 : lookup base q = none <;> simp [hq0, hl0, this]

theorem overlay_at_source {base src : Fs} {T S : Path} (rp : Path) {e : Entry} (h : lookup src (S ++ rp) = some e) :
    Overlay base T src S (T ++ rp) = some e := by
  unfold Overlay
  rw [if_pos (List.prefix_append _ _)]
  simp [h]

/-- below a destination that did not exist, the result is an exact copy of the source subtree -/
theorem overlay_fresh {base src : Fs} {T S : Path} (hpc : PC base) (hfresh : lookup base T = none) (rp : Path) :
    Overlay base T src S (T ++ rp) = lookup src (S ++ rp) := by
  unfold Overlay
  rw [if_pos (List.prefix_append _ _)]
  simp only [List.drop_left']
  cases h : lookup src (S ++ rp) with
  | some e => rfl
  | none => exact hpc.none_below hfresh (List.prefix_append _ _)

/-- outside the destination and its ancestors nothing changes -/
theorem overlay_elsewhere {base src : Fs} {T S q : Path} (h1 : ¬ T <+: q) (h2 : ¬ q <+: T) :
    Overlay base T src S q = lookup base q := by
  unfold Overlay ensured
  rw [if_neg h1, if_neg]
  rintro ⟨_, h, _⟩; exact h2 h

/-! ### the shapes for which `relative` is right -/

theorem relativeTo_ext (source : PPath) (rp : Path) : (ext source rp).relativeTo? source = some ⟨0, rp⟩ := by
  unfold PPath.relativeTo? PPath.isRelativeTo ext
  simp

theorem relativeTo_ext_parent (source : PPath) (rp : Path) (h : source.parts ≠ []) :
    (ext source rp).relativeTo? source.parent = some ⟨0, source.name :: rp⟩ := by
  unfold PPath.relativeTo? PPath.isRelativeTo ext PPath.parent
  have hp := parts_eq_dropLast_name source h
  have hpre : source.parts.dropLast.isPrefixOf (source.parts ++ rp) = true := by
    rw [List.isPrefixOf_iff_prefix]
    exact (List.dropLast_prefix _).trans (List.prefix_append _ _)
  simp only [beq_self_eq_true, hpre, Bool.and_self, ↓reduceIte]
  congr 2
  conv => lhs; rw [hp]
  simp

theorem parse_nil : PPath.parse [] = ⟨0, []⟩ := by decide

/-- **every destination shape**, `write_into` on or off: `destination / path.relative_to(source)` resolves
    exactly below the place the destination resolves to -/
theorem relGood (l : Local) (source dest : PPath) (wi : Bool) (S : Path) (cwd : PPath) (hd : SafeP dest) :
    RelGood ⟨l, source, dest, wi, S, landing cwd dest, cwd⟩ := by
  intro rp _ hrp
  simp only [relativeOf_eq, relativeTo_ext]
  refine ⟨_, rfl, ?_, ?_⟩
  · refine ⟨by simpa [PPath.join] using hd.1, ?_⟩
    intro x hx
    simp only [PPath.join, ne_eq, not_true_eq_false, ↓reduceIte, List.mem_append] at hx
    rcases hx with hx | hx
    · exact hd.2 x hx
    · exact hrp x hx
  · simp only [PPath.join, ne_eq, not_true_eq_false, ↓reduceIte, landing]
    split <;> simp

instance instDecEqExcept {ε α : Type} [DecidableEq ε] [DecidableEq α] : DecidableEq (Except ε α)
  | .ok a, .ok b => if h : a = b then isTrue (by rw [h]) else isFalse (by intro h'; injection h' with h'; exact h h')
  | .error a, .error b =>
    if h : a = b then isTrue (by rw [h]) else isFalse (by intro h'; injection h' with h'; exact h h')
  | .ok _, .error _ => isFalse (by intro h; cases h)
  | .error _, .ok _ => isFalse (by intro h; cases h)

/-! ### decidable checkers for the semantic predicates (used by the non-vacuity examples) -/

def safeNameB (x : Str) : Bool :=
  decide (x ≠ []) && decide (x ≠ ['.']) && decide (x ≠ dotdot) && !(x.contains '/') &&
    (match x.getLast? with
      | some c => !isSpace c
      | none => true)

theorem safeNameB_sound {x : Str} (h : safeNameB x = true) : SafeName x := by
  unfold safeNameB at h
  simp only [Bool.and_eq_true, decide_eq_true_eq, Bool.not_eq_true'] at h
  obtain ⟨⟨⟨⟨h1, h2⟩, h3⟩, h4⟩, h5⟩ := h
  refine ⟨⟨h1, h2, h3, ?_⟩, ?_⟩
  · intro hm
    have : x.contains '/' = true := by simpa using hm
    rw [this] at h4; cases h4
  · intro c hc
    rw [hc] at h5
    simpa using h5

/-- every key is non-empty, made of safe names, and sits in a directory entry (or at top level) -/
def wfB (fs : Fs) : Bool :=
  fs.all (fun e => decide (e.1 ≠ []) && e.1.all safeNameB &&
    (decide (e.1.dropLast = []) || Fs.isDir fs e.1.dropLast))

theorem wfB_sound {fs : Fs} (h : wfB fs = true) : PC fs ∧ SafeV fs := by
  unfold wfB at h
  rw [List.all_eq_true] at h
  have key : ∀ q, q ≠ [] → lookup fs q ≠ none → ∃ e, (q, e) ∈ fs := by
    intro q hq hl
    rw [lookup_ne_nil _ hq] at hl
    cases hlk : lk fs q with
    | none => exact absurd hlk hl
    | some e => exact ⟨e, lk_some_mem hlk⟩
  constructor
  · intro q hq hl
    obtain ⟨e, he⟩ := key q hq hl
    have := h _ he
    simp only [Bool.and_eq_true, decide_eq_true_eq, Bool.or_eq_true] at this
    rcases this.2 with h0 | hd
    · rw [h0]; exact lookup_nil _
    · exact (isDir_iff _ _).mp hd
  · intro q hl x hx
    have hq : q ≠ [] := by intro h0; subst h0; cases hx
    obtain ⟨e, he⟩ := key q hq hl
    have := h _ he
    simp only [Bool.and_eq_true, decide_eq_true_eq, Bool.or_eq_true] at this
    have hall := this.1.2
    rw [List.all_eq_true] at hall
    exact safeNameB_sound (hall x hx)

def cwdOKB (cwd : PPath) : Bool := decide (cwd.root = 1) && cwd.parts.all safeNameB

theorem rok_of_checks {r : Remote} (h1 : cwdOKB r.cwd = true) (h2 : wfB r.fs = true)
    (h3 : lookup r.fs r.cwd.parts = some .dir) : ROK r := by
  unfold cwdOKB at h1
  simp only [Bool.and_eq_true, decide_eq_true_eq] at h1
  have hall := h1.2
  rw [List.all_eq_true] at hall
  exact ⟨⟨h1.1, fun x hx => (safeNameB_sound (hall x hx)).1⟩, (wfB_sound h2).1, (wfB_sound h2).2, h3⟩

def safePB (p : PPath) : Bool := decide (p.root ≤ 2) && p.parts.all safeNameB

theorem safeP_of_check {p : PPath} (h : safePB p = true) : SafeP p := by
  unfold safePB at h
  simp only [Bool.and_eq_true, decide_eq_true_eq] at h
  have hall := h.2
  rw [List.all_eq_true] at hall
  exact ⟨h.1, fun x hx => safeNameB_sound (hall x hx)⟩

end ClientTree
end Model
