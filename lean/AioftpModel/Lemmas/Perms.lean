import AioftpModel.Model.Perms
import AioftpModel.Lemmas.Paths

/-! Helper lemmas for C04: builtin `min` returns the first minimum; the key of `get_permissions`
    is (path depth − entry depth); the filter/min pipeline never raises. -/

namespace Model
open Py

/-- `r` is the first element of `l` whose key is minimal, and every key of `l` is defined -/
def FirstMin {α : Type} (key : α → Option Nat) (l : List α) (r : α) : Prop :=
  ∃ pre post k, l = pre ++ r :: post ∧ key r = some k ∧
    (∀ x ∈ pre, ∃ kx, key x = some kx ∧ k < kx) ∧ (∀ x ∈ post, ∃ kx, key x = some kx ∧ k ≤ kx)

theorem minLoop_spec {α : Type} (key : α → Option Nat) (xs : List α) :
    ∀ (done : List α) (b : α) (kb : Nat), key b = some kb → FirstMin key done b →
      (∀ x ∈ xs, ∃ kx, key x = some kx) →
      ∃ r, minLoop key b kb xs = some r ∧ FirstMin key (done ++ xs) r := by
  induction xs with
  | nil =>
    intro done b kb _ hf _
    exact ⟨b, rfl, by simpa using hf⟩
  | cons x xs ih =>
    intro done b kb hb hf hall
    obtain ⟨kx, hkx⟩ := hall x (by simp)
    have hall' : ∀ y ∈ xs, ∃ ky, key y = some ky := fun y hy => hall y (by simp [hy])
    obtain ⟨pre, post, k, hl, hk, hpre, hpost⟩ := hf
    have hkk : k = kb := by rw [hb] at hk; exact (Option.some.inj hk).symm
    subst hkk
    unfold minLoop
    rw [hkx]
    by_cases hlt : kx < k
    · simp only [hlt, if_true]
      have hf' : FirstMin key (done ++ [x]) x := by
        refine ⟨done, [], kx, rfl, hkx, ?_, by simp⟩
        intro y hy
        rw [hl] at hy
        rcases List.mem_append.1 hy with h | h
        · obtain ⟨ky, e, l⟩ := hpre y h; exact ⟨ky, e, by omega⟩
        · rcases List.mem_cons.1 h with h | h
          · subst h; exact ⟨k, hb, hlt⟩
          · obtain ⟨ky, e, l⟩ := hpost y h; exact ⟨ky, e, by omega⟩
      obtain ⟨r, hr, hfr⟩ := ih (done ++ [x]) x kx hkx hf' hall'
      exact ⟨r, hr, by simpa using hfr⟩
    · simp only [hlt, if_false]
      have hf' : FirstMin key (done ++ [x]) b := by
        refine ⟨pre, post ++ [x], k, by simp [hl], hb, hpre, ?_⟩
        intro y hy
        rcases List.mem_append.1 hy with h | h
        · exact hpost y h
        · simp at h; subst h; exact ⟨kx, hkx, by omega⟩
      obtain ⟨r, hr, hfr⟩ := ih (done ++ [x]) b k hb hf' hall'
      exact ⟨r, hr, by simpa using hfr⟩

/-- `min(l, key, default)` with a key defined on all of `l`: the default for the empty list,
    otherwise the first minimum -/
theorem pyMin_spec {α : Type} (key : α → Option Nat) (d : α) (l : List α)
    (hall : ∀ x ∈ l, ∃ kx, key x = some kx) :
    (l = [] ∧ pyMin key d l = some d) ∨ ∃ r, pyMin key d l = some r ∧ FirstMin key l r := by
  cases l with
  | nil => exact Or.inl ⟨rfl, rfl⟩
  | cons x xs =>
    right
    obtain ⟨kx, hkx⟩ := hall x (by simp)
    simp only [pyMin, hkx]
    have := minLoop_spec key xs [x] x kx hkx ⟨[], [], kx, rfl, hkx, by simp, by simp⟩
      (fun y hy => hall y (by simp [hy]))
    simpa using this

/-! ### ancestors -/

theorem isParent_iff (e : Permission) (p : PPath) :
    e.isParent p = true ↔ p.root = e.path.root ∧ e.path.parts <+: p.parts := by
  unfold Permission.isParent PPath.relativeTo? PPath.isRelativeTo
  by_cases h : (p.root == e.path.root && e.path.parts.isPrefixOf p.parts) = true
  · simp only [h, if_true, true_iff]
    simp only [Bool.and_eq_true, beq_iff_eq, List.isPrefixOf_iff_prefix] at h
    exact h
  · simp only [h]
    simp only [Bool.and_eq_true, beq_iff_eq, List.isPrefixOf_iff_prefix] at h
    simp [h]

/-- entry depth = number of names in the entry's path -/
def Permission.depth (e : Permission) : Nat := e.path.parts.length

theorem relKey_of_isParent (e : Permission) (p : PPath) (h : e.isParent p = true) :
    relKey p e = some (p.parts.length - e.depth) ∧ e.depth ≤ p.parts.length := by
  have hp := (isParent_iff e p).1 h
  unfold Permission.isParent at h
  unfold relKey
  cases hr : p.relativeTo? e.path with
  | none => rw [hr] at h; exact absurd h (by simp)
  | some r =>
    unfold PPath.relativeTo? at hr
    split at hr
    · cases hr
      exact ⟨by simp [Permission.depth], hp.2.length_le⟩
    · exact absurd hr (by simp)

theorem relKey_defined_on_filter (perms : List Permission) (p : PPath) :
    ∀ x ∈ perms.filter (fun e => e.isParent p), ∃ kx, relKey p x = some kx := by
  intro x hx
  have := (List.mem_filter.1 hx).2
  exact ⟨_, (relKey_of_isParent x p this).1⟩

end Model
