/-
  Lemmas about the proleptic Gregorian calendar of Model/Calendar.lean:
  `ord2ymd` is a two-sided inverse of `ymd2ord` on valid dates, for every year ≥ 1 (unbounded),
  hence `ofSeconds`/`toSeconds` are mutually inverse.  Core tactics only (`omega`, `decide`, `simp`).
-/
import AioftpModel.Model.Calendar

namespace Model.Cal

theorem isLeap_iff (y : Nat) : isLeap y = true ↔ (y % 4 = 0 ∧ (y % 100 ≠ 0 ∨ y % 400 = 0)) := by
  simp [isLeap]

theorem isLeap_false_iff (y : Nat) : isLeap y = false ↔ ¬ (y % 4 = 0 ∧ (y % 100 ≠ 0 ∨ y % 400 = 0)) := by
  rw [← isLeap_iff]; simp

/-! ### years -/

private theorem div_succ4 (z : Nat) : (z+1)/4 = z/4 + (if (z+1) % 4 = 0 then 1 else 0) := by
  split <;> omega
private theorem div_succ100 (z : Nat) : (z+1)/100 = z/100 + (if (z+1) % 100 = 0 then 1 else 0) := by
  split <;> omega
private theorem div_succ400 (z : Nat) : (z+1)/400 = z/400 + (if (z+1) % 400 = 0 then 1 else 0) := by
  split <;> omega

/-- a year has 365 or 366 days: `daysBeforeYear` advances by `yearLen` -/
theorem daysBeforeYear_succ (y : Nat) (hy : 1 ≤ y) :
    daysBeforeYear (y+1) = daysBeforeYear y + yearLen y := by
  obtain ⟨z, rfl⟩ : ∃ z, y = z + 1 := ⟨y - 1, by omega⟩
  unfold daysBeforeYear yearLen
  simp only [Nat.add_sub_cancel]
  rw [div_succ4, div_succ100, div_succ400]
  have h1 : z / 100 ≤ z / 4 := by omega
  have h2 : (z+1) % 100 = 0 → (z+1) % 4 = 0 := by omega
  have h3 : (z+1) % 400 = 0 → (z+1) % 100 = 0 := by omega
  by_cases h : isLeap (z+1) = true
  · rw [if_pos h]; rw [isLeap_iff] at h
    split <;> split <;> split <;> omega
  · rw [if_neg h]; rw [isLeap_iff] at h
    split <;> split <;> split <;> omega

theorem yearLen_pos (y : Nat) : 365 ≤ yearLen y ∧ yearLen y ≤ 366 := by
  unfold yearLen; split <;> omega

theorem daysBeforeYear_mono {y y' : Nat} (hy : 1 ≤ y) (h : y ≤ y') :
    daysBeforeYear y ≤ daysBeforeYear y' := by
  obtain ⟨k, rfl⟩ : ∃ k, y' = y + k := ⟨y' - y, by omega⟩
  clear h
  induction k with
  | zero => exact Nat.le_refl _
  | succ k ih =>
    rw [← Nat.add_assoc, daysBeforeYear_succ (y + k) (by omega)]; omega

/-- consecutive-year bound: at least 365 days per year of distance -/
theorem daysBeforeYear_lt {y y' : Nat} (hy : 1 ≤ y) (h : y < y') :
    daysBeforeYear (y+1) ≤ daysBeforeYear y' :=
  daysBeforeYear_mono (by omega) h

/-- the year containing a day number is unique -/
theorem year_unique {y y' n : Nat} (hy : 1 ≤ y) (hy' : 1 ≤ y')
    (h1 : daysBeforeYear y < n) (h2 : n ≤ daysBeforeYear (y+1))
    (h1' : daysBeforeYear y' < n) (h2' : n ≤ daysBeforeYear (y'+1)) : y = y' := by
  rcases Nat.lt_trichotomy y y' with h | h | h
  · have := daysBeforeYear_lt hy h; omega
  · exact h
  · have := daysBeforeYear_lt hy' h; omega

/-- closed form on the 400/100/4/1 digits of `year - 1` -/
theorem daysBeforeYear_digits (a b c e : Nat) (hb : b ≤ 3) (hc : c ≤ 24) (he : e ≤ 3) :
    daysBeforeYear (400*a + 100*b + 4*c + e + 1) = 146097*a + 36524*b + 1461*c + 365*e := by
  unfold daysBeforeYear
  simp only [Nat.add_sub_cancel]
  have h4 : (400*a + 100*b + 4*c + e) / 4 = 100*a + 25*b + c := by omega
  have h100 : (400*a + 100*b + 4*c + e) / 100 = 4*a + b := by omega
  have h400 : (400*a + 100*b + 4*c + e) / 400 = a := by omega
  rw [h4, h100, h400]; omega

theorem isLeap_digits (a b c e : Nat) (hb : b ≤ 3) (hc : c ≤ 24) (he : e ≤ 3) :
    isLeap (400*a + 100*b + 4*c + e + 1) = (e == 3 && (c != 24 || b == 3)) := by
  rw [Bool.eq_iff_iff, isLeap_iff]
  simp only [Bool.and_eq_true, Bool.or_eq_true, beq_iff_eq, bne_iff_ne, ne_eq]
  omega

/-! ### months (finite, by evaluation) -/

/-- `_days_in_month` / `_days_before_month` as functions of the leap flag -/
def dimL (leap : Bool) (m : Nat) : Nat := if m == 2 && leap then 29 else daysInMonthTbl m
def dbmL (leap : Bool) (m : Nat) : Nat := daysBeforeMonthTbl m + (if m > 2 && leap then 1 else 0)

theorem daysInMonth_eq (y m : Nat) : daysInMonth y m = dimL (isLeap y) m := rfl
theorem daysBeforeMonth_eq (y m : Nat) : daysBeforeMonth y m = dbmL (isLeap y) m := rfl

set_option maxRecDepth 4000 in
theorem monthDay_spec : ∀ leap : Bool, ∀ n, n < 366 → (leap = true ∨ n < 365) →
    1 ≤ (monthDayOfYearDay leap n).1 ∧ (monthDayOfYearDay leap n).1 ≤ 12 ∧
    1 ≤ (monthDayOfYearDay leap n).2 ∧
    (monthDayOfYearDay leap n).2 ≤ dimL leap (monthDayOfYearDay leap n).1 ∧
    dbmL leap (monthDayOfYearDay leap n).1 + (monthDayOfYearDay leap n).2 = n + 1 := by
  decide

set_option maxRecDepth 4000 in
theorem monthDay_inv : ∀ leap : Bool, ∀ m, m < 13 → ∀ d, d < 32 → (1 ≤ m ∧ 1 ≤ d ∧ d ≤ dimL leap m) →
    (monthDayOfYearDay leap (dbmL leap m + d - 1) = (m, d) ∧
    dbmL leap m + d ≤ (if leap then 366 else 365)) := by
  decide

theorem dimL_le (leap : Bool) (m : Nat) : dimL leap m ≤ 31 := by
  unfold dimL daysInMonthTbl; split <;> (try split) <;> omega

/-! ### `_ord2ymd` is a two-sided inverse of `_ymd2ord` -/

theorem ord2ymd_spec (n : Nat) (hn : 1 ≤ n) :
    1 ≤ (ord2ymd n).1 ∧ 1 ≤ (ord2ymd n).2.1 ∧ (ord2ymd n).2.1 ≤ 12 ∧ 1 ≤ (ord2ymd n).2.2 ∧
    (ord2ymd n).2.2 ≤ daysInMonth (ord2ymd n).1 (ord2ymd n).2.1 ∧
    ymd2ord (ord2ymd n).1 (ord2ymd n).2.1 (ord2ymd n).2.2 = n := by
  obtain ⟨n0, rfl⟩ : ∃ n0, n = n0 + 1 := ⟨n - 1, by omega⟩
  have e1 := Nat.div_add_mod n0 146097
  have l1 := Nat.mod_lt n0 (by decide : 146097 > 0)
  have e2 := Nat.div_add_mod (n0 % 146097) 36524
  have l2 := Nat.mod_lt (n0 % 146097) (by decide : 36524 > 0)
  have e3 := Nat.div_add_mod (n0 % 146097 % 36524) 1461
  have l3 := Nat.mod_lt (n0 % 146097 % 36524) (by decide : 1461 > 0)
  have e4 := Nat.div_add_mod (n0 % 146097 % 36524 % 1461) 365
  have l4 := Nat.mod_lt (n0 % 146097 % 36524 % 1461) (by decide : 365 > 0)
  simp only [ord2ymd, Nat.add_sub_cancel]
  generalize n0 / 146097 = a at *
  generalize n0 % 146097 = r1 at *
  generalize r1 / 36524 = b at *
  generalize r1 % 36524 = r2 at *
  generalize r2 / 1461 = c at *
  generalize r2 % 1461 = r3 at *
  generalize r3 / 365 = e at *
  generalize r3 % 365 = r4 at *
  have hb : b ≤ 4 := by omega
  have hc : c ≤ 24 := by omega
  have he : e ≤ 4 := by omega
  by_cases hsp : (e == 4 || b == 4) = true
  · rw [if_pos hsp]
    simp only [Bool.or_eq_true, beq_iff_eq] at hsp
    simp only [ymd2ord, daysInMonth_eq, daysBeforeMonth_eq]
    by_cases hb4 : b = 4
    · -- last day of a 400-year cycle
      have hY : a * 400 + 1 + b * 100 + c * 4 + e - 1 = 400*a + 100*3 + 4*24 + 3 + 1 := by omega
      rw [hY, isLeap_digits a 3 24 3 (by omega) (by omega) (by omega),
        daysBeforeYear_digits a 3 24 3 (by omega) (by omega) (by omega)]
      refine ⟨Nat.le_add_left _ _, by decide, by decide, by decide, by decide, ?_⟩
      show 146097 * a + 36524 * 3 + 1461 * 24 + 365 * 3 + 335 + 31 = n0 + 1
      omega
    · -- last day of a leap year inside the cycle
      have he4 : e = 4 := by omega
      have hc23 : c ≤ 23 := by omega
      have hY : a * 400 + 1 + b * 100 + c * 4 + e - 1 = 400*a + 100*b + 4*c + 3 + 1 := by omega
      rw [hY, isLeap_digits a b c 3 (by omega) (by omega) (by omega),
        daysBeforeYear_digits a b c 3 (by omega) (by omega) (by omega)]
      have hl : (3 == 3 && (c != 24 || b == 3)) = true := by
        have : c ≠ 24 := by omega
        simp [this]
      rw [hl]
      refine ⟨Nat.le_add_left _ _, by decide, by decide, by decide, by decide, ?_⟩
      show 146097 * a + 36524 * b + 1461 * c + 365 * 3 + 335 + 31 = n0 + 1
      omega
  · rw [if_neg hsp]
    simp only [Bool.or_eq_true, beq_iff_eq, not_or] at hsp
    have hb3 : b ≤ 3 := by omega
    have he3 : e ≤ 3 := by omega
    simp only [ymd2ord, daysInMonth_eq, daysBeforeMonth_eq]
    have hY : a * 400 + 1 + b * 100 + c * 4 + e = 400*a + 100*b + 4*c + e + 1 := by omega
    rw [hY, isLeap_digits a b c e hb3 hc he3, daysBeforeYear_digits a b c e hb3 hc he3]
    have hms := monthDay_spec (e == 3 && (c != 24 || b == 3)) r4 (by omega) (Or.inr l4)
    generalize (e == 3 && (c != 24 || b == 3)) = leap at *
    generalize monthDayOfYearDay leap r4 = md at *
    obtain ⟨h1, h2, h3, h4, h5⟩ := hms
    refine ⟨Nat.le_add_left _ _, h1, h2, h3, h4, ?_⟩
    omega

theorem ymd2ord_bounds (y m d : Nat) (hy : 1 ≤ y) (hm : 1 ≤ m) (hm' : m ≤ 12) (hd : 1 ≤ d)
    (hd' : d ≤ daysInMonth y m) :
    daysBeforeYear y < ymd2ord y m d ∧ ymd2ord y m d ≤ daysBeforeYear (y+1) := by
  rw [daysBeforeYear_succ y hy]
  simp only [ymd2ord, daysBeforeMonth_eq, yearLen]
  rw [daysInMonth_eq] at hd'
  have hd31 := dimL_le (isLeap y) m
  have := (monthDay_inv (isLeap y) m (by omega) d (by omega) ⟨hm, hd, hd'⟩).2
  cases h : isLeap y <;> simp only [h] at this ⊢ <;> omega

theorem ymd2ord_inj {y m d y' m' d' : Nat}
    (hy : 1 ≤ y) (hm : 1 ≤ m) (hm' : m ≤ 12) (hd : 1 ≤ d) (hd' : d ≤ daysInMonth y m)
    (hy2 : 1 ≤ y') (hm2 : 1 ≤ m') (hm2' : m' ≤ 12) (hd2 : 1 ≤ d') (hd2' : d' ≤ daysInMonth y' m')
    (h : ymd2ord y m d = ymd2ord y' m' d') : y = y' ∧ m = m' ∧ d = d' := by
  have b1 := ymd2ord_bounds y m d hy hm hm' hd hd'
  have b2 := ymd2ord_bounds y' m' d' hy2 hm2 hm2' hd2 hd2'
  rw [← h] at b2
  have hyy : y = y' := year_unique hy hy2 b1.1 b1.2 b2.1 b2.2
  subst hyy
  rw [daysInMonth_eq] at hd' hd2'
  have i1 := (monthDay_inv (isLeap y) m (by omega) d (by have := dimL_le (isLeap y) m; omega) ⟨hm, hd, hd'⟩).1
  have i2 := (monthDay_inv (isLeap y) m' (by omega) d' (by have := dimL_le (isLeap y) m'; omega) ⟨hm2, hd2, hd2'⟩).1
  simp only [ymd2ord, daysBeforeMonth_eq] at h
  have hk : dbmL (isLeap y) m + d - 1 = dbmL (isLeap y) m' + d' - 1 := by omega
  rw [hk, i2] at i1
  injection i1 with h1 h2
  exact ⟨rfl, h1.symm, h2.symm⟩

theorem ord2ymd_ymd2ord (y m d : Nat) (hy : 1 ≤ y) (hm : 1 ≤ m) (hm' : m ≤ 12) (hd : 1 ≤ d)
    (hd' : d ≤ daysInMonth y m) : ord2ymd (ymd2ord y m d) = (y, m, d) := by
  have b := ymd2ord_bounds y m d hy hm hm' hd hd'
  obtain ⟨s1, s2, s3, s4, s5, s6⟩ := ord2ymd_spec (ymd2ord y m d) (by omega)
  obtain ⟨e1, e2, e3⟩ := ymd2ord_inj s1 s2 s3 s4 s5 hy hm hm' hd hd' s6
  rw [Prod.ext_iff, Prod.ext_iff]; exact ⟨e1, e2, e3⟩

/-! ### seconds -/

theorem ofSeconds_valid (t : Nat) : (ofSeconds t).Valid := by
  obtain ⟨s1, s2, s3, s4, s5, _⟩ := ord2ymd_spec (t / 86400 + 1) (by omega)
  refine ⟨s1, s2, s3, s4, s5, ?_, ?_, ?_⟩ <;> simp only [ofSeconds] <;> omega

/-- **civil_roundtrip (seconds → civil → seconds)**, every second count -/
theorem toSeconds_ofSeconds (t : Nat) : toSeconds (ofSeconds t) = t := by
  obtain ⟨_, _, _, _, _, s6⟩ := ord2ymd_spec (t / 86400 + 1) (by omega)
  simp only [toSeconds, ofSeconds, s6]
  omega

/-- **civil_roundtrip (civil → seconds → civil)**, every valid broken-down time -/
theorem ofSeconds_toSeconds (c : Civil) (h : c.Valid) : ofSeconds (toSeconds c) = c := by
  obtain ⟨hy, hm, hm', hd, hd', hH, hM, hS⟩ := h
  have b := ymd2ord_bounds c.year c.month c.day hy hm hm' hd hd'
  have hq : toSeconds c / 86400 + 1 = ymd2ord c.year c.month c.day := by
    simp only [toSeconds]; omega
  have hr : toSeconds c % 86400 = c.hour * 3600 + c.minute * 60 + c.second := by
    simp only [toSeconds]; omega
  cases c with
  | mk y m d H M S =>
    simp only at hH hM hS
    have h1 : (H * 3600 + M * 60 + S) / 3600 = H := by omega
    have h2 : (H * 3600 + M * 60 + S) % 3600 / 60 = M := by omega
    have h3 : (H * 3600 + M * 60 + S) % 60 = S := by omega
    simp only [ofSeconds, hq, hr, ord2ymd_ymd2ord y m d hy hm hm' hd hd', h1, h2, h3]

/-! ### facts used by the listing-date proofs -/

/-- the year of a second count brackets it -/
theorem ofSeconds_year_bounds (t : Nat) :
    daysBeforeYear (ofSeconds t).year * 86400 ≤ t ∧ t < daysBeforeYear ((ofSeconds t).year + 1) * 86400 := by
  have hv := ofSeconds_valid t
  have hr := toSeconds_ofSeconds t
  obtain ⟨hy, hm, hm', hd, hd', hH, hM, hS⟩ := hv
  have b := ymd2ord_bounds _ _ _ hy hm hm' hd hd'
  simp only [toSeconds] at hr
  omega

theorem ofSeconds_second (t : Nat) : (ofSeconds t).second = t % 60 := by
  simp only [ofSeconds]; omega

/-- flooring to the minute only clears the seconds field -/
theorem ofSeconds_minuteFloor (t : Nat) : ofSeconds (t / 60 * 60) = { ofSeconds t with second := 0 } := by
  have h1 : t / 60 * 60 / 86400 = t / 86400 := by omega
  have h2 : t / 60 * 60 % 86400 / 3600 = t % 86400 / 3600 := by omega
  have h3 : t / 60 * 60 % 86400 % 3600 / 60 = t % 86400 % 3600 / 60 := by omega
  have h4 : t / 60 * 60 % 86400 % 60 = 0 := by omega
  simp only [ofSeconds, h1, h2, h3, h4]

/-- flooring to the day clears hour, minute and second -/
theorem ofSeconds_dayFloor (t : Nat) :
    ofSeconds (t / 86400 * 86400) = { ofSeconds t with hour := 0, minute := 0, second := 0 } := by
  have h1 : t / 86400 * 86400 / 86400 = t / 86400 := by omega
  have h2 : t / 86400 * 86400 % 86400 = 0 := by omega
  simp only [ofSeconds, h1, h2]

/-- the same month/day one year later is 365 or 366 days later -/
theorem ymd2ord_next_year (y mo d : Nat) (hy : 1 ≤ y) :
    ymd2ord (y + 1) mo d = ymd2ord y mo d + 365 ∨ ymd2ord (y + 1) mo d = ymd2ord y mo d + 366 := by
  simp only [ymd2ord, daysBeforeMonth_eq, dbmL, daysBeforeYear_succ y hy, yearLen]
  cases isLeap y <;> cases isLeap (y + 1) <;> by_cases h : mo > 2 <;> simp [h] <;> omega

theorem day_fits_any_year {y mo d : Nat} (h : d ≤ daysInMonth y mo) (hn : ¬ (mo = 2 ∧ d = 29)) (y' : Nat) :
    d ≤ daysInMonth y' mo := by
  simp only [daysInMonth_eq, dimL] at h ⊢
  by_cases h2 : mo = 2
  · subst h2
    cases hl : isLeap y <;> cases isLeap y' <;> simp [hl, daysInMonthTbl] at h ⊢ <;> omega
  · have : (mo == 2) = false := by simpa using h2
    simpa [this] using h

theorem feb29_leap {y : Nat} (h : 29 ≤ daysInMonth y 2) : isLeap y = true := by
  simp only [daysInMonth_eq, dimL] at h
  cases hl : isLeap y
  · simp [hl, daysInMonthTbl] at h
  · rfl

end Model.Cal
