/- `Client.download`: the local tree becomes the old one overlaid with the remote subtree at the destination. -/
import AioftpModel.Lemmas.ClientRemove

namespace Model
namespace ClientTree
open Py Fs

/-- `base` with the subtree of `src` at `S` laid over position `T` (missing parents of `T` made) -/
def Overlay (base : Fs) (T : Path) (src : Fs) (S : Path) (q : Path) : Option Entry :=
  if T <+: q then
    match lookup src (S ++ q.drop T.length) with
    | some e => some e
    | none => lookup base q
  else ensured base T q

/-! ### the local side -/

structure LOK (l : Local) : Prop where
  pc : PC l.fs

theorem node_join {l : Local} {p : PPath} {T : Path} (h : l.node p = some T) (n : Str) :
    l.node (p.join ⟨0, [n]⟩) = some (T ++ [n]) := by
  unfold Local.node at h ⊢
  have hj : p.join ⟨0, [n]⟩ = ⟨p.root, p.parts ++ [n]⟩ := by simp [PPath.join]
  rw [hj]
  unfold PPath.isAbsolute at h ⊢
  simp only at h ⊢
  by_cases h0 : (p.root != 0) = true
  · rw [if_pos h0] at h ⊢
    simp only at h ⊢
    split at h
    · rename_i h1
      injection h with h
      rw [if_pos h1, h]
    · cases h
  · rw [if_neg h0] at h ⊢
    have hr : p.root = 0 := by simpa using h0
    unfold PPath.join at h ⊢
    simp only [hr, ne_eq, not_true_eq_false, ↓reduceIte] at h ⊢
    split at h
    · rename_i h1
      injection h with h
      rw [if_pos h1, ← h, List.append_assoc]
    · cases h

theorem node_parent {l : Local} {p : PPath} {T : Path} (h : l.node p = some T) (hparts : p.parts ≠ []) :
    l.node p.parent = some T.dropLast := by
  unfold Local.node at h ⊢
  unfold PPath.parent PPath.isAbsolute at *
  simp only at h ⊢
  by_cases h0 : (p.root != 0) = true
  · rw [if_pos h0] at h ⊢
    simp only at h ⊢
    split at h
    · rename_i h1
      injection h with h
      rw [if_pos h1, h]
    · cases h
  · rw [if_neg h0] at h ⊢
    have hr : p.root = 0 := by simpa using h0
    unfold PPath.join at h ⊢
    simp only [hr, ne_eq, not_true_eq_false, ↓reduceIte] at h ⊢
    split at h
    · rename_i h1
      injection h with h
      rw [if_pos h1, ← h, List.dropLast_append_of_ne_nil hparts]
    · cases h

theorem node_parent_nil {p : PPath} (hparts : p.parts = []) : p.parent = p := by
  unfold PPath.parent; rw [hparts]; cases p; simp_all

theorem mkdirP_spec {l l' : Local} {p : PPath} {T : Path} (hl : LOK l) (hn : l.node p = some T)
    (h : l.mkdirP p = .ok l') :
    l'.cwd = l.cwd ∧ LOK l' ∧ lookup l'.fs T = some .dir ∧ ∀ q, lookup l'.fs q = ensured l.fs T q := by
  unfold Local.mkdirP at h
  rw [hn] at h
  simp only at h
  split at h
  · rename_i hex
    split at h
    · rename_i hd
      injection h with h
      subst h
      have hex' := (exists_iff _ _).mp hex
      exact ⟨rfl, hl, (isDir_iff _ _).mp hd, fun q => (ensured_of_exists hl.pc hex' q).symm⟩
    · cases h
  · rename_i hex
    split at h
    · rename_i fs' hm
      injection h with h
      subst h
      have hlk := fun q => lookup_mkdirParents hm q
      obtain ⟨hnone, hnf⟩ := (mkdirParents_some_iff l.fs T).mp ⟨fs', hm⟩
      have hnfp : NoFilePrefix l.fs T := by
        intro q hq c
        by_cases hq0 : q = []
        · subst hq0; rw [lookup_nil]; simp
        · exact hnf q hq0 hq c
      refine ⟨rfl, ⟨hl.pc.of_ensured T hnfp hlk⟩, ?_, hlk⟩
      simp only
      rw [hlk]
      unfold ensured
      have hT : T ≠ [] := by
        intro h0; subst h0; rw [lookup_nil] at hnone; cases hnone
      rw [if_pos ⟨hT, List.prefix_refl _, hnone⟩]
    · cases h

theorem openFile_wb_vals {fs fs' : Fs} {p : Path} {c : Bytes} {pos : Nat} (h : openFile fs p 1 = some (fs', c, pos)) :
    c = [] ∧ pos = 0 := by
  unfold openFile at h
  simp only at h
  split at h
  · cases h
  · cases hl : lookup fs p with
    | none =>
      rw [hl] at h
      simp only [true_or, if_true] at h
      split at h
      · injection h with h
        injection h with h1 h2
        injection h2 with h2 h3
        exact ⟨h2.symm, h3.symm⟩
      · cases h
    | some e =>
      rw [hl] at h
      cases e with
      | dir => simp at h
      | file c0 =>
        simp only [↓reduceIte] at h
        injection h with h
        injection h with h1 h2
        injection h2 with h2 h3
        exact ⟨h2.symm, h3.symm⟩

theorem srvRetr_spec {r : Remote} {p : PPath} (hr : CwdOK r) (hp : SafeP p)
    (hc : streamCheck (srvRetr r p).1 = .ok ()) :
    lookup r.fs (landing r.cwd p) = some (.file (srvRetr r p).2) := by
  unfold srvRetr at hc ⊢
  rw [target_eq r p hr hp] at hc ⊢
  cases hcond : (!Fs.exists_ r.fs (landing r.cwd p) || !Fs.isFile r.fs (landing r.cwd p)) with
  | true =>
    rw [hcond] at hc
    simp [streamCheck, is1xx] at hc
  | false =>
    rw [hcond] at hc
    simp only [Bool.false_eq_true, ↓reduceIte] at hc ⊢
    cases ho : openFile r.fs (landing r.cwd p) 0 with
    | none =>
      rw [ho] at hc
      simp [streamCheck, is1xx, is2xx] at hc
    | some x =>
      obtain ⟨fs', c0, pos⟩ := x
      exact openFile_rb ho

theorem prefix_dropLast_iff {q t : Path} (hne : q ≠ t) : q <+: t ↔ q <+: t.dropLast := by
  constructor
  · intro h
    obtain ⟨s, rfl⟩ := h
    have hs : s ≠ [] := by intro h0; subst h0; simp at hne
    rw [List.dropLast_append_of_ne_nil hs]
    exact List.prefix_append _ _
  · intro h
    exact h.trans (List.dropLast_prefix t)

theorem not_prefix_of_longer {q t : Path} (h : t <+: q) (hne : q ≠ t) {t' : Path} (ht' : t' <+: t) : ¬ q <+: t' := by
  intro hq
  have h1 := h.length_le
  have h2 := hq.length_le
  have h3 := ht'.length_le
  have : q.length = t.length := by omega
  exact hne (List.IsPrefix.eq_of_length h this.symm).symm

/-- the `is_file(source)` branch of `download` -/
theorem downloadFile_spec {l l' : Local} {r : Remote} {source destination : PPath} {T : Path} (hl : LOK l)
    (hr : RInv r) (hp : SafeP source) (hn : l.node destination = some T)
    (h : downloadFile l r source destination = .ok l') :
    ∃ c, lookup r.fs (landing r.cwd source) = some (.file c) ∧ l'.cwd = l.cwd ∧ LOK l' ∧
      ∀ q, lookup l'.fs q = if q = T then some (.file c) else ensured l.fs T.dropLast q := by
  unfold downloadFile at h
  split at h
  · cases h
  · rename_i l1 hmk
    split at h
    · cases h
    · rename_i l2 t hopen
      simp only at h
      split at h
      · cases h
      · rename_i hchk
        injection h with h
        subst h
        have hretr := srvRetr_spec hr.cwd hp hchk
        -- where the parent lands
        by_cases hparts : destination.parts = []
        · -- the destination is an existing directory after `mkdir`: `open(…, "wb")` fails
          exfalso
          rw [node_parent_nil hparts] at hmk
          obtain ⟨_, hl1, hdir, _⟩ := mkdirP_spec hl hn hmk
          unfold Local.openWrite at hopen
          have hn1 : l1.node destination = some T := by
            have : l1.cwd = l.cwd := (mkdirP_spec hl hn hmk).1
            unfold Local.node at hn ⊢; rw [this]; exact hn
          rw [hn1] at hopen
          simp only at hopen
          split at hopen
          · rename_i fs' c pos ho
            exact (openFile_wb ho [] []).2.1 hdir
          · cases hopen
        · have hnp := node_parent hn hparts
          obtain ⟨hc1, hl1, _, hlk1⟩ := mkdirP_spec hl hnp hmk
          have hn1 : l1.node destination = some T := by
            unfold Local.node at hn ⊢; rw [hc1]; exact hn
          unfold Local.openWrite at hopen
          rw [hn1] at hopen
          simp only at hopen
          split at hopen
          · rename_i fs' c pos ho
            injection hopen with hopen
            injection hopen with ho1 ho2
            subst ho1; subst ho2
            obtain ⟨hc0, hpos0⟩ := openFile_wb_vals ho
            subst hc0; subst hpos0
            obtain ⟨hT, hnd, hpar, _⟩ := openFile_wb ho (srvRetr r source).2 []
            have hlk2 := fun q => (openFile_wb ho (srvRetr r source).2 q).2.2.2
            -- the parent is a directory in l1
            have hpard : lookup l1.fs T.dropLast = some .dir := (mkdirP_spec hl hnp hmk).2.2.1
            refine ⟨_, hretr, hc1, ⟨PC.set_file hl1.pc hT hpard hnd hlk2⟩, ?_⟩
            intro q
            simp only
            rw [hlk2]
            by_cases hq : q = T
            · simp [hq]
            · rw [if_neg hq, if_neg hq, hlk1]
          · cases hopen

/-! ### the recursion -/

def DownloadConcl (r : Remote) (l l' : Local) (T S : Path) : Prop :=
  l'.cwd = l.cwd ∧ LOK l' ∧ ∀ q, lookup l'.fs q = Overlay l.fs T r.fs S q

theorem relativeTo_join (source : PPath) (n : Str) :
    (source.join ⟨0, [n]⟩).relativeTo? source = some ⟨0, [n]⟩ := by
  unfold PPath.relativeTo? PPath.isRelativeTo PPath.join
  simp

theorem drop_child {T q : Path} {n : Str} (h : T ++ [n] <+: q) :
    q.drop T.length = n :: q.drop (T ++ [n]).length := by
  obtain ⟨s, rfl⟩ := h
  simp

theorem node_cwd {l l' : Local} (hc : l'.cwd = l.cwd) (p : PPath) : l'.node p = l.node p := by
  unfold Local.node; rw [hc]

theorem downloadEntries_spec (r : Remote) (fuel : Nat)
    (IH : ∀ (l l' : Local) (source dest : PPath) (T : Path), LOK l → SafeP source → source.parts ≠ [] →
      l.node dest = some T → download r fuel l source dest true = .ok l' →
      DownloadConcl r l l' T (landing r.cwd source)) :
    ∀ (names : List (Str × Kind)) (l1 l' : Local) (source destination : PPath) (T : Path), LOK l1 →
      SafeP source → l1.node destination = some T → lookup l1.fs T = some .dir →
      (∀ x ∈ names, SafeName x.1) →
      forEach (fun (l' : Local) (e : PPath × Kind) =>
          match e.1.relativeTo? source with
          | none => .error .valueError
          | some rel => download r fuel l' e.1 (destination.join rel) true)
        l1 (names.map (fun e => (source.join ⟨0, [e.1]⟩, e.2))) = .ok l' →
      l'.cwd = l1.cwd ∧ LOK l' ∧
      (∀ q e, (∃ x ∈ names, T ++ [x.1] <+: q) →
        lookup r.fs (landing r.cwd source ++ q.drop T.length) = some e → lookup l'.fs q = some e) ∧
      (∀ q, ((¬ ∃ x ∈ names, T ++ [x.1] <+: q) ∨
        lookup r.fs (landing r.cwd source ++ q.drop T.length) = none) → lookup l'.fs q = lookup l1.fs q) := by
  intro names
  induction names with
  | nil =>
    intro l1 l' source destination T hl _ _ _ _ h
    simp only [List.map_nil, forEach] at h
    injection h with h
    subst h
    exact ⟨rfl, hl, by simp, by simp⟩
  | cons x rest ih =>
    intro l1 l' source destination T hl hp hn hTdir hsafe h
    simp only [List.map_cons, forEach, relativeTo_join] at h
    split at h
    · cases h
    · rename_i l2 h1
      have hxs : SafeName x.1 := hsafe x (by simp)
      obtain ⟨hc1, hl2, hov⟩ := IH l1 l2 _ _ (T ++ [x.1]) hl (hp.join hxs) (join_parts_ne source x.1)
        (node_join hn x.1) h1
      rw [landing_join] at hov
      -- outside the child's subtree nothing changes: every proper prefix of T ++ [x] exists already
      have hout : ∀ q, ¬ T ++ [x.1] <+: q → lookup l2.fs q = lookup l1.fs q := by
        intro q hq
        rw [hov]; unfold Overlay
        rw [if_neg hq]
        unfold ensured
        rw [if_neg]
        rintro ⟨hq0, hpre, hnone⟩
        have hqT : q <+: T := by
          have hne : q ≠ T ++ [x.1] := fun he => hq (he ▸ List.prefix_refl _)
          have := (prefix_dropLast_iff hne).mp hpre
          simpa using this
        by_cases hqe : q = T
        · rw [hqe, hTdir] at hnone; cases hnone
        · have := hl.pc.prefix_dir (by rw [hTdir]; simp) hqT hqe
          rw [this] at hnone; cases hnone
      have hT2 : lookup l2.fs T = some .dir := by
        rw [hout T]
        · exact hTdir
        · intro hpre
          have := hpre.length_le
          simp at this
          omega
      obtain ⟨hc2, hl', hA, hB⟩ := ih l2 l' source destination T hl2 hp
        (by rw [node_cwd hc1]; exact hn) hT2 (fun y hy => hsafe y (List.mem_cons_of_mem _ hy)) h
      refine ⟨hc2.trans hc1, hl', ?_, ?_⟩
      · rintro q e ⟨y, hy, hpre⟩ hsrc
        by_cases hrest : ∃ z ∈ rest, T ++ [z.1] <+: q
        · exact hA q e hrest hsrc
        · rw [hB q (Or.inl hrest)]
          rcases List.mem_cons.mp hy with hy | hy
          · subst hy
            rw [hov]; unfold Overlay
            rw [if_pos hpre]
            have : (landing r.cwd source ++ [y.1]) ++ q.drop (T ++ [y.1]).length =
                landing r.cwd source ++ q.drop T.length := by
              rw [drop_child hpre]; simp
            rw [this, hsrc]
          · exact absurd ⟨y, hy, hpre⟩ hrest
      · intro q hq
        have hrest : (¬ ∃ z ∈ rest, T ++ [z.1] <+: q) ∨
            lookup r.fs (landing r.cwd source ++ q.drop T.length) = none := by
          rcases hq with hq | hq
          · exact Or.inl (fun ⟨z, hz, hpre⟩ => hq ⟨z, List.mem_cons_of_mem _ hz, hpre⟩)
          · exact Or.inr hq
        rw [hB q hrest]
        by_cases hpre : T ++ [x.1] <+: q
        · rcases hq with hq | hq
          · exact absurd ⟨x, by simp, hpre⟩ hq
          · rw [hov]; unfold Overlay
            rw [if_pos hpre]
            have : (landing r.cwd source ++ [x.1]) ++ q.drop (T ++ [x.1]).length =
                landing r.cwd source ++ q.drop T.length := by
              rw [drop_child hpre]; simp
            rw [this, hq]
        · exact hout q hpre

/-- **download_spec**: whenever `download` returns normally, the local tree is the old one with the remote
    subtree laid over the destination (missing parents made); the remote tree is not an output at all. -/
theorem download_spec_aux (r : Remote) (hr : RInv r) : ∀ (fuel : Nat) (l l' : Local) (source dest : PPath)
    (wi : Bool) (T : Path), LOK l → SafeP source → source.parts ≠ [] →
    l.node (if wi then dest else dest.join (PPath.parse source.name)) = some T →
    download r fuel l source dest wi = .ok l' → DownloadConcl r l l' T (landing r.cwd source) := by
  intro fuel
  induction fuel with
  | zero => intro l l' source dest wi T _ _ _ _ h; cases h
  | succ fuel IH =>
    intro l l' source dest wi T hl hp hparts hn h
    unfold download at h
    rw [stat_eq r source hr.cwd hp hr.safe hr.pc (Or.inr hparts)] at h
    cases hsrc : lookup r.fs (landing r.cwd source) with
    | none => rw [hsrc] at h; cases h
    | some e =>
      rw [hsrc] at h
      cases e with
      | file c =>
        simp only [kindOf] at h
        obtain ⟨c', hc', hcwd, hl', hlk⟩ := downloadFile_spec hl hr hp hn h
        rw [hsrc] at hc'
        injection hc' with hc'
        injection hc' with hc'
        subst hc'
        refine ⟨hcwd, hl', ?_⟩
        intro q
        rw [hlk]; unfold Overlay
        by_cases hq : q = T
        · subst hq
          simp [hsrc]
        · rw [if_neg hq]
          by_cases hpre : T <+: q
          · rw [if_pos hpre]
            have hbelow : lookup r.fs (landing r.cwd source ++ q.drop T.length) = none := by
              apply hr.pc.file_below hsrc (List.prefix_append _ _)
              intro he
              obtain ⟨s, rfl⟩ := hpre
              have : s = [] := by simpa using he.symm
              subst this; simp at hq
            rw [hbelow]
            unfold ensured
            rw [if_neg]
            rintro ⟨_, hp', _⟩
            exact not_prefix_of_longer hpre hq (List.dropLast_prefix T) hp'
          · rw [if_neg hpre]
            unfold ensured
            by_cases hq0 : q = []
            · simp [hq0]
            · have := prefix_dropLast_iff (q := q) (t := T) hq
              by_cases hl0 : lookup l.fs q = none <;> simp [hq0, hl0, this]
      | dir =>
        simp only [kindOf] at h
        split at h
        · cases h
        · rename_i l1 hmk
          obtain ⟨hc1, hl1, hTdir, hlk1⟩ := mkdirP_spec hl hn hmk
          rw [listDir_eq r source hr.cwd hp hr.safe, if_neg (by rw [hsrc]; simp)] at h
          simp only at h
          obtain ⟨hc2, hl', hA, hB⟩ := downloadEntries_spec r fuel
            (fun l l' source dest T a b c d e => IH l l' source dest true T a b c (by simpa using d) e)
            _ l1 l' source _ T hl1 hp (by rw [node_cwd hc1]; exact hn) hTdir
            (fun x hx => (childEntries_safe hr.safe hx).1) h
          refine ⟨hc2.trans hc1, hl', ?_⟩
          intro q
          unfold Overlay
          by_cases hpre : T <+: q
          · rw [if_pos hpre]
            by_cases hq : q = T
            · subst hq
              rw [hB q (Or.inl ?_), hTdir]
              · simp [hsrc]
              · rintro ⟨x, _, hx⟩
                have := hx.length_le
                simp at this
                omega
            · obtain ⟨n, hn'⟩ := prefix_cons_child hpre (fun h => hq h.symm)
              cases hsq : lookup r.fs (landing r.cwd source ++ q.drop T.length) with
              | none =>
                rw [hB q (Or.inr hsq), hlk1]
                unfold ensured
                rw [if_neg]
                rintro ⟨_, hp', _⟩
                exact not_prefix_of_longer hpre hq (List.prefix_refl T) hp'
              | some e =>
                simp only
                apply hA q e _ hsq
                -- the child directly below the source that leads to q is listed
                have hpre2 : landing r.cwd source ++ [n] <+: landing r.cwd source ++ q.drop T.length := by
                  rw [drop_child hn']
                  exact ⟨q.drop (T ++ [n]).length, by simp⟩
                have hchild : lookup r.fs (landing r.cwd source ++ [n]) ≠ none := by
                  by_cases hqn : landing r.cwd source ++ [n] = landing r.cwd source ++ q.drop T.length
                  · rw [hqn, hsq]; simp
                  · rw [hr.pc.prefix_dir (by rw [hsq]; simp) hpre2 hqn]; simp
                have hne : landing r.cwd source ++ [n] ≠ [] := by simp
                rw [lookup_ne_nil _ hne] at hchild
                cases hlk : lk r.fs (landing r.cwd source ++ [n]) with
                | none => exact absurd hlk hchild
                | some e' =>
                  exact ⟨(n, kindOf e'), mem_childEntries.mpr ⟨_, lk_some_mem hlk, n, rfl, rfl⟩, hn'⟩
          · rw [if_neg hpre, hB q (Or.inl ?_), hlk1]
            rintro ⟨x, _, hx⟩
            exact hpre ((List.prefix_append _ _).trans hx)

end ClientTree
end Model
