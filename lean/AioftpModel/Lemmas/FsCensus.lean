/- `MemoryPathIO.rename` (as `Model.Fs.rename`) onto a free name: what the tree holds is conserved. -/
import AioftpModel.Lemmas.Fs

namespace Model.FsLemmas
open Model Model.Fs

/-- nothing lies at or below a name that does not exist -/
theorem WF.nothing_below_missing {fs : Fs} (h : WF fs) {dst : Path} (hdst : lookup fs dst = none) :
    ∀ x ∈ fs, dst.isPrefixOf x.1 = false := by
  intro x hx
  cases hp : dst.isPrefixOf x.1 with
  | false => rfl
  | true =>
    exfalso
    have hl : lookup fs x.1 = some x.2 := lookup_of_mem h hx
    by_cases heq : dst = x.1
    · rw [heq, hl] at hdst; cases hdst
    · have hd := h.isDir_of_proper_prefix hl (prefix_iff.mp hp) heq
      rw [isDir_iff, hdst] at hd; cases hd

/-- the entries of the tree after `moveSubtree` to a free name are the entries before, re-keyed -/
theorem moveSubtree_census {fs : Fs} (h : WF fs) (src dst : Path) (hdst : lookup fs dst = none) :
    ((moveSubtree fs src dst).map (·.2)).Perm (fs.map (·.2)) := by
  unfold moveSubtree
  have hkeep : (fs.filter (fun e => !src.isPrefixOf e.1)).filter (fun e => !dst.isPrefixOf e.1)
      = fs.filter (fun e => !src.isPrefixOf e.1) := by
    apply List.filter_eq_self.mpr
    intro x hx
    have := h.nothing_below_missing hdst x (List.mem_filter.mp hx).1
    simp [this]
  simp only [hkeep, List.map_append, List.map_map]
  have hsnd : ((fun x : Path × Entry => x.2) ∘ fun e : Path × Entry => (dst ++ List.drop src.length e.1, e.2))
      = fun x => x.2 := rfl
  rw [hsnd, ← List.map_append]
  apply List.Perm.map
  exact List.perm_append_comm.trans (List.filter_append_perm (fun e : Path × Entry => src.isPrefixOf e.1) fs)

/-- **rename conserves what the tree holds**: a rename onto a free name that succeeds leaves the same files (byte for
    byte) and the same number of directories; only names change -/
theorem rename_census {fs : Fs} (h : WF fs) (src dst : Path) (hdst : lookup fs dst = none)
    (_hok : (Fs.rename fs src dst).2 = true) :
    ((Fs.rename fs src dst).1.map (·.2)).Perm (fs.map (·.2)) := by
  unfold Fs.rename
  split
  · exact List.Perm.refl _
  · split
    · exact List.Perm.refl _
    · split
      · exact List.Perm.refl _
      · split
        · exact List.Perm.refl _
        · exact List.Perm.refl _
        · split
          · exact List.Perm.refl _
          · split
            · exact List.Perm.refl _
            · exact moveSubtree_census h src dst hdst

/-- **a directory cannot be moved below itself, at any depth**: refused, tree unchanged -/
theorem rename_below_itself_refused (fs : Fs) (src dst : Path) (hp : src <+: dst) (hne : src ≠ dst) :
    Fs.rename fs src dst = (fs, false) := by
  unfold Fs.rename
  split
  · rfl
  · rw [if_neg hne]
    split
    · rfl
    · split
      · rfl
      · rfl
      · rw [if_pos (prefix_iff.mpr hp)]

end Model.FsLemmas
