/-
  C19 (client parsers): which exception classes the listing-line and passive-reply parsers can raise.
  The primitives in Py/*.lean carry CPython's classes; these lemmas propagate them through the
  transcribed parsers.  Core only.
-/
import AioftpModel.Model.ListingParse

namespace Model.ListingParse
open Py Py.StrErr Py.Utf8 Model.Names

/-! ### C19: which exception classes can come out of the client parsers -/

/-- every error `x` can produce satisfies `P` -/
def ErrIn {α : Type} (P : PyErr → Prop) (x : Except PyErr α) : Prop := ∀ e, x = .error e → P e

theorem ErrIn.ok {α} {P : PyErr → Prop} (a : α) : ErrIn P (Except.ok a : Except PyErr α) := by
  intro e h; cases h

theorem ErrIn.pure {α} {P : PyErr → Prop} (a : α) : ErrIn P (Pure.pure a : Except PyErr α) := ErrIn.ok a

theorem ErrIn.error {α} {P : PyErr → Prop} {e : PyErr} (h : P e) : ErrIn P (Except.error e : Except PyErr α) := by
  intro e' h'; cases h'; exact h

theorem ErrIn.throw {α} {P : PyErr → Prop} {e : PyErr} (h : P e) :
    ErrIn P (throw e : Except PyErr α) := ErrIn.error h

theorem ErrIn.bind {α β} {P : PyErr → Prop} {x : Except PyErr α} {f : α → Except PyErr β}
    (hx : ErrIn P x) (hf : ∀ a, ErrIn P (f a)) : ErrIn P (x >>= f) := by
  intro e h
  cases x with
  | error e' =>
    have : e' = e := by simpa [Bind.bind, Except.bind] using h
    exact this ▸ hx e' rfl
  | ok a => exact hf a e h

theorem ErrIn.mono {α} {P Q : PyErr → Prop} {x : Except PyErr α} (h : ErrIn P x) (hpq : ∀ e, P e → Q e) :
    ErrIn Q x := fun e he => hpq e (h e he)

theorem ErrIn.map {α β} {P : PyErr → Prop} {x : Except PyErr α} (f : α → β) (h : ErrIn P x) :
    ErrIn P (x.map f) := by
  intro e he
  cases x with
  | error e' => simp [Except.map] at he; exact he ▸ h e' rfl
  | ok a => simp [Except.map] at he

/-- the classes the listing chain converts -/
def Caught (e : PyErr) : Prop := e.caughtByListChain = true

theorem caught_value : Caught .ValueError := rfl
theorem caught_key : Caught .KeyError := rfl
theorem caught_index : Caught .IndexError := rfl
theorem caught_unicode : Caught .UnicodeDecodeError := rfl

theorem getIdx_errs (s : Str) (i : Nat) : ErrIn (· = .IndexError) (getIdx s i) := by
  unfold getIdx; split
  · exact ErrIn.ok _
  · exact ErrIn.error rfl

theorem getIdxNeg_errs (s : Str) (k : Nat) : ErrIn (· = .IndexError) (getIdxNeg s k) := by
  unfold getIdxNeg; split
  · exact ErrIn.error rfl
  · exact getIdx_errs _ _

theorem tupleIdx_errs {α} (t : List α) (i : Nat) : ErrIn (· = .IndexError) (tupleIdx t i) := by
  unfold tupleIdx; split
  · exact ErrIn.ok _
  · exact ErrIn.error rfl

theorem index_errs (ch : Char) (s : Str) : ErrIn (· = .ValueError) (index ch s) := by
  unfold index; split
  · exact ErrIn.ok _
  · exact ErrIn.error rfl

theorem rindex_errs (p s : Str) : ErrIn (· = .ValueError) (rindex p s) := by
  unfold rindex; split
  · exact ErrIn.ok _
  · exact ErrIn.error rfl

theorem parseRw_errs (s : Str) : ErrIn (· = .KeyError) (parseRw s) := by
  unfold parseRw
  repeat' split
  all_goals first | exact ErrIn.ok _ | exact ErrIn.error rfl

theorem takeField_errs (s : Str) : ErrIn (· = .ValueError) (takeField s) := by
  unfold takeField
  exact ErrIn.bind (index_errs _ _) (fun _ => ErrIn.pure _)

theorem pyInt_errs (s : Str) : ErrIn (· = .ValueError) (pyInt s) := by
  unfold pyInt
  simp only
  split
  repeat' split
  all_goals first | exact ErrIn.ok _ | exact ErrIn.error rfl

theorem decodeAux_errs (b : List Nat) : ∀ k acc lo hi,
    ErrIn (· = .UnicodeDecodeError) (decodeAux b k acc lo hi) := by
  induction b with
  | nil =>
    intro k acc lo hi
    cases k with
    | zero => exact ErrIn.ok _
    | succ k => exact ErrIn.error rfl
  | cons x t ih =>
    intro k acc lo hi
    cases k with
    | zero =>
      unfold decodeAux
      repeat' split
      all_goals first
        | exact ErrIn.error rfl
        | exact ErrIn.map _ (ih _ _ _ _)
        | exact ih _ _ _ _
    | succ k =>
      unfold decodeAux
      repeat' split
      all_goals first
        | exact ErrIn.error rfl
        | exact ErrIn.map _ (ih _ _ _ _)
        | exact ih _ _ _ _

theorem decodeUtf8E_errs (b : List Nat) : ErrIn (· = .UnicodeDecodeError) (decodeUtf8E b) :=
  decodeAux_errs b 0 0 0 0

section errclasses
variable {P : PyErr → Prop}

theorem modeFlag_errs (hV : P .ValueError) (i : Nat) (c : Char) (m : Nat) : ErrIn P (modeFlag i c m) := by
  unfold modeFlag
  split
  · exact ErrIn.pure _
  · split
    · exact ErrIn.pure _
    · exact ErrIn.throw hV

theorem parseUnixMode_errs (hV : P .ValueError) (hK : P .KeyError) (hI : P .IndexError) (s : Str) :
    ErrIn P (parseUnixMode s) := by
  have eI : ∀ {α} {x : Except PyErr α}, ErrIn (· = .IndexError) x → ErrIn P x :=
    fun h => h.mono (fun e he => he ▸ hI)
  have eK : ∀ {α} {x : Except PyErr α}, ErrIn (· = .KeyError) x → ErrIn P x :=
    fun h => h.mono (fun e he => he ▸ hK)
  unfold parseUnixMode
  repeat' first
    | exact ErrIn.ok _ | exact ErrIn.pure _ | exact ErrIn.throw hV
    | exact eI (getIdx_errs _ _) | exact eK (parseRw_errs _) | exact modeFlag_errs hV _ _ _
    | refine ErrIn.bind ?_ (fun _ => ?_)
    | split
    | simp only []

theorem parseListLineUnixStr_errs (lsDate : Str → Except PyErr Str)
    (hV : P .ValueError) (hK : P .KeyError) (hI : P .IndexError)
    (hd : ∀ s, ErrIn P (lsDate s)) (s : Str) :
    ErrIn P (parseListLineUnixStr lsDate s) := by
  have eI : ∀ {α} {x : Except PyErr α}, ErrIn (· = .IndexError) x → ErrIn P x :=
    fun h => h.mono (fun e he => he ▸ hI)
  have eV : ∀ {α} {x : Except PyErr α}, ErrIn (· = .ValueError) x → ErrIn P x :=
    fun h => h.mono (fun e he => he ▸ hV)
  unfold parseListLineUnixStr
  repeat' first
    | exact ErrIn.ok _ | exact ErrIn.pure _ | exact ErrIn.throw hV
    | exact eI (getIdx_errs _ _) | exact eI (getIdxNeg_errs _ _)
    | exact eV (takeField_errs _) | exact eV (rindex_errs _ _)
    | exact parseUnixMode_errs hV hK hI _
    | exact hd _
    | refine ErrIn.bind ?_ (fun _ => ?_)
    | split
    | simp only []

theorem parseListLineWindowsStr_errs (winDate : Str → Except PyErr Str)
    (hV : P .ValueError) (hd : ∀ s, ErrIn P (winDate s)) (s : Str) :
    ErrIn P (parseListLineWindowsStr winDate s) := by
  have eV : ∀ {α} {x : Except PyErr α}, ErrIn (· = .ValueError) x → ErrIn P x :=
    fun h => h.mono (fun e he => he ▸ hV)
  unfold parseListLineWindowsStr
  repeat' first
    | exact ErrIn.ok _ | exact ErrIn.pure _ | exact ErrIn.throw hV
    | exact eV (index_errs _ _)
    | exact hd _
    | refine ErrIn.bind ?_ (fun _ => ?_)
    | split
    | simp only []

theorem parseListLineUnix_errs (lsDate : Str → Except PyErr Str)
    (hV : P .ValueError) (hK : P .KeyError) (hI : P .IndexError) (hU : P .UnicodeDecodeError)
    (hd : ∀ s, ErrIn P (lsDate s)) (b : RawLine) :
    ErrIn P (parseListLineUnix lsDate b) := by
  unfold parseListLineUnix
  exact ErrIn.bind ((decodeUtf8E_errs b).mono (fun e he => he ▸ hU))
    (fun s => parseListLineUnixStr_errs lsDate hV hK hI hd s)

theorem parseListLineWindows_errs (winDate : Str → Except PyErr Str)
    (hV : P .ValueError) (hU : P .UnicodeDecodeError)
    (hd : ∀ s, ErrIn P (winDate s)) (b : RawLine) :
    ErrIn P (parseListLineWindows winDate b) := by
  unfold parseListLineWindows
  exact ErrIn.bind ((decodeUtf8E_errs b).mono (fun e he => he ▸ hU))
    (fun s => parseListLineWindowsStr_errs winDate hV hd s)

end errclasses

/-- the chain: a result, or exactly ValueError — provided the date helpers raise only classes the
    chain converts (they raise ValueError: slice C07) -/
theorem parseListLine_ok_or_ValueError (lsDate winDate : Str → Except PyErr Str)
    (hl : ∀ s, ErrIn Caught (lsDate s)) (hw : ∀ s, ErrIn Caught (winDate s)) (b : RawLine) :
    (∃ r, parseListLine lsDate winDate b = .ok r) ∨ parseListLine lsDate winDate b = .error .ValueError := by
  unfold parseListLine
  cases hu : parseListLineUnix lsDate b with
  | ok r => exact Or.inl ⟨r, rfl⟩
  | error e =>
    have he : Caught e :=
      parseListLineUnix_errs lsDate caught_value caught_key caught_index caught_unicode hl b e hu
    simp only [show e.caughtByListChain = true from he, if_true]
    cases hwn : parseListLineWindows winDate b with
    | ok r => exact Or.inl ⟨r, rfl⟩
    | error e' =>
      have he' : Caught e' :=
        parseListLineWindows_errs winDate caught_value caught_unicode hw b e' hwn
      simp [show e'.caughtByListChain = true from he']

theorem parsePasvResponse_errs (s : Str) :
    ErrIn (fun e => e = .ValueError ∨ e = .IndexError) (parsePasvResponse s) := by
  have eI : ∀ {α} {x : Except PyErr α}, ErrIn (· = .IndexError) x →
      ErrIn (fun e => e = .ValueError ∨ e = .IndexError) x := fun h => h.mono (fun e he => Or.inr he)
  have eV : ∀ {α} {x : Except PyErr α}, ErrIn (· = .ValueError) x →
      ErrIn (fun e => e = .ValueError ∨ e = .IndexError) x := fun h => h.mono (fun e he => Or.inl he)
  have hmap : ∀ l : List Str, ErrIn (· = .ValueError) (l.mapM pyInt) := by
    intro l
    induction l with
    | nil => exact ErrIn.pure _
    | cons x t ih =>
      rw [List.mapM_cons]
      exact ErrIn.bind (pyInt_errs x) (fun _ => ErrIn.bind ih (fun _ => ErrIn.pure _))
  unfold parsePasvResponse
  repeat' first
    | exact ErrIn.ok _ | exact ErrIn.pure _ | exact ErrIn.throw (Or.inl rfl)
    | exact eI (tupleIdx_errs _ _) | exact eV (hmap _)
    | refine ErrIn.bind ?_ (fun _ => ?_)
    | split
    | simp only []

theorem parseEpsvResponse_errs (s : Str) :
    ErrIn (fun e => e = .IndexError ∨ e = .ValueError) (parseEpsvResponse s) := by
  unfold parseEpsvResponse
  split
  · exact ErrIn.error (Or.inl rfl)
  · exact (pyInt_errs _).mono (fun e he => Or.inr he)

/-! ### `Client.list`: what happens to one line, and to a stream of lines -/

section liststep
variable {α : Type} (parse : α → Except PyErr ListEntry) (path : PPath)

/-- a line the parser rejects is reported with the parser's exception, never dropped -/
theorem listStep_error (line : α) (e : PyErr) (h : parse line = .error e) :
    listStep parse path line = .error e := by
  simp [listStep, listStepWith, h, bind, Except.bind]

/-- `.` and `..` (after `PurePosixPath` normalisation) are skipped -/
theorem listStep_dot (line : α) (name : PPath) (info : Info) (h : parse line = .ok (name, info))
    (hd : name.str = ['.'] ∨ name.str = dotdot) : listStep parse path line = .ok none := by
  simp [listStep, listStepWith, h, bind, Except.bind, hd, pure, Except.pure]

/-- any other entry that has a `type` fact is yielded as `path / name` (however the fact is read) -/
theorem listStepWith_entry (b : Bool) (line : α) (name : PPath) (info : Info) (v : Str)
    (h : parse line = .ok (name, info)) (hd : ¬ (name.str = ['.'] ∨ name.str = dotdot))
    (ht : dictGet info "type".toList = .ok v) :
    listStepWith b parse path line = .ok (some (path.join name, info)) := by
  unfold listStepWith
  simp only [h, bind, Except.bind, pure, Except.pure]
  rw [if_neg hd]
  cases b
  · simp
  · simp only [↓reduceIte, ht]

theorem listStep_entry (line : α) (name : PPath) (info : Info) (v : Str)
    (h : parse line = .ok (name, info)) (hd : ¬ (name.str = ['.'] ∨ name.str = dotdot))
    (ht : dictGet info "type".toList = .ok v) :
    listStep parse path line = .ok (some (path.join name, info)) :=
  listStepWith_entry parse path _ line name info v h hd ht

/-- with the subscript read (`info["type"]`) an entry without a `type` fact makes `list()` raise KeyError -/
theorem listStepWith_true_notype (line : α) (name : PPath) (info : Info)
    (h : parse line = .ok (name, info)) (hd : ¬ (name.str = ['.'] ∨ name.str = dotdot))
    (ht : dictGet info "type".toList = .error .KeyError) :
    listStepWith true parse path line = .error .KeyError := by
  unfold listStepWith
  simp only [h, bind, Except.bind, pure, Except.pure]
  rw [if_neg hd]
  simp only [↓reduceIte, ht]

/-- with the `.get("type")` read every entry the parser accepts and that is not a dot entry is yielded -/
theorem listStepWith_false_entry (line : α) (name : PPath) (info : Info)
    (h : parse line = .ok (name, info)) (hd : ¬ (name.str = ['.'] ∨ name.str = dotdot)) :
    listStepWith false parse path line = .ok (some (path.join name, info)) := by
  unfold listStepWith
  simp only [h, bind, Except.bind, pure, Except.pure]
  rw [if_neg hd]
  simp

theorem dictGet_errs (d : Info) (k : Str) : ErrIn (· = .KeyError) (dictGet d k) := by
  unfold dictGet; split
  · exact ErrIn.ok _
  · exact ErrIn.error rfl

/-- the exceptions of one step are the parser's, or (subscript read only) KeyError -/
theorem listStepWith_errs (b : Bool) {P : PyErr → Prop} (hp : ∀ l, ErrIn P (parse l))
    (hK : b = true → P .KeyError) (line : α) :
    ErrIn P (listStepWith b parse path line) := by
  unfold listStepWith
  refine ErrIn.bind (hp line) (fun a => ?_)
  split
  split
  · exact ErrIn.pure _
  · split
    · rename_i hb
      exact ErrIn.bind ((dictGet_errs _ _).mono (fun e he => he ▸ hK hb)) (fun _ => ErrIn.pure _)
    · exact ErrIn.pure _

theorem listStep_errs {P : PyErr → Prop} (hp : ∀ l, ErrIn P (parse l))
    (hK : Generated.listTypeLookupRaises = true → P .KeyError) (line : α) :
    ErrIn P (listStep parse path line) :=
  listStepWith_errs parse path _ hp hK line

/-- a listing succeeds exactly when every line's step succeeds: no line is lost to an exception -/
theorem listLines_ok_iff (ls : List α) :
    (∃ rs, listLines parse path ls = .ok rs) ↔ ∀ l ∈ ls, ∃ r, listStep parse path l = .ok r := by
  induction ls with
  | nil => simp [listLines, pure, Except.pure]
  | cons l t ih =>
    constructor
    · rintro ⟨rs, h⟩
      unfold listLines at h
      cases h1 : listStep parse path l with
      | error e => simp [h1, bind, Except.bind] at h
      | ok r =>
        cases h2 : listLines parse path t with
        | error e => simp [h1, h2, bind, Except.bind] at h
        | ok rs' =>
          intro x hx
          rcases List.mem_cons.mp hx with rfl | hx
          · exact ⟨r, h1⟩
          · exact (ih.mp ⟨rs', h2⟩) x hx
    · intro h
      obtain ⟨r, h1⟩ := h l (by simp)
      obtain ⟨rs', h2⟩ := ih.mpr (fun x hx => h x (by simp [hx]))
      exact ⟨_, by unfold listLines; simp [h1, h2, bind, Except.bind, pure, Except.pure]; rfl⟩

/-- the first failing line decides the exception of the whole listing -/
theorem listLines_first_error (pre : List α) (l : α) (post : List α) (e : PyErr)
    (hpre : ∀ x ∈ pre, ∃ r, listStep parse path x = .ok r) (hl : listStep parse path l = .error e) :
    listLines parse path (pre ++ l :: post) = .error e := by
  induction pre with
  | nil => simp [listLines, hl, bind, Except.bind]
  | cons x t ih =>
    obtain ⟨r, hx⟩ := hpre x (by simp)
    have := ih (fun y hy => hpre y (by simp [hy]))
    simp [listLines, hx, this, bind, Except.bind]

theorem listLines_errs {P : PyErr → Prop} (hp : ∀ l, ErrIn P (parse l))
    (hK : Generated.listTypeLookupRaises = true → P .KeyError) (ls : List α) :
    ErrIn P (listLines parse path ls) := by
  induction ls with
  | nil => exact ErrIn.pure _
  | cons l t ih =>
    unfold listLines
    exact ErrIn.bind (listStep_errs parse path hp hK l) (fun _ => ErrIn.bind ih (fun _ => ErrIn.pure _))

end liststep

end Model.ListingParse
