/- `Client.remove`: the resolved subtree disappears, nothing else changes. -/
import AioftpModel.Lemmas.ClientTree

namespace Model
namespace ClientTree
open Py Fs

/-- the part of the invariant `remove` needs (the working directory itself may be removed) -/
structure RInv (r : Remote) : Prop where
  cwd : CwdOK r
  pc : PC r.fs
  safe : SafeV r.fs

theorem ROK.rinv {r : Remote} (h : ROK r) : RInv r := ⟨h.cwd, h.pc, h.safe⟩

theorem landing_join (cwd p : PPath) (n : Str) : landing cwd (p.join ⟨0, [n]⟩) = landing cwd p ++ [n] := by
  unfold landing PPath.join
  simp only [ne_eq, not_true_eq_false, ↓reduceIte]
  split <;> simp

theorem SafeP.join {p : PPath} (hp : SafeP p) {n : Str} (hn : SafeName n) : SafeP (p.join ⟨0, [n]⟩) := by
  unfold PPath.join
  simp only [ne_eq, not_true_eq_false, ↓reduceIte]
  refine ⟨hp.1, ?_⟩
  intro x hx
  rcases List.mem_append.mp hx with h | h
  · exact hp.2 x h
  · simp at h; subst h; exact hn

theorem join_parts_ne (p : PPath) (n : Str) : (p.join ⟨0, [n]⟩).parts ≠ [] := by
  simp [PPath.join]

/-- what "the subtree at `t` is gone, nothing else changed" means -/
def Removed (fs fs' : Fs) (t : Path) : Prop := ∀ q, lookup fs' q = if t <+: q then none else lookup fs q

theorem RInv.of_removed {r r' : Remote} (hr : RInv r) {t : Path} (ht : t ≠ []) (hc : r'.cwd = r.cwd)
    (h : Removed r.fs r'.fs t) : RInv r' := by
  refine ⟨by unfold CwdOK; rw [hc]; exact hr.cwd, ?_, ?_⟩
  · intro q hq hex
    rw [h] at hex
    by_cases hpre : t <+: q
    · rw [if_pos hpre] at hex; exact absurd rfl hex
    · rw [if_neg hpre] at hex
      have hp := hr.pc q hq hex
      rw [h, if_neg]
      · exact hp
      · intro hpre'
        exact hpre (hpre'.trans (List.dropLast_prefix q))
  · intro q hq
    rw [h] at hq
    by_cases hpre : t <+: q
    · rw [if_pos hpre] at hq; exact absurd rfl hq
    · rw [if_neg hpre] at hq; exact hr.safe q hq

/-- the conclusion of `remove_spec`, as a predicate on (before, after, path) -/
def RemoveConcl (r r' : Remote) (p : PPath) : Prop :=
  r'.cwd = r.cwd ∧ r'.mlsx = r.mlsx ∧ Removed r.fs r'.fs (landing r.cwd p)

theorem removeEntries_spec (fuel : Nat)
    (IH : ∀ (r r' : Remote) (p : PPath), RInv r → SafeP p → p.parts ≠ [] → remove fuel r p = .ok r' →
      RemoveConcl r r' p) :
    ∀ (names : List (Str × Kind)) (r r' : Remote) (p : PPath), RInv r → SafeP p →
      (∀ x ∈ names, SafeName x.1) →
      forEach (fun (r' : Remote) (e : PPath × Kind) => remove fuel r' e.1) r
        (names.map (fun e => (p.join ⟨0, [e.1]⟩, e.2))) = .ok r' →
      r'.cwd = r.cwd ∧ r'.mlsx = r.mlsx ∧ RInv r' ∧
      (∀ q, (∃ x ∈ names, landing r.cwd p ++ [x.1] <+: q) → lookup r'.fs q = none) ∧
      (∀ q, (¬ ∃ x ∈ names, landing r.cwd p ++ [x.1] <+: q) → lookup r'.fs q = lookup r.fs q) := by
  intro names
  induction names with
  | nil =>
    intro r r' p hr _ _ h
    simp only [List.map_nil, forEach] at h
    injection h with h
    subst h
    exact ⟨rfl, rfl, hr, by simp, by simp⟩
  | cons x rest ih =>
    intro r r' p hr hp hsafe h
    simp only [List.map_cons, forEach] at h
    split at h
    · cases h
    · rename_i r1 h1
      have hxs : SafeName x.1 := hsafe x (by simp)
      obtain ⟨hc1, hm1, hrem1⟩ := IH r r1 _ hr (hp.join hxs) (join_parts_ne p x.1) h1
      rw [landing_join] at hrem1
      have hr1 : RInv r1 := hr.of_removed (by simp) hc1 hrem1
      obtain ⟨hc2, hm2, hr2, hA, hB⟩ := ih r1 r' p hr1 hp (fun y hy => hsafe y (List.mem_cons_of_mem _ hy)) h
      rw [hc1] at hA hB
      refine ⟨hc2.trans hc1, hm2.trans hm1, hr2, ?_, ?_⟩
      · rintro q ⟨y, hy, hpre⟩
        by_cases hrest : ∃ z ∈ rest, landing r.cwd p ++ [z.1] <+: q
        · exact hA q hrest
        · rw [hB q hrest, hrem1]
          rcases List.mem_cons.mp hy with hy | hy
          · subst hy; rw [if_pos hpre]
          · exact absurd ⟨y, hy, hpre⟩ hrest
      · intro q hq
        have hrest : ¬ ∃ z ∈ rest, landing r.cwd p ++ [z.1] <+: q :=
          fun ⟨z, hz, hpre⟩ => hq ⟨z, List.mem_cons_of_mem _ hz, hpre⟩
        rw [hB q hrest, hrem1, if_neg]
        intro hpre
        exact hq ⟨x, by simp, hpre⟩

theorem prefix_cons_child {t q : Path} (hpre : t <+: q) (hne : t ≠ q) : ∃ n, t ++ [n] <+: q := by
  obtain ⟨s, rfl⟩ := hpre
  cases s with
  | nil => simp at hne
  | cons n s' => exact ⟨n, ⟨s', by simp⟩⟩

/-- **remove_spec** (all fuels, all trees): if `remove` returns normally the tree is the old one minus the
    subtree at the resolved path. -/
theorem remove_spec_aux : ∀ (fuel : Nat) (r r' : Remote) (p : PPath), RInv r → SafeP p → p.parts ≠ [] →
    remove fuel r p = .ok r' → RemoveConcl r r' p := by
  intro fuel
  induction fuel with
  | zero => intro r r' p _ _ _ h; cases h
  | succ fuel IH =>
    intro r r' p hr hp hparts h
    unfold remove at h
    rw [exists_eq r p hr.cwd hp hr.safe hr.pc (Or.inr hparts)] at h
    by_cases hex : lookup r.fs (landing r.cwd p) = none
    · -- nothing there: nothing happens, and nothing was below
      simp only [hex, ne_eq, not_true_eq_false, decide_false] at h
      injection h with h
      subst h
      refine ⟨rfl, rfl, ?_⟩
      intro q
      by_cases hpre : landing r.cwd p <+: q
      · rw [if_pos hpre]; exact hr.pc.none_below hex hpre
      · rw [if_neg hpre]
    · simp only [ne_eq, hex, not_false_eq_true, decide_true] at h
      rw [stat_eq r p hr.cwd hp hr.safe hr.pc (Or.inr hparts)] at h
      cases hl : lookup r.fs (landing r.cwd p) with
      | none => exact absurd hl hex
      | some e =>
        rw [hl] at h
        cases e with
        | file c =>
          simp only [kindOf] at h
          have hd : srvDele r p = (250, { r with fs := erase r.fs (landing r.cwd p) }) := by
            unfold srvDele
            rw [target_eq r p hr.cwd hp]
            have h1 : Fs.exists_ r.fs (landing r.cwd p) = true := (exists_iff _ _).mpr hex
            have h2 : Fs.isFile r.fs (landing r.cwd p) = true := (isFile_iff _ _).mpr ⟨c, hl⟩
            simp only [h1, h2, Bool.not_true, Bool.or_self, Bool.false_eq_true, ↓reduceIte]
            unfold unlink
            rw [if_pos h2]
          rw [hd] at h
          have h250 : is2xx 250 = true := by decide
          simp only [h250, ↓reduceIte] at h
          injection h with h
          subst h
          refine ⟨rfl, rfl, ?_⟩
          intro q
          simp only
          rw [lookup_erase _ _ _ (file_ne_nil hl)]
          by_cases hq : q = landing r.cwd p
          · subst hq; simp
          · rw [if_neg hq]
            by_cases hpre : landing r.cwd p <+: q
            · rw [if_pos hpre]; exact hr.pc.file_below hl hpre (fun h => hq h.symm)
            · rw [if_neg hpre]
        | dir =>
          simp only [kindOf] at h
          rw [listDir_eq r p hr.cwd hp hr.safe, if_neg hex] at h
          simp only at h
          split at h
          · cases h
          · rename_i r1 hloop
            obtain ⟨hc1, hm1, hr1, hA, hB⟩ := removeEntries_spec fuel IH _ r r1 p hr hp
              (fun x hx => (childEntries_safe hr.safe hx).1) hloop
            split at h
            · rename_i h250
              injection h with h
              -- RMD succeeded: the directory itself goes
              have hrmd : ∃ fs', rmdir r1.fs (landing r.cwd p) = some fs' ∧ (srvRmd r1 p).2 = { r1 with fs := fs' } := by
                have ht1 : r1.target p = landing r.cwd p := by rw [target_eq r1 p hr1.cwd hp, hc1]
                unfold srvRmd at h250 ⊢
                rw [ht1] at h250 ⊢
                cases hcond : (!Fs.exists_ r1.fs (landing r.cwd p) || !Fs.isDir r1.fs (landing r.cwd p)) with
                | true => rw [hcond] at h250; simp at h250
                | false =>
                  rw [hcond] at h250
                  simp only [Bool.false_eq_true, ↓reduceIte] at h250 ⊢
                  cases hrm : rmdir r1.fs (landing r.cwd p) with
                  | none => rw [hrm] at h250; simp at h250
                  | some fs' => exact ⟨fs', rfl, rfl⟩
              obtain ⟨fs', hfs, h2⟩ := hrmd
              obtain ⟨htne, _, _, hfs'⟩ := rmdir_some hfs
              rw [h2] at h
              subst h
              subst hfs'
              refine ⟨hc1, hm1, ?_⟩
              intro q
              simp only
              rw [lookup_erase _ _ _ htne]
              by_cases hq : q = landing r.cwd p
              · subst hq; simp
              · rw [if_neg hq]
                by_cases hpre : landing r.cwd p <+: q
                · rw [if_pos hpre]
                  obtain ⟨n, hn⟩ := prefix_cons_child hpre (fun h => hq h.symm)
                  by_cases hqe : lookup r.fs q = none
                  · by_cases hch : ∃ x ∈ childEntries r.fs (landing r.cwd p), landing r.cwd p ++ [x.1] <+: q
                    · exact hA q hch
                    · rw [hB q hch]; exact hqe
                  · -- q exists: its ancestor directly below the directory is listed
                    have hchild : lookup r.fs (landing r.cwd p ++ [n]) ≠ none := by
                      by_cases hqn : landing r.cwd p ++ [n] = q
                      · rw [hqn]; exact hqe
                      · rw [hr.pc.prefix_dir hqe hn hqn]; simp
                    have hne : landing r.cwd p ++ [n] ≠ [] := by simp
                    rw [lookup_ne_nil _ hne] at hchild
                    cases hlk : lk r.fs (landing r.cwd p ++ [n]) with
                    | none => exact absurd hlk hchild
                    | some e =>
                      have hmem := lk_some_mem hlk
                      apply hA q
                      exact ⟨(n, kindOf e), mem_childEntries.mpr ⟨_, hmem, n, rfl, rfl⟩, hn⟩
                · rw [if_neg hpre]
                  apply hB
                  rintro ⟨x, _, hx⟩
                  exact hpre ((List.prefix_append _ _).trans hx)
            · cases h

end ClientTree
end Model
