/-
  Session-level lemmas of C18: the parametrised session model on the Memory backend is `Session.step`;
  where the POSIX and the Memory backend give the same step; the tree invariant along steps; failed commands.
-/
import AioftpModel.Lemmas.Fs
import AioftpModel.Model.SessionB
namespace Model.SessionB
open Model Model.Fs Model.Backends Model.Session Model.FsLemmas Py Generated

/-! ### the parametrised model on `Backend.mem` IS `Session.step` -/

theorem checkPathCondB_mem (fs : Fs) (p : Path) (c : PathCond) :
    checkPathCondB Backend.mem fs p c = checkPathCond fs p c := by
  cases c <;> rfl

theorem runGuardB_mem (cfg : Cfg) (w : World) (s : SState) (arg : PPath) (g : Guard) :
    runGuardB Backend.mem cfg w s arg g = runGuard cfg w s arg g := by
  cases g with
  | conn f wt c => rfl
  | path conds =>
    simp only [runGuardB, runGuard]
    have : (fun c => !checkPathCondB Backend.mem w.fs (resolve s arg) c) = (fun c => !checkPathCond w.fs (resolve s arg) c) := by
      funext c; rw [checkPathCondB_mem]
    rw [this]; rfl
  | perm ps => rfl
  | worker => rfl

theorem runGuardsB_mem (cfg : Cfg) (w : World) (s : SState) (arg : PPath) (gs : List Guard) :
    runGuardsB Backend.mem cfg w s arg gs = runGuards cfg w s arg gs := by
  induction gs with
  | nil => rfl
  | cons g t ih => simp only [runGuardsB, runGuards, runGuardB_mem, ih]; rfl

theorem workerB_mem (w : World) (s : SState) (t : Path) (v : Verb) (pl : Bytes) :
    workerB Backend.mem w s t v pl = worker w s t v pl := by
  cases v <;> rfl

theorem bodyB_mem (cfg : Cfg) (w : World) (s : SState) (v : Verb) (rest : Str) (arg : PPath) (pl : Bytes) :
    bodyB Backend.mem cfg w s v rest arg pl = body cfg w s v rest arg pl := by
  cases v <;> rfl

theorem runVerbB_mem (cfg : Cfg) (w : World) (s : SState) (v : Verb) (rest : Str) (pl : Bytes) :
    runVerbB Backend.mem cfg w s v rest pl = runVerb cfg w s v rest pl := by
  simp only [runVerbB, runVerb, runGuardsB_mem, bodyB_mem]; rfl

theorem dispatchB_mem (cfg : Cfg) (w : World) (s : SState) (name rest : Str) (pl : Bytes) :
    dispatchB Backend.mem cfg w s name rest pl = dispatch cfg w s name rest pl := by
  simp only [dispatchB, dispatch, runVerbB_mem]; rfl

theorem step0B_mem (cfg : Cfg) (w : World) (s : SState) (ev : Event) :
    step0B Backend.mem cfg w s ev = step0 cfg w s ev := by
  cases ev <;> simp only [step0B, step0, dispatchB_mem]

/-- **the copy cannot drift**: on the Memory backend the parametrised model is `Session.step` -/
theorem stepB_mem (cfg : Cfg) (w : World) (s : SState) (ev : Event) :
    stepB Backend.mem cfg w s ev = step cfg w s ev := by
  simp only [stepB, step, step0B_mem]

/-! ### the regions where the two backends differ (finding F7), as decidable predicates on what the handler sees:
    tree, session state, verb, resolved target -/

/-- RNTO whose destination's parent is a file while the source exists: Memory detaches the source and fails -/
def throughFile (fs : Fs) (s : SState) (v : Verb) (t : Path) : Bool :=
  v == .rnto && (match s.renameFrom with
    | some src => exists_ fs src && isFile fs t.dropLast
    | none => false)

/-- RNTO to a path strictly below the source, in an existing directory: Memory detaches the source and "succeeds" -/
def intoItself (fs : Fs) (s : SState) (v : Verb) (t : Path) : Bool :=
  v == .rnto && (match s.renameFrom with
    | some src => exists_ fs src && isDir fs t.dropLast && src.isPrefixOf t && src != t
    | none => false)

/-- RNTO to the very path given to RNFR (it passes the not-exists guard only if the source has vanished since) -/
def samePath (s : SState) (v : Verb) (t : Path) : Bool :=
  v == .rnto && s.renameFrom == some t

/-- STOR/APPE with a restart offset on a missing file in an existing directory: "r+b" creates on Memory -/
def restartCreates (fs : Fs) (s : SState) (v : Verb) (t : Path) : Bool :=
  (v == .stor || v == .appe) && xferOffset v s != 0 && !exists_ fs t && isDir fs t.dropLast

/-! ### guards -/

theorem checkPathCondB_posix {fs : Fs} (h : WF fs) (p : Path) (c : PathCond) :
    checkPathCondB Backend.posix fs p c = checkPathCondB Backend.mem fs p c := by
  cases c <;> simp [checkPathCondB, Backend.posix, Backend.mem, posix_exists_eq h, posix_isDir_eq h, posix_isFile_eq h]

theorem runGuardB_posix (cfg : Cfg) (w : World) (h : WF w.fs) (s : SState) (arg : PPath) (g : Guard) :
    runGuardB Backend.posix cfg w s arg g = runGuardB Backend.mem cfg w s arg g := by
  cases g with
  | conn f wt c => rfl
  | path conds =>
    simp only [runGuardB]
    have : (fun c => !checkPathCondB Backend.posix w.fs (resolve s arg) c) =
        (fun c => !checkPathCondB Backend.mem w.fs (resolve s arg) c) := by
      funext c; rw [checkPathCondB_posix h]
    rw [this]
  | perm ps => rfl
  | worker => rfl

theorem runGuardsB_posix (cfg : Cfg) (w : World) (h : WF w.fs) (s : SState) (arg : PPath) (gs : List Guard) :
    runGuardsB Backend.posix cfg w s arg gs = runGuardsB Backend.mem cfg w s arg gs := by
  induction gs with
  | nil => rfl
  | cons g t ih => simp only [runGuardsB, runGuardB_posix cfg w h, ih]

theorem runGuardsB_pass {B : Backend} {cfg : Cfg} {w : World} {s : SState} {arg : PPath} :
    ∀ {gs : List Guard}, runGuardsB B cfg w s arg gs = .pass → ∀ g ∈ gs, runGuardB B cfg w s arg g = .pass := by
  intro gs
  induction gs with
  | nil => intro _ g hg; cases hg
  | cons g0 t ih =>
    intro h g hg
    simp only [runGuardsB] at h
    cases hr : runGuardB B cfg w s arg g0 with
    | pass =>
      rw [hr] at h
      rcases List.mem_cons.mp hg with rfl | hm
      · exact hr
      · exact ih h g hm
    | fail c => rw [hr] at h; cases h
    | crash => rw [hr] at h; cases h
    | silent => rw [hr] at h; cases h

/-- RNTO's own guard: the destination does not exist when the body runs -/
theorem rnto_guard_table : Guard.path [.mustNotExist] ∈ Verb.rnto.guards := by decide

theorem rnto_target_missing {B : Backend} {cfg : Cfg} {w : World} {s : SState} {arg : PPath}
    (h : runGuardsB B cfg w s arg Verb.rnto.guards = .pass) : B.exists_ w.fs (resolve s arg) = false := by
  have := runGuardsB_pass h _ rnto_guard_table
  simp only [runGuardB] at this
  split at this
  · cases this
  · split at this
    · cases this
    · rename_i hf
      have := List.find?_eq_none.mp hf .mustNotExist (by simp)
      simpa [checkPathCondB] using this

/-! ### handler bodies -/

theorem workerB_posix_eq (w : World) (hwf : WF w.fs) (s : SState) (t : Path) (v : Verb) (pl : Bytes) :
    workerB Backend.posix w s t v pl = workerB Backend.mem w s t v pl := by
  have hopen0 : Backend.posix.openFile w.fs t 0 = Backend.mem.openFile w.fs t 0 := by
    simp only [Backend.posix, Backend.mem]
    exact posix_openFile_eq hwf t 0
  have hch : Backend.posix.children w.fs t = Backend.mem.children w.fs t := by
    simp only [Backend.posix, Backend.mem]; exact posix_list_eq hwf t
  have hopenW : (v = .stor ∨ v = .appe) →
      Backend.posix.openFile w.fs t (if xferOffset v s ≠ 0 then 3 else (if v = .stor then 1 else 2)) =
      Backend.mem.openFile w.fs t (if xferOffset v s ≠ 0 then 3 else (if v = .stor then 1 else 2)) := by
    intro _
    simp only [Backend.posix, Backend.mem]
    exact posix_openFile_eq hwf _ _
  unfold workerB workerBK
  cases s.dataConn with
  | false => rfl
  | true =>
    simp only [Bool.not_true, Bool.false_eq_true, if_false]
    cases v with
    | retr => simp only [hopen0]
    | stor =>
      have h := hopenW (Or.inl rfl)
      simp only [eq_self, if_true] at h
      simp only [if_true, h]
    | appe =>
      have h := hopenW (Or.inr rfl)
      simp only [reduceCtorEq, if_false] at h
      simp only [reduceCtorEq, if_false, h]
    | list => simp only [hch]
    | mlsd => simp only [hch]
    | _ => rfl

theorem bodyB_posix_eq (cfg : Cfg) (w : World) (hwf : WF w.fs) (s : SState) (v : Verb) (rest : Str) (arg : PPath)
    (pl : Bytes)
    (hg : v = .rnto → exists_ w.fs (resolve s arg) = false) :
    bodyB Backend.posix cfg w s v rest arg pl = bodyB Backend.mem cfg w s v rest arg pl := by
  have hw := workerB_posix_eq w hwf s (resolve s arg) v pl
  have hdir : Backend.posix.isDir w.fs (resolve s arg).dropLast = Backend.mem.isDir w.fs (resolve s arg).dropLast := by
    simp only [Backend.posix, Backend.mem]; exact posix_isDir_eq hwf _
  cases v with
  | mkd =>
    simp only [bodyB, Backend.posix, Backend.mem, posix_mkdirParents_eq hwf]
  | rmd =>
    simp only [bodyB, Backend.posix, Backend.mem, posix_rmdir_eq hwf]
  | dele =>
    simp only [bodyB, Backend.posix, Backend.mem, posix_unlink_eq hwf]
  | rnto =>
    simp only [bodyB]
    cases hrf : s.renameFrom with
    | none => rfl
    | some src =>
      have hl : lookup w.fs (resolve s arg) = none := exists_false_iff.mp (hg rfl)
      have := posix_rename_eq hwf src (resolve s arg) hl
      simp only [this]
      rfl
  | list => simp only [bodyB, hw]
  | mlsd => simp only [bodyB, hw]
  | retr => simp only [bodyB, hw]
  | stor => simp only [bodyB, hw, hdir]
  | appe => simp only [bodyB, hw, hdir]
  | _ => rfl

/-! ### whole steps -/

/-- a region predicate evaluated on what the dispatcher hands to the handler for this event -/
def regionAt (f : SState → Verb → Path → Bool) (s : SState) (ev : Event) : Bool :=
  match targetOf s ev with
  | some (v, s0, t) => f s0 v t
  | none => false

theorem runVerbB_posix_eq (cfg : Cfg) (w : World) (hwf : WF w.fs) (s0 : SState) (v : Verb) (rest : Str) (pl : Bytes) :
    runVerbB Backend.posix cfg w s0 v rest pl = runVerbB Backend.mem cfg w s0 v rest pl := by
  unfold runVerbB
  rw [runGuardsB_posix cfg w hwf]
  cases hgd : runGuardsB Backend.mem cfg w s0 (argOf s0 v rest) v.guards with
  | pass =>
    simp only
    apply bodyB_posix_eq cfg w hwf s0 v rest _ pl _
    intro hv
    subst hv
    exact rnto_target_missing hgd
  | fail c => rfl
  | crash => rfl
  | silent => rfl

theorem stepB_posix_eq (cfg : Cfg) (w : World) (hwf : WF w.fs) (s : SState) (ev : Event) :
    stepB Backend.posix cfg w s ev = stepB Backend.mem cfg w s ev := by
  have h0 : step0B Backend.posix cfg w s ev = step0B Backend.mem cfg w s ev := by
    cases ev with
    | connect => rfl
    | dataConnect => rfl
    | finish => rfl
    | line raw pl =>
      simp only [step0B, dispatchB]
      cases hv : verbOf (parseCommand raw).1 with
      | none => rfl
      | some v => exact runVerbB_posix_eq cfg w hwf _ v _ pl
  simp only [stepB, h0]

/-! ### the tree invariant along steps -/

/-- a backend whose operations keep the tree well-formed -/
structure PreservesWF (B : Backend) : Prop where
  mkdirParents : ∀ {fs fs' : Fs} {p : Path}, WF fs → B.mkdirParents fs p = some fs' → WF fs'
  rmdir : ∀ {fs fs' : Fs} {p : Path}, WF fs → B.rmdir fs p = some fs' → WF fs'
  unlink : ∀ {fs fs' : Fs} {p : Path}, WF fs → B.unlink fs p = some fs' → WF fs'
  rename : ∀ {fs : Fs} (src dst : Path), WF fs → WF (B.rename fs src dst).1
  openFile : ∀ {fs fs' : Fs} {p : Path} {m : Nat} {c : Bytes} {pos : Nat}, WF fs →
    B.openFile fs p m = some (fs', c, pos) → WF fs' ∧ ∃ c', lookup fs' p = some (.file c')

theorem ofRes_some {α : Type} {r : Posix.Res α} {a : α} (h : Backend.ofRes r = some a) : r = .ok a := by
  cases r with
  | ok b => simp [Backend.ofRes] at h; rw [h]
  | error e => simp [Backend.ofRes] at h

theorem mem_preservesWF : PreservesWF Backend.mem where
  mkdirParents := fun h hr => wf_mem_mkdirParents h hr
  rmdir := fun h hr => wf_mem_rmdir h hr
  unlink := fun h hr => wf_mem_unlink h hr
  rename := fun src dst h => wf_mem_rename h src dst
  openFile := fun h hr => wf_mem_openFile h hr

theorem posix_preservesWF : PreservesWF Backend.posix where
  mkdirParents := fun h hr => wf_posix_mkdir h (ofRes_some hr)
  rmdir := fun h hr => wf_posix_rmdir h (ofRes_some hr)
  unlink := fun h hr => wf_posix_unlink h (ofRes_some hr)
  rename := by
    intro fs src dst h
    simp only [Backend.posix]
    cases hr : Posix.rename fs src dst with
    | ok fs' => exact wf_posix_rename h hr
    | error e => exact h
  openFile := fun h hr => wf_posix_openFile h (ofRes_some hr)

theorem finalize_fs (w : World) (s : SState) : (finalize w s).1.fs = w.fs := by
  unfold finalize
  cases s.acquired <;> cases s.user <;> rfl

theorem workerB_wf {B : Backend} (hB : PreservesWF B) (w : World) (hwf : WF w.fs) (s : SState) (t : Path) (v : Verb)
    (pl : Bytes) : WF (workerB B w s t v pl).1.fs := by
  unfold workerB workerBK
  cases s.dataConn with
  | false => exact hwf
  | true =>
    simp only [Bool.not_true, Bool.false_eq_true, if_false]
    have hW : ∀ mode k, WF (match B.openFile w.fs t mode with
        | none => (w, { s with dataConn := false }, ({ replies := [451] } : Out))
        | some (fs', c, pos) =>
          ({ w with fs := fs'.set t (.file (Fs.writeAt c (if k ≠ 0 then k else pos) pl)) },
            { s with dataConn := false }, { replies := [226] })).1.fs := by
      intro mode k
      cases ho : B.openFile w.fs t mode with
      | none => exact hwf
      | some r =>
        obtain ⟨fs', c, pos⟩ := r
        obtain ⟨hwf', c', hc'⟩ := hB.openFile hwf ho
        exact (hwf'.set_file hc').1
    cases v with
    | retr => simp only; split <;> exact hwf
    | stor => exact hW _ _
    | appe => exact hW _ _
    | _ => exact hwf

theorem bodyB_wf {B : Backend} (hB : PreservesWF B) (cfg : Cfg) (w : World) (hwf : WF w.fs) (s : SState) (v : Verb)
    (rest : Str) (arg : PPath) (pl : Bytes) : WF (bodyB B cfg w s v rest arg pl).1.fs := by
  have hw := workerB_wf hB w hwf s (resolve s arg) v pl
  cases v with
  | user =>
    simp only [bodyB]
    cases s.user <;> (cases (getUser cfg _ rest).2.1 <;> exact hwf)
  | pass =>
    simp only [bodyB]
    split
    · exact hwf
    · split
      · exact hwf
      · split <;> exact hwf
  | mkd =>
    simp only [bodyB]
    split
    · rename_i hr; exact hB.mkdirParents hwf hr
    · exact hwf
  | rmd =>
    simp only [bodyB]
    split
    · rename_i hr; exact hB.rmdir hwf hr
    · exact hwf
  | dele =>
    simp only [bodyB]
    split
    · rename_i hr; exact hB.unlink hwf hr
    · exact hwf
  | rnto =>
    simp only [bodyB]
    split
    · exact hwf
    · exact hB.rename _ _ hwf
  | list => exact hw
  | mlsd => exact hw
  | retr => exact hw
  | stor =>
    simp only [bodyB]
    split
    · exact hw
    · exact hwf
  | appe =>
    simp only [bodyB]
    split
    · exact hw
    · exact hwf
  | pasv => simp only [bodyB]; split <;> exact hwf
  | epsv => simp only [bodyB]; split <;> exact hwf
  | rest =>
    simp only [bodyB]
    split
    · split <;> exact hwf
    · exact hwf
  | _ => exact hwf

theorem stepB_wf {B : Backend} (hB : PreservesWF B) (cfg : Cfg) (w : World) (hwf : WF w.fs) (s : SState) (ev : Event) :
    WF (stepB B cfg w s ev).1.fs := by
  have h0 : WF (step0B B cfg w s ev).1.fs := by
    cases ev with
    | connect => simp only [step0B]; split <;> exact hwf
    | dataConnect => simp only [step0B]; split <;> exact hwf
    | finish => simp only [step0B]; rw [finalize_fs]; exact hwf
    | line raw pl =>
      simp only [step0B, dispatchB]
      split
      · exact hwf
      · simp only [runVerbB]
        split
        · exact hwf
        · exact hwf
        · exact hwf
        · exact bodyB_wf hB cfg w hwf _ _ _ _ pl
  unfold stepB
  simp only
  split
  · exact h0
  · rw [finalize_fs]; exact h0

/-! ### a failed command changes nothing -/

/-- some reply of the command is 4xx or 5xx -/
def failedOut (o : Out) : Bool := o.replies.any (fun c => decide (400 ≤ c))

theorem workerB_failed {B : Backend} (w : World) (s : SState) (t : Path) (v : Verb) (pl : Bytes)
    (hf : failedOut (workerB B w s t v pl).2.2 = true) : (workerB B w s t v pl).1 = w := by
  unfold workerB workerBK at hf ⊢
  cases hdc : s.dataConn with
  | false => simp
  | true =>
    simp only [hdc, Bool.not_true, Bool.false_eq_true, if_false] at hf ⊢
    cases v with
    | retr => simp only; split <;> rfl
    | stor =>
      simp only at hf ⊢
      split
      · rfl
      · rename_i ho; rw [ho] at hf; simp [failedOut] at hf
    | appe =>
      simp only at hf ⊢
      split
      · rfl
      · rename_i ho; rw [ho] at hf; simp [failedOut] at hf
    | _ => rfl

theorem failedOut_cons150 (o : Out) : failedOut { o with replies := 150 :: o.replies } = failedOut o := by
  simp [failedOut]

theorem bodyB_failed {B : Backend} (cfg : Cfg) (w : World) (s : SState) (v : Verb) (rest : Str) (arg : PPath)
    (pl : Bytes)
    (hren : ∀ src, v = .rnto → s.renameFrom = some src → (B.rename w.fs src (resolve s arg)).2 = false →
      (B.rename w.fs src (resolve s arg)).1 = w.fs)
    (hf : failedOut (bodyB B cfg w s v rest arg pl).2.2 = true) :
    (bodyB B cfg w s v rest arg pl).1.fs = w.fs := by
  have hw : failedOut (workerB B w s (resolve s arg) v pl).2.2 = true →
      (workerB B w s (resolve s arg) v pl).1.fs = w.fs := fun h => by rw [workerB_failed w s _ v pl h]
  cases v with
  | user =>
    simp only [bodyB]
    cases s.user <;> (cases (getUser cfg _ rest).2.1 <;> rfl)
  | pass =>
    simp only [bodyB]
    split
    · rfl
    · split
      · rfl
      · split <;> rfl
  | mkd =>
    simp only [bodyB] at hf ⊢
    split
    · rename_i hr; rw [hr] at hf; simp [failedOut] at hf
    · rfl
  | rmd =>
    simp only [bodyB] at hf ⊢
    split
    · rename_i hr; rw [hr] at hf; simp [failedOut] at hf
    · rfl
  | dele =>
    simp only [bodyB] at hf ⊢
    split
    · rename_i hr; rw [hr] at hf; simp [failedOut] at hf
    · rfl
  | rnto =>
    simp only [bodyB] at hf ⊢
    cases hrf : s.renameFrom with
    | none => rfl
    | some src =>
      rw [hrf] at hf
      simp only at hf ⊢
      apply hren src rfl hrf
      cases hok : (B.rename w.fs src (resolve s arg)).2 with
      | false => rfl
      | true => rw [hok] at hf; simp [failedOut] at hf
  | list => simp only [bodyB] at hf ⊢; rw [failedOut_cons150] at hf; exact hw hf
  | mlsd => simp only [bodyB] at hf ⊢; rw [failedOut_cons150] at hf; exact hw hf
  | retr => simp only [bodyB] at hf ⊢; rw [failedOut_cons150] at hf; exact hw hf
  | stor =>
    simp only [bodyB] at hf ⊢
    split
    · rename_i hd; rw [if_pos hd, failedOut_cons150] at hf; exact hw hf
    · rfl
  | appe =>
    simp only [bodyB] at hf ⊢
    split
    · rename_i hd; rw [if_pos hd, failedOut_cons150] at hf; exact hw hf
    · rfl
  | pasv => simp only [bodyB]; split <;> rfl
  | epsv => simp only [bodyB]; split <;> rfl
  | rest =>
    simp only [bodyB]
    split
    · split <;> rfl
    · rfl
  | _ => rfl

/-- generic form: a backend whose failing `rename` leaves the tree alone at this event -/
theorem stepB_failed {B : Backend} (cfg : Cfg) (w : World) (s : SState) (ev : Event)
    (hren : ∀ v s0 t src, targetOf s ev = some (v, s0, t) → v = .rnto → s0.renameFrom = some src →
      (B.rename w.fs src t).2 = false → (B.rename w.fs src t).1 = w.fs)
    (hf : failedOut (stepB B cfg w s ev).2.2 = true) : (stepB B cfg w s ev).1.fs = w.fs := by
  have hout : (stepB B cfg w s ev).2.2 = (step0B B cfg w s ev).2.2 := by
    unfold stepB; simp only; split <;> rfl
  have hfs : (stepB B cfg w s ev).1.fs = (step0B B cfg w s ev).1.fs := by
    unfold stepB; simp only; split
    · rfl
    · rw [finalize_fs]
  rw [hout] at hf
  rw [hfs]
  cases ev with
  | connect => simp only [step0B]; split <;> rfl
  | dataConnect => simp only [step0B]; split <;> rfl
  | finish => simp only [step0B]; rw [finalize_fs]
  | line raw pl =>
    simp only [step0B, dispatchB] at hf ⊢
    simp only [targetOf] at hren
    cases hv : verbOf (parseCommand raw).1 with
    | none => rfl
    | some v =>
      rw [hv] at hf hren
      simp only [runVerbB] at hf ⊢
      split
      · rfl
      · rfl
      · rfl
      · rename_i hg
        rw [hg] at hf
        apply bodyB_failed cfg w _ v _ _ pl _ hf
        intro src hvr hrf hok
        exact hren v _ _ src rfl hvr hrf hok

end Model.SessionB
