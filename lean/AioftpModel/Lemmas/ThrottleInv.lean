/-
  C15: every scheduler step preserves `Inv` (see Lemmas/ThrottleSys.lean).
-/
import AioftpModel.Lemmas.ThrottleSys

namespace Model.Throttling
open Py

theorem mul_le_mul_l {l : Int} (hl : 0 < l) {a b : Rat} (h : a ≤ b) : (l : Rat) * a ≤ (l : Rat) * b :=
  mul_le_mul_of_nonneg_left h (by exact_mod_cast le_of_lt hl)

/-- a step of a stream that does not hold `x` (or any change confined to such a stream) -/
theorem inv_frame {x : Nat} {l : Int} (hl : 0 < l) {s s' : Sys} {g : Ghost} (h : Inv x l s g)
    (hstore : s'.store[x]? = s.store[x]?) (hnow : s.now ≤ s'.now)
    (hlen : s'.procs.length = s.procs.length) (j : Nat) (p p' : Proc)
    (hp : s.procs[j]? = some p) (hids : p'.ids = p.ids) (hx : x ∉ p.ids)
    (hprocs : ∀ k : Nat, s'.procs[k]? = if k = j then some p' else s.procs[k]?) :
    Inv x l s' g := by
  have hother : ∀ (k : Nat) (q : Proc), s'.procs[k]? = some q → x ∈ q.ids → s.procs[k]? = some q := by
    intro k q hq hxq
    rw [hprocs k] at hq
    by_cases e : k = j
    · simp only [e, if_true, Option.some.injEq] at hq
      subst hq
      exact absurd (hids ▸ hxq) hx
    · simpa [e] using hq
  have hterm : ∀ (F : Option Proc → Nat), (∀ q : Proc, x ∉ q.ids → F (some q) = 0) →
      ∀ k : Nat, F s'.procs[k]? = F s.procs[k]? := by
    intro F hF k
    rw [hprocs k]
    by_cases e : k = j
    · subst e
      simp only [if_true, hp]
      rw [hF p' (hids ▸ hx), hF p hx]
    · simp [e]
  obtain ⟨t, ht, hlim, hnone, hsome, hwait, hanch⟩ := h.thr
  refine ⟨?_, ⟨t, hstore ▸ ht, hlim, hnone, ?_, ?_, ?_⟩, ?_, ?_, ?_, ?_⟩
  · intro k q hq
    rw [hprocs k] at hq
    by_cases e : k = j
    · simp only [e, if_true, Option.some.injEq] at hq
      subst hq
      rw [hids]; exact h.nodup j p hp
    · exact h.nodup k q (by simpa [e] using hq)
  · intro st hst
    obtain ⟨a, b, c, d, r1, r2⟩ := hsome st hst
    exact ⟨a, b, le_trans c hnow, d, r1, le_trans r2 hnow⟩
  · intro k ids u hk hxk
    exact hwait k ids u (hother k _ hk hxk) hxk
  · rcases hanch with a | ⟨a, b⟩
    · exact Or.inl a
    · exact Or.inr ⟨a, by have := mul_le_mul_l hl hnow; linarith⟩
  · intro k ids st n hk hxk
    obtain ⟨a, b⟩ := h.infl k ids st n (hother k _ hk hxk) hxk
    exact ⟨le_trans a hnow, b⟩
  · intro f hf
    exact le_trans (h.fbnow f hf) hnow
  · intro θ hθ
    rw [hlen]
    have := h.anchor θ hθ
    rw [sumTo_congr _ _ (fun k => hT x θ (g.a k) (g.β k) s.procs[k]?) (fun k _ =>
      hterm (hT x θ (g.a k) (g.β k)) (fun q hq => by simp [hT, hq]) k)]
    exact this
  · rw [hlen, h.moved]
    congr 1
    exact (sumTo_congr _ _ _ (fun k _ => hterm (fT x) (fun q hq => by simp [fT, hq]) k)).symm

theorem setPhase_get' (procs : List Proc) (j : Nat) (ids : List Nat) (ph0 ph : Phase)
    (hp : procs[j]? = some ⟨ids, ph0⟩) (k : Nat) :
    (setPhase procs j ph)[k]? = if k = j then some ⟨ids, ph⟩ else procs[k]? := by
  rw [setPhase_get]
  by_cases e : k = j
  · subst e; simp [hp]
  · simp [e]

theorem on_of_limit {t : Throttle} {l : Int} (hlim : t.limit = some l) (hl : 0 < l) : t.on = true :=
  (on_iff t).2 ⟨l, hlim, hl⟩

/-- a stream holding `x` calls `wait` -/
theorem inv_call {x : Nat} {l : Int} (hl : 0 < l) {s : Sys} {g : Ghost} (h : Inv x l s g)
    (j : Nat) (ids : List Nat) (w : Rat)
    (hp : s.procs[j]? = some ⟨ids, .idle⟩) (hw : s.now ≤ w) (hx : x ∈ ids) :
    Inv x l { s with procs := setPhase s.procs j (.waiting (waitAll s.store ids w)), now := w }
      { g with a := fun k => if k = j then g.acc else g.a k } := by
  have hprocs := setPhase_get' s.procs j ids .idle (.waiting (waitAll s.store ids w)) hp
  obtain ⟨t, ht, hlim, hnone, hsome, hwait, hanch⟩ := h.thr
  have hjlt := lt_length_of_get _ _ _ hp
  refine ⟨?_, ⟨t, ht, hlim, hnone, ?_, ?_, ?_⟩, ?_, ?_, ?_, ?_⟩
  · intro k q hq
    simp only at hq
    rw [hprocs k] at hq
    by_cases e : k = j
    · simp only [e, if_true, Option.some.injEq] at hq
      subst hq
      exact h.nodup j ⟨ids, .idle⟩ hp
    · exact h.nodup k q (by simpa [e] using hq)
  · intro st hst
    obtain ⟨a, b, c, d, r1, r2⟩ := hsome st hst
    exact ⟨a, b, le_trans c hw, d, r1, le_trans r2 hw⟩
  · intro k ids' u' hk hxk
    simp only at hk
    rw [hprocs k] at hk
    by_cases e : k = j
    · subst e
      simp only [if_true, Option.some.injEq, Proc.mk.injEq, Phase.waiting.injEq] at hk
      obtain ⟨rfl, rfl⟩ := hk
      simp only [if_true]
      cases hst : t.start with
      | none => left; exact (hnone hst).2.1
      | some st0 =>
        right
        refine ⟨by simp, ?_⟩
        obtain ⟨a, b, c, d⟩ := hsome st0 hst
        have ws := wait_spec t l st0 w hlim hl hst
        have ge := waitAll_ge_each s.store ids w x t hx ht (on_truthy t (on_of_limit hlim hl))
        have := mul_le_mul_l hl ge
        linarith [ws.2.1]
    · simp only [e, if_false] at hk ⊢
      exact hwait k ids' u' hk hxk
  · rcases hanch with a | ⟨a, b⟩
    · exact Or.inl a
    · exact Or.inr ⟨a, by have := mul_le_mul_l hl hw; simp only; linarith⟩
  · intro k ids' st n hk hxk
    simp only at hk
    rw [hprocs k] at hk
    by_cases e : k = j
    · simp [e] at hk
    · simp only [e, if_false] at hk
      obtain ⟨a, b⟩ := h.infl k ids' st n hk hxk
      exact ⟨le_trans a hw, b⟩
  · intro f hf
    exact le_trans (h.fbnow f hf) hw
  · intro θ hθ
    simp only [setPhase_length]
    have old := h.anchor θ hθ
    by_cases hlt : θ < g.acc
    · rw [sumTo_congr _ _ (fun k => hT x θ (g.a k) (g.β k) s.procs[k]?) ?_]
      · exact old
      · intro k _
        rw [hprocs k]
        by_cases e : k = j
        · subst e
          simp [hT, hp, hx, hlt]
        · simp [e]
    · simp only at hθ ⊢
      omega
  · simp only [setPhase_length]
    rw [h.moved]
    congr 1
    apply sumTo_congr
    intro k _
    rw [hprocs k]
    by_cases e : k = j
    · subst e; simp [fT, hp]
    · simp [e]

/-- the wait of a stream holding `x` is over and its raw I/O starts -/
theorem inv_begin {x : Nat} {l : Int} (hl : 0 < l) {s : Sys} {g : Ghost} (h : Inv x l s g)
    (j : Nat) (ids : List Nat) (u T : Rat) (n : Nat)
    (hp : s.procs[j]? = some ⟨ids, .waiting u⟩) (hw : s.now ≤ T) (hu : u ≤ T) (hx : x ∈ ids) :
    Inv x l { s with procs := setPhase s.procs j (.inflight T n), now := T }
      { g with anch := max g.anch (g.a j), moved := g.moved + n, fb := some (g.fb.getD T) } := by
  have hprocs := setPhase_get' s.procs j ids (.waiting u) (.inflight T n) hp
  obtain ⟨t, ht, hlim, hnone, hsome, hwait, hanch⟩ := h.thr
  have hjlt := lt_length_of_get _ _ _ hp
  have hj := hwait j ids u hp hx
  have hfb : g.fb.getD T ≤ T := by
    cases hf : g.fb with
    | none => simp
    | some f => simpa using le_trans (h.fbnow f hf) hw
  refine ⟨?_, ⟨t, ht, hlim, ?_, ?_, ?_, ?_⟩, ?_, ?_, ?_, ?_⟩
  · intro k q hq
    simp only at hq
    rw [hprocs k] at hq
    by_cases e : k = j
    · simp only [e, if_true, Option.some.injEq] at hq
      subst hq
      exact h.nodup j ⟨ids, .waiting u⟩ hp
    · exact h.nodup k q (by simpa [e] using hq)
  · intro hst
    obtain ⟨a, b, c, d⟩ := hnone hst
    refine ⟨a, b, ?_, d⟩
    rcases hj with hj | ⟨hj, _⟩
    · simp [c, hj]
    · exact absurd hst hj
  · intro st hst
    obtain ⟨a, b, c, ⟨f, hf, d⟩, r1, r2⟩ := hsome st hst
    exact ⟨a, b, le_trans c hw, ⟨f, by simp [hf], d⟩, r1, le_trans r2 hw⟩
  · intro k ids' u' hk hxk
    simp only at hk
    rw [hprocs k] at hk
    by_cases e : k = j
    · simp [e] at hk
    · simp only [e, if_false] at hk
      exact hwait k ids' u' hk hxk
  · simp only
    rcases Nat.le_total g.anch (g.a j) with hm | hm
    · rw [Nat.max_eq_right hm]
      rcases hj with hj | ⟨hj1, hj2⟩
      · exact Or.inl hj
      · exact Or.inr ⟨hj1, by have := mul_le_mul_l hl hu; linarith⟩
    · rw [Nat.max_eq_left hm]
      rcases hanch with a | ⟨a, b⟩
      · exact Or.inl a
      · exact Or.inr ⟨a, by have := mul_le_mul_l hl hw; linarith⟩
  · intro k ids' st n' hk hxk
    simp only at hk
    rw [hprocs k] at hk
    by_cases e : k = j
    · simp only [e, if_true, Option.some.injEq, Proc.mk.injEq, Phase.inflight.injEq] at hk
      obtain ⟨rfl, rfl, rfl⟩ := hk
      exact ⟨le_refl _, _, rfl, hfb⟩
    · simp only [e, if_false] at hk
      obtain ⟨a, f, hf, b⟩ := h.infl k ids' st n' hk hxk
      exact ⟨le_trans a hw, f, by simp [hf], b⟩
  · intro f hf
    simp only [Option.some.injEq] at hf
    subst hf
    exact hfb
  · intro θ hθ
    simp only [setPhase_length] at hθ ⊢
    have h1 : g.anch ≤ θ := le_trans (Nat.le_max_left _ _) hθ
    have h2 : g.a j ≤ θ := le_trans (Nat.le_max_right _ _) hθ
    have old := h.anchor θ h1
    rw [sumTo_congr _ _ (fun k => hT x θ (g.a k) (g.β k) s.procs[k]?) ?_]
    · exact old
    · intro k _
      rw [hprocs k]
      by_cases e : k = j
      · subst e
        simp [hT, hp, hx, Nat.not_lt.2 h2]
      · simp [e]
  · simp only [setPhase_length]
    rw [h.moved]
    have e1 : fT x s.procs[j]? = 0 := by rw [hp]; simp [fT]
    have e2 : fT x (setPhase s.procs j (.inflight T n))[j]? = n := by rw [hprocs j]; simp [fT, hx]
    have := sumTo_update s.procs.length j (fun k => fT x s.procs[k]?)
      (fun k => fT x (setPhase s.procs j (.inflight T n))[k]?) hjlt
      (fun k e => by
        show fT x (setPhase s.procs j (.inflight T n))[k]? = fT x s.procs[k]?
        rw [hprocs k]; simp [e])
    simp only [e1, e2] at this
    omega

/-- the raw I/O of a stream holding `x` returns and is appended -/
theorem inv_done {x : Nat} {l : Int} (hl : 0 < l) {s : Sys} {g : Ghost} (h : Inv x l s g)
    (j : Nat) (ids : List Nat) (st e : Rat) (n : Nat) (t : Throttle)
    (hp : s.procs[j]? = some ⟨ids, .inflight st n⟩) (hw : s.now ≤ e) (hx : x ∈ ids)
    (ht : s.store[x]? = some t) :
    Inv x l { store := appendAll s.store ids n st, procs := setPhase s.procs j .idle, now := e }
      { g with acc := g.acc + n, β := fun k => if k = j then n else g.β k,
               folds := g.folds + t.foldSlack st,
               t0 := if t.start = none then st else g.t0 } := by
  have hprocs := setPhase_get' s.procs j ids (.inflight st n) .idle hp
  obtain ⟨t1, ht1, hlim, hnone, hsome, hwait, hanch⟩ := h.thr
  rw [ht] at ht1; cases ht1
  have hjlt := lt_length_of_get _ _ _ hp
  obtain ⟨hstnow, f0, hf0, hf0st⟩ := h.infl j ids st n hp hx
  have hstore : (appendAll s.store ids n st)[x]? = some (t.append n st) := by
    rw [appendAll_get_mem s.store ids n st x hx (h.nodup j _ hp), ht]; rfl
  obtain ⟨alim, ares, acases⟩ := append_on t l n st hlim hl
  obtain ⟨dnone, dsome⟩ := debt_append t l n st hlim hl
  have hstart' : (t.append n st).start ≠ none := by
    cases hs : t.start with
    | none => rw [(dnone hs).1]; simp
    | some s0 => obtain ⟨s', hs', _⟩ := dsome s0 hs; rw [hs']; simp
  have hfolds : (g.folds : Rat) ≤ ((g.folds + t.foldSlack st : Nat) : Rat) := by
    exact_mod_cast Nat.le_add_right _ _
  refine ⟨?_, ⟨t.append n st, hstore, alim, fun hs => absurd hs hstart', ?_, ?_, ?_⟩, ?_, ?_, ?_, ?_⟩
  · intro k q hq
    simp only at hq
    rw [hprocs k] at hq
    by_cases e' : k = j
    · simp only [e', if_true, Option.some.injEq] at hq
      subst hq
      exact h.nodup j ⟨ids, .inflight st n⟩ hp
    · exact h.nodup k q (by simpa [e'] using hq)
  · intro st' hst'
    cases hs : t.start with
    | none =>
      obtain ⟨h1, h2⟩ := dnone hs
      obtain ⟨z1, z2, _, z4⟩ := hnone hs
      rw [h1] at hst'; cases hst'
      simp only [Throttle.debt, h1, Option.getD_some] at h2
      have z : t.foldSlack st = 0 := by simp [Throttle.foldSlack, hs]
      simp only [if_true, z2, z4, z1, z] at h2 ⊢
      push_cast at h2 ⊢
      refine ⟨by linarith, by linarith, le_trans hstnow hw, ⟨f0, hf0, hf0st⟩, ?_, le_trans hstnow hw⟩
      intro _
      simp
    | some s0 =>
      obtain ⟨s', hs', d1, d2⟩ := dsome s0 hs
      obtain ⟨a, b, c, d, r1, r2⟩ := hsome s0 hs
      rw [hs'] at hst'; cases hst'
      simp only [Throttle.debt, hs', hs, Option.getD_some] at d1 d2
      have hne : (some s0 : Option Rat) ≠ none := by simp
      simp only [hne, if_false]
      have hsl := foldSlack_le t st
      have hrest : (0 ≤ (t.append n st).resetRate →
          (t.append n st).resetRate * ((g.folds + t.foldSlack st : Nat) : Rat) ≤ st' - g.t0) ∧ st' ≤ e := by
        rw [ares]
        rcases acases with ⟨h0, _⟩ | ⟨s1, h0, hf, h1, _⟩ | ⟨s1, h0, hf, h1, _⟩
        · rw [hs] at h0; cases h0
        · rw [hs] at h0; cases h0
          rw [h1] at hs'; cases hs'
          rw [hsl.2 hf]
          exact ⟨by simpa using r1, le_trans r2 hw⟩
        · rw [hs] at h0; cases h0
          rw [h1] at hs'; cases hs'
          have hgap := folds_gap t l s0 st hlim hs hf
          refine ⟨fun hr => ?_, le_trans hstnow hw⟩
          have h1' := r1 hr
          have hsl' : ((t.foldSlack st : Nat) : Rat) ≤ 1 := by exact_mod_cast hsl.1
          push_cast
          nlinarith
      refine ⟨?_, ?_, le_trans c hw, d, hrest.1, hrest.2⟩
      · push_cast
        linarith
      · push_cast
        linarith
  · intro k ids' u' hk hxk
    simp only at hk
    rw [hprocs k] at hk
    by_cases e' : k = j
    · simp [e'] at hk
    · simp only [e', if_false] at hk
      rcases hwait k ids' u' hk hxk with a | ⟨a, b⟩
      · exact Or.inl a
      · refine Or.inr ⟨hstart', ?_⟩
        simp only [a, if_false]
        linarith
  · rcases hanch with a | ⟨a, b⟩
    · exact Or.inl a
    · refine Or.inr ⟨hstart', ?_⟩
      have := mul_le_mul_l hl hw
      simp only [a, if_false]
      linarith
  · intro k ids' st' n' hk hxk
    simp only at hk
    rw [hprocs k] at hk
    by_cases e' : k = j
    · simp [e'] at hk
    · simp only [e', if_false] at hk
      obtain ⟨a, b⟩ := h.infl k ids' st' n' hk hxk
      exact ⟨le_trans a hw, b⟩
  · intro f hf
    exact le_trans (h.fbnow f hf) hw
  · intro θ hθ
    simp only [setPhase_length] at hθ ⊢
    have old := h.anchor θ hθ
    have e1 : hT x θ (g.a j) (g.β j) s.procs[j]? = 0 := by rw [hp]; simp [hT]
    have e2 : hT x θ (g.a j) n (setPhase s.procs j .idle)[j]? = n := by
      rw [hprocs j]; simp [hT, hx]
    have := sumTo_update s.procs.length j (fun k => hT x θ (g.a k) (g.β k) s.procs[k]?)
      (fun k => hT x θ (g.a k) (if k = j then n else g.β k) (setPhase s.procs j .idle)[k]?) hjlt
      (fun k e' => by
        show hT x θ (g.a k) (if k = j then n else g.β k) (setPhase s.procs j .idle)[k]? =
          hT x θ (g.a k) (g.β k) s.procs[k]?
        rw [hprocs k]; simp [e'])
    simp only [e1, if_true] at this
    rw [e2] at this
    omega
  · simp only [setPhase_length]
    rw [h.moved]
    have e1 : fT x s.procs[j]? = n := by rw [hp]; simp [fT, hx]
    have e2 : fT x (setPhase s.procs j .idle)[j]? = 0 := by rw [hprocs j]; simp [fT]
    have := sumTo_update s.procs.length j (fun k => fT x s.procs[k]?)
      (fun k => fT x (setPhase s.procs j .idle)[k]?) hjlt
      (fun k e' => by
        show fT x (setPhase s.procs j .idle)[k]? = fT x s.procs[k]?
        rw [hprocs k]; simp [e'])
    simp only [e1, e2] at this
    omega

/-- **every scheduler step preserves the invariant** -/
theorem inv_step {x : Nat} {l : Int} (hl : 0 < l) {s s' : Sys} {g : Ghost} (h : Inv x l s g)
    (e : Ev) (hs : s.step e = some s') : Inv x l s' (gstep x s g e) := by
  cases e with
  | call j w =>
    obtain ⟨ids, hp, hw, rfl⟩ := step_call hs
    by_cases hx : x ∈ ids
    · have : gstep x s g (.call j w) = { g with a := fun k => if k = j then g.acc else g.a k } := by
        simp [gstep, holds, hp, hx]
      rw [this]
      exact inv_call hl h j ids w hp hw hx
    · have : gstep x s g (.call j w) = g := by simp [gstep, holds, hp, hx]
      rw [this]
      exact inv_frame hl h rfl hw (setPhase_length _ _ _) j ⟨ids, .idle⟩
        ⟨ids, .waiting (waitAll s.store ids w)⟩ hp rfl hx (setPhase_get' s.procs j ids .idle _ hp)
  | «begin» j T n =>
    obtain ⟨ids, u, hp, hw, hu, rfl⟩ := step_begin hs
    by_cases hx : x ∈ ids
    · have : gstep x s g (.begin j T n) =
          { g with anch := max g.anch (g.a j), moved := g.moved + n, fb := some (g.fb.getD T) } := by
        simp [gstep, holds, hp, hx]
      rw [this]
      exact inv_begin hl h j ids u T n hp hw hu hx
    · have : gstep x s g (.begin j T n) = g := by simp [gstep, holds, hp, hx]
      rw [this]
      exact inv_frame hl h rfl hw (setPhase_length _ _ _) j ⟨ids, .waiting u⟩ ⟨ids, .inflight T n⟩ hp rfl hx
        (setPhase_get' s.procs j ids (.waiting u) _ hp)
  | done j e =>
    obtain ⟨ids, st, n, hp, hw, rfl⟩ := step_done hs
    obtain ⟨t, ht, hlim, _⟩ := h.thr
    have hon : t.on = true := on_of_limit hlim hl
    by_cases hx : x ∈ ids
    · have : gstep x s g (.done j e) =
          { g with acc := g.acc + n, β := fun k => if k = j then n else g.β k,
                   folds := g.folds + t.foldSlack st,
                   t0 := if t.start = none then st else g.t0 } := by
        simp [gstep, hp, ht, hx, hon]
      rw [this]
      exact inv_done hl h j ids st e n t hp hw hx ht
    · have : gstep x s g (.done j e) = g := by simp [gstep, hp, ht, hx]
      rw [this]
      exact inv_frame hl h (appendAll_get_not_mem _ _ _ _ _ hx) hw (setPhase_length _ _ _) j
        ⟨ids, .inflight st n⟩ ⟨ids, .idle⟩ hp rfl hx (setPhase_get' s.procs j ids (.inflight st n) _ hp)

theorem inv_run {x : Nat} {l : Int} (hl : 0 < l) (evs : List Ev) {s s' : Sys} {g g' : Ghost}
    (h : Inv x l s g) (hr : grun x s g evs = some (s', g')) : Inv x l s' g' := by
  induction evs generalizing s g with
  | nil => simp only [grun, Option.some.injEq, Prod.mk.injEq] at hr; obtain ⟨rfl, rfl⟩ := hr; exact h
  | cons e es ih =>
    simp only [grun] at hr
    cases hs : s.step e with
    | none => rw [hs] at hr; cases hr
    | some s1 =>
      rw [hs] at hr
      exact ih (inv_step hl h e hs) hr

theorem sumTo_zero (n : Nat) (F : Nat → Nat) (h : ∀ k, k < n → F k = 0) : sumTo n F = 0 := by
  induction n with
  | zero => rfl
  | succ n ih => simp only [sumTo]; rw [ih (fun k hk => h k (Nat.lt_succ_of_lt hk)), h n (Nat.lt_succ_self n)]

/-- a system at rest — every stream idle, duplicate-free dicts, `x` limited and without memory -/
structure Fresh (x : Nat) (l : Int) (s : Sys) : Prop where
  idle : ∀ (j : Nat) (p : Proc), s.procs[j]? = some p → p.phase = .idle ∧ p.ids.Nodup
  thr : ∃ t, s.store[x]? = some t ∧ t.limit = some l ∧ t.start = none ∧ t.sum = 0

theorem inv_init {x : Nat} {l : Int} {s : Sys} (h : Fresh x l s) : Inv x l s Ghost.init := by
  obtain ⟨t, ht, hlim, hst, hsum⟩ := h.thr
  refine ⟨fun j p hp => (h.idle j p hp).2, ⟨t, ht, hlim, fun _ => ⟨hsum, rfl, rfl, rfl⟩, ?_, ?_, Or.inl rfl⟩,
    ?_, ?_, ?_, ?_⟩
  · intro st hs; rw [hst] at hs; cases hs
  · intro j ids u hp _
    have := (h.idle j _ hp).1
    simp at this
  · intro j ids st n hp _
    have := (h.idle j _ hp).1
    simp at this
  · intro f hf; simp [Ghost.init] at hf
  · intro θ _; simp [Ghost.init]
  · simp only [Ghost.init]
    rw [sumTo_zero]
    intro k _
    cases hp : s.procs[k]? with
    | none => simp [fT]
    | some p =>
      have := (h.idle k p hp).1
      simp [fT, this]

/-- what the invariant says in the property's words -/
theorem bound_of_inv {x : Nat} {l : Int} (hl : 0 < l) {s : Sys} {g : Ghost} (h : Inv x l s g) :
    g.moved ≤ g.anch + blocks x s g ∧
    (∀ t, s.store[x]? = some t → t.start = none → g.moved ≤ blocks x s g) ∧
    (∀ t, s.store[x]? = some t → t.start ≠ none →
      (g.moved : Rat) ≤ (l : Rat) * (s.now - g.t0) + (g.folds : Rat) / 2 + blocks x s g ∧
      g.t0 ≤ s.now ∧ ∃ f, g.fb = some f ∧ f ≤ g.t0) := by
  have h1 : g.moved ≤ g.anch + blocks x s g := by
    have a := h.anchor g.anch (le_refl _)
    rw [h.moved]
    unfold blocks
    have : sumTo s.procs.length (fun k => hT x g.anch (g.a k) (g.β k) s.procs[k]?) +
        sumTo s.procs.length (fun k => fT x s.procs[k]?) ≤
        sumTo s.procs.length (fun k => cT x (g.β k) s.procs[k]?) := by
      rw [← sumTo_add]
      exact sumTo_le _ _ _ (fun k _ => hT_fT_le_cT x g.anch (g.a k) (g.β k) _)
    omega
  obtain ⟨t, ht, hlim, hnone, hsome, hwait, hanch⟩ := h.thr
  refine ⟨h1, ?_, ?_⟩
  · intro t' ht' hs
    rw [ht] at ht'; cases ht'
    have := (hnone hs).2.2.1
    omega
  · intro t' ht' hs
    rw [ht] at ht'; cases ht'
    cases hst : t.start with
    | none => exact absurd hst hs
    | some st =>
      obtain ⟨_, _, c, d, _, _⟩ := hsome st hst
      refine ⟨?_, c, d⟩
      have h1' : (g.moved : Rat) ≤ (g.anch : Rat) + (blocks x s g : Rat) := by exact_mod_cast h1
      have hf : (0 : Rat) ≤ (g.folds : Rat) / 2 :=
        div_nonneg (by exact_mod_cast Nat.zero_le _) (by norm_num)
      rcases hanch with a | ⟨_, b⟩
      · have : (0 : Rat) ≤ (l : Rat) * (s.now - g.t0) :=
          mul_nonneg (by exact_mod_cast le_of_lt hl) (by linarith)
        rw [a] at h1'
        push_cast at h1'
        linarith
      · have : (l : Rat) * (s.now - g.t0) = (l : Rat) * s.now - (l : Rat) * g.t0 := by ring
        linarith

/-- inexact folds are at least `reset_rate` apart: there are at most `elapsed / reset_rate` of them -/
theorem folds_le_of_inv {x : Nat} {l : Int} {s : Sys} {g : Ghost} (h : Inv x l s g)
    (t : Throttle) (ht : s.store[x]? = some t) (hs : t.start ≠ none) (hr : 0 ≤ t.resetRate) :
    t.resetRate * (g.folds : Rat) ≤ s.now - g.t0 := by
  obtain ⟨t', ht', _, _, hsome, _, _⟩ := h.thr
  rw [ht] at ht'; cases ht'
  cases hst : t.start with
  | none => exact absurd hst hs
  | some st =>
    obtain ⟨_, _, _, _, r1, r2⟩ := hsome st hst
    have := r1 hr
    linarith

/-! ## non-interference: a stream that shares no throttle with the others can be erased -/

theorem appendAll_congr_at (store store' : Store) (ids : List Nat) (n : Nat) (st : Rat) (x : Nat)
    (h : store[x]? = store'[x]?) :
    (appendAll store ids n st)[x]? = (appendAll store' ids n st)[x]? := by
  unfold appendAll
  induction ids generalizing store store' with
  | nil => exact h
  | cons i ids ih =>
    simp only [List.foldl_cons]
    apply ih
    rw [updAt_get, updAt_get, h]

/-- the stream an event belongs to -/
def evProc : Ev → Nat
  | .call j _ => j
  | .begin j _ _ => j
  | .done j _ => j

/-- `s̃` is `s` with stream `j` asleep: same other streams, same throttles outside `jids` -/
structure Erased (j : Nat) (jids : List Nat) (s s' : Sys) : Prop where
  procs : ∀ k : Nat, k ≠ j → s'.procs[k]? = s.procs[k]?
  jproc : ∃ ph, s.procs[j]? = some ⟨jids, ph⟩
  store : ∀ x : Nat, x ∉ jids → s'.store[x]? = s.store[x]?
  now : s'.now ≤ s.now
  disj : ∀ (k : Nat) (p : Proc), k ≠ j → s.procs[k]? = some p → ∀ x ∈ p.ids, x ∉ jids

theorem erased_step {j : Nat} {jids : List Nat} {s s' t : Sys} (h : Erased j jids s s') (e : Ev)
    (hs : s.step e = some t) :
    if evProc e = j then Erased j jids t s' else ∃ t', s'.step e = some t' ∧ Erased j jids t t' := by
  obtain ⟨ph, hj⟩ := h.jproc
  cases e with
  | call k w =>
    obtain ⟨ids, hp, hw, rfl⟩ := step_call hs
    have hget := setPhase_get' s.procs k ids .idle (.waiting (waitAll s.store ids w)) hp
    by_cases e : k = j
    · subst e
      simp only [evProc, if_true]
      rw [hj] at hp; cases hp
      exact ⟨fun i hi => by rw [h.procs i hi, hget i]; simp [hi], ⟨.waiting (waitAll s.store jids w), by rw [hget k]; simp⟩, h.store,
        le_trans h.now hw, fun i p hi hp => h.disj i p hi (by rw [hget i] at hp; simpa [hi] using hp)⟩
    · simp only [evProc, e, if_false]
      have hp' : s'.procs[k]? = some ⟨ids, .idle⟩ := by rw [h.procs k e, hp]
      have hu : waitAll s'.store ids w = waitAll s.store ids w :=
        waitAll_congr _ _ _ _ (fun x hx => h.store x (h.disj k _ e hp x hx))
      refine ⟨{ s' with procs := setPhase s'.procs k (.waiting (waitAll s'.store ids w)), now := w }, ?_, ?_⟩
      · simp [Sys.step, hp', le_trans h.now hw]
      · have hget' := setPhase_get' s'.procs k ids .idle (.waiting (waitAll s'.store ids w)) hp'
        refine ⟨fun i hi => ?_, ⟨ph, by rw [hget j]; simp [Ne.symm e, hj]⟩, h.store, le_refl _, fun i p hi hp2 => ?_⟩
        · simp only
          rw [hget i, hget' i, hu, h.procs i hi]
        · simp only at hp2
          rw [hget i] at hp2
          by_cases ei : i = k
          · simp only [ei, if_true, Option.some.injEq] at hp2
            subst hp2
            exact h.disj k ⟨ids, .idle⟩ e hp
          · exact h.disj i p hi (by simpa [ei] using hp2)
  | «begin» k T n =>
    obtain ⟨ids, u, hp, hw, hu, rfl⟩ := step_begin hs
    have hget := setPhase_get' s.procs k ids (.waiting u) (.inflight T n) hp
    by_cases e : k = j
    · subst e
      simp only [evProc, if_true]
      rw [hj] at hp; cases hp
      exact ⟨fun i hi => by rw [h.procs i hi, hget i]; simp [hi], ⟨.inflight T n, by rw [hget k]; simp⟩, h.store,
        le_trans h.now hw, fun i p hi hp => h.disj i p hi (by rw [hget i] at hp; simpa [hi] using hp)⟩
    · simp only [evProc, e, if_false]
      have hp' : s'.procs[k]? = some ⟨ids, .waiting u⟩ := by rw [h.procs k e, hp]
      refine ⟨{ s' with procs := setPhase s'.procs k (.inflight T n), now := T }, ?_, ?_⟩
      · simp [Sys.step, hp', le_trans h.now hw, hu]
      · have hget' := setPhase_get' s'.procs k ids (.waiting u) (.inflight T n) hp'
        refine ⟨fun i hi => ?_, ⟨ph, by rw [hget j]; simp [Ne.symm e, hj]⟩, h.store, le_refl _, fun i p hi hp2 => ?_⟩
        · simp only
          rw [hget i, hget' i, h.procs i hi]
        · simp only at hp2
          rw [hget i] at hp2
          by_cases ei : i = k
          · simp only [ei, if_true, Option.some.injEq] at hp2
            subst hp2
            exact h.disj k ⟨ids, .waiting u⟩ e hp
          · exact h.disj i p hi (by simpa [ei] using hp2)
  | done k e' =>
    obtain ⟨ids, st, n, hp, hw, rfl⟩ := step_done hs
    have hget := setPhase_get' s.procs k ids (.inflight st n) .idle hp
    by_cases e : k = j
    · subst e
      simp only [evProc, if_true]
      rw [hj] at hp; cases hp
      exact ⟨fun i hi => by rw [h.procs i hi, hget i]; simp [hi], ⟨.idle, by rw [hget k]; simp⟩,
        fun x hx => by rw [h.store x hx]; exact (appendAll_get_not_mem _ _ _ _ _ hx).symm,
        le_trans h.now hw, fun i p hi hp => h.disj i p hi (by rw [hget i] at hp; simpa [hi] using hp)⟩
    · simp only [evProc, e, if_false]
      have hp' : s'.procs[k]? = some ⟨ids, .inflight st n⟩ := by rw [h.procs k e, hp]
      refine ⟨{ store := appendAll s'.store ids n st, procs := setPhase s'.procs k .idle, now := e' }, ?_, ?_⟩
      · simp [Sys.step, hp', le_trans h.now hw]
      · have hget' := setPhase_get' s'.procs k ids (.inflight st n) .idle hp'
        refine ⟨fun i hi => ?_, ⟨ph, by rw [hget j]; simp [Ne.symm e, hj]⟩,
          fun x hx => appendAll_congr_at _ _ _ _ _ _ (h.store x hx), le_refl _, fun i p hi hp2 => ?_⟩
        · simp only
          rw [hget i, hget' i, h.procs i hi]
        · simp only at hp2
          rw [hget i] at hp2
          by_cases ei : i = k
          · simp only [ei, if_true, Option.some.injEq] at hp2
            subst hp2
            exact h.disj k ⟨ids, .inflight st n⟩ e hp
          · exact h.disj i p hi (by simpa [ei] using hp2)

theorem erased_run {j : Nat} {jids : List Nat} (evs : List Ev) {s s' t : Sys} (h : Erased j jids s s')
    (hs : s.run evs = some t) :
    ∃ t', s'.run (evs.filter (fun e => evProc e != j)) = some t' ∧ Erased j jids t t' := by
  induction evs generalizing s s' with
  | nil =>
    simp only [Sys.run, Option.some.injEq] at hs
    subst hs
    exact ⟨s', rfl, h⟩
  | cons e es ih =>
    simp only [Sys.run] at hs
    cases h1 : s.step e with
    | none => rw [h1] at hs; cases hs
    | some s1 =>
      rw [h1] at hs
      have := erased_step h e h1
      by_cases ej : evProc e = j
      · simp only [ej, if_true] at this
        obtain ⟨t', ht', hr⟩ := ih this hs
        refine ⟨t', ?_, hr⟩
        simp [List.filter, ej, ht']
      · simp only [ej, if_false] at this
        obtain ⟨s1', hs1', hr1⟩ := this
        obtain ⟨t', ht', hr⟩ := ih hr1 hs
        refine ⟨t', ?_, hr⟩
        have : (evProc e != j) = true := by simpa using ej
        simp [List.filter, this, Sys.run, hs1', ht']

end Model.Throttling
