/-
  The observable content of a `Model.Fs` is its `lookup` function; every operation is characterised by what
  it does to `lookup`.  Two semantic well-formedness predicates, both stated through `lookup` only:
  `PC` (parent-closed: whatever exists sits in an existing directory) and name safety.
-/
import AioftpModel.Model.FsMem
import AioftpModel.Lemmas.Paths

namespace Model
namespace ClientTree
open Py Fs

/-- `lookup` without the root case -/
def lk (fs : Fs) (q : Path) : Option Entry := (fs.find? (fun e => e.1 = q)).map (·.2)

theorem lookup_eq (fs : Fs) (q : Path) : lookup fs q = if q = [] then some .dir else lk fs q := rfl

theorem lookup_nil (fs : Fs) : lookup fs [] = some .dir := by simp [lookup]

theorem lookup_ne_nil (fs : Fs) {q : Path} (h : q ≠ []) : lookup fs q = lk fs q := by simp [lookup, lk, h]

theorem lk_nil (q : Path) : lk [] q = none := rfl

theorem lk_cons (x : Path × Entry) (fs : Fs) (q : Path) :
    lk (x :: fs) q = if x.1 = q then some x.2 else lk fs q := by
  unfold lk
  rw [List.find?_cons]
  by_cases h : x.1 = q <;> simp [h]

theorem lk_append (a b : Fs) (q : Path) : lk (a ++ b) q = (lk a q).or (lk b q) := by
  induction a with
  | nil => simp [lk_nil]
  | cons x t ih =>
    rw [List.cons_append, lk_cons, lk_cons]
    by_cases h : x.1 = q <;> simp [h, ih]

theorem lk_erase (fs : Fs) (p q : Path) : lk (erase fs p) q = if q = p then none else lk fs q := by
  induction fs with
  | nil => simp [erase, lk_nil]
  | cons x t ih =>
    unfold erase at ih ⊢
    rw [List.filter_cons]
    by_cases hx : x.1 = p
    · simp only [hx, ne_eq, not_true_eq_false, decide_false, Bool.false_eq_true, ↓reduceIte]
      rw [ih, lk_cons]
      by_cases hq : q = p
      · simp [hq]
      · have : ¬ x.1 = q := by rw [hx]; exact fun h => hq h.symm
        simp [hq, this]
    · simp only [ne_eq, hx, not_false_eq_true, decide_true, ↓reduceIte]
      rw [lk_cons, lk_cons, ih]
      by_cases hq : q = p
      · subst hq
        simp [hx]
      · simp [hq]

theorem lookup_erase (fs : Fs) (p q : Path) (hp : p ≠ []) :
    lookup (erase fs p) q = if q = p then none else lookup fs q := by
  by_cases hq : q = []
  · subst hq
    have : ¬ ([] : Path) = p := fun h => hp h.symm
    simp [lookup_nil, this]
  · rw [lookup_ne_nil _ hq, lookup_ne_nil _ hq, lk_erase]

theorem any_key_iff (fs : Fs) (p : Path) : fs.any (fun x => x.1 = p) = true ↔ lk fs p ≠ none := by
  induction fs with
  | nil => simp [lk_nil]
  | cons x t ih =>
    rw [List.any_cons, lk_cons]
    by_cases h : x.1 = p <;> simp [h, ih]

theorem lk_map_set (fs : Fs) (p q : Path) (e : Entry) :
    lk (fs.map (fun x => if x.1 = p then (p, e) else x)) q =
      if q = p then (if lk fs p = none then none else some e) else lk fs q := by
  induction fs with
  | nil => simp [lk_nil]
  | cons x t ih =>
    rw [List.map_cons, lk_cons, ih]
    by_cases hx : x.1 = p
    · by_cases hq : q = p
      · subst hq; simp [hx, lk_cons]
      · have : ¬ p = q := fun h => hq h.symm
        have h2 : ¬ x.1 = q := by rw [hx]; exact this
        simp [hx, hq, this, lk_cons, h2]
    · by_cases hq : q = p
      · subst hq; simp [hx, lk_cons]
      · by_cases h2 : x.1 = q <;> simp [hx, hq, h2, lk_cons]

theorem lk_set (fs : Fs) (p q : Path) (e : Entry) :
    lk (Fs.set fs p e) q = if q = p then some e else lk fs q := by
  unfold Fs.set
  by_cases h : fs.any (fun x => x.1 = p) = true
  · rw [if_pos h, lk_map_set]
    have := (any_key_iff fs p).mp h
    by_cases hq : q = p <;> simp [hq, this]
  · rw [if_neg h, lk_append]
    have hn : lk fs p = none := by
      by_cases h' : lk fs p = none
      · exact h'
      · exact absurd ((any_key_iff fs p).mpr h') h
    by_cases hq : q = p
    · subst hq; simp [hn, lk_cons, lk_nil]
    · have : ¬ p = q := fun h => hq h.symm
      simp [hq, lk_cons, lk_nil, this]

theorem lookup_set (fs : Fs) (p q : Path) (e : Entry) (hp : p ≠ []) :
    lookup (Fs.set fs p e) q = if q = p then some e else lookup fs q := by
  by_cases hq : q = []
  · subst hq
    have : ¬ ([] : Path) = p := fun h => hp h.symm
    simp [lookup_nil, this]
  · rw [lookup_ne_nil _ hq, lookup_ne_nil _ hq, lk_set]

theorem lookup_append_one (fs : Fs) (p q : Path) (e : Entry) (hp : p ≠ []) :
    lookup (fs ++ [(p, e)]) q = if q = p ∧ lookup fs q = none then some e else lookup fs q := by
  by_cases hq : q = []
  · subst hq
    have : ¬ ([] : Path) = p := fun h => hp h.symm
    simp [lookup_nil, this]
  · rw [lookup_ne_nil _ hq, lookup_ne_nil _ hq, lk_append, lk_cons, lk_nil]
    by_cases h : q = p
    · subst h
      cases hl : lk fs q <;> simp
    · have : ¬ p = q := fun h' => h h'.symm
      cases hl : lk fs q <;> simp [h, this]

theorem exists_iff (fs : Fs) (q : Path) : exists_ fs q = true ↔ lookup fs q ≠ none := by
  unfold exists_; cases lookup fs q <;> simp

theorem exists_false_iff (fs : Fs) (q : Path) : exists_ fs q = false ↔ lookup fs q = none := by
  unfold exists_; cases lookup fs q <;> simp

theorem isDir_iff (fs : Fs) (q : Path) : isDir fs q = true ↔ lookup fs q = some .dir := by
  unfold isDir; simp

theorem isFile_iff (fs : Fs) (q : Path) : isFile fs q = true ↔ ∃ c, lookup fs q = some (.file c) := by
  unfold isFile
  cases h : lookup fs q with
  | none => simp
  | some e => cases e <;> simp

/-! ### `prefixes`, `mkdirParents` -/

theorem mem_prefixes (p q : Path) : q ∈ prefixes p ↔ q ≠ [] ∧ q <+: p := by
  unfold prefixes
  simp only [List.mem_map, List.mem_range]
  constructor
  · rintro ⟨i, hi, rfl⟩
    refine ⟨?_, List.take_prefix _ _⟩
    intro h
    have h0 : (List.take (i + 1) p).length = 0 := by rw [h]; rfl
    rw [List.length_take] at h0
    omega
  · rintro ⟨hne, hpre⟩
    refine ⟨q.length - 1, ?_, ?_⟩
    · have hl := hpre.length_le
      have : q.length ≠ 0 := fun h => hne (List.length_eq_zero_iff.mp h)
      omega
    · have : q.length ≠ 0 := fun h => hne (List.length_eq_zero_iff.mp h)
      have h1 : q.length - 1 + 1 = q.length := by omega
      rw [h1]
      exact (List.prefix_iff_eq_take.mp hpre).symm

theorem lookup_foldl_mkdir (qs : List Path) (hqs : ∀ x ∈ qs, x ≠ []) (fs : Fs) (q : Path) :
    lookup (qs.foldl (fun acc x => if exists_ acc x then acc else acc ++ [(x, Entry.dir)]) fs) q =
      if q ∈ qs ∧ lookup fs q = none then some .dir else lookup fs q := by
  induction qs generalizing fs with
  | nil => simp
  | cons x t ih =>
    rw [List.foldl_cons, ih (fun y hy => hqs y (List.mem_cons_of_mem _ hy))]
    have hx : x ≠ [] := hqs x List.mem_cons_self
    have step : ∀ q, lookup (if exists_ fs x then fs else fs ++ [(x, Entry.dir)]) q =
        if q = x ∧ lookup fs q = none then some .dir else lookup fs q := by
      intro q
      by_cases he : exists_ fs x = true
      · rw [if_pos he]
        have := (exists_iff fs x).mp he
        by_cases hq : q = x
        · subst hq; simp [this]
        · simp [hq]
      · rw [if_neg he, lookup_append_one _ _ _ _ hx]
    rw [step]
    by_cases hqx : q = x
    · subst hqx
      cases hl : lookup fs q <;> simp
    · cases hl : lookup fs q <;> simp [hqx]

/-- absent non-empty prefixes of `t` become directories, nothing else changes -/
def ensured (fs : Fs) (t q : Path) : Option Entry :=
  if q ≠ [] ∧ q <+: t ∧ lookup fs q = none then some .dir else lookup fs q

theorem lookup_mkdirParents {fs fs' : Fs} {t : Path} (h : mkdirParents fs t = some fs') (q : Path) :
    lookup fs' q = ensured fs t q := by
  unfold mkdirParents at h
  split at h
  · cases h
  · split at h
    · cases h
    · injection h with h
      subst h
      rw [lookup_foldl_mkdir _ (fun x hx => ((mem_prefixes t x).mp hx).1)]
      unfold ensured
      simp only [mem_prefixes, and_assoc]

theorem mkdirParents_some_iff (fs : Fs) (t : Path) :
    (∃ fs', mkdirParents fs t = some fs') ↔
      lookup fs t = none ∧ ∀ q, q ≠ [] → q <+: t → ∀ c, lookup fs q ≠ some (.file c) := by
  unfold mkdirParents
  constructor
  · rintro ⟨fs', h⟩
    split at h
    · cases h
    · rename_i he
      split at h
      · cases h
      · rename_i hf
        refine ⟨(exists_false_iff fs t).mp (by simpa using he), ?_⟩
        intro q hq hpre c hc
        apply hf
        rw [List.any_eq_true]
        exact ⟨q, (mem_prefixes t q).mpr ⟨hq, hpre⟩, (isFile_iff fs q).mpr ⟨c, hc⟩⟩
  · rintro ⟨hn, hf⟩
    have he : ¬ exists_ fs t = true := by
      rw [exists_iff]; simp [hn]
    rw [if_neg he]
    have : ¬ (prefixes t).any (fun q => isFile fs q) = true := by
      rw [List.any_eq_true]
      rintro ⟨q, hq, hfile⟩
      obtain ⟨c, hc⟩ := (isFile_iff fs q).mp hfile
      have := (mem_prefixes t q).mp hq
      exact hf q this.1 this.2 c hc
    rw [if_neg this]
    exact ⟨_, rfl⟩

end ClientTree
end Model

namespace Model
namespace ClientTree
open Py Fs

/-! ### `rmdir`, `unlink`, `openFile` -/

theorem rmdir_some {fs fs' : Fs} {p : Path} (h : rmdir fs p = some fs') :
    p ≠ [] ∧ lookup fs p = some .dir ∧ children fs p = [] ∧ fs' = erase fs p := by
  unfold rmdir at h
  split at h
  · cases h
  · rename_i hp
    split at h
    · cases h
    · rename_i hd
      split at h
      · cases h
      · rename_i hc
        injection h with h
        refine ⟨hp, (isDir_iff fs p).mp (by simpa using hd), ?_, h.symm⟩
        simpa using hc

theorem unlink_some {fs fs' : Fs} {p : Path} (h : unlink fs p = some fs') :
    (∃ c, lookup fs p = some (.file c)) ∧ fs' = erase fs p := by
  unfold unlink at h
  split at h
  · rename_i hf
    injection h with h
    exact ⟨(isFile_iff fs p).mp hf, h.symm⟩
  · cases h

theorem file_ne_nil {fs : Fs} {p : Path} {c : Bytes} (h : lookup fs p = some (.file c)) : p ≠ [] := by
  intro hp; subst hp; rw [lookup_nil] at h; cases h

/-- `open(path, "wb")` followed by writing `data` from position 0 -/
theorem openFile_wb {fs fs' : Fs} {p : Path} {c : Bytes} {pos : Nat} (h : openFile fs p 1 = some (fs', c, pos))
    (data : Bytes) (q : Path) :
    p ≠ [] ∧ lookup fs p ≠ some .dir ∧ (lookup fs p = none → lookup fs p.dropLast = some .dir) ∧
    lookup (Fs.set fs' p (.file (writeAt c pos data))) q = if q = p then some (.file data) else lookup fs q := by
  unfold openFile at h
  simp only at h
  split at h
  · cases h
  · rename_i hp
    have hw : ∀ (d : Bytes), writeAt [] 0 d = d := by
      intro d; unfold writeAt; cases d <;> simp
    cases hl : lookup fs p with
    | none =>
      rw [hl] at h
      simp only [true_or, if_true] at h
      split at h
      · rename_i hd
        injection h with h
        injection h with h1 h2
        injection h2 with h2 h3
        subst h1; subst h2; subst h3
        refine ⟨hp, by simp, fun _ => (isDir_iff fs _).mp hd, ?_⟩
        rw [lookup_set _ _ _ _ hp, hw]
        by_cases hq : q = p
        · simp [hq]
        · rw [if_neg hq, if_neg hq, lookup_append_one _ _ _ _ hp]
          simp [hq]
      · cases h
    | some e =>
      rw [hl] at h
      cases e with
      | dir => simp at h
      | file c0 =>
        simp only [↓reduceIte] at h
        injection h with h
        injection h with h1 h2
        injection h2 with h2 h3
        subst h1; subst h2; subst h3
        refine ⟨hp, by simp, by simp, ?_⟩
        rw [lookup_set _ _ _ _ hp, hw]
        by_cases hq : q = p
        · simp [hq]
        · rw [if_neg hq, if_neg hq, lookup_set _ _ _ _ hp, if_neg hq]

theorem openFile_rb {fs fs' : Fs} {p : Path} {c : Bytes} {pos : Nat} (h : openFile fs p 0 = some (fs', c, pos)) :
    lookup fs p = some (.file c) := by
  unfold openFile at h
  simp only at h
  cases hl : lookup fs p with
  | none => rw [hl] at h; cases h
  | some e =>
    rw [hl] at h
    cases e with
    | dir => cases h
    | file c0 =>
      injection h with h
      injection h with h1 h2
      injection h2 with h2 h3
      subst h2; rfl

theorem openFile_rb_of {fs : Fs} {p : Path} {c : Bytes} (h : lookup fs p = some (.file c)) :
    openFile fs p 0 = some (fs, c, 0) := by
  unfold openFile
  simp only [h]

/-! ### membership and lookup -/

theorem lk_some_mem {fs : Fs} {q : Path} {e : Entry} (h : lk fs q = some e) : (q, e) ∈ fs := by
  induction fs with
  | nil => simp [lk_nil] at h
  | cons x t ih =>
    rw [lk_cons] at h
    by_cases hx : x.1 = q
    · rw [if_pos hx] at h
      injection h with h
      have : x = (q, e) := by cases x; simp_all
      rw [this]; exact List.mem_cons_self
    · rw [if_neg hx] at h
      exact List.mem_cons_of_mem _ (ih h)

theorem mem_lk_ne_none {fs : Fs} {q : Path} {e : Entry} (h : (q, e) ∈ fs) : lk fs q ≠ none := by
  induction fs with
  | nil => cases h
  | cons x t ih =>
    rw [lk_cons]
    by_cases hx : x.1 = q
    · simp [hx]
    · rw [if_neg hx]
      rcases List.mem_cons.mp h with h | h
      · subst h; exact absurd rfl hx
      · exact ih h

/-! ### parent-closedness -/

/-- whatever exists (other than the root) sits in an existing directory -/
def PC (fs : Fs) : Prop := ∀ q, q ≠ [] → lookup fs q ≠ none → lookup fs q.dropLast = some .dir

theorem PC.prefix_dir {fs : Fs} (hpc : PC fs) {t q : Path} (hq : lookup fs q ≠ none) (hpre : t <+: q)
    (hne : t ≠ q) : lookup fs t = some .dir := by
  obtain ⟨s, rfl⟩ := hpre
  have hs : s ≠ [] := by
    intro h; subst h; simp at hne
  clear hne
  induction hn : s.length generalizing s with
  | zero => exact absurd (List.length_eq_zero_iff.mp hn) hs
  | succ k ih =>
    have hqne : t ++ s ≠ [] := by
      intro h; exact hs (List.append_eq_nil_iff.mp h).2
    have hd := hpc (t ++ s) hqne hq
    rw [List.dropLast_append_of_ne_nil hs] at hd
    by_cases hk : s.dropLast = []
    · rw [hk, List.append_nil] at hd; exact hd
    · apply ih s.dropLast
      · rw [hd]; simp
      · exact hk
      · rw [List.length_dropLast, hn]; rfl

theorem PC.none_below {fs : Fs} (hpc : PC fs) {t q : Path} (ht : lookup fs t = none) (hpre : t <+: q) :
    lookup fs q = none := by
  by_cases hne : t = q
  · rw [← hne]; exact ht
  · by_cases hq : lookup fs q = none
    · exact hq
    · have := hpc.prefix_dir hq hpre hne
      rw [ht] at this; cases this

theorem PC.file_below {fs : Fs} (hpc : PC fs) {t q : Path} {c : Bytes} (ht : lookup fs t = some (.file c))
    (hpre : t <+: q) (hne : t ≠ q) : lookup fs q = none := by
  by_cases hq : lookup fs q = none
  · exact hq
  · have := hpc.prefix_dir hq hpre hne
    rw [ht] at this; cases this

/-- a tree whose `lookup` is `ensured` of a parent-closed one is parent-closed, provided no prefix is a file -/
theorem PC.of_ensured {fs fs' : Fs} (hpc : PC fs) (t : Path)
    (hnf : ∀ q, q <+: t → ∀ c, lookup fs q ≠ some (.file c))
    (h : ∀ q, lookup fs' q = ensured fs t q) : PC fs' := by
  intro q hq hex
  rw [h] at hex
  rw [h]
  unfold ensured at hex ⊢
  by_cases hc : q ≠ [] ∧ q <+: t ∧ lookup fs q = none
  · have hpre : q.dropLast <+: t := List.IsPrefix.trans (List.dropLast_prefix q) hc.2.1
    by_cases hl : lookup fs q.dropLast = none
    · by_cases hd : q.dropLast = []
      · rw [hd, lookup_nil] at hl; cases hl
      · rw [if_pos ⟨hd, hpre, hl⟩]
    · rw [if_neg (by simp [hl])]
      cases he : lookup fs q.dropLast with
      | none => exact absurd he hl
      | some e =>
        cases e with
        | dir => rfl
        | file c => exact absurd he (hnf _ hpre c)
  · rw [if_neg hc] at hex
    have := hpc q hq hex
    rw [if_neg (by simp [this]), this]

theorem ensured_of_exists {fs : Fs} (hpc : PC fs) {t : Path} (ht : lookup fs t ≠ none) (q : Path) :
    ensured fs t q = lookup fs q := by
  unfold ensured
  by_cases hc : q ≠ [] ∧ q <+: t ∧ lookup fs q = none
  · exfalso
    by_cases hqt : q = t
    · rw [hqt] at hc; exact ht hc.2.2
    · have := hpc.prefix_dir ht hc.2.1 hqt
      rw [hc.2.2] at this; cases this
  · rw [if_neg hc]

/-- ensuring a prefix first changes nothing -/
theorem ensured_ensured {fs fs1 : Fs} {t1 t2 : Path} (h1 : ∀ q, lookup fs1 q = ensured fs t1 q) (hpre : t1 <+: t2)
    (q : Path) : ensured fs1 t2 q = ensured fs t2 q := by
  unfold ensured
  rw [h1]
  unfold ensured
  by_cases hq : q ≠ [] ∧ q <+: t2
  · by_cases hl : lookup fs q = none
    · by_cases h3 : q <+: t1
      · simp [hq.1, hq.2, hl, h3]
      · simp [hq.1, hq.2, hl, h3]
    · simp [hl]
  · by_cases hl : lookup fs q = none
    · have : ¬ (q ≠ [] ∧ q <+: t1) := fun h => hq ⟨h.1, h.2.trans hpre⟩
      by_cases h1' : q = []
      · simp [h1']
      · have h2' : ¬ q <+: t2 := fun h => hq ⟨h1', h⟩
        have h3' : ¬ q <+: t1 := fun h => this ⟨h1', h⟩
        simp [h1', h2', h3', hl]
    · simp [hl]

end ClientTree
end Model
