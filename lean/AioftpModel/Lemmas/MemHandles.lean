/- Invariant of `Model.MemHandles` when every opened file has its own position. -/
import AioftpModel.Model.MemHandles

namespace Model.MemHandles

theorem take_glue (m : Bytes) (a n : Nat) :
    m.take a ++ (m.drop a).take n = m.take (a + ((m.drop a).take n).length) := by
  rw [List.take_add]
  congr 1
  rw [List.length_take]
  by_cases h : n ≤ (m.drop a).length
  · rw [Nat.min_eq_left h]
  · have h2 : (m.drop a).length ≤ n := by omega
    rw [Nat.min_eq_right h2, List.take_of_length_le (Nat.le_refl _), List.take_of_length_le h2]

/-- what holds of every file, whatever the others do -/
structure Inv (content : Bytes) (s : St) : Prop where
  ord : ∀ h, s.start h ≤ s.pos h
  exact : ∀ h, s.got h = (content.drop (s.start h)).take (s.pos h - s.start h)
  fin : ∀ h, s.done h = true → content.length ≤ s.pos h

theorem init_inv (content : Bytes) : Inv content init :=
  ⟨fun _ => Nat.le_refl _, fun _ => by simp [init], fun _ h => by simp [init] at h⟩

theorem step_inv (content : Bytes) (s : St) (e : Ev) (hi : Inv content s) : Inv content (step true content s e) := by
  cases e with
  | «open» h k =>
    refine ⟨fun i => ?_, fun i => ?_, fun i hd => ?_⟩
    · by_cases hih : i = h <;> simp [step, upd, hih, hi.ord]
    · by_cases hih : i = h
      · simp [step, upd, hih]
      · simp [step, upd, hih, hi.exact]
    · by_cases hih : i = h
      · simp [step, upd, hih] at hd
      · simp [step, upd, hih] at hd ⊢; exact hi.fin i hd
  | read h n =>
    refine ⟨fun i => ?_, fun i => ?_, fun i hd => ?_⟩
    · by_cases hih : i = h
      · subst hih; simp [step, upd]; have := hi.ord i; omega
      · simp [step, upd, hih, hi.ord]
    · by_cases hih : i = h
      · subst hih
        have ho := hi.ord i
        have hd : content.drop (s.pos i) = (content.drop (s.start i)).drop (s.pos i - s.start i) := by
          rw [List.drop_drop]; congr 1; omega
        simp only [step, upd, ↓reduceIte, hi.exact i]
        rw [hd, take_glue]
        congr 1
        omega
      · simp [step, upd, hih, hi.exact]
    · by_cases hih : i = h
      · subst hih
        simp only [step, upd, ↓reduceIte, Bool.or_eq_true, Bool.and_eq_true, decide_eq_true_eq,
          List.isEmpty_iff] at hd ⊢
        rcases hd with hd | ⟨hn, he⟩
        · have := hi.fin i hd; omega
        · have hl : ((content.drop (s.pos i)).take n).length = 0 := by rw [he]; rfl
          rw [List.length_take, List.length_drop] at hl
          rw [he]; simp only [List.length_nil, Nat.add_zero]
          omega
      · simp [step, upd, hih] at hd ⊢; exact hi.fin i hd
  | poke k => exact ⟨hi.ord, hi.exact, hi.fin⟩

theorem run_inv (content : Bytes) (evs : List Ev) : ∀ (s : St), Inv content s → Inv content (run true content s evs) := by
  induction evs with
  | nil => intro s h; exact h
  | cons e es ih => intro s h; exact ih _ (step_inv content s e h)

end Model.MemHandles
