/-
  Lemmas about `Model.ClientTree`: names that survive the wire, the resolved target of a command argument,
  and the effect of every server command / client primitive on the tree's `lookup`.
-/
import AioftpModel.Model.ClientTree
import AioftpModel.Lemmas.ClientTreeFs

namespace Model
namespace ClientTree
open Py Fs

/-! ### names and paths that mean themselves on the wire -/

/-- the last character, if any, is not white space (`parse_command` does `rstrip()`) -/
def NoTrailSpace (s : Str) : Prop := ∀ c, s.getLast? = some c → isSpace c = false

/-- a real name: not `''`, `.`, `..`, no slash, no trailing blank -/
def SafeName (x : Str) : Prop := GoodName x ∧ NoTrailSpace x

/-- a path made of safe names, with a root `pathlib` can produce -/
def SafeP (p : PPath) : Prop := p.root ≤ 2 ∧ ∀ x ∈ p.parts, SafeName x

theorem SafeP.partOK {p : PPath} (h : SafeP p) : ∀ x ∈ p.parts, PartOK x := fun x hx => (h.2 x hx).1.partOK

theorem rstrip_of_noTrail (s : Str) (h : NoTrailSpace s) : rstrip s = s := by
  unfold rstrip
  cases hr : s.reverse with
  | nil =>
    have : s = [] := by simpa using hr
    subst this; rfl
  | cons c r =>
    have hl : s.getLast? = some c := by
      rw [← List.head?_reverse, hr]; rfl
    have hc := h c hl
    rw [List.dropWhile_cons, hc]
    simp only [Bool.false_eq_true, ↓reduceIte]
    rw [← hr, List.reverse_reverse]

theorem getLast?_append_ne {α} (a b : List α) (hb : b ≠ []) : (a ++ b).getLast? = b.getLast? := by
  rw [List.getLast?_append]
  cases h : b.getLast? with
  | none => exact absurd (List.getLast?_eq_none_iff.mp h) hb
  | some z => rfl

theorem splitroot_two (c : Char) (r : Str) (hc : c ≠ '/') : splitroot ('/' :: '/' :: c :: r) = (2, c :: r) := by
  unfold splitroot
  split
  · rename_i h; simp at h; exact absurd h.1 hc
  · rename_i h; simp at h; simp [h]
  · rename_i h1 h2; simp at h2; exact (h1 (c :: r) (by simp [h2])).elim
  · rename_i h1 h2 h3; exact absurd rfl (h3 _)

theorem splitroot_one (c : Char) (r : Str) (hc : c ≠ '/') : splitroot ('/' :: c :: r) = (1, c :: r) := by
  unfold splitroot
  split
  · rename_i h; simp at h; exact absurd h.1 hc
  · rename_i h; simp at h; exact absurd h.1 hc
  · rename_i h; simp at h; simp [h]
  · rename_i h1 h2 h3; exact absurd rfl (h3 _)

theorem joinWith_ne_nil (ch : Char) (x : Str) (t : List Str) (hx : x ≠ []) : joinWith ch (x :: t) ≠ [] := by
  cases t with
  | nil => simpa [joinWith] using hx
  | cons y t' => simp [joinWith, hx]

theorem joinWith_getLast? (ch : Char) (ps : List Str) (hne : ps ≠ []) (hp : ∀ x ∈ ps, x ≠ []) :
    ∃ x ∈ ps, (joinWith ch ps).getLast? = x.getLast? := by
  induction ps with
  | nil => exact absurd rfl hne
  | cons x t ih =>
    cases t with
    | nil => exact ⟨x, by simp, by simp [joinWith]⟩
    | cons y t' =>
      obtain ⟨z, hz, he⟩ := ih (by simp) (fun a ha => hp a (List.mem_cons_of_mem _ ha))
      refine ⟨z, List.mem_cons_of_mem _ hz, ?_⟩
      have hj : joinWith ch (y :: t') ≠ [] := joinWith_ne_nil ch y t' (hp y (by simp))
      show (x ++ ch :: joinWith ch (y :: t')).getLast? = z.getLast?
      rw [getLast?_append_ne _ _ (by simp), List.getLast?_cons_of_ne_nil hj]
      exact he

theorem isSpace_slash : isSpace '/' = false := by decide
theorem isSpace_dot : isSpace '.' = false := by decide

theorem str_noTrail (p : PPath) (hp : SafeP p) : NoTrailSpace p.str := by
  intro c hc
  unfold PPath.str at hc
  by_cases hparts : p.parts = []
  · rw [hparts] at hc
    by_cases hr : p.root = 0
    · simp [hr] at hc; subst hc; exact isSpace_dot
    · simp only [hr, false_and, ↓reduceIte, joinWith, List.append_nil] at hc
      have : rootStr p.root = ['/'] ∨ rootStr p.root = ['/', '/'] := by
        unfold rootStr
        match p.root, hr with
        | 1, _ => exact Or.inl rfl
        | n + 2, _ => exact Or.inr rfl
      rcases this with h | h <;> (rw [h] at hc; simp at hc; subst hc; exact isSpace_slash)
  · rw [if_neg (by simp [hparts])] at hc
    obtain ⟨x, t, hxt⟩ := List.exists_cons_of_ne_nil hparts
    have hj : joinWith '/' p.parts ≠ [] := by
      rw [hxt]; exact joinWith_ne_nil '/' x t (hp.2 x (by simp [hxt])).1.1
    rw [getLast?_append_ne _ _ hj] at hc
    obtain ⟨z, hz, he⟩ := joinWith_getLast? '/' p.parts hparts (fun a ha => (hp.2 a ha).1.1)
    rw [he] at hc
    exact (hp.2 z hz).2 c hc

theorem splitOn_nil (ch : Char) : splitOn ch [] = [[]] := rfl

/-- `PurePosixPath(str(p)) = p` for every normal path -/
theorem parse_str (p : PPath) (hroot : p.root ≤ 2) (h : ∀ x ∈ p.parts, PartOK x) : PPath.parse p.str = p := by
  obtain ⟨root, parts⟩ := p
  simp only at hroot h
  match root, hroot with
  | 0, _ => exact parse_str_rel parts h
  | 1, _ =>
    cases parts with
    | nil => simp [PPath.str, rootStr, joinWith, PPath.parse, splitroot, splitOn_nil, keepPart]
    | cons x t =>
      have hx := h x (by simp)
      have hs : PPath.str ⟨1, x :: t⟩ = '/' :: joinWith '/' (x :: t) := by simp [PPath.str, rootStr]
      rw [hs]
      obtain ⟨c, r, hcr⟩ := List.exists_cons_of_ne_nil (joinWith_ne_nil '/' x t hx.1)
      have hc : c ≠ '/' := joinWith_head_ne_sep '/' x t hx.1 hx.2.2 c r hcr
      have hsr : splitroot ('/' :: joinWith '/' (x :: t)) = (1, joinWith '/' (x :: t)) := by
        rw [hcr]; exact splitroot_one c r hc
      unfold PPath.parse
      rw [hsr]
      simp only
      rw [splitOn_joinWith '/' (x :: t) (by simp) (fun p hp => (h p hp).2.2), filter_keepPart_ok _ h]
  | 2, _ =>
    cases parts with
    | nil => simp [PPath.str, rootStr, joinWith, PPath.parse, splitroot, splitOn_nil, keepPart]
    | cons x t =>
      have hx := h x (by simp)
      have hs : PPath.str ⟨2, x :: t⟩ = '/' :: '/' :: joinWith '/' (x :: t) := by simp [PPath.str, rootStr]
      rw [hs]
      obtain ⟨c, r, hcr⟩ := List.exists_cons_of_ne_nil (joinWith_ne_nil '/' x t hx.1)
      have hc : c ≠ '/' := joinWith_head_ne_sep '/' x t hx.1 hx.2.2 c r hcr
      have hsr : splitroot ('/' :: '/' :: joinWith '/' (x :: t)) = (2, joinWith '/' (x :: t)) := by
        rw [hcr]; exact splitroot_two c r hc
      unfold PPath.parse
      rw [hsr]
      simp only
      rw [splitOn_joinWith '/' (x :: t) (by simp) (fun p hp => (h p hp).2.2), filter_keepPart_ok _ h]

theorem wire_id (p : PPath) (hp : SafeP p) : wire p = p := by
  unfold wire
  rw [rstrip_of_noTrail _ (str_noTrail p hp), parse_str p hp.1 hp.partOK]

/-- the connection's working directory: absolute, made of real names -/
def CwdOK (r : Remote) : Prop := r.cwd.root = 1 ∧ ∀ x ∈ r.cwd.parts, GoodName x

/-- where a safe path lands: below the working directory if relative, else its own parts -/
def landing (cwd : PPath) (p : PPath) : Path := if p.root = 0 then cwd.parts ++ p.parts else p.parts

theorem target_eq (r : Remote) (p : PPath) (hr : CwdOK r) (hp : SafeP p) : r.target p = landing r.cwd p := by
  unfold Remote.target
  rw [wire_id p hp, getPathsP_eq _ _ _ (fun x hx => (hr.2 x hx).partOK) hp.partOK]
  simp only
  unfold resolvedTail landing underCwd PPath.isAbsolute
  by_cases h0 : p.root = 0
  · have hj : r.cwd.join p = ⟨r.cwd.root, r.cwd.parts ++ p.parts⟩ := by simp [PPath.join, h0]
    simp only [h0, bne_self_eq_false, Bool.false_eq_true, ↓reduceIte]
    rw [hj]
    unfold PPath.partsFrom1
    simp only [hr.1, Nat.succ_ne_self, ↓reduceIte, resolveParts]
    rw [foldl_resolveStep_nodd]
    · simp
    · intro x hx
      rcases List.mem_append.mp hx with h | h
      · exact (hr.2 x h).2.2.1
      · exact (hp.2 x h).1.2.2.1
  · have : (p.root != 0) = true := by simp [h0]
    simp only [this, ↓reduceIte, h0]
    unfold PPath.partsFrom1
    simp only [h0, ↓reduceIte, resolveParts]
    rw [foldl_resolveStep_nodd]
    · simp
    · intro x hx; exact (hp.2 x hx).1.2.2.1

/-! ### directory listings -/

/-- every existing path consists of safe names -/
def SafeV (fs : Fs) : Prop := ∀ q, lookup fs q ≠ none → ∀ x ∈ q, SafeName x

theorem child_shape (t q : Path) : (q.length = t.length + 1 ∧ t <+: q) ↔ ∃ n, q = t ++ [n] := by
  constructor
  · rintro ⟨hl, s, rfl⟩
    rw [List.length_append] at hl
    have : s.length = 1 := by omega
    match s, this with
    | [n], _ => exact ⟨n, rfl⟩
  · rintro ⟨n, rfl⟩
    exact ⟨by simp, List.prefix_append _ _⟩

theorem child_filter_iff (t : Path) (e : Path × Entry) :
    (e.1.length = t.length + 1 && t.isPrefixOf e.1) = true ↔ ∃ n, e.1 = t ++ [n] := by
  rw [Bool.and_eq_true, List.isPrefixOf_iff_prefix, decide_eq_true_iff]
  exact child_shape t e.1

theorem mem_childEntries {fs : Fs} {t : Path} {x : Str × Kind} :
    x ∈ childEntries fs t ↔ ∃ e ∈ fs, ∃ n, e.1 = t ++ [n] ∧ x = (n, kindOf e.2) := by
  unfold childEntries
  rw [List.mem_map]
  constructor
  · rintro ⟨e, he, rfl⟩
    rw [List.mem_filter] at he
    obtain ⟨n, hn⟩ := (child_filter_iff t e).mp he.2
    exact ⟨e, he.1, n, hn, by simp [hn]⟩
  · rintro ⟨e, he, n, hn, rfl⟩
    refine ⟨e, ?_, by simp [hn]⟩
    rw [List.mem_filter]
    exact ⟨he, (child_filter_iff t e).mpr ⟨n, hn⟩⟩

theorem childEntries_cons (x : Path × Entry) (fs : Fs) (t : Path) :
    childEntries (x :: fs) t =
      if (x.1.length = t.length + 1 && t.isPrefixOf x.1) = true
      then (x.1.getLast?.getD [], kindOf x.2) :: childEntries fs t else childEntries fs t := by
  unfold childEntries
  rw [List.filter_cons]
  split <;> simp

/-- looking a name up in a listing is looking the child path up in the tree -/
theorem find_childEntries (fs : Fs) (t : Path) (n : Str) :
    (childEntries fs t).find? (fun x => x.1 = n) = (lk fs (t ++ [n])).map (fun e => (n, kindOf e)) := by
  induction fs with
  | nil => simp [childEntries, lk_nil]
  | cons x rest ih =>
    rw [childEntries_cons, lk_cons]
    by_cases hc : (x.1.length = t.length + 1 && t.isPrefixOf x.1) = true
    · rw [if_pos hc]
      obtain ⟨m, hm⟩ := (child_filter_iff t x).mp hc
      rw [List.find?_cons]
      by_cases hmn : m = n
      · subst hmn; simp [hm]
      · have h1 : ¬ x.1 = t ++ [n] := by
          rw [hm]; intro h
          exact hmn (by simpa using h)
        simp [hm, hmn, ih]
    · rw [if_neg hc]
      have h1 : ¬ x.1 = t ++ [n] := fun h => hc ((child_filter_iff t x).mpr ⟨n, h⟩)
      rw [if_neg h1, ih]

theorem childEntries_safe {fs : Fs} (hs : SafeV fs) {t : Path} {x : Str × Kind} (hx : x ∈ childEntries fs t) :
    SafeName x.1 ∧ lookup fs (t ++ [x.1]) ≠ none := by
  obtain ⟨e, he, n, hn, rfl⟩ := mem_childEntries.mp hx
  have hne : t ++ [n] ≠ [] := by simp
  have hl : lookup fs (t ++ [n]) ≠ none := by
    rw [lookup_ne_nil _ hne]
    apply mem_lk_ne_none (e := e.2)
    rw [← hn]; exact he
  exact ⟨hs _ hl n (by simp), hl⟩

theorem parse_name (n : Str) (hn : SafeName n) : PPath.parse n = ⟨0, [n]⟩ := by
  have := parse_str_rel [n] (by intro p hp; simp at hp; subst hp; exact hn.1.partOK)
  simpa [PPath.str, rootStr, joinWith] using this

theorem entryName_safe (n : Str) (hn : SafeName n) : entryName n = some ⟨0, [n]⟩ := by
  unfold entryName
  rw [parse_name n hn]
  have hs : PPath.str ⟨0, [n]⟩ = n := by simp [PPath.str, rootStr, joinWith]
  rw [hs]
  rw [if_neg]
  rintro (h | h)
  · exact hn.1.2.1 h
  · exact hn.1.2.2.1 h

theorem filterMap_eq_map_of {α β : Type} (f : α → Option β) (g : α → β) (l : List α)
    (h : ∀ x ∈ l, f x = some (g x)) : l.filterMap f = l.map g := by
  induction l with
  | nil => rfl
  | cons x t ih =>
    rw [List.filterMap_cons, h x (by simp), List.map_cons, ih (fun y hy => h y (List.mem_cons_of_mem _ hy))]

/-- `list(path)` (one level): 550 for a missing path, else one entry `path / name` per child -/
theorem listDir_eq (r : Remote) (p : PPath) (hr : CwdOK r) (hp : SafeP p) (hs : SafeV r.fs) :
    listDir r p =
      if lookup r.fs (landing r.cwd p) = none then .error (.status 550)
      else .ok ((childEntries r.fs (landing r.cwd p)).map (fun e => (p.join ⟨0, [e.1]⟩, e.2))) := by
  have hfm : (childEntries r.fs (landing r.cwd p)).filterMap
        (fun e => (entryName e.1).map (fun n => (p.join n, e.2))) =
      (childEntries r.fs (landing r.cwd p)).map (fun e => (p.join ⟨0, [e.1]⟩, e.2)) := by
    apply filterMap_eq_map_of
    intro x hx
    rw [entryName_safe x.1 (childEntries_safe hs hx).1]; rfl
  unfold listDir srvMlsd srvListing
  rw [target_eq r p hr hp]
  by_cases he : lookup r.fs (landing r.cwd p) = none
  · have : Fs.exists_ r.fs (landing r.cwd p) = false := (exists_false_iff _ _).mpr he
    cases hm : r.mlsx <;> simp [this, he, is1xx, is50x]
  · have : Fs.exists_ r.fs (landing r.cwd p) = true := (exists_iff _ _).mpr he
    cases hm : r.mlsx <;> simp [this, he, is1xx, is50x, hfm]

/-! ### `stat`, `exists` -/

theorem parts_eq_dropLast_name (p : PPath) (h : p.parts ≠ []) : p.parts = p.parts.dropLast ++ [p.name] := by
  unfold PPath.name
  obtain ⟨l, x, hl⟩ : ∃ l x, p.parts = l ++ [x] := by
    refine ⟨p.parts.dropLast, p.parts.getLast h, ?_⟩
    exact (List.dropLast_concat_getLast h).symm
  rw [hl]; simp

theorem SafeP.parent {p : PPath} (h : SafeP p) : SafeP p.parent :=
  ⟨h.1, fun x hx => h.2 x (List.dropLast_subset _ hx)⟩

theorem landing_parent (cwd p : PPath) (h : p.parts ≠ []) :
    landing cwd p.parent = (landing cwd p).dropLast := by
  unfold landing PPath.parent
  by_cases h0 : p.root = 0
  · simp only [h0, ↓reduceIte]
    rw [List.dropLast_append_of_ne_nil h]
  · simp only [h0, ↓reduceIte]

theorem landing_eq_parent_name (cwd p : PPath) (h : p.parts ≠ []) :
    landing cwd p = landing cwd p.parent ++ [p.name] := by
  unfold landing PPath.parent
  by_cases h0 : p.root = 0
  · simp only [h0, ↓reduceIte]
    rw [List.append_assoc, ← parts_eq_dropLast_name p h]
  · simp only [h0, ↓reduceIte]
    exact parts_eq_dropLast_name p h

theorem join_name (p : PPath) (n : Str) : (p.join ⟨0, [n]⟩).name = n := by
  simp [PPath.join, PPath.name]

/-- `stat`: the type of what is at the resolved path, 550 if nothing is — with MLST and through the
    LIST fallback alike (the fallback needs a name to look for) -/
theorem stat_eq (r : Remote) (p : PPath) (hr : CwdOK r) (hp : SafeP p) (hs : SafeV r.fs) (hpc : PC r.fs)
    (hname : r.mlsx = true ∨ p.parts ≠ []) :
    stat r p = match lookup r.fs (landing r.cwd p) with
      | some e => .ok (kindOf e)
      | none => .error (.status 550) := by
  unfold stat srvMlst
  rw [target_eq r p hr hp]
  cases hm : r.mlsx with
  | true =>
    cases hl : lookup r.fs (landing r.cwd p) <;> simp [is2xx, is50x]
  | false =>
    have hparts : p.parts ≠ [] := by
      rcases hname with h | h
      · rw [hm] at h; cases h
      · exact h
    simp only [Bool.not_false, ↓reduceIte, is50x]
    have h50 : ((502 : Nat) / 10 == 50) = true := by decide
    simp only [h50, Bool.not_true, Bool.false_eq_true, ↓reduceIte]
    rw [listDir_eq r p.parent hr hp.parent hs]
    have hland := landing_eq_parent_name r.cwd p hparts
    by_cases hpar : lookup r.fs (landing r.cwd p.parent) = none
    · rw [if_pos hpar]
      have : lookup r.fs (landing r.cwd p) = none :=
        hpc.none_below hpar (by rw [hland]; exact List.prefix_append _ _)
      rw [this]
    · rw [if_neg hpar]
      simp only
      rw [List.find?_map]
      have hpred : ((fun (e : PPath × Kind) => decide (e.1.name = p.name)) ∘
            fun (e : Str × Kind) => (p.parent.join ⟨0, [e.1]⟩, e.2)) =
          fun (x : Str × Kind) => decide (x.1 = p.name) := by
        funext x
        simp [join_name]
      rw [hpred, find_childEntries, ← hland]
      have hne : landing r.cwd p ≠ [] := by rw [hland]; simp
      rw [lookup_ne_nil _ hne]
      cases lk r.fs (landing r.cwd p) <;> simp

theorem exists_eq (r : Remote) (p : PPath) (hr : CwdOK r) (hp : SafeP p) (hs : SafeV r.fs) (hpc : PC r.fs)
    (hname : r.mlsx = true ∨ p.parts ≠ []) :
    exists_ r p = .ok (decide (lookup r.fs (landing r.cwd p) ≠ none)) := by
  unfold exists_
  rw [stat_eq r p hr hp hs hpc hname]
  cases lookup r.fs (landing r.cwd p) <;> simp

/-! ### the invariant of a remote state, `make_directory` -/

/-- what every reachable remote state satisfies -/
structure ROK (r : Remote) : Prop where
  cwd : CwdOK r
  pc : PC r.fs
  safe : SafeV r.fs
  cwdDir : lookup r.fs r.cwd.parts = some .dir

/-- no prefix of `t` is a file -/
def NoFilePrefix (fs : Fs) (t : Path) : Prop := ∀ q, q <+: t → ∀ c, lookup fs q ≠ some (.file c)

theorem landing_safe {r : Remote} (hr : ROK r) {p : PPath} (hp : SafeP p) : ∀ x ∈ landing r.cwd p, SafeName x := by
  intro x hx
  unfold landing at hx
  have hc : ∀ y ∈ r.cwd.parts, SafeName y := hr.safe _ (by rw [hr.cwdDir]; simp)
  split at hx
  · rcases List.mem_append.mp hx with h | h
    · exact hc x h
    · exact hp.2 x h
  · exact hp.2 x hx

theorem landing_mono (cwd : PPath) {p p' : PPath} (hroot : p'.root = p.root) (hpre : p'.parts <+: p.parts) :
    landing cwd p' <+: landing cwd p := by
  unfold landing
  rw [hroot]
  split
  · exact (List.prefix_append_right_inj _).mpr hpre
  · exact hpre

theorem srvMkd_spec {r r' : Remote} {p : PPath} (hr : CwdOK r) (hp : SafeP p) (h : srvMkd r p = (257, r')) :
    r'.cwd = r.cwd ∧ r'.mlsx = r.mlsx ∧ (∀ q, lookup r'.fs q = ensured r.fs (landing r.cwd p) q) ∧
      NoFilePrefix r.fs (landing r.cwd p) := by
  unfold srvMkd at h
  rw [target_eq r p hr hp] at h
  split at h
  · cases h
  · split at h
    · rename_i fs' hm
      injection h with _ h
      subst h
      refine ⟨rfl, rfl, fun q => lookup_mkdirParents hm q, ?_⟩
      have := (mkdirParents_some_iff r.fs (landing r.cwd p)).mp ⟨fs', hm⟩
      intro q hq c
      by_cases hq0 : q = []
      · subst hq0; rw [lookup_nil]; simp
      · exact this.2 q hq0 hq c
    · cases h

theorem NoFilePrefix.of_ensured {fs fs1 : Fs} {t1 t : Path} (h1 : ∀ q, lookup fs1 q = ensured fs t1 q)
    (hn : NoFilePrefix fs1 t) : NoFilePrefix fs t := by
  intro q hq c hc
  apply hn q hq c
  rw [h1]; unfold ensured
  rw [if_neg (by simp [hc]), hc]

theorem NoFilePrefix.mono {fs : Fs} {t1 t : Path} (hpre : t1 <+: t) (hn : NoFilePrefix fs t) : NoFilePrefix fs t1 :=
  fun q hq c => hn q (hq.trans hpre) c

/-- MKD along an increasing chain of paths is `ensured` of the last one -/
theorem mkdAll_spec (l : List PPath) : ∀ (r r' : Remote) (tl : Path), CwdOK r → (∀ p ∈ l, SafeP p) →
    (∀ p ∈ l, landing r.cwd p <+: tl) → (∃ pl, l.getLast? = some pl ∧ landing r.cwd pl = tl) →
    mkdAll r l = .ok r' →
    r'.cwd = r.cwd ∧ r'.mlsx = r.mlsx ∧ (∀ q, lookup r'.fs q = ensured r.fs tl q) ∧ NoFilePrefix r.fs tl := by
  induction l with
  | nil => intro r r' tl _ _ _ hl; obtain ⟨pl, h, _⟩ := hl; cases h
  | cons p rest ih =>
    intro r r' tl hr hsafe hpre hlast h
    unfold mkdAll at h
    simp only at h
    split at h
    · rename_i h257
      have hs : srvMkd r p = (257, (srvMkd r p).2) := by
        rw [← h257]
      obtain ⟨hc, hm, hlk, hnf⟩ := srvMkd_spec hr (hsafe p (by simp)) hs
      cases rest with
      | nil =>
        unfold mkdAll at h
        injection h with h
        subst h
        obtain ⟨pl, hpl, htl⟩ := hlast
        simp at hpl; subst hpl
        rw [← htl]
        exact ⟨hc, hm, hlk, hnf⟩
      | cons p2 rest2 =>
        have hr1 : CwdOK (srvMkd r p).2 := by unfold CwdOK; rw [hc]; exact hr
        obtain ⟨hc', hm', hlk', hnf'⟩ := ih (srvMkd r p).2 r' tl hr1
          (fun x hx => hsafe x (List.mem_cons_of_mem _ hx))
          (fun x hx => by rw [hc]; exact hpre x (List.mem_cons_of_mem _ hx))
          (by obtain ⟨pl, hpl, htl⟩ := hlast
              refine ⟨pl, ?_, by rw [hc]; exact htl⟩
              simpa [List.getLast?_cons_cons] using hpl)
          h
        refine ⟨hc'.trans hc, hm'.trans hm, ?_, NoFilePrefix.of_ensured hlk hnf'⟩
        intro q
        rw [hlk', ensured_ensured hlk (hpre p (by simp))]
    · cases h

theorem needCreate_spec (r : Remote) (root : Nat) : ∀ (rev : List Str) (need : List PPath),
    needCreate r root rev = .ok need →
    (∀ p ∈ need, p.root = root ∧ p.parts <+: rev.reverse) ∧
    (need = [] → rev ≠ [] → exists_ r ⟨root, rev.reverse⟩ = .ok true) ∧
    (∀ p, need.head? = some p → p = ⟨root, rev.reverse⟩) := by
  intro rev
  induction rev with
  | nil =>
    intro need h
    unfold needCreate at h
    injection h with h
    subst h
    simp
  | cons x up ih =>
    intro need h
    unfold needCreate at h
    split at h
    · cases h
    · rename_i hex
      injection h with h
      subst h
      exact ⟨by simp, fun _ _ => hex, by simp⟩
    · split at h
      · cases h
      · rename_i more hmore
        injection h with h
        subst h
        obtain ⟨h1, _, _⟩ := ih more hmore
        refine ⟨?_, by simp, by simp⟩
        intro p hp
        rcases List.mem_cons.mp hp with hp | hp
        · subst hp; exact ⟨rfl, List.prefix_refl _⟩
        · obtain ⟨ha, hb⟩ := h1 p hp
          refine ⟨ha, hb.trans ?_⟩
          rw [List.reverse_cons]; exact List.prefix_append _ _

/-- on names that are not `..` the loop with the extra test is the loop without it -/
theorem needCreateSkip_eq (r : Remote) (root : Nat) : ∀ (rev : List Str), (∀ x ∈ rev, x ≠ dotdot) →
    needCreateSkip r root rev = needCreate r root rev := by
  intro rev
  induction rev with
  | nil => intro _; rfl
  | cons x up ih =>
    intro h
    unfold needCreateSkip needCreate
    rw [if_neg (h x (by simp)), ih (fun y hy => h y (by simp [hy]))]

theorem needCreateNow_eq (r : Remote) (root : Nat) (rev : List Str) (h : ∀ x ∈ rev, x ≠ dotdot) :
    needCreateNow r root rev = needCreate r root rev := by
  unfold needCreateNow
  split
  · exact needCreateSkip_eq r root rev h
  · rfl

theorem ROK.of_ensured {r r' : Remote} (hr : ROK r) {p : PPath} (hp : SafeP p) (hc : r'.cwd = r.cwd)
    (hlk : ∀ q, lookup r'.fs q = ensured r.fs (landing r.cwd p) q) (hnf : NoFilePrefix r.fs (landing r.cwd p)) :
    ROK r' := by
  refine ⟨by unfold CwdOK; rw [hc]; exact hr.cwd, hr.pc.of_ensured _ hnf hlk, ?_, ?_⟩
  · intro q hq x hx
    rw [hlk] at hq
    unfold ensured at hq
    split at hq
    · rename_i hcnd
      exact landing_safe hr hp x (hcnd.2.1.subset hx)
    · exact hr.safe q hq x hx
  · rw [hc, hlk]; unfold ensured
    rw [if_neg (by simp [hr.cwdDir]), hr.cwdDir]

theorem landing_exists_of_nil {r : Remote} (hr : ROK r) {p : PPath} (h : p.parts = []) :
    lookup r.fs (landing r.cwd p) ≠ none := by
  unfold landing
  split
  · rw [h, List.append_nil, hr.cwdDir]; simp
  · rw [h, lookup_nil]; simp

/-- `make_directory(path)`: every missing directory on the way to the resolved path is made, nothing else
    changes (and nothing at all if the path exists, whatever it is) -/
theorem makeDirectory_spec {r r' : Remote} {p : PPath} (hr : ROK r) (hp : SafeP p)
    (h : makeDirectory r p = .ok r') :
    r'.cwd = r.cwd ∧ r'.mlsx = r.mlsx ∧ (∀ q, lookup r'.fs q = ensured r.fs (landing r.cwd p) q) ∧ ROK r' := by
  unfold makeDirectory at h
  rw [needCreateNow_eq r p.root p.parts.reverse (fun x hx => (hp.2 x (List.mem_reverse.mp hx)).1.2.2.1)] at h
  split at h
  · cases h
  · rename_i need hneed
    obtain ⟨hmem, hnil, hhead⟩ := needCreate_spec r p.root p.parts.reverse need hneed
    rw [List.reverse_reverse] at hmem hnil hhead
    cases hn : need with
    | nil =>
      rw [hn] at h
      unfold mkdAll at h
      simp at h
      subst h
      have hex : lookup r.fs (landing r.cwd p) ≠ none := by
        by_cases hparts : p.parts = []
        · exact landing_exists_of_nil hr hparts
        · have := hnil hn (by simpa using hparts)
          rw [exists_eq r ⟨p.root, p.parts⟩ hr.cwd hp hr.safe hr.pc (Or.inr hparts)] at this
          injection this with this
          simpa using this
      exact ⟨rfl, rfl, fun q => (ensured_of_exists hr.pc hex q).symm, hr⟩
    | cons p0 more =>
      have hp0 : p0 = p := by
        have := hhead p0 (by rw [hn]; rfl)
        rw [this]
      subst hp0
      have hsafe : ∀ x ∈ need.reverse, SafeP x := by
        intro x hx
        obtain ⟨ha, hb⟩ := hmem x (List.mem_reverse.mp hx)
        exact ⟨by rw [ha]; exact hp.1, fun y hy => hp.2 y (hb.subset hy)⟩
      obtain ⟨hc, hm, hlk, hnf⟩ := mkdAll_spec need.reverse r r' (landing r.cwd p0) hr.cwd hsafe
        (fun x hx => by
          obtain ⟨ha, hb⟩ := hmem x (List.mem_reverse.mp hx)
          exact landing_mono r.cwd ha hb)
        ⟨p0, by rw [hn]; simp, rfl⟩ h
      exact ⟨hc, hm, hlk, hr.of_ensured hp hc hlk hnf⟩

/-! ### STOR, the file branch of `upload` -/

theorem pair_eta {α β : Type} (x : α × β) : x = (x.1, x.2) := by cases x; rfl

theorem streamCheck_ok {codes : List Nat} (h : streamCheck codes = .ok ()) :
    ∃ c d rest, codes = c :: d :: rest ∧ is1xx c = true ∧ is2xx d = true := by
  unfold streamCheck at h
  split at h
  · cases h
  · rename_i c rest
    split at h
    · cases h
    · rename_i h1
      split at h
      · cases h
      · rename_i d rest2
        split at h
        · rename_i h2
          exact ⟨c, d, rest2, rfl, by simpa using h1, h2⟩
        · cases h

theorem srvStor_spec {r r' : Remote} {p : PPath} {data : Bytes} {codes : List Nat} (hr : CwdOK r) (hp : SafeP p)
    (h : srvStor r p data = (codes, r')) (hc : streamCheck codes = .ok ()) :
    landing r.cwd p ≠ [] ∧ lookup r.fs (landing r.cwd p).dropLast = some .dir ∧
    lookup r.fs (landing r.cwd p) ≠ some .dir ∧ r'.cwd = r.cwd ∧ r'.mlsx = r.mlsx ∧
    ∀ q, lookup r'.fs q = if q = landing r.cwd p then some (.file data) else lookup r.fs q := by
  unfold srvStor at h
  rw [target_eq r p hr hp] at h
  obtain ⟨c, d, rest, hcodes, h1, h2⟩ := streamCheck_ok hc
  split at h
  · injection h with h _
    rw [← h] at hcodes
    injection hcodes with hc1 hc2
    cases hc2
  · rename_i hdir
    split at h
    · injection h with h _
      rw [← h] at hcodes
      injection hcodes with hc1 hc2
      injection hc2 with hc2 _
      subst hc2
      exact absurd h2 (by decide)
    · rename_i fs' c0 pos hopen
      injection h with _ h
      subst h
      have hd : lookup r.fs (landing r.cwd p).dropLast = some .dir :=
        (isDir_iff _ _).mp (by simpa using hdir)
      obtain ⟨hne, hnd, _, _⟩ := openFile_wb hopen data []
      refine ⟨hne, hd, hnd, rfl, rfl, fun q => (openFile_wb hopen data q).2.2.2⟩

theorem PC.set_file {fs fs' : Fs} (hpc : PC fs) {t : Path} {d : Bytes} (ht : t ≠ [])
    (hpar : lookup fs t.dropLast = some .dir) (hnd : lookup fs t ≠ some .dir)
    (h : ∀ q, lookup fs' q = if q = t then some (.file d) else lookup fs q) : PC fs' := by
  intro q hq hex
  have hdl : t.dropLast ≠ t := by
    intro he
    have := congrArg List.length he
    rw [List.length_dropLast] at this
    have : t.length ≠ 0 := fun h0 => ht (List.length_eq_zero_iff.mp h0)
    omega
  by_cases hqt : q = t
  · subst hqt
    rw [h, if_neg hdl]; exact hpar
  · rw [h, if_neg hqt] at hex
    have hp := hpc q hq hex
    rw [h]
    by_cases hpt : q.dropLast = t
    · rw [hpt] at hp; exact absurd hp hnd
    · rw [if_neg hpt]; exact hp

/-- the `is_file(source)` branch of `upload`: parents of the destination are made, the file is written -/
theorem uploadFile_spec {l : Local} {r r' : Remote} {source destination : PPath} (hr : ROK r)
    (hp : SafeP destination) (h : uploadFile l r source destination = .ok r') :
    ∃ data, l.read source = .ok data ∧ destination.parts ≠ [] ∧ r'.cwd = r.cwd ∧ r'.mlsx = r.mlsx ∧ ROK r' ∧
      ∀ q, lookup r'.fs q =
        if q = landing r.cwd destination then some (.file data)
        else ensured r.fs (landing r.cwd destination).dropLast q := by
  unfold uploadFile at h
  split at h
  · cases h
  · rename_i r1 hmk
    obtain ⟨hc1, hm1, hlk1, hr1⟩ := makeDirectory_spec hr hp.parent hmk
    split at h
    · cases h
    · rename_i data hread
      simp only at h
      split at h
      · cases h
      · rename_i hchk
        injection h with h
        have hsp := srvStor_spec (r := r1) (r' := (srvStor r1 destination data).2) (p := destination)
          (data := data) (codes := (srvStor r1 destination data).1) hr1.cwd hp (pair_eta _) hchk
        rw [h] at hsp
        obtain ⟨hne, hpar, hnd, hc2, hm2, hlk2⟩ := hsp
        rw [hc1] at hne hpar hnd hlk2
        have hparts : destination.parts ≠ [] := by
          intro hnil
          -- the target would be an existing directory (the cwd or the root)
          have hex := landing_exists_of_nil hr (p := destination) hnil
          have hpar_eq : destination.parent = destination := by
            unfold PPath.parent; rw [hnil]; cases destination; simp_all
          rw [hpar_eq] at hlk1
          have : lookup r1.fs (landing r.cwd destination) = some .dir := by
            rw [hlk1, ensured_of_exists hr.pc hex]
            unfold landing
            split
            · rw [hnil, List.append_nil]; exact hr.cwdDir
            · rw [hnil]; exact lookup_nil _
          exact hnd this
        have hland : landing r.cwd destination.parent = (landing r.cwd destination).dropLast :=
          landing_parent r.cwd destination hparts
        rw [hland] at hlk1
        refine ⟨data, hread, hparts, hc2.trans hc1, hm2.trans hm1, ?_, ?_⟩
        · refine ⟨by unfold CwdOK; rw [hc2, hc1]; exact hr.cwd, PC.set_file hr1.pc hne hpar hnd hlk2, ?_, ?_⟩
          · intro q hq x hx
            rw [hlk2] at hq
            by_cases hqt : q = landing r.cwd destination
            · subst hqt; exact landing_safe hr hp x hx
            · rw [if_neg hqt] at hq; exact hr1.safe q hq x hx
          · rw [hc2, hc1, hlk2]
            have : r.cwd.parts ≠ landing r.cwd destination := by
              intro he
              rw [← he, ← hc1, hr1.cwdDir] at hnd
              exact hnd rfl
            rw [if_neg this, ← hc1]; exact hr1.cwdDir
        · intro q
          rw [hlk2]
          by_cases hqt : q = landing r.cwd destination
          · simp [hqt]
          · rw [if_neg hqt, if_neg hqt, hlk1]

end ClientTree
end Model
