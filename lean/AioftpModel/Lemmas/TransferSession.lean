/-
  `Model.Transfer.storResult` / `retrBlocks` agree with the transfer step of the sequential session model
  (`Model.Session.worker`, which writes the whole payload with one `Fs.writeAt`).
-/
import AioftpModel.Model.Session
import AioftpModel.Lemmas.Transfer

namespace Model.Transfer
open Py Model.Session Generated

/-- `Fs.writeAt` is the same function as `Py.BytesIO.writeAt` -/
theorem fs_writeAt_eq (c : Bytes) (p : Nat) (d : Bytes) : Fs.writeAt c p d = BytesIO.writeAt c p d := rfl

def UpVerb.toVerb : UpVerb → Verb
  | .stor => .stor
  | .appe => .appe

/-- the file content at `p` as the transfer model sees it: `none` when nothing (or a directory) is there -/
def oldAt (fs : Fs) (p : Path) : Option Bytes :=
  match fs.lookup p with
  | some (.file c) => some c
  | _ => none

theorem oldAt_eq_some {fs : Fs} {p : Path} {c : Bytes} (h : oldAt fs p = some c) : fs.lookup p = some (.file c) := by
  unfold oldAt at h
  split at h
  · rename_i c' hc; simp only [Option.some.injEq] at h; rw [hc, h]
  · simp at h

theorem lookup_set (fs : Fs) (p : Path) (e : Entry) (hp : p ≠ []) : (fs.set p e).lookup p = some e := by
  unfold Fs.lookup Fs.set
  simp only [hp, ↓reduceIte]
  by_cases h : fs.any (fun x => decide (x.1 = p)) = true
  · simp only [h, ↓reduceIte]
    induction fs with
    | nil => simp at h
    | cons x xs ih =>
      by_cases hx : x.1 = p
      · simp [hx]
      · have : xs.any (fun x => decide (x.1 = p)) = true := by simpa [hx] using h
        simp only [List.map_cons, hx, ↓reduceIte, List.find?_cons, decide_false]
        exact ih this
  · simp only [h, Bool.false_eq_true, ↓reduceIte]
    have hn : ∀ x ∈ fs, ¬ x.1 = p := fun x hx hxp =>
      h (List.any_eq_true.mpr ⟨x, hx, by simp [hxp]⟩)
    rw [List.find?_append]
    have : fs.find? (fun e => decide (e.1 = p)) = none := by
      rw [List.find?_eq_none]; intro x hx; simpa using hn x hx
    simp [this]

/-- `MemoryPathIO._open` in the session model = `openFile .memory` of the transfer model, whenever the target
    is not a directory and its parent is one (what the `stor` handler checks before starting the worker) -/
theorem fs_openFile_agrees (fs : Fs) (p : Path) (m : Mode) (hp : p ≠ []) (hpar : fs.isDir p.dropLast = true)
    (hnd : fs.lookup p ≠ some .dir) (hm : m ≠ .rb) :
    (fs.openFile p m.toNat).map (fun r => (⟨r.2.1, r.2.2⟩ : BytesIO)) = openFile .memory (oldAt fs p) m := by
  unfold oldAt
  cases m with
  | rb => exact absurd rfl hm
  | wb =>
    cases h : fs.lookup p with
    | none => simp [Fs.openFile, Mode.toNat, hp, h, hpar, openFile, BytesIO.ofBytes]
    | some e => cases e with
      | dir => exact absurd h hnd
      | file c => simp [Fs.openFile, Mode.toNat, hp, h, openFile, BytesIO.ofBytes]
  | ab =>
    cases h : fs.lookup p with
    | none => simp [Fs.openFile, Mode.toNat, hp, h, hpar, openFile, BytesIO.ofBytes, BytesIO.seekEnd]
    | some e => cases e with
      | dir => exact absurd h hnd
      | file c => simp [Fs.openFile, Mode.toNat, hp, h, openFile, BytesIO.ofBytes, BytesIO.seekEnd]
  | rpb =>
    cases h : fs.lookup p with
    | none => simp [Fs.openFile, Mode.toNat, hp, h, openFile]
    | some e => cases e with
      | dir => exact absurd h hnd
      | file c => simp [Fs.openFile, Mode.toNat, hp, h, openFile, BytesIO.ofBytes]

theorem openFile_memory_ne_none (old : Option Bytes) (m : Mode) (hm : m ≠ .rb)
    (hex : m = .rpb → old ≠ none) : openFile .memory old m ≠ none := by
  cases m <;> cases old <;> simp [openFile] at hm hex ⊢

set_option linter.unusedSimpArgs false in
/-- **the session model's STOR/APPE step stores what `storResult` says**, for every valid chunking of the payload
    (in fact for any list of read results whose blocks concatenate to the payload) -/
theorem worker_stor_agrees (k : Nat) (w : World) (s : SState) (p : Path) (v : UpVerb) (payload : Bytes)
    (reads : List Bytes) (hreads : (iterByBlock reads).flatten = payload)
    (hdc : s.dataConn = true) (hp : p ≠ []) (hpar : w.fs.isDir p.dropLast = true)
    (hnd : w.fs.lookup p ≠ some .dir) (hex : k ≠ 0 → oldAt w.fs p ≠ none) :
    oldAt (workerK k w s p v.toVerb payload).1.fs p
      = storResult .memory (oldAt w.fs p) v k reads
    ∧ (workerK k w s p v.toVerb payload).2.2.replies = [226] := by
  have hm : fileMode v.mode k ≠ .rb := by
    unfold fileMode; cases v <;> by_cases h : k = 0 <;> simp [h, UpVerb.mode]
  have hopen := fs_openFile_agrees w.fs p (fileMode v.mode k) hp hpar hnd hm
  have hmode : (if k ≠ 0 then 3 else (if v.toVerb = Verb.stor then 1 else 2))
      = (fileMode v.mode k).toNat := by
    unfold fileMode; cases v <;> by_cases h : k = 0 <;> simp [h, UpVerb.mode, UpVerb.toVerb, Mode.toNat]
  rw [storResult_eq_writeAt, hreads]
  unfold storHandle
  rw [← hopen]
  cases ho : w.fs.openFile p (fileMode v.mode k).toNat with
  | none =>
    -- with a directory parent, a non-directory target and (for a restart) an existing file `_open` never fails
    exfalso
    rw [ho] at hopen
    refine openFile_memory_ne_none _ _ hm ?_ hopen.symm
    intro hr
    apply hex
    intro hk
    unfold fileMode at hr
    cases v <;> simp [hk, UpVerb.mode] at hr
  | some r =>
    obtain ⟨fs', c, pos⟩ := r
    have hw : workerK k w s p v.toVerb payload =
        ({ w with fs := fs'.set p (.file (Fs.writeAt c (if k ≠ 0 then k else pos) payload)) },
          { s with dataConn := false }, { replies := [226] }) := by
      unfold workerK
      cases v <;> simp [hdc, UpVerb.toVerb, hmode, ho] <;> simp [UpVerb.toVerb] at hmode <;> simp [hmode, ho]
    rw [hw]
    simp only [Option.map_some]
    constructor
    · unfold oldAt
      rw [lookup_set _ _ _ hp, fs_writeAt_eq]
      by_cases hk : k = 0 <;> simp [hk, BytesIO.seek]
    · trivial

/-- the session model's RETR step delivers the concatenation of the blocks of `retrBlocks` -/
theorem worker_retr_agrees (k : Nat) (w : World) (s : SState) (p : Path) (payload : Bytes) (bs : Nat) (hbs : 0 < bs)
    (c : Bytes) (hdc : s.dataConn = true) (hf : w.fs.lookup p = some (.file c)) :
    some (workerK k w s p .retr payload).2.2.data = (retrBlocks (some c) k bs).map List.flatten := by
  unfold workerK retrBlocks
  simp only [hdc, Bool.not_true, Bool.false_eq_true, ↓reduceIte, Fs.openFile, hf, openFile, Option.map_some,
    BytesIO.ofBytes]
  by_cases hk : k = 0
  · simp [hk, retrLoop_flatten _ _ hbs]
  · simp [hk, retrLoop_flatten _ _ hbs, BytesIO.seek]

end Model.Transfer
