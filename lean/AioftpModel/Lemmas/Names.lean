/-
  Helper lemmas for C08 (names) and the client-parser half of C19.
  Core only (no Mathlib needed).
-/
import AioftpModel.Lemmas.Paths
import AioftpModel.Model.ListingParse

namespace Model.Names
open Py Py.StrErr Py.Utf8 Model.ListingParse

/-! ### whitespace stripping -/

theorem dropWhile_append_of_all {α} (p : α → Bool) (a b : List α) (h : ∀ c ∈ a, p c = true) :
    (a ++ b).dropWhile p = b.dropWhile p := by
  induction a with
  | nil => rfl
  | cons x t ih =>
    simp only [List.cons_append, List.dropWhile_cons]
    rw [h x (by simp)]
    exact ih (fun c hc => h c (by simp [hc]))

theorem endsWithPySpace_eq (s : Str) :
    endsWithPySpace s = false ↔ ∀ c, s.getLast? = some c → isSpace c = false := by
  unfold endsWithPySpace
  cases h : s.getLast? with
  | none => simp
  | some c => simp

theorem startsWithPySpace_eq (s : Str) :
    startsWithPySpace s = false ↔ ∀ c, s.head? = some c → isSpace c = false := by
  unfold startsWithPySpace
  cases s with
  | nil => simp
  | cons c t => simp

theorem rstrip_of_last (x : Str) (h : endsWithPySpace x = false) : rstrip x = x := by
  unfold rstrip
  have h' := (endsWithPySpace_eq x).mp h
  cases hr : x.reverse with
  | nil => simp [List.reverse_eq_nil_iff.mp hr]
  | cons c t =>
    have hc : x.getLast? = some c := by
      rw [← List.head?_reverse, hr]; rfl
    rw [List.dropWhile_cons, h' c hc]
    simp only [Bool.false_eq_true, ↓reduceIte]
    rw [← hr, List.reverse_reverse]

theorem rstrip_append_ws (x w : Str) (hw : ∀ c ∈ w, isSpace c = true) (h : endsWithPySpace x = false) :
    rstrip (x ++ w) = x := by
  have : rstrip (x ++ w) = rstrip x := by
    unfold rstrip
    rw [List.reverse_append, dropWhile_append_of_all isSpace _ _ (fun c hc => hw c (List.mem_reverse.mp hc))]
  rw [this, rstrip_of_last x h]

theorem lstrip_of_head (s : Str) (h : startsWithPySpace s = false) : lstrip s = s := by
  unfold lstrip
  cases s with
  | nil => rfl
  | cons c t =>
    have : isSpace c = false := by simpa [startsWithPySpace] using h
    simp [this]

theorem ws_space : isSpace ' ' = true := by decide
theorem ws_cr : isSpace '\r' = true := by decide
theorem ws_lf : isSpace '\n' = true := by decide

theorem eol_ws : ∀ c ∈ END_OF_LINE, isSpace c = true := by
  intro c hc
  simp [END_OF_LINE] at hc
  rcases hc with rfl | rfl
  · exact ws_cr
  · exact ws_lf

theorem lstrip_cons_space (s : Str) : lstrip (' ' :: s) = lstrip s := by
  unfold lstrip
  rw [List.dropWhile_cons, ws_space]; rfl

theorem strip_id (s : Str) (h1 : startsWithPySpace s = false) (h2 : endsWithPySpace s = false) :
    strip s = s := by
  unfold strip
  rw [rstrip_of_last s h2, lstrip_of_head s h1]

theorem getLast?_append_ne_nil (a b : Str) (hb : b ≠ []) : (a ++ b).getLast? = b.getLast? := by
  induction a with
  | nil => rfl
  | cons x t ih =>
    cases hab : t ++ b with
    | nil => simp at hab; exact absurd hab.2 hb
    | cons y r =>
      rw [List.cons_append, hab, List.getLast?_cons_cons, ← hab, ih]

theorem endsWithPySpace_append (a b : Str) (hb : b ≠ []) :
    endsWithPySpace (a ++ b) = endsWithPySpace b := by
  unfold endsWithPySpace
  rw [getLast?_append_ne_nil a b hb]

theorem startsWithPySpace_append (a b : Str) (ha : a ≠ []) :
    startsWithPySpace (a ++ b) = startsWithPySpace a := by
  cases a with
  | nil => exact absurd rfl ha
  | cons c t => rfl

/-! ### partition -/

theorem partSpace_append (v r : Str) (h : ' ' ∉ v) : partitionSpace (v ++ ' ' :: r) = (v, r) := by
  induction v with
  | nil => simp [partitionSpace]
  | cons c t ih =>
    simp only [List.mem_cons, not_or] at h
    simp only [List.cons_append, partitionSpace]
    rw [if_neg (fun e => h.1 e.symm), ih h.2]

theorem partSpace_nosep (v : Str) (h : ' ' ∉ v) : partitionSpace v = (v, []) := by
  induction v with
  | nil => rfl
  | cons c t ih =>
    simp only [List.mem_cons, not_or] at h
    simp only [partitionSpace]
    rw [if_neg (fun e => h.1 e.symm), ih h.2]

theorem partitionCh_append (ch : Char) (k v : Str) (h : ch ∉ k) :
    partitionCh ch (k ++ ch :: v) = (k, true, v) := by
  induction k with
  | nil => simp [partitionCh]
  | cons c t ih =>
    simp only [List.mem_cons, not_or] at h
    simp only [List.cons_append, partitionCh]
    rw [if_neg (fun e => h.1 e.symm), ih h.2]

/-! ### valid names -/

theorem ValidName.ne_nil {n : Str} (h : ValidName n) : n ≠ [] := h.1
theorem ValidName.noSlash {n : Str} (h : ValidName n) : '/' ∉ n := h.2.2.2.1
theorem ValidName.lastOK {n : Str} (h : ValidName n) : endsWithPySpace n = false := h.2.2.2.2.2.2.2
theorem ValidName.good {n : Str} (h : ValidName n) : GoodName n := ⟨h.1, h.2.1, h.2.2.1, h.noSlash⟩
theorem ValidName.partOK {n : Str} (h : ValidName n) : PartOK n := h.good.partOK

theorem parse_relpath (ps : List Str) (hne : ps ≠ []) (h : ∀ p ∈ ps, PartOK p) :
    PPath.parse (joinWith '/' ps) = ⟨0, ps⟩ := by
  have := parse_str_rel ps h
  have hs : PPath.str ⟨0, ps⟩ = joinWith '/' ps := by
    cases ps with
    | nil => exact absurd rfl hne
    | cons x t => simp [PPath.str, rootStr]
  rwa [hs] at this

theorem str_relpath (ps : List Str) (hne : ps ≠ []) : PPath.str ⟨0, ps⟩ = joinWith '/' ps := by
  cases ps with
  | nil => exact absurd rfl hne
  | cons x t => simp [PPath.str, rootStr]

theorem parse_name {n : Str} (h : ValidName n) : PPath.parse n = ⟨0, [n]⟩ := by
  have := parse_relpath [n] (by simp) (by intro p hp; simp at hp; subst hp; exact h.partOK)
  simpa [joinWith] using this

/-- `str(PurePosixPath(n)) = n` for a name -/
theorem clientArg_name (typed : Bool) {n : Str} (h : ValidName n) : clientArg typed n = n := by
  unfold clientArg
  cases typed with
  | false => rfl
  | true => simp [parse_name h, PPath.str, rootStr, joinWith]

theorem clientArg_relpath (typed : Bool) (ps : List Str) (hne : ps ≠ []) (h : ∀ p ∈ ps, ValidName p) :
    clientArg typed (joinWith '/' ps) = joinWith '/' ps := by
  unfold clientArg
  cases typed with
  | false => rfl
  | true =>
    simp only [if_true]
    rw [parse_relpath ps hne (fun p hp => (h p hp).partOK), str_relpath ps hne]

theorem joinWith_getLast (ch : Char) (ps : List Str) (last : Str) (hl : last ≠ []) :
    (joinWith ch (ps ++ [last])).getLast? = last.getLast? := by
  induction ps with
  | nil => simp [joinWith]
  | cons x t ih =>
    cases ht : t ++ [last] with
    | nil => simp at ht
    | cons y r =>
      simp only [List.cons_append, ht, joinWith]
      rw [← ht]
      have hne : joinWith ch (t ++ [last]) ≠ [] := by
        intro he
        have := ih
        rw [he] at this
        cases last with
        | nil => exact hl rfl
        | cons a b =>
          have h2 : (a :: b).getLast? ≠ none := by
            intro hn
            exact absurd (List.getLast?_eq_none_iff.mp hn) (by simp)
          exact h2 this.symm
      rw [show x ++ ch :: joinWith ch (t ++ [last]) = (x ++ [ch]) ++ joinWith ch (t ++ [last]) by simp]
      rw [getLast?_append_ne_nil _ _ hne, ih]

/-! ### commands: client line → server `parse_command` -/

theorem srvParseCommand_wire (v arg : Str) (hv : ' ' ∉ v) (hl : endsWithPySpace (v ++ ' ' :: arg) = false) :
    srvParseCommand (wireLine (v ++ ' ' :: arg)) = (lower v, arg) := by
  unfold srvParseCommand wireLine
  rw [rstrip_append_ws _ _ eol_ws hl]
  simp only [partSpace_append v arg hv]

/-- what the translator's table entries must satisfy (checked by `decide` on the generated table):
    the prefix is a non-empty verb without blanks, not starting with whitespace, plus one space -/
def SiteOK (pre : Str) : Prop :=
  pre = pre.dropLast ++ [' '] ∧ ' ' ∉ pre.dropLast ∧ pre.dropLast ≠ [] ∧ startsWithPySpace pre = false

instance (pre : Str) : Decidable (SiteOK pre) := by unfold SiteOK; exact inferInstance

theorem clientCmd_eq (pre : Str) (st : Bool) (arg : Str) (hp : SiteOK pre) (harg : arg ≠ [])
    (hl : endsWithPySpace arg = false) : clientCmd pre st arg = pre.dropLast ++ ' ' :: arg := by
  obtain ⟨h1, _, h3, h4⟩ := hp
  have hpre : pre ≠ [] := by intro e; rw [e] at h3; exact h3 rfl
  have e : pre ++ arg = pre.dropLast ++ ' ' :: arg := by
    conv => lhs; rw [h1]
    simp
  unfold clientCmd
  cases st with
  | false => simpa using e
  | true =>
    simp only [if_true]
    rw [strip_id (pre ++ arg) (by rw [startsWithPySpace_append _ _ hpre]; exact h4)
      (by rw [endsWithPySpace_append _ _ harg]; exact hl)]
    exact e

theorem cmd_parse (pre : Str) (st : Bool) (arg : Str) (hp : SiteOK pre) (harg : arg ≠ [])
    (hl : endsWithPySpace arg = false) :
    srvParseCommand (wireLine (clientCmd pre st arg)) = (lower pre.dropLast, arg) := by
  rw [clientCmd_eq pre st arg hp harg hl]
  apply srvParseCommand_wire _ _ hp.2.1
  rw [show pre.dropLast ++ ' ' :: arg = (pre.dropLast ++ [' ']) ++ arg by simp]
  rw [endsWithPySpace_append _ _ harg]; exact hl

/-! ### a relative path made of names, as an argument -/

theorem joinWith_ne_nil (ch : Char) (ps : List Str) (hne : ps ≠ []) (h : ∀ p ∈ ps, p ≠ []) :
    joinWith ch ps ≠ [] := by
  cases ps with
  | nil => exact absurd rfl hne
  | cons x t =>
    have hx := h x (by simp)
    cases t with
    | nil => simpa [joinWith] using hx
    | cons y r => simp [joinWith, hx]

theorem relpath_lastOK (ps : List Str) (hne : ps ≠ []) (h : ∀ p ∈ ps, ValidName p) :
    endsWithPySpace (joinWith '/' ps) = false := by
  obtain ⟨init, last, rfl⟩ : ∃ i l, ps = i ++ [l] := by
    refine ⟨ps.dropLast, ps.getLast hne, ?_⟩
    exact (List.dropLast_concat_getLast hne).symm
  have hl := h last (by simp)
  unfold endsWithPySpace
  rw [joinWith_getLast '/' init last hl.ne_nil]
  exact hl.lastOK

theorem foldl_walkSeg_names (ps pos : List Str) (h : ∀ p ∈ ps, GoodName p) :
    ps.foldl walkSeg pos = pos ++ ps := by
  induction ps generalizing pos with
  | nil => simp
  | cons x t ih =>
    obtain ⟨a, b, c, _⟩ := h x (by simp)
    have : walkSeg pos x = pos ++ [x] := by
      unfold walkSeg
      rw [if_neg (by intro hh; rcases hh with hh | hh; exact a hh; exact b hh), if_neg c]
    rw [List.foldl_cons, this, ih _ (fun p hp => h p (by simp [hp]))]
    simp

theorem walk_relpath (cwd ps : List Str) (hne : ps ≠ []) (h : ∀ p ∈ ps, GoodName p) :
    walk cwd (joinWith '/' ps) = cwd ++ ps := by
  unfold walk
  rw [splitOn_joinWith '/' ps hne (fun p hp => (h p hp).2.2.2)]
  have hstart : walkStart cwd (joinWith '/' ps) = cwd := by
    cases ps with
    | nil => exact absurd rfl hne
    | cons x t =>
      have hx := h x (by simp)
      have := joinWith_head_ne_sep '/' x t hx.1 hx.2.2.2
      unfold walkStart
      split
      · rename_i r heq; exact absurd rfl (this _ _ heq)
      · rfl
  rw [hstart, foldl_walkSeg_names ps cwd h]

/-- `get_paths` on a relative path of names: exactly cwd/p₁/…/pₖ below the base -/
theorem getPaths_relpath (base cwd : PPath) (ps : List Str) (hroot : cwd.root = 1)
    (hc : ∀ x ∈ cwd.parts, GoodName x) (hne : ps ≠ []) (h : ∀ p ∈ ps, GoodName p) :
    getPaths base cwd (joinWith '/' ps) =
      (⟨base.root, base.parts ++ (cwd.parts ++ ps)⟩, ⟨1, cwd.parts ++ ps⟩) := by
  unfold getPaths
  rw [getPathsP_eq base cwd _ (fun x hx => (hc x hx).partOK) (parse_parts_ok _)]
  rw [resolvedTail_eq_walk cwd _ hroot (fun p hp => (hc p hp).2.2.1), walk_relpath _ _ hne h]

theorem getPaths_name (base cwd : PPath) (n : Str) (hroot : cwd.root = 1)
    (hc : ∀ x ∈ cwd.parts, GoodName x) (h : GoodName n) :
    getPaths base cwd n =
      (⟨base.root, base.parts ++ (cwd.parts ++ [n])⟩, ⟨1, cwd.parts ++ [n]⟩) := by
  have := getPaths_relpath base cwd [n] hroot hc (by simp) (by intro p hp; simp at hp; subst hp; exact h)
  simpa [joinWith] using this

/-! ### PWD -/

theorem parse_str_abs (ps : List Str) (h : ∀ p ∈ ps, PartOK p) :
    PPath.parse (PPath.str ⟨1, ps⟩) = ⟨1, ps⟩ := by
  have hs : PPath.str ⟨1, ps⟩ = '/' :: joinWith '/' ps := by
    simp [PPath.str, rootStr]
  rw [hs]
  cases ps with
  | nil => simp [joinWith, PPath.parse, splitroot, splitOn, keepPart]
  | cons x t =>
    have hx := h x (by simp)
    have hne : joinWith '/' (x :: t) ≠ [] := joinWith_ne_nil '/' _ (by simp) (fun p hp => (h p hp).1)
    have hhead := joinWith_head_ne_sep '/' x t hx.1 hx.2.2
    have hroot : splitroot ('/' :: joinWith '/' (x :: t)) = (1, joinWith '/' (x :: t)) := by
      cases hj : joinWith '/' (x :: t) with
      | nil => exact absurd hj hne
      | cons c r =>
        have hc : c ≠ '/' := hhead c r hj
        unfold splitroot
        split
        · rename_i heq; simp at heq; exact absurd heq.1 hc
        · rename_i heq; simp at heq; exact absurd heq.1 hc
        · rename_i heq; simp at heq; rw [← heq]
        · rename_i h3; exact absurd rfl (h3 _)
    unfold PPath.parse
    rw [hroot]
    simp only
    rw [splitOn_joinWith '/' (x :: t) (by simp) (fun p hp => (h p hp).2.2), filter_keepPart_ok _ h]

theorem replyRest_quoted (code body : Str) (hc : code.length = 3) :
    replyRest code (['"'] ++ body ++ ['"']) = ' ' :: (['"'] ++ body ++ ['"']) := by
  unfold replyRest
  have e : code ++ ' ' :: (['"'] ++ body ++ ['"']) ++ END_OF_LINE =
      (code ++ ' ' :: '"' :: body ++ ['"']) ++ END_OF_LINE := by simp
  rw [e, rstrip_append_ws _ _ eol_ws]
  · rw [show code ++ ' ' :: '"' :: body ++ ['"'] = code ++ (' ' :: '"' :: body ++ ['"']) by simp]
    rw [List.drop_left' hc]
    simp
  · rw [endsWithPySpace_append _ _ (by simp)]
    decide

/-- the body of a quoted directory, quotes doubled, followed by the closing quote, decodes to the body —
    for EVERY body -/
theorem pdrLoop_body (body dir : Str) :
    pdrLoop (doubleQuotes body ++ ['"']) true false dir = dir ++ body := by
  induction body generalizing dir with
  | nil => simp [doubleQuotes, pdrLoop]
  | cons c t ih =>
    by_cases hc : c = '"'
    · subst hc
      have e : doubleQuotes ('"' :: t) ++ ['"'] = '"' :: '"' :: (doubleQuotes t ++ ['"']) := by
        simp [doubleQuotes]
      rw [e]
      simp only [pdrLoop, Bool.not_true, Bool.false_eq_true, ↓reduceIte, ne_eq, not_true_eq_false]
      rw [ih]; simp
    · have e : doubleQuotes (c :: t) ++ ['"'] = c :: (doubleQuotes t ++ ['"']) := by
        simp [doubleQuotes, hc]
      rw [e]
      simp only [pdrLoop, Bool.not_true, Bool.false_eq_true, ↓reduceIte, hc]
      rw [ih]; simp

theorem pdrLoop_quoted (body : Str) :
    pdrLoop (' ' :: (['"'] ++ doubleQuotes body ++ ['"'])) false false [] = body := by
  have e : ' ' :: (['"'] ++ doubleQuotes body ++ ['"']) = ' ' :: '"' :: (doubleQuotes body ++ ['"']) := by simp
  rw [e]
  have h1 : pdrLoop (' ' :: '"' :: (doubleQuotes body ++ ['"'])) false false [] =
      pdrLoop (doubleQuotes body ++ ['"']) true false [] := by
    simp [pdrLoop]
  rw [h1, pdrLoop_body]; simp

/-- the server doubles the quotes now (read off the source) -/
theorem pwd_doubles : Generated.pwdDoublesQuotes = true := by decide

/-- PWD round trip for EVERY normal absolute cwd, quotes in its names included -/
theorem pwd_roundtrip_all (ps : List Str) (h : ∀ p ∈ ps, PartOK p) :
    pwdSeenByClient ⟨1, ps⟩ = ⟨1, ps⟩ := by
  unfold pwdSeenByClient fmtPwd parseDirectoryResponse
  rw [if_pos pwd_doubles, replyRest_quoted _ _ (by rfl), pdrLoop_quoted, parse_str_abs ps h]

/-! ### MLSx -/

/-- one fact as the server writes it -/
def factStr (kv : Str × Str) : Str := kv.1 ++ '=' :: kv.2
def factEnc (kv : Str × Str) : Str := kv.1 ++ '=' :: kv.2 ++ [';']

theorem foldl_facts (facts : List (Str × Str)) (acc : Str) :
    facts.foldl (fun s kv => s ++ (kv.1 ++ '=' :: kv.2 ++ [';'])) acc = acc ++ facts.flatMap factEnc := by
  induction facts generalizing acc with
  | nil => simp
  | cons kv t ih =>
    rw [List.foldl_cons, ih, List.flatMap_cons]
    simp [factEnc]

theorem buildMlsxString_eq (facts : List (Str × Str)) (name : Str) :
    buildMlsxString facts name = facts.flatMap factEnc ++ ' ' :: name := by
  unfold buildMlsxString
  rw [foldl_facts]; simp

theorem flatMap_factEnc (facts : List (Str × Str)) (hne : facts ≠ []) :
    facts.flatMap factEnc = joinWith ';' (facts.map factStr) ++ [';'] := by
  induction facts with
  | nil => exact absurd rfl hne
  | cons kv t ih =>
    cases t with
    | nil => simp [factEnc, factStr, joinWith]
    | cons kv2 r =>
      rw [List.flatMap_cons, ih (by simp)]
      simp [factEnc, factStr, joinWith]

/-- facts the line format can carry: keys without `=`, `;`, blank; values without `;`, blank -/
def FactsOK (facts : List (Str × Str)) : Prop :=
  ∀ kv ∈ facts, ' ' ∉ kv.1 ∧ ';' ∉ kv.1 ∧ '=' ∉ kv.1 ∧ ' ' ∉ kv.2 ∧ ';' ∉ kv.2

theorem space_notin_facts (facts : List (Str × Str)) (h : FactsOK facts) : ' ' ∉ facts.flatMap factEnc := by
  intro hm
  rw [List.mem_flatMap] at hm
  obtain ⟨kv, hkv, hc⟩ := hm
  obtain ⟨a, _, _, d, _⟩ := h kv hkv
  simp only [factEnc, List.mem_append, List.mem_cons] at hc
  rcases hc with (hc | hc | hc) | hc | hc
  · exact a hc
  · exact absurd hc (by decide)
  · exact d hc
  · exact absurd hc (by decide)
  · simp at hc

theorem dictSet_fresh (d : List (Str × Str)) (k v : Str) (h : ∀ p ∈ d, p.1 ≠ k) :
    dictSet d k v = d ++ [(k, v)] := by
  unfold dictSet
  rw [if_neg]
  simp only [List.any_eq_true, decide_eq_true_eq, not_exists, not_and]
  exact fun p hp => h p hp

theorem foldl_dictSet (facts acc : List (Str × Str))
    (hfresh : ∀ kv ∈ facts, ∀ p ∈ acc, p.1 ≠ lower kv.1)
    (hnd : (facts.map (fun kv => lower kv.1)).Nodup) :
    facts.foldl (fun e kv => dictSet e (lower kv.1) kv.2) acc
      = acc ++ facts.map (fun kv => (lower kv.1, kv.2)) := by
  induction facts generalizing acc with
  | nil => simp
  | cons kv t ih =>
    rw [List.foldl_cons, dictSet_fresh _ _ _ (hfresh kv (by simp))]
    rw [List.map_cons, List.nodup_cons] at hnd
    rw [ih]
    · simp
    · intro kv' hkv' p hp
      rcases List.mem_append.mp hp with hp | hp
      · exact hfresh kv' (by simp [hkv']) p hp
      · simp at hp; subst hp
        intro e
        simp only at e
        exact hnd.1 (by rw [e]; exact List.mem_map.mpr ⟨kv', hkv', rfl⟩)
    · exact hnd.2

theorem foldl_congr_mem {α β} (f g : β → α → β) (l : List α) (a : β)
    (h : ∀ acc, ∀ x ∈ l, f acc x = g acc x) : l.foldl f a = l.foldl g a := by
  induction l generalizing a with
  | nil => rfl
  | cons x t ih =>
    rw [List.foldl_cons, List.foldl_cons, h a x (by simp), ih _ (fun acc y hy => h acc y (by simp [hy]))]

theorem parseMlsx_entry (facts : List (Str × Str)) (hne : facts ≠ []) (h : FactsOK facts)
    (hnd : (facts.map (fun kv => lower kv.1)).Nodup) :
    (splitOn ';' (facts.flatMap factEnc).dropLast).foldl
      (fun e fact =>
        let (key, _, value) := partitionCh '=' fact
        dictSet e (lower key) value) []
      = facts.map (fun kv => (lower kv.1, kv.2)) := by
  rw [flatMap_factEnc facts hne, List.dropLast_concat]
  rw [splitOn_joinWith ';' _ (by simpa using hne)]
  · rw [List.foldl_map]
    rw [foldl_congr_mem _ (fun e kv => dictSet e (lower kv.1) kv.2) facts []]
    · have := foldl_dictSet facts [] (by simp) hnd
      simpa using this
    · intro acc kv hkv
      simp only [factStr]
      rw [partitionCh_append '=' kv.1 kv.2 (h kv hkv).2.2.1]
  · intro p hp
    rw [List.mem_map] at hp
    obtain ⟨kv, hkv, rfl⟩ := hp
    obtain ⟨_, b, _, _, e⟩ := h kv hkv
    simp only [factStr, List.mem_append, List.mem_cons, not_or]
    exact ⟨b, by decide, e⟩

theorem build_lastOK (facts : List (Str × Str)) {n : Str} (hn : ValidName n) :
    endsWithPySpace (buildMlsxString facts n) = false := by
  rw [buildMlsxString_eq]
  rw [show facts.flatMap factEnc ++ ' ' :: n = (facts.flatMap factEnc ++ [' ']) ++ n by simp]
  rw [endsWithPySpace_append _ _ hn.ne_nil]; exact hn.lastOK

/-- the name comes back from an MLSx line, whatever follows it as line terminator -/
theorem parseMlsxLine_build (facts : List (Str × Str)) (n w : Str) (hw : ∀ c ∈ w, isSpace c = true)
    (h : FactsOK facts) (hn : ValidName n) :
    parseMlsxLine (buildMlsxString facts n ++ w) =
      (⟨0, [n]⟩, (splitOn ';' (facts.flatMap factEnc).dropLast).foldl
        (fun e fact =>
          let (key, _, value) := partitionCh '=' fact
          dictSet e (lower key) value) []) := by
  unfold parseMlsxLine
  rw [rstrip_append_ws _ _ hw (build_lastOK facts hn), buildMlsxString_eq]
  simp only [partSpace_append _ n (space_notin_facts facts h), parse_name hn]

theorem mlstInfoLine_id (s : Str) (h1 : startsWithPySpace s = false) (h2 : endsWithPySpace s = false)
    (hne : s ≠ []) : mlstInfoLine s = s := by
  unfold mlstInfoLine
  have e : ' ' :: s ++ END_OF_LINE = (' ' :: s) ++ END_OF_LINE := rfl
  have hl : endsWithPySpace (' ' :: s) = false := by
    rw [show ' ' :: s = [' '] ++ s from rfl, endsWithPySpace_append _ _ hne]; exact h2
  simp only
  rw [rstrip_append_ws _ _ eol_ws hl, List.take_append_drop, lstrip_cons_space, lstrip_of_head s h1]

end Model.Names

namespace Model.ListingParse
open Py Py.StrErr Py.Utf8 Model.Names

/-! ### LIST -/

theorem ascii_digit_facts (c : Char) (h : c.isDigit = true) :
    isDigitCh c = true ∧ isSpace c = false ∧ c ≠ ' ' := by
  have hb : 48 ≤ c.toNat ∧ c.toNat ≤ 57 := by
    simp only [Char.isDigit, Bool.and_eq_true, decide_eq_true_eq] at h
    have h1 : '0'.val ≤ c.val := h.1
    have h2 : c.val ≤ '9'.val := h.2
    rw [UInt32.le_iff_toNat_le] at h1 h2
    exact ⟨h1, h2⟩
  have hcases : c.toNat = 48 ∨ c.toNat = 49 ∨ c.toNat = 50 ∨ c.toNat = 51 ∨ c.toNat = 52 ∨
      c.toNat = 53 ∨ c.toNat = 54 ∨ c.toNat = 55 ∨ c.toNat = 56 ∨ c.toNat = 57 := by omega
  refine ⟨?_, ?_, ?_⟩
  · unfold isDigitCh
    rcases hcases with e | e | e | e | e | e | e | e | e | e <;> rw [e] <;> decide
  · unfold isSpace
    rcases hcases with e | e | e | e | e | e | e | e | e | e <;> rw [e] <;> decide
  · intro e; rw [e] at hb; simp at hb

theorem natToStr_facts (k : Nat) :
    natToStr k ≠ [] ∧ isDigit (natToStr k) = true ∧ ' ' ∉ natToStr k ∧
      startsWithPySpace (natToStr k) = false := by
  have hrepr : natToStr k = Nat.toDigits 10 k := by
    unfold natToStr
    rw [Nat.toString_eq_repr, Nat.toList_repr]
  have hall : ∀ c ∈ natToStr k, c.isDigit = true := by
    intro c hc; rw [hrepr] at hc
    exact Nat.isDigit_of_mem_toDigits (by decide) (by decide) hc
  have hne : natToStr k ≠ [] := by rw [hrepr]; exact Nat.toDigits_ne_nil
  refine ⟨hne, ?_, ?_, ?_⟩
  · unfold isDigit
    simp only [Bool.and_eq_true, Bool.not_eq_true', List.all_eq_true]
    refine ⟨?_, fun c hc => (ascii_digit_facts c (hall c hc)).1⟩
    cases h : natToStr k with
    | nil => exact absurd h hne
    | cons a b => rfl
  · intro hm; exact (ascii_digit_facts _ (hall _ hm)).2.2 rfl
  · cases h : natToStr k with
    | nil => exact absurd h hne
    | cons a b =>
      simp only [startsWithPySpace]
      exact (ascii_digit_facts a (hall a (by rw [h]; simp))).2.1

theorem indexOf?_append (ch : Char) (f rest : Str) (h : ch ∉ f) :
    indexOf? ch (f ++ ch :: rest) = some f.length := by
  induction f with
  | nil => simp [indexOf?]
  | cons c t ih =>
    simp only [List.mem_cons, not_or] at h
    simp only [List.cons_append, indexOf?]
    rw [if_neg (fun e => h.1 e.symm), ih h.2]
    simp

theorem takeField_spec (f rest : Str) (h : ' ' ∉ f) :
    takeField (f ++ ' ' :: rest) = .ok (f, ' ' :: rest) := by
  unfold takeField index
  rw [indexOf?_append ' ' f rest h]
  simp [bind, Except.bind, pure, Except.pure]

/-- `lstrip` of what follows a field: one blank, then something that does not start with whitespace -/
theorem lstrip_sep (s : Str) (h : startsWithPySpace s = false) : lstrip (' ' :: s) = s := by
  rw [lstrip_cons_space, lstrip_of_head s h]

theorem typeOfChar_ne_link (c : Char) (h : c ≠ 'l') : typeOfChar c ≠ "link".toList := by
  unfold typeOfChar
  split
  · decide
  · split
    · decide
    · decide

theorem none_facts : ' ' ∉ "none".toList ∧ startsWithPySpace ("none".toList) = false := by decide

/-- the line the server writes, bracketed so that every field is followed by one blank -/
theorem buildListString_eq (fm : Str) (nlink size : Nat) (mtime n : Str) :
    buildListString fm nlink size mtime n =
      fm ++ ' ' :: (natToStr nlink ++ ' ' :: ("none".toList ++ ' ' :: ("none".toList ++ ' ' ::
        (natToStr size ++ ' ' :: (mtime ++ ' ' :: n))))) := by
  simp [buildListString, joinWith]

theorem parseListLineUnixStr_build (lsDate : Str → Except PyErr Str) (c0 : Char) (perms : Str)
    (m nlink size : Nat) (mtime d n w : Str)
    (hp : perms.length = 9) (hm : parseUnixMode perms = .ok m) (hc0 : c0 ≠ 'l')
    (hmt : mtime.length = 12) (hms : startsWithPySpace mtime = false)
    (hd : lsDate (strip mtime) = .ok d)
    (hn : ValidName n) (hns : startsWithPySpace n = false) (hw : ∀ c ∈ w, isSpace c = true) :
    parseListLineUnixStr lsDate (buildListString (c0 :: perms) nlink size mtime n ++ w) =
      .ok (⟨0, [n]⟩,
        [("type".toList, typeOfChar c0), ("unix.mode".toList, natToStr m),
         ("unix.links".toList, natToStr nlink), ("unix.owner".toList, "none".toList),
         ("unix.group".toList, "none".toList), ("size".toList, natToStr size),
         ("modify".toList, d)]) := by
  obtain ⟨hLne, hLd, hLs, hLh⟩ := natToStr_facts nlink
  obtain ⟨hSne, hSd, hSs, hSh⟩ := natToStr_facts size
  obtain ⟨hNs, hNh⟩ := none_facts
  have hmne : mtime ≠ [] := by intro e; rw [e] at hmt; simp at hmt
  rw [buildListString_eq]
  generalize hL : natToStr nlink = L at *
  generalize hS : natToStr size = S at *
  generalize hN : "none".toList = N at hNs hNh ⊢
  -- the tails after each field
  let t5 := mtime ++ ' ' :: n
  let t4 := S ++ ' ' :: t5
  let t3 := N ++ ' ' :: t4
  let t2 := N ++ ' ' :: t3
  let t1 := L ++ ' ' :: t2
  have hline : (c0 :: perms) ++ ' ' :: (L ++ ' ' :: (N ++ ' ' :: (N ++ ' ' :: (S ++ ' ' :: (mtime ++ ' ' :: n)))))
      = c0 :: (perms ++ ' ' :: t1) := by simp [t1, t2, t3, t4, t5]
  rw [hline]
  have hlast : endsWithPySpace (c0 :: (perms ++ ' ' :: t1)) = false := by
    have : c0 :: (perms ++ ' ' :: t1) =
        (c0 :: (perms ++ ' ' :: (L ++ ' ' :: (N ++ ' ' :: (N ++ ' ' :: (S ++ ' ' :: (mtime ++ [' '])))))))
          ++ n := by simp [t1, t2, t3, t4, t5]
    rw [this, endsWithPySpace_append _ _ hn.ne_nil]; exact hn.lastOK
  unfold parseListLineUnixStr
  rw [rstrip_append_ws _ _ hw hlast]
  have hget : getIdx (c0 :: (perms ++ ' ' :: t1)) 0 = .ok c0 := by simp [getIdx]
  have hslice : slice (c0 :: (perms ++ ' ' :: t1)) 1 10 = perms := by
    simp only [slice, List.drop_succ_cons, List.drop_zero]
    exact List.take_left' hp
  have hdrop : (c0 :: (perms ++ ' ' :: t1)).drop 10 = ' ' :: t1 := by
    rw [show (10 : Nat) = 9 + 1 from rfl, List.drop_succ_cons]
    exact List.drop_left' hp
  have h1 : lstrip (' ' :: t1) = t1 := lstrip_sep _ (by
    simp only [t1]; rw [startsWithPySpace_append _ _ hLne]; exact hLh)
  have f1 : takeField t1 = .ok (L, ' ' :: t2) := takeField_spec L t2 hLs
  have h2 : lstrip (' ' :: t2) = t2 := lstrip_sep _ (by
    simp only [t2]; rw [startsWithPySpace_append _ _ (by rw [← hN]; decide)]; exact hNh)
  have f2 : takeField t2 = .ok (N, ' ' :: t3) := takeField_spec N t3 hNs
  have h3 : lstrip (' ' :: t3) = t3 := lstrip_sep _ (by
    simp only [t3]; rw [startsWithPySpace_append _ _ (by rw [← hN]; decide)]; exact hNh)
  have f3 : takeField t3 = .ok (N, ' ' :: t4) := takeField_spec N t4 hNs
  have h4 : lstrip (' ' :: t4) = t4 := lstrip_sep _ (by
    simp only [t4]; rw [startsWithPySpace_append _ _ hSne]; exact hSh)
  have f4 : takeField t4 = .ok (S, ' ' :: t5) := takeField_spec S t5 hSs
  have h5 : lstrip (' ' :: t5) = t5 := lstrip_sep _ (by
    simp only [t5]; rw [startsWithPySpace_append _ _ hmne]; exact hms)
  have htake : t5.take 12 = mtime := List.take_left' hmt
  have hdrop5 : t5.drop 12 = ' ' :: n := List.drop_left' hmt
  have hname : strip (' ' :: n) = n := by
    unfold strip
    rw [rstrip_of_last _ (by
      rw [show ' ' :: n = [' '] ++ n from rfl, endsWithPySpace_append _ _ hn.ne_nil]; exact hn.lastOK)]
    exact lstrip_sep n hns
  have hty := typeOfChar_ne_link c0 hc0
  simp only [hget, hslice, hm, hdrop, h1, f1, hLd, h2, f2, h3, f3, h4, f4, hSd, h5, htake, hd, hdrop5,
    hname, bind, Except.bind, pure, Except.pure, hty, parse_name hn, Bool.not_true, Bool.false_eq_true,
    ↓reduceIte]

end Model.ListingParse
