/-
  Invariants of the reply-queue model.  Core Lean only.
-/
import AioftpModel.Model.ReplyQueue

namespace Model.ReplyQueue

/-- what the repaired shape keeps: the count is exact, and a dead writer leaves nothing behind -/
structure Inv (s : St) : Prop where
  exact : Exact s
  dead  : s.writerAlive = false → s.queued = 0 ∧ s.inWrite = false

theorem init_inv : Inv init := ⟨by simp [Exact, init], by simp [init]⟩

theorem step_inv (f : Facts) (hf : f.finishes = true) (hd : f.drains = true) (hs : f.skips = true)
    (s : St) (e : Ev) (h : Inv s) : Inv (step f s e) := by
  obtain ⟨h1, h2⟩ := h
  unfold Exact at h1
  cases e with
  | put =>
    cases ha : s.writerAlive with
    | false =>
      have : step f s .put = s := by simp [step, hs, ha]
      rw [this]; exact ⟨h1, h2⟩
    | true =>
      refine ⟨?_, ?_⟩
      · simp [step, hs, ha, Exact]; omega
      · simp [step, hs, ha]
  | take =>
    by_cases hc : (s.writerAlive && !s.inWrite && decide (0 < s.queued)) = true
    · simp only [Bool.and_eq_true, Bool.not_eq_true', decide_eq_true_eq] at hc
      obtain ⟨⟨ha, hi⟩, hq⟩ := hc
      refine ⟨?_, ?_⟩
      · simp [step, ha, hi, hq, Exact] at h1 ⊢; omega
      · simp [step, ha, hi, hq]
    · have : step f s .take = s := by simp only [step, hc]; simp
      rw [this]; exact ⟨h1, h2⟩
  | writeOk =>
    cases hi : s.inWrite with
    | false =>
      have : step f s .writeOk = s := by simp [step, hi]
      rw [this]; exact ⟨h1, h2⟩
    | true =>
      have ha : s.writerAlive = true := by
        cases hw : s.writerAlive with
        | true => rfl
        | false => have := (h2 hw).2; rw [hi] at this; cases this
      refine ⟨?_, ?_⟩
      · simp [step, hi, Exact] at h1 ⊢; omega
      · simp [step, hi, ha]
  | writeFail =>
    cases hi : s.inWrite with
    | false =>
      have : step f s .writeFail = s := by simp [step, hi]
      rw [this]; exact ⟨h1, h2⟩
    | true =>
      refine ⟨?_, ?_⟩
      · simp [step, hi, hf, hd, Exact] at h1 ⊢; omega
      · simp [step, hi, hf, hd]

theorem run_inv (f : Facts) (hf : f.finishes = true) (hd : f.drains = true) (hs : f.skips = true)
    (s : St) (evs : List Ev) (h : Inv s) : Inv (run f s evs) := by
  induction evs generalizing s with
  | nil => exact h
  | cons e t ih => simp only [run, List.foldl_cons] at ih ⊢; exact ih _ (step_inv f hf hd hs s e h)

end Model.ReplyQueue
