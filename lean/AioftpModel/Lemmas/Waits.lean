/- Once the caller has left `wait()`, no wait of its is asleep - when the source cancels them. -/
import AioftpModel.Model.Waits

namespace Model.Waits

def Inv (s : St) : Prop := s.left = true → ∀ b ∈ s.pending, b = false

theorem set_false_all {l : List Bool} (h : ∀ b ∈ l, b = false) (k : Nat) : ∀ b ∈ l.set k false, b = false := by
  intro b hb
  rcases List.mem_or_eq_of_mem_set hb with h1 | h1
  · exact h b h1
  · exact h1

theorem step_inv (s : St) (e : Ev) (h : Inv s) : Inv (step true s e) := by
  cases e with
  | finish k =>
    intro hl
    exact set_false_all (h hl) k
  | cancel =>
    show Inv (if s.left then s else { s with cancelled := true })
    by_cases hl : s.left = true
    · rw [if_pos hl]; exact h
    · rw [if_neg hl]; intro hl2; exact absurd hl2 hl
  | resume =>
    show Inv (if s.left then s else if s.cancelled || s.pending.all (· == false) then
      { s with left := true, pending := if true then s.pending.map (fun _ => false) else s.pending } else s)
    by_cases hl : s.left = true
    · rw [if_pos hl]; exact h
    · rw [if_neg hl]
      by_cases hc : (s.cancelled || s.pending.all (· == false)) = true
      · rw [if_pos hc]
        intro _ b hb
        simp only [↓reduceIte, List.mem_map] at hb
        obtain ⟨_, _, rfl⟩ := hb
        rfl
      · rw [if_neg hc]; exact h

theorem run_inv (evs : List Ev) : ∀ (s : St), Inv s → Inv (run true s evs) := by
  induction evs with
  | nil => intro s h; exact h
  | cons e es ih => intro s h; exact ih _ (step_inv s e h)

theorem init_inv (n : Nat) : Inv (init n) := by intro h; cases h

end Model.Waits
