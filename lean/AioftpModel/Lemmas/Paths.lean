import AioftpModel.Model.Paths

namespace Model
open Py

/-! ### splitOn / joinWith -/

theorem splitOn_ne_nil (ch : Char) (s : Str) : splitOn ch s ≠ [] := by
  induction s with
  | nil => simp [splitOn]
  | cons c cs ih =>
    unfold splitOn
    split
    · simp
    · split <;> simp

theorem splitOn_no_sep (ch : Char) (s : Str) : ∀ seg ∈ splitOn ch s, ch ∉ seg := by
  induction s with
  | nil => intro seg h; simp [splitOn] at h; subst h; simp
  | cons c cs ih =>
    intro seg h
    unfold splitOn at h
    split at h
    · rcases List.mem_cons.mp h with h | h
      · subst h; simp
      · exact ih seg h
    · rename_i hne
      split at h
      · simp at h; subst h; simp; exact fun e => hne e.symm
      · rename_i hd tl heq
        rcases List.mem_cons.mp h with h | h
        · subst h
          have : ch ∉ hd := ih hd (by rw [heq]; simp)
          simp only [List.mem_cons, not_or]
          exact ⟨fun e => hne e.symm, this⟩
        · exact ih seg (by rw [heq]; simp [h])

theorem splitOn_cons_sep (ch : Char) (s : Str) : splitOn ch (ch :: s) = [] :: splitOn ch s := by
  simp [splitOn]

theorem splitOn_nosep (ch : Char) (p : Str) (h : ch ∉ p) : splitOn ch p = [p] := by
  induction p with
  | nil => simp [splitOn]
  | cons c cs ih =>
    simp only [List.mem_cons, not_or] at h
    unfold splitOn
    rw [if_neg (fun e => h.1 e.symm), ih h.2]

theorem splitOn_cons_ne {ch c : Char} {cs hd : Str} {tl : List Str} (h : c ≠ ch)
    (heq : splitOn ch cs = hd :: tl) : splitOn ch (c :: cs) = (c :: hd) :: tl := by
  simp [splitOn, h, heq]

theorem splitOn_append_sep (ch : Char) (p rest : Str) (h : ch ∉ p) :
    splitOn ch (p ++ ch :: rest) = p :: splitOn ch rest := by
  induction p with
  | nil => simp [splitOn]
  | cons c cs ih =>
    simp only [List.mem_cons, not_or] at h
    simp only [List.cons_append]
    exact splitOn_cons_ne (fun e => h.1 e.symm) (ih h.2)

theorem splitOn_joinWith (ch : Char) (ps : List Str) (hne : ps ≠ [])
    (h : ∀ p ∈ ps, ch ∉ p) : splitOn ch (joinWith ch ps) = ps := by
  induction ps with
  | nil => exact absurd rfl hne
  | cons x t ih =>
    cases t with
    | nil => simp [joinWith]; exact splitOn_nosep ch x (h x (by simp))
    | cons y t' =>
      simp only [joinWith]
      rw [splitOn_append_sep ch x _ (h x (by simp))]
      rw [ih (by simp) (fun p hp => h p (by simp [hp]))]

/-! ### names -/

/-- what `_parse_path` lets through -/
def PartOK (p : Str) : Prop := p ≠ [] ∧ p ≠ ['.'] ∧ '/' ∉ p

/-- a real name: not empty, not `.`, not `..`, no slash -/
def GoodName (p : Str) : Prop := p ≠ [] ∧ p ≠ ['.'] ∧ p ≠ dotdot ∧ '/' ∉ p

theorem GoodName.partOK {p : Str} (h : GoodName p) : PartOK p := ⟨h.1, h.2.1, h.2.2.2⟩

theorem keepPart_iff (x : Str) : keepPart x = true ↔ (x ≠ [] ∧ x ≠ ['.']) := by
  unfold keepPart
  cases x with
  | nil => simp
  | cons c cs => simp

theorem parse_parts_ok (s : Str) : ∀ p ∈ (PPath.parse s).parts, PartOK p := by
  intro p hp
  unfold PPath.parse at hp
  rw [List.mem_filter] at hp
  obtain ⟨hmem, hk⟩ := hp
  have := (keepPart_iff p).mp hk
  exact ⟨this.1, this.2, splitOn_no_sep '/' _ p hmem⟩

theorem parse_root_le (s : Str) : (PPath.parse s).root ≤ 2 := by
  show (splitroot s).1 ≤ 2
  unfold splitroot
  split <;> simp

/-! ### the resolve loop -/

theorem foldl_resolveStep_mem (ps acc : List Str) :
    ∀ x ∈ ps.foldl resolveStep acc, (x ∈ acc ∨ (x ∈ ps ∧ x ≠ dotdot)) := by
  induction ps generalizing acc with
  | nil => intro x hx; exact Or.inl hx
  | cons p t ih =>
    intro x hx
    simp only [List.foldl_cons] at hx
    rcases ih _ x hx with h | h
    · unfold resolveStep at h
      split at h
      · exact Or.inl (List.dropLast_subset _ h)
      · rename_i hne
        rcases List.mem_append.mp h with h | h
        · exact Or.inl h
        · simp at h; subst h; exact Or.inr ⟨by simp, hne⟩
    · exact Or.inr ⟨by simp [h.1], h.2⟩

theorem resolveParts_mem (ps : List Str) : ∀ x ∈ resolveParts ps, x ∈ ps ∧ x ≠ dotdot := by
  intro x hx
  rcases foldl_resolveStep_mem ps [] x hx with h | h
  · simp at h
  · exact h

theorem resolveParts_good (ps : List Str) (h : ∀ p ∈ ps, PartOK p) :
    ∀ x ∈ resolveParts ps, GoodName x := by
  intro x hx
  obtain ⟨hm, hd⟩ := resolveParts_mem ps x hx
  obtain ⟨a, b, c⟩ := h x hm
  exact ⟨a, b, hd, c⟩

theorem foldl_resolveStep_nodd (ps acc : List Str) (h : ∀ p ∈ ps, p ≠ dotdot) :
    ps.foldl resolveStep acc = acc ++ ps := by
  induction ps generalizing acc with
  | nil => simp
  | cons p t ih =>
    simp only [List.foldl_cons]
    have hp : p ≠ dotdot := h p (by simp)
    rw [show resolveStep acc p = acc ++ [p] by simp [resolveStep, hp]]
    rw [ih _ (fun q hq => h q (by simp [hq]))]
    simp

theorem resolveParts_append (a b : List Str) :
    resolveParts (a ++ b) = b.foldl resolveStep (resolveParts a) := by
  simp [resolveParts, List.foldl_append]

/-- the walk over raw segments is the resolve loop over the filtered segments -/
theorem foldl_walkSeg_filter (l : List Str) (acc : List Str) :
    l.foldl walkSeg acc = (l.filter keepPart).foldl resolveStep acc := by
  induction l generalizing acc with
  | nil => rfl
  | cons x t ih =>
    simp only [List.foldl_cons, List.filter_cons]
    by_cases hk : keepPart x = true
    · rw [if_pos hk, List.foldl_cons, ← ih]
      have := (keepPart_iff x).mp hk
      congr 1
      unfold walkSeg resolveStep
      rw [if_neg (by intro h; rcases h with h | h; exact this.1 h; exact this.2 h)]
    · rw [if_neg hk, ← ih]
      congr 1
      have : x = [] ∨ x = ['.'] := by
        by_cases h1 : x = []
        · exact Or.inl h1
        · by_cases h2 : x = ['.']
          · exact Or.inr h2
          · exact absurd ((keepPart_iff x).mpr ⟨h1, h2⟩) hk
      unfold walkSeg
      rw [if_pos this]

/-! ### str / parse -/

theorem joinWith_head_ne_sep (ch : Char) (x : Str) (t : List Str) (hx : x ≠ []) (hno : ch ∉ x) :
    ∀ c r, joinWith ch (x :: t) = c :: r → c ≠ ch := by
  intro c r h
  cases x with
  | nil => exact absurd rfl hx
  | cons a as =>
    simp only [List.mem_cons, not_or] at hno
    cases t with
    | nil => simp [joinWith] at h; rw [← h.1]; exact fun e => hno.1 e.symm
    | cons y t' => simp [joinWith] at h; rw [← h.1]; exact fun e => hno.1 e.symm

theorem splitroot_rel (s : Str) (h : ∀ c r, s = c :: r → c ≠ '/') : splitroot s = (0, s) := by
  unfold splitroot
  split
  · exact absurd rfl (h _ _ rfl)
  · exact absurd rfl (h _ _ rfl)
  · exact absurd rfl (h _ _ rfl)
  · rfl

theorem filter_keepPart_ok (ps : List Str) (h : ∀ p ∈ ps, PartOK p) : ps.filter keepPart = ps := by
  apply List.filter_eq_self.mpr
  intro p hp
  exact (keepPart_iff p).mpr ⟨(h p hp).1, (h p hp).2.1⟩

/-- `PurePosixPath(str(p))` gives `p` back for a relative normal path -/
theorem parse_str_rel (ps : List Str) (h : ∀ p ∈ ps, PartOK p) :
    PPath.parse (PPath.str ⟨0, ps⟩) = ⟨0, ps⟩ := by
  cases ps with
  | nil =>
    simp [PPath.str, PPath.parse, splitroot, splitOn, keepPart]
  | cons x t =>
    have hx := h x (by simp)
    have hs : PPath.str ⟨0, x :: t⟩ = joinWith '/' (x :: t) := by
      simp [PPath.str, rootStr]
    rw [hs]
    unfold PPath.parse
    rw [splitroot_rel _ (joinWith_head_ne_sep '/' x t hx.1 hx.2.2)]
    simp only
    rw [splitOn_joinWith '/' (x :: t) (by simp) (fun p hp => (h p hp).2.2)]
    rw [filter_keepPart_ok _ h]

theorem isPrefixOf_append_self (a b : List Str) : a.isPrefixOf (a ++ b) = true := by
  induction a with
  | nil => simp [List.isPrefixOf]
  | cons x t ih => simp [ih]

end Model

namespace Model
open Py

/-- the resolved tail computed by `get_paths` -/
def resolvedTail (cwd arg : PPath) : List Str := resolveParts (underCwd cwd arg).partsFrom1

theorem underCwd_parts_ok (cwd arg : PPath) (hc : ∀ x ∈ cwd.parts, PartOK x)
    (ha : ∀ x ∈ arg.parts, PartOK x) : ∀ x ∈ (underCwd cwd arg).partsFrom1, PartOK x := by
  have hvp : ∀ y ∈ (underCwd cwd arg).parts, PartOK y := by
    intro y hy
    unfold underCwd at hy
    split at hy
    · exact ha y hy
    · unfold PPath.join at hy
      split at hy
      · exact ha y hy
      · rcases List.mem_append.mp hy with h | h
        · exact hc y h
        · exact ha y h
  intro x hx
  unfold PPath.partsFrom1 at hx
  split at hx
  · exact hvp x (List.mem_of_mem_drop hx)
  · exact hvp x hx

/-- explicit value of `get_paths`: the guard branch is dead and the real path is base ++ resolved tail -/
theorem getPathsP_eq (base cwd arg : PPath) (hc : ∀ x ∈ cwd.parts, PartOK x)
    (ha : ∀ x ∈ arg.parts, PartOK x) :
    getPathsP base cwd arg =
      (⟨base.root, base.parts ++ resolvedTail cwd arg⟩, ⟨1, resolvedTail cwd arg⟩) := by
  have hgood := resolveParts_good _ (underCwd_parts_ok cwd arg hc ha)
  unfold getPathsP
  simp only
  rw [parse_str_rel _ (fun p hp => (hgood p hp).partOK)]
  have hj : base.join ⟨0, resolveParts (underCwd cwd arg).partsFrom1⟩ =
      ⟨base.root, base.parts ++ resolveParts (underCwd cwd arg).partsFrom1⟩ := by
    simp [PPath.join]
  rw [hj]
  have hr : PPath.isRelativeTo ⟨base.root, base.parts ++ resolveParts (underCwd cwd arg).partsFrom1⟩ base
      = true := by
    simp [PPath.isRelativeTo, isPrefixOf_append_self]
  rw [if_pos hr]
  rfl

/-- stripping the root does not change the filtered segments -/
theorem filter_splitOn_splitroot (s : Str) :
    (splitOn '/' (splitroot s).2).filter keepPart = (splitOn '/' s).filter keepPart := by
  unfold splitroot
  split <;> simp [splitOn, keepPart]

theorem splitroot_root_pos_iff (s : Str) : (splitroot s).1 ≠ 0 ↔ ∃ r, s = '/' :: r := by
  unfold splitroot
  split
  · simp
  · simp
  · simp
  · rename_i h1 h2 h3
    simp only [ne_eq, not_true_eq_false, false_iff, not_exists]
    intro r hr
    exact h3 r hr

/-- the pure list fact behind `resolves_to_walk` -/
theorem resolvedTail_eq_walk (cwd : PPath) (s : Str) (hroot : cwd.root = 1)
    (hnodd : ∀ p ∈ cwd.parts, p ≠ dotdot) :
    resolvedTail cwd (PPath.parse s) = walk cwd.parts s := by
  unfold resolvedTail walk
  rw [foldl_walkSeg_filter, ← filter_splitOn_splitroot]
  by_cases habs : ∃ r, s = '/' :: r
  · have hpos : (splitroot s).1 ≠ 0 := (splitroot_root_pos_iff s).mpr habs
    obtain ⟨r, rfl⟩ := habs
    simp only [walkStart]
    have : underCwd cwd (PPath.parse ('/' :: r)) = PPath.parse ('/' :: r) := by
      unfold underCwd
      rw [if_pos]
      simp [PPath.isAbsolute, PPath.parse, hpos]
    rw [this]
    unfold PPath.partsFrom1
    rw [if_neg (by simpa [PPath.parse] using hpos)]
    rfl
  · have hzero : (splitroot s).1 = 0 := by
      by_cases h : (splitroot s).1 = 0
      · exact h
      · exact absurd ((splitroot_root_pos_iff s).mp h) habs
    have hstart : walkStart cwd.parts s = cwd.parts := by
      unfold walkStart
      split
      · rename_i r; exact absurd ⟨r, rfl⟩ habs
      · rfl
    rw [hstart]
    have : underCwd cwd (PPath.parse s) =
        ⟨cwd.root, cwd.parts ++ (splitOn '/' (splitroot s).2).filter keepPart⟩ := by
      unfold underCwd
      rw [if_neg (by simp [PPath.isAbsolute, PPath.parse, hzero])]
      unfold PPath.join
      rw [if_neg (by simp [PPath.parse, hzero])]
      rfl
    rw [this]
    unfold PPath.partsFrom1
    rw [if_neg (by simp [hroot])]
    simp only
    rw [resolveParts_append]
    unfold resolveParts
    rw [foldl_resolveStep_nodd _ _ hnodd]
    simp

end Model
