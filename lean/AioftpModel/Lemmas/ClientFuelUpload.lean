/- Adequacy of the loop bound of `upload`: the `sources` deque is served at most once per local directory. -/
import AioftpModel.Lemmas.ClientFuelBfs
import AioftpModel.Lemmas.ClientUpload

namespace Model
namespace ClientTree
open Py Fs

/-! ### no primitive reports `Err.fuel` -/

theorem listDir_err {r : Remote} {p : PPath} {e : Err} (h : listDir r p = .error e) : e ≠ .fuel := by
  unfold listDir at h
  simp only at h
  split at h
  · cases h
  · split at h
    · split at h
      · cases h
      · injection h with h; rw [← h]; simp
    · injection h with h; rw [← h]; simp

theorem stat_err {r : Remote} {p : PPath} {e : Err} (h : stat r p = .error e) : e ≠ .fuel := by
  unfold stat at h
  split at h
  · split at h
    · cases h
    · injection h with h; rw [← h]; simp
  · split at h
    · injection h with h; rw [← h]; simp
    · split at h
      · rename_i e' he
        injection h with h
        rw [← h]; exact listDir_err he
      · split at h
        · cases h
        · injection h with h; rw [← h]; simp

theorem exists_err {r : Remote} {p : PPath} {e : Err} (h : exists_ r p = .error e) : e ≠ .fuel := by
  unfold exists_ at h
  split at h
  all_goals first
    | (injection h with h; subst h; exact stat_err (by assumption))
    | cases h

theorem needCreate_err (r : Remote) (root : Nat) : ∀ (rev : List Str) (e : Err),
    needCreate r root rev = .error e → e ≠ .fuel := by
  intro rev
  induction rev with
  | nil => intro e h; cases h
  | cons x up ih =>
    intro e h
    unfold needCreate at h
    split at h
    · rename_i e' he
      injection h with h
      rw [← h]; exact exists_err he
    · cases h
    · split at h
      · rename_i e' he
        injection h with h
        rw [← h]; exact ih e' he
      · cases h

theorem needCreateSkip_err (r : Remote) (root : Nat) : ∀ (rev : List Str) (e : Err),
    needCreateSkip r root rev = .error e → e ≠ .fuel := by
  intro rev
  induction rev with
  | nil => intro e h; cases h
  | cons x up ih =>
    intro e h
    unfold needCreateSkip at h
    split at h
    · cases h
    · split at h
      · rename_i e' he
        injection h with h
        rw [← h]; exact exists_err he
      · cases h
      · split at h
        · rename_i e' he
          injection h with h
          rw [← h]; exact ih e' he
        · cases h

theorem needCreateNow_err (r : Remote) (root : Nat) (rev : List Str) (e : Err)
    (h : needCreateNow r root rev = .error e) : e ≠ .fuel := by
  unfold needCreateNow at h
  split at h
  · exact needCreateSkip_err r root rev e h
  · exact needCreate_err r root rev e h

theorem mkdAll_err : ∀ (l : List PPath) (r : Remote) (e : Err), mkdAll r l = .error e → e ≠ .fuel := by
  intro l
  induction l with
  | nil => intro r e h; cases h
  | cons p rest ih =>
    intro r e h
    unfold mkdAll at h
    simp only at h
    split at h
    · exact ih _ e h
    · injection h with h; rw [← h]; simp

theorem makeDirectory_err {r : Remote} {p : PPath} {e : Err} (h : makeDirectory r p = .error e) : e ≠ .fuel := by
  unfold makeDirectory at h
  split at h
  · rename_i e' he
    injection h with h
    rw [← h]; exact needCreateNow_err _ _ _ _ he
  · exact mkdAll_err _ _ _ h

theorem read_err {l : Local} {p : PPath} {e : Err} (h : l.read p = .error e) : e ≠ .fuel := by
  unfold Local.read at h
  split at h
  · injection h with h; rw [← h]; simp
  · split at h
    · cases h
    · injection h with h; rw [← h]; simp

theorem uploadFile_err {l : Local} {r : Remote} {s d : PPath} {e : Err} (h : uploadFile l r s d = .error e) :
    e ≠ .fuel := by
  unfold uploadFile at h
  split at h
  · rename_i e' he
    injection h with h
    rw [← h]; exact makeDirectory_err he
  · split at h
    · rename_i e' he
      injection h with h
      rw [← h]; exact read_err he
    · simp only at h
      split at h
      · rename_i e' he
        injection h with h
        rw [← h]; exact streamCheck_err he
      · cases h

theorem relativeOf_err {s d p : PPath} {wi : Bool} {e : Err} (h : relativeOf s d p wi = .error e) : e ≠ .fuel := by
  rw [relativeOf_eq] at h
  split at h
  · injection h with h; rw [← h]; simp
  · cases h

/-- the children loop never reports fuel, and the directories it hands back are the listed directories -/
theorem uploadChildren_shape (l : Local) (s d : PPath) (wi : Bool) : ∀ (paths : List PPath) (r : Remote),
    (∀ e, uploadChildren l s d wi r paths = .error e → e ≠ .fuel) ∧
    (∀ r' dirs, uploadChildren l s d wi r paths = .ok (r', dirs) → dirs = paths.filter (fun p => l.isDir p)) := by
  intro paths
  induction paths with
  | nil =>
    intro r
    constructor
    · intro e h; simp [uploadChildren] at h
    · intro r' dirs h
      simp only [uploadChildren] at h
      injection h with h
      injection h with _ h2
      rw [← h2]; rfl
  | cons path rest ih =>
    intro r
    constructor
    · intro e h
      simp only [uploadChildren] at h
      split at h
      · rename_i e' he
        injection h with h
        rw [← h]; exact relativeOf_err he
      · split at h
        · split at h
          · rename_i e' he
            injection h with h
            rw [← h]; exact makeDirectory_err he
          · rename_i r1 _
            split at h
            · rename_i e' he
              injection h with h
              rw [← h]; exact (ih r1).1 e' he
            · cases h
        · split at h
          · rename_i e' he
            injection h with h
            rw [← h]
            split at he
            · exact uploadFile_err he
            · cases he
          · rename_i r1 _
            exact (ih r1).1 e h
    · intro r' dirs h
      simp only [uploadChildren] at h
      split at h
      · cases h
      · split at h
        · rename_i hisdir
          split at h
          · cases h
          · rename_i r1 _
            split at h
            · cases h
            · rename_i r2 dirs' hrest
              injection h with h
              injection h with _ h2
              rw [← h2, List.filter_cons, if_pos hisdir, (ih r1).2 r2 dirs' hrest]
        · rename_i hisdir
          split at h
          · cases h
          · rename_i r1 _
            rw [List.filter_cons, if_neg hisdir]
            exact (ih r1).2 r' dirs h

/-! ### the loop -/

structure LHyp (l : Local) (source : PPath) (S : Path) : Prop where
  node : l.node source = some S
  pc : PC l.fs
  safe : SafeV l.fs
  nodup : (l.fs.map (·.1)).Nodup

theorem local_list_ext' {l : Local} {source : PPath} {S : Path} (hl : LHyp l source S) (d : Path)
    (hld : lookup l.fs (S ++ d) = some .dir) :
    l.list (ext source d) = (childEntries l.fs (S ++ d)).map (fun e => ext source (d ++ [e.1])) := by
  unfold Local.list
  rw [node_ext hl.node]
  simp only
  rw [if_pos ((isDir_iff _ _).mpr hld)]
  apply List.map_congr_left
  intro e he
  exact ext_ext_join source d e.1 (childEntries_safe hl.safe he).1

theorem filter_isDir_eq {l : Local} {source : PPath} {S : Path} (hl : LHyp l source S) (d : Path) :
    ((childEntries l.fs (S ++ d)).map (fun e => ext source (d ++ [e.1]))).filter (fun p => l.isDir p) =
      (dirTails l.fs S d).map (ext source) := by
  unfold dirTails
  rw [List.filter_map, List.map_map]
  congr 1
  apply List.filter_congr
  intro e he
  simp only [Function.comp]
  unfold Local.isDir
  rw [node_ext hl.node]
  simp only
  have hek : (e.1, e.2) ∈ childEntries l.fs (S ++ d) := by cases e; exact he
  obtain ⟨e', he', hk⟩ := (mem_childEntries_iff_lookup hl.nodup).mp hek
  rw [List.append_assoc] at he'
  unfold Fs.isDir
  rw [he']
  cases e' with
  | dir => simp [← hk, kindOf]
  | file c => simp [← hk, kindOf]

theorem uploadLoop_no_fuel (l : Local) (source destination : PPath) (wi : Bool) (S : Path)
    (hl : LHyp l source S) :
    ∀ (f : Nat) (Q : List Path) (r : Remote),
      (∀ d ∈ Q, (∀ x ∈ d, SafeName x) ∧ lookup l.fs (S ++ d) = some .dir ∧ S ++ d ≠ []) →
      phi l.fs S Q ≤ f →
      uploadLoop l source destination wi f r (Q.map (ext source)) ≠ .error .fuel := by
  intro f
  induction f with
  | zero =>
    intro Q r hQ hphi
    cases Q with
    | nil => simp [uploadLoop]
    | cons d Q' =>
      exfalso
      obtain ⟨_, hdir, hne⟩ := hQ d (by simp)
      have := W_ge l.fs _ hne hdir
      unfold phi at hphi
      simp only [List.map_cons, List.sum_cons] at hphi
      omega
  | succ f IH =>
    intro Q r hQ hphi
    cases Q with
    | nil => simp [uploadLoop]
    | cons d Q' =>
      obtain ⟨hd, hdir, hne⟩ := hQ d (by simp)
      simp only [List.map_cons, uploadLoop]
      rw [local_list_ext' hl d hdir]
      obtain ⟨herr, hdirs⟩ := uploadChildren_shape l source destination wi
        ((childEntries l.fs (S ++ d)).map (fun e => ext source (d ++ [e.1]))) r
      cases hch : uploadChildren l source destination wi r
          ((childEntries l.fs (S ++ d)).map (fun e => ext source (d ++ [e.1]))) with
      | error e =>
        simp only
        intro he
        injection he with he
        exact herr e hch he
      | ok res =>
        obtain ⟨r1, dirs⟩ := res
        simp only
        rw [hdirs r1 dirs hch, filter_isDir_eq hl d, ← List.map_append]
        apply IH
        · intro d' hd'
          rcases List.mem_append.mp hd' with hd' | hd'
          · exact hQ d' (List.mem_cons_of_mem _ hd')
          · unfold dirTails at hd'
            obtain ⟨e, he, rfl⟩ := List.mem_map.mp hd'
            obtain ⟨hmem, hk⟩ := List.mem_filter.mp he
            have hk' : e.2 = Kind.dir := by simpa using hk
            have hek : (e.1, Kind.dir) ∈ childEntries l.fs (S ++ d) := by
              rw [← hk']; cases e; exact hmem
            obtain ⟨e', he', hke⟩ := (mem_childEntries_iff_lookup hl.nodup).mp hek
            refine ⟨?_, ?_, by simp⟩
            · intro x hx
              rcases List.mem_append.mp hx with hx | hx
              · exact hd x hx
              · simp at hx; subst hx; exact (childEntries_safe hl.safe hmem).1
            · rw [← List.append_assoc, he']
              cases e' with
              | dir => rfl
              | file c => cases hke
        · rw [phi_append]
          have h1 := phi_dirTails l.fs hl.nodup S d
          have h2 := W_ge l.fs _ hne hdir
          unfold phi at hphi
          simp only [List.map_cons, List.sum_cons] at hphi
          unfold phi at h1 ⊢
          omega

/-- **adequacy**: `upload` never runs out of its loop bound -/
theorem upload_no_fuel (l : Local) (r : Remote) (source dest : PPath) (wi : Bool) (S : Path)
    (hl : LHyp l source S) : upload l r source dest wi ≠ .error .fuel := by
  unfold upload
  simp only
  split
  · intro h; exact uploadFile_err h rfl
  · split
    · rename_i hisdir
      have hdir : lookup l.fs S = some .dir := by
        unfold Local.isDir at hisdir
        rw [hl.node] at hisdir
        exact (isDir_iff _ _).mp hisdir
      split
      · rename_i e he
        intro h
        injection h with h
        exact makeDirectory_err he h
      · rename_i r1 _
        -- first turn by hand (the source may be the local root, which is not an entry), then the loop lemma
        have hsrc : [source] = [ext source []] := by rw [ext_nil]
        rw [hsrc]
        simp only [uploadLoop]
        rw [local_list_ext' hl [] (by simpa using hdir)]
        obtain ⟨herr, hdirs⟩ := uploadChildren_shape l source
          (if wi = true then dest else dest.join (PPath.parse source.name)) wi
          ((childEntries l.fs (S ++ [])).map (fun e => ext source ([] ++ [e.1]))) r1
        cases hch : uploadChildren l source (if wi = true then dest else dest.join (PPath.parse source.name)) wi r1
            ((childEntries l.fs (S ++ [])).map (fun e => ext source ([] ++ [e.1]))) with
        | error e =>
          simp only
          intro he
          injection he with he
          exact herr e hch he
        | ok res =>
          obtain ⟨r2, dirs⟩ := res
          simp only [List.nil_append]
          rw [hdirs r2 dirs hch, filter_isDir_eq hl []]
          apply uploadLoop_no_fuel l source _ wi S hl
          · intro d' hd'
            unfold dirTails at hd'
            obtain ⟨e, he, rfl⟩ := List.mem_map.mp hd'
            obtain ⟨hmem, hk⟩ := List.mem_filter.mp he
            have hk' : e.2 = Kind.dir := by simpa using hk
            have hek : (e.1, Kind.dir) ∈ childEntries l.fs (S ++ []) := by
              rw [← hk']; cases e; exact hmem
            obtain ⟨e', he', hke⟩ := (mem_childEntries_iff_lookup hl.nodup).mp hek
            refine ⟨?_, ?_, by simp⟩
            · intro x hx
              simp at hx; subst hx; exact (childEntries_safe hl.safe hmem).1
            · simp only [List.append_nil, List.nil_append] at he' ⊢
              rw [he']
              cases e' with
              | dir => rfl
              | file c => cases hke
          · have h1 := phi_dirTails l.fs hl.nodup S []
            have h2 : Wstrict l.fs (S ++ []) ≤ l.fs.length := List.countP_le_length
            omega
    · simp

end ClientTree
end Model
