/- Helper lemmas about `Model.PortPool` (accounting of ports through `put`, `search`, `step`, `run`). -/
import AioftpModel.Model.PortPool

namespace Model.PortPool

/-! ### the queue -/

def one (b : Prop) [Decidable b] : Nat := if b then 1 else 0

theorem count_put (x : Item) (l : List Item) (p : Port) :
    ((put x l).map Prod.snd).count p = one (x.2 = p) + (l.map Prod.snd).count p := by
  induction l with
  | nil => simp [put, one, List.count_cons]
  | cons y ys ih =>
    unfold put
    split
    · simp [one, List.count_cons]; omega
    · simp only [List.map_cons, List.count_cons, ih]; omega

theorem length_put (x : Item) (l : List Item) : (put x l).length = l.length + 1 := by
  induction l with
  | nil => simp [put]
  | cons y ys ih => unfold put; split <;> simp [ih]

theorem mem_put (x y : Item) (l : List Item) : y ∈ put x l ↔ y = x ∨ y ∈ l := by
  induction l with
  | nil => simp [put]
  | cons z zs ih =>
    unfold put
    split
    · simp
    · simp only [List.mem_cons, ih]
      constructor
      · rintro (h | h | h) <;> simp [h]
      · rintro (h | h | h) <;> simp [h]

theorem count_initPool_aux (ports : List Port) (acc : List Item) (p : Port) :
    ((ports.foldl (fun q x => put (0, x) q) acc).map Prod.snd).count p
      = (acc.map Prod.snd).count p + ports.count p := by
  induction ports generalizing acc with
  | nil => simp
  | cons x xs ih =>
    simp only [List.foldl_cons, ih, count_put, List.count_cons, one]
    by_cases h : x = p <;> simp [h] <;> omega

theorem count_initPool (ports : List Port) (p : Port) :
    ((initPool ports).map Prod.snd).count p = ports.count p := by
  simp [initPool, count_initPool_aux]

/-! ### one pass of the loop -/

theorem search_await {f : Facts} {vs : List Port} {pool : List Item} {vs' : List Port} {prio : Nat} {q : Port}
    {pool' : List Item} (h : search f vs pool = .await vs' prio q pool') :
    pool = (prio, q) :: pool' ∧ vs' = q :: vs ∧ vs.contains q = false := by
  unfold search at h
  cases pool with
  | nil => simp [get] at h
  | cons x xs =>
    obtain ⟨pr, pt⟩ := x
    simp only [get] at h
    split at h
    · split at h <;> simp at h
    · rename_i hc
      simp only [Search.await.injEq] at h
      obtain ⟨h1, h2, h3, h4⟩ := h
      subst h1 h2 h3 h4
      exact ⟨rfl, rfl, by simpa using hc⟩

theorem search_noPort {f : Facts} {vs : List Port} {pool pool' : List Item}
    (h : search f vs pool = .noPort pool') :
    (pool = [] ∧ pool' = []) ∨
      ∃ prio q rest, pool = (prio, q) :: rest ∧ vs.contains q = true ∧
        pool' = if f.naoIsOSError then put (prio + 1, q) rest else rest := by
  unfold search at h
  cases pool with
  | nil => left; simp [get] at h; exact ⟨rfl, h⟩
  | cons x xs =>
    right
    obtain ⟨pr, pt⟩ := x
    simp only [get] at h
    split at h
    · rename_i hc
      refine ⟨pr, pt, xs, rfl, hc, ?_⟩
      split at h <;> simp_all
    · simp at h

/-- which of the two exits: `NoAvailablePort` iff the queue is empty or its least entry's port was viewed -/
theorem search_noPort_iff (f : Facts) (vs : List Port) (pool : List Item) :
    (∃ pool', search f vs pool = .noPort pool') ↔
      pool = [] ∨ ∃ prio q rest, pool = (prio, q) :: rest ∧ vs.contains q = true := by
  constructor
  · rintro ⟨pool', h⟩
    rcases search_noPort h with ⟨h1, _⟩ | ⟨prio, q, rest, h1, h2, _⟩
    · exact Or.inl h1
    · exact Or.inr ⟨prio, q, rest, h1, h2⟩
  · rintro (h | ⟨prio, q, rest, h1, h2⟩)
    · subst h; exact ⟨[], by simp [search, get]⟩
    · subst h1
      unfold search
      simp only [get, h2, if_true]
      split <;> exact ⟨_, rfl⟩

theorem search_noPort_count {f : Facts} (hn : f.naoIsOSError = true) {vs : List Port} {pool pool' : List Item}
    (h : search f vs pool = .noPort pool') (p : Port) :
    (pool'.map Prod.snd).count p = (pool.map Prod.snd).count p := by
  rcases search_noPort h with ⟨h1, h2⟩ | ⟨prio, q, rest, h1, _, h3⟩
  · subst h1 h2; rfl
  · subst h1
    rw [h3, hn]
    simp [count_put, List.count_cons, one]
    omega

theorem search_await_count {f : Facts} {vs : List Port} {pool : List Item} {vs' : List Port} {prio : Nat}
    {q : Port} {pool' : List Item} (h : search f vs pool = .await vs' prio q pool') (p : Port) :
    (pool'.map Prod.snd).count p + one (q = p) = (pool.map Prod.snd).count p := by
  obtain ⟨h1, _, _⟩ := search_await h
  subst h1
  simp [List.count_cons, one]

/-! ### sessions -/

theorem sum_set {α : Type} (g : α → Nat) (l : List α) (i : Nat) (old new : α) (h : l[i]? = some old) :
    ((l.set i new).map g).sum + g old = (l.map g).sum + g new := by
  induction l generalizing i with
  | nil => simp at h
  | cons x xs ih =>
    cases i with
    | zero =>
      simp at h; subst h
      simp; omega
    | succ j =>
      simp at h
      have := ih j h
      simp only [List.set_cons_succ, List.map_cons, List.sum_cons]
      omega

theorem held_setPhase (st : State) (i : Nat) (old new : Phase) (pool : List Item) (p : Port)
    (h : st.sessions[i]? = some old) :
    held (setPhase st i new pool) p + old.holdsN p = held st p + new.holdsN p := by
  unfold held setPhase
  exact sum_set (·.holdsN p) st.sessions i old new h

theorem held_append_idle (st : State) (p : Port) :
    held { st with sessions := st.sessions ++ [.idle] } p = held st p := by
  simp [held, Phase.holdsN, Phase.holds]

theorem getElem?_setPhase_self (st : State) (i : Nat) (ph old : Phase) (pool : List Item)
    (h : st.sessions[i]? = some old) : (setPhase st i ph pool).sessions[i]? = some ph := by
  unfold setPhase
  have hi : i < st.sessions.length := by
    rcases Nat.lt_or_ge i st.sessions.length with h' | h'
    · exact h'
    · simp [List.getElem?_eq_none h'] at h
  simp [hi]

theorem getElem?_setPhase_ne (st : State) (i j : Nat) (ph : Phase) (pool : List Item) (h : i ≠ j) :
    (setPhase st i ph pool).sessions[j]? = st.sessions[j]? := by
  unfold setPhase
  simp [h]

/-! ### the accounting identity for one step: pool + held + lost-now = pool + held before -/

theorem afterSearch_accounting {f : Facts} (hn : f.naoIsOSError = true) (st : State) (i : Nat) (old : Phase)
    (hold : st.sessions[i]? = some old) (vs : List Port) (pool0 : List Item) (p : Port) :
    inPool (afterSearch st i (search f vs pool0)).1 p + held (afterSearch st i (search f vs pool0)).1 p
        + old.holdsN p
      = (pool0.map Prod.snd).count p + held st p := by
  cases hs : search f vs pool0 with
  | await vs' prio q pool' =>
    have hc := search_await_count hs p
    have hh := held_setPhase st i old (.starting vs' prio q) pool' p hold
    simp only [afterSearch, inPool, poolPorts]
    have : (setPhase st i (Phase.starting vs' prio q) pool').pool = pool' := rfl
    rw [this]
    have hq : (Phase.starting vs' prio q).holdsN p = one (q = p) := by
      simp [Phase.holdsN, Phase.holds, one]
    omega
  | noPort pool' =>
    have hc := search_noPort_count hn hs p
    have hh := held_setPhase st i old .gone pool' p hold
    simp only [afterSearch, inPool, poolPorts]
    have : (setPhase st i Phase.gone pool').pool = pool' := rfl
    rw [this]
    have hq : Phase.gone.holdsN p = 0 := by simp [Phase.holdsN, Phase.holds]
    omega

theorem step_accounting {f : Facts} (hn : f.naoIsOSError = true) (st : State) (e : Event) (p : Port) :
    inPool (step f st e).1 p + held (step f st e).1 p + one (lossOf f st e = some p)
      = inPool st p + held st p := by
  cases e with
  | connect =>
    simp only [step, lossOf, one]
    have := held_append_idle st p
    simp [inPool, poolPorts] at *
    omega
  | other i => simp [step, lossOf, one]
  | pasv i =>
    cases hph : st.sessions[i]? with
    | none => simp [step, lossOf, hph, one]
    | some ph =>
      simp only [step, lossOf, hph]
      cases ph with
      | idle =>
        have := afterSearch_accounting hn st i .idle hph [] st.pool p
        simp [Phase.holdsN, Phase.holds, one, inPool, poolPorts] at *
        omega
      | starting vs prio q => simp [one]
      | listening q => simp [one]
      | gone => simp [one]
  | started i o =>
    cases hph : st.sessions[i]? with
    | none => simp [step, lossOf, hph, one]
    | some ph =>
      simp only [step, lossOf, hph]
      cases ph with
      | idle => simp [one]
      | listening q => simp [one]
      | gone => simp [one]
      | starting vs prio q =>
        have hq : (Phase.starting vs prio q).holdsN p = one (q = p) := by
          simp [Phase.holdsN, Phase.holds, one]
        cases o with
        | ok =>
          have hh := held_setPhase st i _ (.listening q) st.pool p hph
          have hl : (Phase.listening q).holdsN p = one (q = p) := by simp [Phase.holdsN, Phase.holds, one]
          simp only [inPool, poolPorts, one] at *
          simp only [setPhase] at *
          simp
          omega
        | addrInUse =>
          have := afterSearch_accounting hn st i _ hph vs (put (prio + 1, q) st.pool) p
          rw [count_put] at this
          simp only [inPool, poolPorts] at *
          simp [one] at *
          omega
        | otherOSError =>
          have hh := held_setPhase st i _ .gone (put (prio + 1, q) st.pool) p hph
          have hg : Phase.gone.holdsN p = 0 := by simp [Phase.holdsN, Phase.holds]
          have hc := count_put (prio + 1, q) st.pool p
          simp only [inPool, poolPorts]
          have : (setPhase st i Phase.gone (put (prio + 1, q) st.pool)).pool = put (prio + 1, q) st.pool := rfl
          rw [this]
          simp [one] at *
          omega
  | finish i =>
    cases hph : st.sessions[i]? with
    | none => simp [step, lossOf, hph, one]
    | some ph =>
      simp only [step, lossOf, hph]
      cases ph with
      | gone => simp [one]
      | idle =>
        have hh := held_setPhase st i _ .gone st.pool p hph
        simp [Phase.holdsN, Phase.holds, one, inPool, poolPorts, setPhase] at *
        omega
      | listening q =>
        have hh := held_setPhase st i _ .gone (put (0, q) st.pool) p hph
        have hc := count_put (0, q) st.pool p
        simp only [inPool, poolPorts]
        have : (setPhase st i Phase.gone (put (0, q) st.pool)).pool = put (0, q) st.pool := rfl
        rw [this]
        simp [Phase.holdsN, Phase.holds, one] at *
        omega
      | starting vs prio q =>
        cases hcx : f.cancelCaught with
        | true =>
          have hh := held_setPhase st i _ .gone (put (f.cancelReturn prio, q) st.pool) p hph
          have hc := count_put (f.cancelReturn prio, q) st.pool p
          simp only [inPool, poolPorts, if_true]
          have : (setPhase st i Phase.gone (put (f.cancelReturn prio, q) st.pool)).pool = put (f.cancelReturn prio, q) st.pool := rfl
          simp [this]
          simp [Phase.holdsN, Phase.holds, one] at *
          omega
        | false =>
          have hh := held_setPhase st i _ .gone st.pool p hph
          simp [Phase.holdsN, Phase.holds, one, inPool, poolPorts, setPhase] at *
          omega

/-- the accounting identity along a whole history -/
theorem run_accounting {f : Facts} (hn : f.naoIsOSError = true) (st : State) (evs : List Event) (p : Port) :
    inPool (run f st evs) p + held (run f st evs) p + lostIn f st p evs = inPool st p + held st p := by
  induction evs generalizing st with
  | nil => simp [run, lostIn]
  | cons e es ih =>
    have h1 := ih (step f st e).1
    have h2 := step_accounting hn st e p
    simp only [run, lostIn, one] at *
    omega

theorem init_accounting (ports : List Port) (p : Port) :
    inPool (initState ports) p + held (initState ports) p = ports.count p := by
  simp [initState, inPool, poolPorts, held, count_initPool]

/-! ### histories without a cancellation inside the start-up lose nothing -/

theorem lossOf_none_of_noCancel {f : Facts} {st : State} {e : Event} (h : cancelsStartup st e = false) :
    lossOf f st e = none := by
  cases e with
  | finish i =>
    simp only [lossOf]
    simp only [cancelsStartup] at h
    cases hph : st.sessions[i]? with
    | none => rfl
    | some ph =>
      cases ph with
      | starting vs prio q => simp [hph] at h
      | _ => rfl
  | _ => rfl

theorem lostIn_zero_of_noCancel {f : Facts} {st : State} {evs : List Event} (h : NoCancelInStartup f st evs)
    (p : Port) : lostIn f st p evs = 0 := by
  induction evs generalizing st with
  | nil => rfl
  | cons e es ih =>
    simp only [NoCancelInStartup, noCancelInStartup, Bool.and_eq_true, Bool.not_eq_true'] at h
    obtain ⟨h1, h2⟩ := h
    simp [lostIn, lossOf_none_of_noCancel h1, ih h2]

theorem noCancel_take {f : Facts} {st : State} {evs : List Event} (h : NoCancelInStartup f st evs) (k : Nat) :
    NoCancelInStartup f st (evs.take k) := by
  induction evs generalizing st k with
  | nil => simpa using h
  | cons e es ih =>
    cases k with
    | zero => simp [NoCancelInStartup, noCancelInStartup]
    | succ k =>
      simp only [NoCancelInStartup, noCancelInStartup, Bool.and_eq_true, Bool.not_eq_true'] at h
      obtain ⟨h1, h2⟩ := h
      simp only [List.take_succ_cons, NoCancelInStartup, noCancelInStartup, Bool.and_eq_true, Bool.not_eq_true']
      exact ⟨h1, ih h2 k⟩

/-- when some clause meets the cancellation nothing is ever lost -/
theorem lostIn_zero_of_cancelCaught {f : Facts} (hc : f.cancelCaught = true) (st : State)
    (evs : List Event) (p : Port) : lostIn f st p evs = 0 := by
  induction evs generalizing st with
  | nil => rfl
  | cons e es ih =>
    have : lossOf f st e = none := by
      cases e with
      | finish i =>
        simp only [lossOf]
        cases st.sessions[i]? with
        | none => rfl
        | some ph => cases ph <;> simp [hc]
      | _ => rfl
    simp [lostIn, this, ih]

/-! ### when every session is gone nothing is held -/

def allGone (st : State) : Prop := ∀ ph ∈ st.sessions, ph = Phase.gone

theorem held_zero_of_allGone {st : State} (h : allGone st) (p : Port) : held st p = 0 := by
  unfold held
  have : ∀ l : List Phase, (∀ ph ∈ l, ph = Phase.gone) → (l.map (·.holdsN p)).sum = 0 := by
    intro l hl
    induction l with
    | nil => rfl
    | cons x xs ih =>
      have hx := hl x (by simp)
      subst hx
      simp [Phase.holdsN, Phase.holds]
      exact ih (fun ph hph => hl ph (by simp [hph]))
  exact this _ h

/-! ### well-formedness: the port being started is in the session's viewed set -/

def WF (st : State) : Prop :=
  ∀ (i : Nat) (vs : List Port) (prio : Nat) (p : Port),
    st.sessions[i]? = some (Phase.starting vs prio p) → vs.contains p = true

theorem WF_init (ports : List Port) : WF (initState ports) := by
  unfold WF; intro i vs prio p h; simp [initState] at h

theorem WF_setPhase {st : State} (h : WF st) (i : Nat) (ph old : Phase) (pool : List Item)
    (hold : st.sessions[i]? = some old)
    (hph : ∀ vs prio p, ph = .starting vs prio p → vs.contains p = true) : WF (setPhase st i ph pool) := by
  unfold WF at *; intro j vs prio p hj
  by_cases hij : i = j
  · subst hij
    rw [getElem?_setPhase_self st i ph old pool hold] at hj
    exact hph vs prio p (by simpa using hj)
  · rw [getElem?_setPhase_ne st i j ph pool hij] at hj
    exact h j vs prio p hj

theorem WF_afterSearch {f : Facts} {st : State} (h : WF st) (i : Nat) (old : Phase)
    (hold : st.sessions[i]? = some old) (vs : List Port) (pool : List Item) :
    WF (afterSearch st i (search f vs pool)).1 := by
  cases hs : search f vs pool with
  | await vs' prio q pool' =>
    obtain ⟨_, h2, _⟩ := search_await hs
    apply WF_setPhase h i _ old _ hold
    intro vs'' prio' p' he
    simp only [Phase.starting.injEq] at he
    obtain ⟨e1, _, e3⟩ := he
    subst e1 e3 h2
    simp
  | noPort pool' =>
    apply WF_setPhase h i _ old _ hold
    intro _ _ _ he; cases he

theorem WF_step {f : Facts} {st : State} (h : WF st) (e : Event) : WF (step f st e).1 := by
  cases e with
  | connect =>
    unfold WF at *; intro j vs prio p hj
    simp only [step] at hj
    by_cases hlt : j < st.sessions.length
    · rw [List.getElem?_append_left hlt] at hj; exact h j vs prio p hj
    · have hge : st.sessions.length ≤ j := Nat.le_of_not_lt hlt
      rw [List.getElem?_append_right hge] at hj
      cases hk : j - st.sessions.length with
      | zero => simp [hk] at hj
      | succ k => simp [hk] at hj
  | other i => exact h
  | pasv i =>
    cases hph : st.sessions[i]? with
    | none => simpa [step, hph] using h
    | some ph =>
      cases ph with
      | idle => simp only [step, hph]; exact WF_afterSearch h i _ hph _ _
      | starting vs prio q => simpa [step, hph] using h
      | listening q => simpa [step, hph] using h
      | gone => simpa [step, hph] using h
  | started i o =>
    cases hph : st.sessions[i]? with
    | none => simpa [step, hph] using h
    | some ph =>
      cases ph with
      | idle => simpa [step, hph] using h
      | listening q => simpa [step, hph] using h
      | gone => simpa [step, hph] using h
      | starting vs prio q =>
        cases o with
        | ok =>
          simp only [step, hph]
          exact WF_setPhase h i _ _ _ hph (by intro _ _ _ he; cases he)
        | addrInUse => simp only [step, hph]; exact WF_afterSearch h i _ hph _ _
        | otherOSError =>
          simp only [step, hph]
          exact WF_setPhase h i _ _ _ hph (by intro _ _ _ he; cases he)
  | finish i =>
    cases hph : st.sessions[i]? with
    | none => simpa [step, hph] using h
    | some ph =>
      cases ph with
      | gone => simpa [step, hph] using h
      | idle =>
        simp only [step, hph]
        exact WF_setPhase h i _ _ _ hph (by intro _ _ _ he; cases he)
      | listening q =>
        simp only [step, hph]
        exact WF_setPhase h i _ _ _ hph (by intro _ _ _ he; cases he)
      | starting vs prio q =>
        simp only [step, hph]
        split <;> exact WF_setPhase h i _ _ _ hph (by intro _ _ _ he; cases he)

theorem WF_run {f : Facts} {st : State} (h : WF st) (evs : List Event) : WF (run f st evs) := by
  induction evs generalizing st with
  | nil => exact h
  | cons e es ih => exact ih (WF_step h e)

/-! ### a run of EADDRINUSE answers: the search terminates with 421 and the pool whole -/

def busyN (n : Nat) (i : Nat) : List Event := List.replicate n (.started i .addrInUse)

/-- ports of the pool not yet viewed -/
def unviewed (vs : List Port) (pool : List Item) : Nat :=
  (pool.map Prod.snd).countP (fun q => !vs.contains q)

theorem countP_put (P : Port → Bool) (x : Item) (l : List Item) :
    ((put x l).map Prod.snd).countP P = (if P x.2 then 1 else 0) + (l.map Prod.snd).countP P := by
  induction l with
  | nil => simp [put, List.countP_cons]
  | cons y ys ih =>
    unfold put
    split
    · simp only [List.map_cons, List.countP_cons]; omega
    · simp only [List.map_cons, List.countP_cons, ih]; omega

theorem unviewed_put_viewed (vs : List Port) (pool : List Item) (x : Item) (h : vs.contains x.2 = true) :
    unviewed vs (put x pool) = unviewed vs pool := by
  unfold unviewed
  rw [countP_put]
  have h' : x.2 ∈ vs := by simpa using h
  simp [h']

theorem unviewed_cons_le (vs : List Port) (q : Port) (pool : List Item) :
    unviewed (q :: vs) pool ≤ unviewed vs pool := by
  unfold unviewed
  apply List.countP_mono_left
  intro x _ hx
  simp only [List.contains_cons, Bool.not_or, Bool.and_eq_true] at hx
  exact hx.2

theorem unviewed_cons_unviewed (vs : List Port) (x : Item) (pool : List Item) (h : vs.contains x.2 = false) :
    unviewed vs (x :: pool) = unviewed vs pool + 1 := by
  have h' : ¬ x.2 ∈ vs := by simpa using h
  simp [unviewed, h']

theorem unviewed_le_length (vs : List Port) (pool : List Item) : unviewed vs pool ≤ pool.length := by
  unfold unviewed
  have := List.countP_le_length (p := fun q => !vs.contains q) (l := pool.map Prod.snd)
  simpa using this

theorem busy_on_gone {f : Facts} (st : State) (i : Nat) (h : st.sessions[i]? = some .gone) (n : Nat) :
    runOut f st (busyN n i) = (st, List.replicate n Reply.none) := by
  induction n with
  | zero => rfl
  | succ n ih =>
    simp only [busyN, List.replicate_succ, runOut, step, h] at *
    rw [ih]

theorem busy_run_from_starting {f : Facts} (hn : f.naoIsOSError = true) (n : Nat) :
    ∀ (st : State) (i : Nat) (vs : List Port) (prio : Nat) (p : Port),
      st.sessions[i]? = some (.starting vs prio p) → vs.contains p = true → unviewed vs st.pool < n →
      (runOut f st (busyN n i)).1.sessions[i]? = some .gone ∧
      Reply.noFreePorts ∈ (runOut f st (busyN n i)).2 ∧
      Reply.created ∉ (runOut f st (busyN n i)).2 ∧
      (∀ q, inPool (runOut f st (busyN n i)).1 q = inPool st q + one (p = q)) ∧
      (∀ j, j ≠ i → (runOut f st (busyN n i)).1.sessions[j]? = st.sessions[j]?) := by
  induction n with
  | zero => intro st i vs prio p _ _ h; omega
  | succ n ih =>
    intro st i vs prio p hph hp hm
    have hu : unviewed vs (put (prio + 1, p) st.pool) = unviewed vs st.pool :=
      unviewed_put_viewed vs st.pool (prio + 1, p) hp
    simp only [busyN, List.replicate_succ, runOut, step, hph]
    cases hs : search f vs (put (prio + 1, p) st.pool) with
    | noPort pool' =>
      have hc := search_noPort_count hn hs
      simp only [afterSearch]
      have hg := getElem?_setPhase_self st i .gone _ pool' hph
      have := busy_on_gone (f := f) _ i hg n
      simp only [busyN] at this
      rw [this]
      refine ⟨hg, by simp, by simp, ?_, ?_⟩
      · intro q
        simp only [inPool, poolPorts]
        have : (setPhase st i Phase.gone pool').pool = pool' := rfl
        rw [this, hc q, count_put]; simp [one]; omega
      · intro j hj; exact getElem?_setPhase_ne st i j _ _ (Ne.symm hj)
    | await vs' prio' q' rest =>
      obtain ⟨h1, h2, h3⟩ := search_await hs
      simp only [afterSearch]
      have hg := getElem?_setPhase_self st i (.starting vs' prio' q') _ rest hph
      have hm' : unviewed vs' (setPhase st i (.starting vs' prio' q') rest).pool < n := by
        have : (setPhase st i (.starting vs' prio' q') rest).pool = rest := rfl
        rw [this, h2]
        have hle := unviewed_cons_le vs q' rest
        have : unviewed vs (put (prio + 1, p) st.pool) = unviewed vs rest + 1 := by
          rw [h1]; exact unviewed_cons_unviewed vs _ rest h3
        omega
      have hp' : vs'.contains q' = true := by rw [h2]; simp
      obtain ⟨r1, r2, r3, r4, r5⟩ := ih _ i vs' prio' q' hg hp' hm'
      simp only [busyN] at r1 r2 r3 r4 r5
      refine ⟨r1, by simp [r2], by simp [r3], ?_, ?_⟩
      · intro q
        rw [r4 q]
        simp only [inPool, poolPorts]
        have : (setPhase st i (.starting vs' prio' q') rest).pool = rest := rfl
        rw [this]
        have hc := count_put (prio + 1, p) st.pool q
        rw [h1] at hc
        simp [one, List.count_cons] at *
        omega
      · intro j hj
        rw [r5 j hj]
        exact getElem?_setPhase_ne st i j _ _ (Ne.symm hj)

theorem pasv_all_busy {f : Facts} (hn : f.naoIsOSError = true) (st : State) (i n : Nat)
    (h : st.sessions[i]? = some .idle) (hlen : st.pool.length ≤ n) :
    (runOut f st (.pasv i :: busyN n i)).1.sessions[i]? = some .gone ∧
    Reply.noFreePorts ∈ (runOut f st (.pasv i :: busyN n i)).2 ∧
    Reply.created ∉ (runOut f st (.pasv i :: busyN n i)).2 ∧
    (∀ q, inPool (runOut f st (.pasv i :: busyN n i)).1 q = inPool st q) ∧
    (∀ j, j ≠ i → (runOut f st (.pasv i :: busyN n i)).1.sessions[j]? = st.sessions[j]?) := by
  simp only [runOut, step, h]
  cases hs : search f [] st.pool with
  | noPort pool' =>
    have hc := search_noPort_count hn hs
    simp only [afterSearch]
    have hg := getElem?_setPhase_self st i .gone _ pool' h
    rw [busy_on_gone _ i hg n]
    refine ⟨hg, by simp, by simp, ?_, ?_⟩
    · intro q; simp only [inPool, poolPorts]; exact hc q
    · intro j hj; exact getElem?_setPhase_ne st i j _ _ (Ne.symm hj)
  | await vs' prio' q' rest =>
    obtain ⟨h1, h2, h3⟩ := search_await hs
    simp only [afterSearch]
    have hg := getElem?_setPhase_self st i (.starting vs' prio' q') _ rest h
    have hm' : unviewed vs' (setPhase st i (.starting vs' prio' q') rest).pool < n := by
      have : (setPhase st i (.starting vs' prio' q') rest).pool = rest := rfl
      rw [this]
      have := unviewed_le_length vs' rest
      have : st.pool.length = rest.length + 1 := by rw [h1]; simp
      omega
    have hp' : vs'.contains q' = true := by rw [h2]; simp
    obtain ⟨r1, r2, r3, r4, r5⟩ := busy_run_from_starting hn n _ i vs' prio' q' hg hp' hm'
    refine ⟨r1, by simp [r2], by simp [r3], ?_, ?_⟩
    · intro q
      rw [r4 q]
      simp only [inPool, poolPorts]
      have : (setPhase st i (.starting vs' prio' q') rest).pool = rest := rfl
      rw [this, h1]
      simp [one, List.count_cons]
    · intro j hj
      rw [r5 j hj]
      exact getElem?_setPhase_ne st i j _ _ (Ne.symm hj)

/-! ### a busy port goes back into the queue one step down, and stays there while the search goes on -/

theorem busy_requeued {f : Facts} (hn : f.naoIsOSError = true) (st : State) (i : Nat) (vs : List Port)
    (prio : Nat) (p : Port) (hp : vs.contains p = true) :
    ∃ k, prio + 1 ≤ k ∧
      (k, p) ∈ (afterSearch st i (search f vs (put (prio + 1, p) st.pool))).1.pool := by
  have hmem : ((prio + 1, p) : Item) ∈ put (prio + 1, p) st.pool := (mem_put _ _ _).2 (Or.inl rfl)
  cases hs : search f vs (put (prio + 1, p) st.pool) with
  | noPort pool' =>
    simp only [afterSearch, setPhase]
    rcases search_noPort hs with ⟨h1, _⟩ | ⟨pr, q, rest, h1, h2, h3⟩
    · have := length_put (prio + 1, p) st.pool
      rw [h1] at this; simp at this
    · rw [hn] at h3
      simp only [if_true] at h3
      rw [h1] at hmem
      rcases List.mem_cons.1 hmem with he | hr
      · refine ⟨prio + 2, by omega, ?_⟩
        rw [h3]
        simp only [Prod.mk.injEq] at he
        obtain ⟨e1, e2⟩ := he
        subst e1 e2
        exact (mem_put _ _ _).2 (Or.inl rfl)
      · exact ⟨prio + 1, Nat.le_refl _, by rw [h3]; exact (mem_put _ _ _).2 (Or.inr hr)⟩
  | await vs' pr q rest =>
    simp only [afterSearch, setPhase]
    obtain ⟨h1, _, h3⟩ := search_await hs
    rw [h1] at hmem
    rcases List.mem_cons.1 hmem with he | hr
    · simp only [Prod.mk.injEq] at he
      obtain ⟨_, e2⟩ := he
      subst e2
      rw [hp] at h3; cases h3
    · exact ⟨prio + 1, Nat.le_refl _, hr⟩

theorem busy_next {f : Facts} (st : State) (i : Nat) (vs : List Port) (prio : Nat) (p : Port)
    (hph : st.sessions[i]? = some (.starting vs prio p)) (hp : vs.contains p = true) :
    let r := afterSearch st i (search f vs (put (prio + 1, p) st.pool))
    (∃ vs' prio' q, r.1.sessions[i]? = some (.starting vs' prio' q) ∧ q ≠ p ∧ vs.contains q = false ∧
        vs' = q :: vs ∧ r.2 = .none) ∨
      (r.1.sessions[i]? = some .gone ∧ r.2 = .noFreePorts) := by
  intro r
  cases hs : search f vs (put (prio + 1, p) st.pool) with
  | noPort pool' =>
    right
    simp only [r, hs, afterSearch]
    exact ⟨getElem?_setPhase_self st i _ _ _ hph, trivial⟩
  | await vs' pr q rest =>
    left
    obtain ⟨_, h2, h3⟩ := search_await hs
    simp only [r, hs, afterSearch]
    refine ⟨vs', pr, q, getElem?_setPhase_self st i _ _ _ hph, ?_, h3, h2, trivial⟩
    intro he; subst he; rw [hp] at h3; cases h3

/-! ### the queue is sorted; from a level queue of distinct ports the search reaches every port -/

theorem le_iff (a b : Item) : Item.le a b = true ↔ a.1 < b.1 ∨ (a.1 = b.1 ∧ @LE.le Nat _ a.2 b.2) := by
  simp [Item.le]

theorem le_total {a b : Item} (h : ¬ Item.le a b = true) : Item.le b a = true := by
  simp only [le_iff] at *; omega

theorem le_trans {a b c : Item} (h1 : Item.le a b = true) (h2 : Item.le b c = true) : Item.le a c = true := by
  simp only [le_iff] at *; omega

def SortedPool (l : List Item) : Prop := l.Pairwise (fun a b => Item.le a b = true)

theorem sorted_put {l : List Item} (h : SortedPool l) (x : Item) : SortedPool (put x l) := by
  induction l with
  | nil => simp [put, SortedPool]
  | cons y ys ih =>
    unfold SortedPool at *
    rw [List.pairwise_cons] at h
    unfold put
    split
    · rename_i hxy
      rw [List.pairwise_cons]
      refine ⟨?_, List.pairwise_cons.2 h⟩
      intro z hz
      rcases List.mem_cons.1 hz with rfl | hz
      · exact hxy
      · exact le_trans hxy (h.1 z hz)
    · rename_i hxy
      rw [List.pairwise_cons]
      refine ⟨?_, ih h.2⟩
      intro z hz
      rcases (mem_put x z ys).1 hz with rfl | hz
      · exact le_total hxy
      · exact h.1 z hz

theorem sorted_tail {x : Item} {l : List Item} (h : SortedPool (x :: l)) : SortedPool l :=
  (List.pairwise_cons.1 h).2

theorem sorted_head_le {x : Item} {l : List Item} (h : SortedPool (x :: l)) : ∀ y ∈ l, Item.le x y = true :=
  (List.pairwise_cons.1 h).1

theorem sorted_initPool (ports : List Port) : SortedPool (initPool ports) := by
  unfold initPool
  have : ∀ (acc : List Item), SortedPool acc → SortedPool (ports.foldl (fun q p => put (0, p) q) acc) := by
    induction ports with
    | nil => intro acc h; exact h
    | cons p ps ih => intro acc h; exact ih _ (sorted_put h _)
  exact this [] (by simp [SortedPool])

theorem sorted_search {f : Facts} {vs : List Port} {pool : List Item} (h : SortedPool pool) :
    match search f vs pool with
    | .await _ _ _ pool' => SortedPool pool'
    | .noPort pool' => SortedPool pool' := by
  cases hs : search f vs pool with
  | await vs' pr q rest =>
    obtain ⟨h1, _, _⟩ := search_await hs
    subst h1
    exact sorted_tail h
  | noPort pool' =>
    rcases search_noPort hs with ⟨_, h2⟩ | ⟨pr, q, rest, h1, _, h3⟩
    · subst h2; simp [SortedPool]
    · subst h1
      rw [h3]
      cases f.naoIsOSError
      · simpa using sorted_tail h
      · simpa using sorted_put (sorted_tail h) (pr + 1, q)

theorem sorted_afterSearch {f : Facts} (st : State) (i : Nat) (vs : List Port) (pool : List Item)
    (h : SortedPool pool) : SortedPool (afterSearch st i (search f vs pool)).1.pool := by
  have := sorted_search (f := f) (vs := vs) h
  cases hs : search f vs pool with
  | await vs' pr q rest => rw [hs] at this; exact this
  | noPort pool' => rw [hs] at this; exact this

theorem sorted_step {f : Facts} {st : State} (h : SortedPool st.pool) (e : Event) :
    SortedPool (step f st e).1.pool := by
  cases e with
  | connect => exact h
  | other i => exact h
  | pasv i =>
    cases hph : st.sessions[i]? with
    | none => simpa [step, hph] using h
    | some ph =>
      cases ph with
      | idle => simp only [step, hph]; exact sorted_afterSearch st i _ _ h
      | starting vs prio q => simpa [step, hph] using h
      | listening q => simpa [step, hph] using h
      | gone => simpa [step, hph] using h
  | started i o =>
    cases hph : st.sessions[i]? with
    | none => simpa [step, hph] using h
    | some ph =>
      cases ph with
      | idle => simpa [step, hph] using h
      | listening q => simpa [step, hph] using h
      | gone => simpa [step, hph] using h
      | starting vs prio q =>
        cases o with
        | ok => simpa [step, hph, setPhase] using h
        | addrInUse => simp only [step, hph]; exact sorted_afterSearch st i _ _ (sorted_put h _)
        | otherOSError => simp only [step, hph, setPhase]; exact sorted_put h _
  | finish i =>
    cases hph : st.sessions[i]? with
    | none => simpa [step, hph] using h
    | some ph =>
      cases ph with
      | gone => simpa [step, hph] using h
      | idle => simpa [step, hph, setPhase] using h
      | listening q => simp only [step, hph, setPhase]; exact sorted_put h _
      | starting vs prio q =>
        simp only [step, hph]
        split
        · simp only [setPhase]; exact sorted_put h _
        · simpa [setPhase] using h

theorem sorted_run {f : Facts} {st : State} (h : SortedPool st.pool) (evs : List Event) :
    SortedPool (run f st evs).pool := by
  induction evs generalizing st with
  | nil => exact h
  | cons e es ih => exact ih (sorted_step h e)

theorem perm_put (x : Item) (l : List Item) : ((put x l).map Prod.snd).Perm (x.2 :: l.map Prod.snd) := by
  induction l with
  | nil => simp [put]
  | cons y ys ih =>
    unfold put
    split
    · exact List.Perm.refl _
    · simp only [List.map_cons]
      exact (List.Perm.cons y.2 ih).trans (List.Perm.swap x.2 y.2 _)

/-- entries are either untried at priority `k` or tried (viewed) at priority `k + 1` -/
def Lvl (k : Nat) (vs : List Port) (pool : List Item) : Prop :=
  ∀ x ∈ pool, (vs.contains x.2 = false ∧ x.1 = k) ∨ (vs.contains x.2 = true ∧ x.1 = k + 1)

theorem level_search_exhaustive {f : Facts} {k : Nat} {vs : List Port} {pool pool' : List Item}
    (hs : SortedPool pool) (hl : Lvl k vs pool) (h : search f vs pool = .noPort pool') :
    ∀ x ∈ pool, vs.contains x.2 = true := by
  rcases search_noPort h with ⟨h1, _⟩ | ⟨pr, q, rest, h1, h2, _⟩
  · subst h1; intro x hx; cases hx
  · subst h1
    have hpr : pr = k + 1 := by
      rcases hl (pr, q) (by simp) with ⟨c, _⟩ | ⟨_, c⟩
      · simp only at c; rw [h2] at c; cases c
      · exact c
    intro x hx
    rcases List.mem_cons.1 hx with rfl | hx
    · exact h2
    · have hle := sorted_head_le hs x hx
      rw [le_iff] at hle
      simp only at hle
      rcases hl x (List.mem_cons_of_mem _ hx) with ⟨_, c⟩ | ⟨c, _⟩
      · omega
      · exact c

theorem attempted_gone {f : Facts} (st : State) (i : Nat) (h : st.sessions[i]? = some .gone) (n : Nat) :
    attempted f st i (busyN n i) = [] := by
  induction n with
  | zero => rfl
  | succ n ih =>
    simp only [busyN, List.replicate_succ, attempted, step, h] at *
    simp [ih]

theorem busy_run_attempts {f : Facts} (k : Nat) (n : Nat) :
    ∀ (st : State) (i : Nat) (vs : List Port) (p : Port),
      st.sessions[i]? = some (.starting vs k p) → vs.contains p = true →
      SortedPool st.pool → Lvl k vs st.pool → (p :: st.pool.map Prod.snd).Nodup → unviewed vs st.pool < n →
      ∀ q, (q = p ∨ (q ∈ st.pool.map Prod.snd ∧ vs.contains q = false)) →
        q ∈ attempted f st i (busyN n i) := by
  induction n with
  | zero => intro st i vs p _ _ _ _ _ h; omega
  | succ n ih =>
    intro st i vs p hph hp hso hl hnd hm q hq
    have hu : unviewed vs (put (k + 1, p) st.pool) = unviewed vs st.pool :=
      unviewed_put_viewed vs st.pool (k + 1, p) hp
    have hso2 : SortedPool (put (k + 1, p) st.pool) := sorted_put hso _
    have hl2 : Lvl k vs (put (k + 1, p) st.pool) := by
      intro x hx
      rcases (mem_put _ _ _).1 hx with rfl | hx
      · exact Or.inr ⟨hp, rfl⟩
      · exact hl x hx
    have hnd2 : ((put (k + 1, p) st.pool).map Prod.snd).Nodup :=
      (perm_put (k + 1, p) st.pool).nodup_iff.2 hnd
    simp only [busyN, List.replicate_succ, attempted, step, hph, if_true]
    rcases hq with rfl | ⟨hq1, hq2⟩
    · simp
    · have hq3 : q ∈ (put (k + 1, p) st.pool).map Prod.snd :=
        (perm_put (k + 1, p) st.pool).mem_iff.2 (List.mem_cons_of_mem _ hq1)
      cases hs : search f vs (put (k + 1, p) st.pool) with
      | noPort pool' =>
        exfalso
        obtain ⟨x, hx, rfl⟩ := List.mem_map.1 hq3
        have := level_search_exhaustive hso2 hl2 hs x hx
        rw [hq2] at this; cases this
      | await vs' pr q' rest =>
        obtain ⟨h1, h2, h3⟩ := search_await hs
        simp only [afterSearch]
        have hpr : pr = k := by
          rcases hl2 (pr, q') (by rw [h1]; simp) with ⟨_, c⟩ | ⟨c, _⟩
          · exact c
          · simp only at c; rw [h3] at c; cases c
        have hpr' : k = pr := hpr.symm
        subst hpr'
        have hg := getElem?_setPhase_self st i (.starting vs' k q') _ rest hph
        have hpool : (setPhase st i (.starting vs' k q') rest).pool = rest := rfl
        rw [h1] at hso2 hl2 hnd2 hq3
        simp only [List.map_cons, List.nodup_cons] at hnd2
        apply List.mem_append_right
        apply ih _ i vs' q' hg (by rw [h2]; simp)
        · rw [hpool]; exact sorted_tail hso2
        · rw [hpool, h2]
          intro x hx
          rcases hl2 x (List.mem_cons_of_mem _ hx) with ⟨c1, c2⟩ | ⟨c1, c2⟩
          · left
            refine ⟨?_, c2⟩
            have hne : x.2 ≠ q' := by
              intro he
              exact hnd2.1 (he ▸ List.mem_map_of_mem (f := Prod.snd) hx)
            simp only [List.contains_cons, Bool.or_eq_false_iff]
            exact ⟨by simpa using hne, c1⟩
          · right
            refine ⟨?_, c2⟩
            simp only [List.contains_cons, Bool.or_eq_true]
            exact Or.inr c1
        · rw [hpool]; simp only [List.nodup_cons]; exact hnd2
        · rw [hpool, h2]
          have hle := unviewed_cons_le vs q' rest
          have : unviewed vs (put (k + 1, p) st.pool) = unviewed vs rest + 1 := by
            rw [h1]; exact unviewed_cons_unviewed vs _ rest h3
          omega
        · rw [hpool]
          simp only [List.map_cons, List.mem_cons] at hq3
          rcases hq3 with rfl | hq3
          · exact Or.inl rfl
          · right
            refine ⟨hq3, ?_⟩
            rw [h2]
            have hne : q ≠ q' := by
              intro he; exact hnd2.1 (he ▸ hq3)
            simp only [List.contains_cons, Bool.or_eq_false_iff]
            exact ⟨by simpa using hne, hq2⟩

theorem pasv_all_busy_attempts {f : Facts} (st : State) (i n k : Nat)
    (h : st.sessions[i]? = some .idle) (hso : SortedPool st.pool) (hlv : ∀ x ∈ st.pool, x.1 = k)
    (hnd : (st.pool.map Prod.snd).Nodup) (hlen : st.pool.length ≤ n) :
    ∀ q ∈ st.pool.map Prod.snd, q ∈ attempted f st i (.pasv i :: busyN n i) := by
  intro q hq
  simp only [attempted, step, h, List.nil_append]
  cases hs : search f [] st.pool with
  | noPort pool' =>
    exfalso
    rcases search_noPort hs with ⟨h1, _⟩ | ⟨pr, q', rest, _, h2, _⟩
    · rw [h1] at hq; cases hq
    · simp at h2
  | await vs' pr q' rest =>
    obtain ⟨h1, h2, h3⟩ := search_await hs
    simp only [afterSearch]
    have hpr : k = pr := (hlv (pr, q') (by rw [h1]; simp)).symm
    subst hpr
    have hg := getElem?_setPhase_self st i (.starting vs' k q') _ rest h
    have hpool : (setPhase st i (.starting vs' k q') rest).pool = rest := rfl
    rw [h1] at hso hnd hq hlv
    simp only [List.map_cons, List.nodup_cons] at hnd
    apply busy_run_attempts k n _ i vs' q' hg (by rw [h2]; simp)
    · rw [hpool]; exact sorted_tail hso
    · rw [hpool, h2]
      intro x hx
      left
      refine ⟨?_, hlv x (List.mem_cons_of_mem _ hx)⟩
      have hne : x.2 ≠ q' := by
        intro he
        exact hnd.1 (he ▸ List.mem_map_of_mem (f := Prod.snd) hx)
      simp only [List.contains_cons, List.contains_nil, Bool.or_false]
      simpa using hne
    · rw [hpool]; simp only [List.nodup_cons]; exact hnd
    · rw [hpool]
      have := unviewed_le_length vs' rest
      have : st.pool.length = rest.length + 1 := by rw [h1]; simp
      omega
    · rw [hpool]
      simp only [List.map_cons, List.mem_cons] at hq
      rcases hq with rfl | hq
      · exact Or.inl rfl
      · right
        refine ⟨hq, ?_⟩
        rw [h2]
        have hne : q ≠ q' := by
          intro he; exact hnd.1 (he ▸ hq)
        simp only [List.contains_cons, List.contains_nil, Bool.or_false]
        simpa using hne

end Model.PortPool
