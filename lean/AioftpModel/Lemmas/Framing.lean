/-
  Helper lemmas for C06 (reply framing): `rstrip`, the digit/space tables, the codecs, the line
  structure of byte strings, the reader state machine, and the loop of `parse_response`.
-/
import AioftpModel.Model.Framing

namespace Model
open Py

/-! ### range tables -/

theorem inRanges_iff (rs : List (Nat × Nat)) (n : Nat) :
    inRanges rs n = true ↔ ∃ r ∈ rs, r.1 ≤ n ∧ n ≤ r.2 := by
  simp [inRanges, List.any_eq_true]

theorem inRanges_disjoint {rs ss : List (Nat × Nat)}
    (h : ∀ r ∈ rs, ∀ s ∈ ss, r.2 < s.1 ∨ s.2 < r.1) (n : Nat)
    (hr : inRanges rs n = true) : inRanges ss n = false := by
  cases hs : inRanges ss n with
  | false => rfl
  | true =>
    obtain ⟨r, hr1, hr2, hr3⟩ := (inRanges_iff _ _).mp hr
    obtain ⟨s, hs1, hs2, hs3⟩ := (inRanges_iff _ _).mp hs
    rcases h r hr1 s hs1 with h | h <;> omega

/-- the generated tables: no `str.isdigit` character is a `str.isspace` character -/
theorem digit_not_space (c : Char) (h : isDigitCh c = true) : isSpace c = false :=
  inRanges_disjoint (by decide) c.toNat h

/-! ### rstrip -/

theorem rstrip_nil : rstrip [] = [] := rfl

theorem rstrip_append (a b : Str) :
    rstrip (a ++ b) = if rstrip b = [] then rstrip a else a ++ rstrip b := by
  unfold rstrip
  rw [List.reverse_append, List.dropWhile_append]
  by_cases h : List.dropWhile isSpace b.reverse = []
  · simp [h]
  · simp [h]

theorem rstrip_concat_nonspace (a : Str) (c : Char) (h : isSpace c = false) :
    rstrip (a ++ [c]) = a ++ [c] := by
  unfold rstrip
  simp [h]

theorem rstrip_concat_space (a : Str) (c : Char) (h : isSpace c = true) :
    rstrip (a ++ [c]) = rstrip a := by
  unfold rstrip
  simp [h]

theorem rstrip_eol (s : Str) : rstrip (s ++ eol) = rstrip s := by
  rw [rstrip_append]
  have : rstrip eol = [] := by decide
  simp [this]

theorem rstrip_idem (s : Str) : rstrip (rstrip s) = rstrip s := by
  unfold rstrip
  rw [List.reverse_reverse]
  congr 1
  generalize s.reverse = t
  induction t with
  | nil => rfl
  | cons c cs ih =>
    by_cases h : isSpace c = true
    · simp [h, ih]
    · simp [h]

theorem rstrip_cons_space_char (l : Str) :
    rstrip (' ' :: l) = if rstrip l = [] then [] else ' ' :: rstrip l := by
  have := rstrip_append [' '] l
  have h1 : rstrip [' '] = [] := by decide
  simpa [h1] using this

/-- three `isdigit` characters -/
def Digits3 (code : Str) : Prop := code.length = 3 ∧ ∀ c ∈ code, isDigitCh c = true

theorem Digits3.isDigit {code : Str} (h : Digits3 code) : isDigit code = true := by
  obtain ⟨hl, hd⟩ := h
  unfold Py.isDigit
  have : code ≠ [] := by intro e; simp [e] at hl
  simp [List.all_eq_true, this]
  exact hd

theorem Digits3.rstrip {code : Str} (h : Digits3 code) : rstrip code = code := by
  obtain ⟨hl, hd⟩ := h
  match code, hl, hd with
  | [a, b, c], _, hd =>
    exact rstrip_concat_nonspace [a, b] c (digit_not_space c (hd c (by simp)))

theorem Digits3.take {code : Str} (h : Digits3 code) (x : Str) : (code ++ x).take 3 = code :=
  List.take_left' h.1

theorem Digits3.drop {code : Str} (h : Digits3 code) (x : Str) : (code ++ x).drop 3 = x := by
  have := h.1
  match code, this with
  | [a, b, c], _ => rfl

/-- what the client sees of a continuation line `code-l` -/
theorem rstrip_code_dash (code l : Str) :
    rstrip (code ++ '-' :: l) = code ++ '-' :: rstrip l := by
  have e : code ++ '-' :: l = (code ++ ['-']) ++ l := by simp
  rw [e, rstrip_append]
  have hd : rstrip (code ++ ['-']) = code ++ ['-'] := rstrip_concat_nonspace code '-' (by decide)
  by_cases hl : rstrip l = []
  · simp [hl, hd]
  · simp [hl]

/-- the info entry of the last line `code t` : `" " + t` stripped, or nothing when `t` is blank -/
def lastInfo (t : Str) : Str := if rstrip t = [] then [] else ' ' :: rstrip t

theorem rstrip_code_space {code : Str} (h : Digits3 code) (t : Str) :
    rstrip (code ++ ' ' :: t) = code ++ lastInfo t := by
  have e : code ++ ' ' :: t = (code ++ [' ']) ++ t := by simp
  rw [e, rstrip_append]
  have hd : rstrip (code ++ [' ']) = code := by
    rw [rstrip_concat_space code ' ' (by decide)]; exact h.rstrip
  unfold lastInfo
  by_cases hl : rstrip t = []
  · simp [hl, hd]
  · simp [hl]

theorem lastInfo_no_dash (t : Str) : startsWith (lastInfo t) ['-'] = false := by
  unfold lastInfo startsWith
  split <;> simp [List.isPrefixOf]

theorem drop_one_lastInfo (t : Str) : (lastInfo t).drop 1 = rstrip t := by
  unfold lastInfo; split <;> simp_all

theorem drop_one_body (l : Str) : (rstrip (' ' :: l)).drop 1 = rstrip l := by
  rw [rstrip_cons_space_char]; split <;> simp_all

/-! ### codecs -/

theorem char_range (c : Char) : c.toNat < 0xD800 ∨ (0xDFFF < c.toNat ∧ c.toNat < 0x110000) := by
  have := c.valid
  unfold UInt32.isValidChar Nat.isValidChar at this
  unfold Char.toNat
  omega

theorem decodeUtf8_cons (b0 : Nat) (rest : Bytes) : decodeUtf8 (b0 :: rest) = 
    if b0 < 0x80 then (decodeUtf8 rest).map (Char.ofNat b0 :: ·)
    else if 0xC2 ≤ b0 && b0 < 0xE0 then
      match rest with
      | b1 :: rest1 =>
        if isCont b1 then
          (decodeUtf8 rest1).map (Char.ofNat ((b0 - 0xC0) * 64 + (b1 - 0x80)) :: ·)
        else none
      | [] => none
    else if 0xE0 ≤ b0 && b0 < 0xF0 then
      match rest with
      | b1 :: b2 :: rest2 =>
        let n := (b0 - 0xE0) * 4096 + (b1 - 0x80) * 64 + (b2 - 0x80)
        if isCont b1 && isCont b2 && 0x800 ≤ n && !(0xD800 ≤ n && n < 0xE000) then
          (decodeUtf8 rest2).map (Char.ofNat n :: ·)
        else none
      | _ => none
    else if 0xF0 ≤ b0 && b0 < 0xF5 then
      match rest with
      | b1 :: b2 :: b3 :: rest3 =>
        let n := (b0 - 0xF0) * 262144 + (b1 - 0x80) * 4096 + (b2 - 0x80) * 64 + (b3 - 0x80)
        if isCont b1 && isCont b2 && isCont b3 && 0x10000 ≤ n && n < 0x110000 then
          (decodeUtf8 rest3).map (Char.ofNat n :: ·)
        else none
      | _ => none
    else none := by
  conv => lhs; rw [decodeUtf8.eq_def]
  rfl

theorem decodeUtf8_encodeCh (c : Char) (rest : Bytes) :
    decodeUtf8 (encodeChUtf8 c ++ rest) = (decodeUtf8 rest).map (c :: ·) := by
  have hv := char_range c
  unfold encodeChUtf8
  simp only
  generalize hn : c.toNat = n at hv
  have hc : c = Char.ofNat n := by rw [← hn, Char.ofNat_toNat]
  split
  · -- 1 byte
    rename_i h1
    simp only [List.cons_append, List.nil_append]
    rw [decodeUtf8_cons, if_pos h1, hc]
  · split
    · rename_i h1 h2
      simp only [List.cons_append, List.nil_append]
      rw [decodeUtf8_cons]
      have a1 : ¬ (0xC0 + n / 64 < 0x80) := by omega
      have a2 : (decide (0xC2 ≤ 0xC0 + n / 64) && decide (0xC0 + n / 64 < 0xE0)) = true := by
        simp; omega
      have a3 : isCont (0x80 + n % 64) = true := by simp [isCont]; omega
      have a4 : (0xC0 + n / 64 - 0xC0) * 64 + (0x80 + n % 64 - 0x80) = n := by omega
      rw [if_neg a1, if_pos a2]
      simp only [a3, if_true, a4, hc]
    · split
      · rename_i h1 h2 h3
        simp only [List.cons_append, List.nil_append]
        rw [decodeUtf8_cons]
        have a1 : ¬ (0xE0 + n / 4096 < 0x80) := by omega
        have a2 : ¬ ((decide (0xC2 ≤ 0xE0 + n / 4096) && decide (0xE0 + n / 4096 < 0xE0)) = true) := by
          simp <;> omega
        have a2' : (decide (0xE0 ≤ 0xE0 + n / 4096) && decide (0xE0 + n / 4096 < 0xF0)) = true := by
          simp; omega
        have a3 : isCont (0x80 + n / 64 % 64) = true := by simp [isCont]; omega
        have a3' : isCont (0x80 + n % 64) = true := by simp [isCont]; omega
        have a4 : (0xE0 + n / 4096 - 0xE0) * 4096 + (0x80 + n / 64 % 64 - 0x80) * 64 + (0x80 + n % 64 - 0x80) = n := by omega
        rw [if_neg a1, if_neg a2, if_pos a2']
        simp only [a3, a3', a4, Bool.true_and]
        have a5 : (decide (0x800 ≤ n) && !(decide (0xD800 ≤ n) && decide (n < 0xE000))) = true := by
          simp; omega
        rw [if_pos a5, hc]
      · rename_i h1 h2 h3
        simp only [List.cons_append, List.nil_append]
        rw [decodeUtf8_cons]
        have a1 : ¬ (0xF0 + n / 262144 < 0x80) := by omega
        have a2 : ¬ ((decide (0xC2 ≤ 0xF0 + n / 262144) && decide (0xF0 + n / 262144 < 0xE0)) = true) := by
          simp <;> omega
        have a2' : ¬ ((decide (0xE0 ≤ 0xF0 + n / 262144) && decide (0xF0 + n / 262144 < 0xF0)) = true) := by
          simp <;> omega
        have a2'' : (decide (0xF0 ≤ 0xF0 + n / 262144) && decide (0xF0 + n / 262144 < 0xF5)) = true := by
          simp; omega
        have a3 : isCont (0x80 + n / 4096 % 64) = true := by simp [isCont]; omega
        have a3' : isCont (0x80 + n / 64 % 64) = true := by simp [isCont]; omega
        have a3'' : isCont (0x80 + n % 64) = true := by simp [isCont]; omega
        have a4 : (0xF0 + n / 262144 - 0xF0) * 262144 + (0x80 + n / 4096 % 64 - 0x80) * 4096 + (0x80 + n / 64 % 64 - 0x80) * 64 + (0x80 + n % 64 - 0x80) = n := by omega
        rw [if_neg a1, if_neg a2, if_neg a2', if_pos a2'']
        simp only [a3, a3', a3'', a4, Bool.true_and]
        have a5 : (decide (0x10000 ≤ n) && decide (n < 0x110000)) = true := by
          simp; omega
        rw [if_pos a5, hc]

theorem decodeLatin1_cons (b : Nat) (rest : Bytes) :
    decodeLatin1 (b :: rest) = if b < 256 then (decodeLatin1 rest).map (Char.ofNat b :: ·) else none := rfl

theorem decode_encodeCh (e : Encoding) (c : Char) (a rest : Bytes) (h : encodeCh e c = some a) :
    decode e (a ++ rest) = (decode e rest).map (c :: ·) := by
  cases e with
  | utf8 =>
    simp only [encodeCh, Option.some.injEq] at h
    subst h
    exact decodeUtf8_encodeCh c rest
  | latin1 =>
    simp only [encodeCh] at h
    split at h
    · rename_i hlt
      simp only [Option.some.injEq] at h
      subst h
      simp only [decode, List.cons_append, List.nil_append, decodeLatin1_cons, if_pos hlt, Char.ofNat_toNat]
    · simp at h

theorem encode_cons_some {e : Encoding} {c : Char} {cs : Str} {b : Bytes} (h : encode e (c :: cs) = some b) :
    ∃ a b', encodeCh e c = some a ∧ encode e cs = some b' ∧ b = a ++ b' := by
  unfold encode at h
  split at h
  · rename_i a b' h1 h2
    simp only [Option.some.injEq] at h
    exact ⟨a, b', h1, h2, h.symm⟩
  · simp at h

theorem encode_cons_of {e : Encoding} {c : Char} {cs : Str} {a b' : Bytes}
    (h1 : encodeCh e c = some a) (h2 : encode e cs = some b') : encode e (c :: cs) = some (a ++ b') := by
  rw [encode, h1, h2]

theorem decode_nil (e : Encoding) : decode e [] = some [] := by cases e <;> rfl

theorem decode_encode_append (e : Encoding) (s : Str) : ∀ (b : Bytes), encode e s = some b →
    ∀ rest : Bytes, decode e (b ++ rest) = (decode e rest).map (s ++ ·) := by
  induction s with
  | nil =>
    intro b h rest
    simp only [encode, Option.some.injEq] at h
    subst h
    simp
  | cons c cs ih =>
    intro b h rest
    obtain ⟨a, b', h1, h2, rfl⟩ := encode_cons_some h
    rw [List.append_assoc, decode_encodeCh e c a _ h1, ih b' h2 rest]
    cases decode e rest <;> simp

/-- **codec round trip**: whatever `encode` produces, `decode` reads back -/
theorem decode_encode (e : Encoding) (s : Str) (b : Bytes) (h : encode e s = some b) :
    decode e b = some s := by
  have := decode_encode_append e s b h []
  simpa [decode_nil] using this

theorem encode_append_some {e : Encoding} {s t : Str} {a b : Bytes}
    (hs : encode e s = some a) (ht : encode e t = some b) : encode e (s ++ t) = some (a ++ b) := by
  induction s generalizing a with
  | nil => simp only [encode, Option.some.injEq] at hs; subst hs; simpa using ht
  | cons c cs ih =>
    obtain ⟨x, y, h1, h2, rfl⟩ := encode_cons_some hs
    rw [List.cons_append, encode_cons_of h1 (ih h2), List.append_assoc]

theorem encode_append_inv {e : Encoding} {s t : Str} {x : Bytes} (h : encode e (s ++ t) = some x) :
    ∃ a b, encode e s = some a ∧ encode e t = some b ∧ x = a ++ b := by
  induction s generalizing x with
  | nil => exact ⟨[], x, rfl, by simpa using h, rfl⟩
  | cons c cs ih =>
    rw [List.cons_append] at h
    obtain ⟨p, q, h1, h2, rfl⟩ := encode_cons_some h
    obtain ⟨a, b, ha, hb, rfl⟩ := ih h2
    exact ⟨p ++ a, b, encode_cons_of h1 ha, hb, by simp⟩

theorem encode_eol (e : Encoding) : encode e eol = some [13, 10] := by cases e <;> decide

theorem char_eq_of_toNat {c : Char} {n : Nat} (h : c.toNat = n) : c = Char.ofNat n := by
  rw [← h, Char.ofNat_toNat]

theorem encodeCh_no_nl {e : Encoding} {c : Char} {a : Bytes} (h : encodeCh e c = some a) (hc : c ≠ '\n') :
    10 ∉ a := by
  have hne : c.toNat ≠ 10 := fun h10 => hc (char_eq_of_toNat h10)
  cases e with
  | utf8 =>
    simp only [encodeCh, Option.some.injEq] at h
    subst h
    unfold encodeChUtf8
    simp only
    split
    · simp; omega
    · split
      · simp; omega
      · split
        · simp; omega
        · simp; omega
  | latin1 =>
    simp only [encodeCh] at h
    split at h
    · simp only [Option.some.injEq] at h; subst h; simp; omega
    · simp at h

theorem encode_no_nl {e : Encoding} {s : Str} {b : Bytes} (h : encode e s = some b) (hs : '\n' ∉ s) :
    10 ∉ b := by
  induction s generalizing b with
  | nil => simp only [encode, Option.some.injEq] at h; subst h; simp
  | cons c cs ih =>
    obtain ⟨x, y, h1, h2, rfl⟩ := encode_cons_some h
    simp only [List.mem_cons, not_or] at hs
    simp only [List.mem_append, not_or]
    exact ⟨encodeCh_no_nl h1 (fun e => hs.1 e.symm), ih h2 hs.2⟩

/-- a written line: text, CR, LF -/
theorem encode_line_shape {e : Encoding} {t : Str} {ch : Bytes} (h : encode e (t ++ eol) = some ch) :
    ∃ bl, encode e t = some bl ∧ ch = bl ++ [13, 10] := by
  obtain ⟨a, b, ha, hb, rfl⟩ := encode_append_inv h
  rw [encode_eol] at hb
  simp only [Option.some.injEq] at hb
  subst hb
  exact ⟨a, ha, rfl⟩

/-- `parse_line` on a line the server wrote: the text comes back stripped -/
theorem parseLine1_written {e : Encoding} {t : Str} {ch : Bytes} (h : encode e (t ++ eol) = some ch) :
    parseLine1 e ch = .ok ((rstrip t).take 3, (rstrip t).drop 3) := by
  obtain ⟨bl, _, hch⟩ := encode_line_shape h
  have hne : ch.isEmpty = false := by subst hch; simp
  unfold parseLine1
  rw [hne, decode_encode e _ _ h]
  simp [rstrip_eol]

/-! ### line structure of a byte string -/

theorem splitLines_line (l : Bytes) (h : 10 ∉ l) (rest : Bytes) :
    splitLines (l ++ 10 :: rest) = (l ++ [10]) :: splitLines rest := by
  induction l with
  | nil => simp [splitLines]
  | cons b bs ih =>
    simp only [List.mem_cons, not_or] at h
    have hb : b ≠ 10 := fun e => h.1 e.symm
    simp only [List.cons_append]
    rw [splitLines, if_neg hb, ih h.2]

/-- chunks each of which is one `\n`-terminated line split back into exactly those chunks -/
theorem splitLines_chunks (chunks : List Bytes) (tail : Bytes)
    (h : ∀ c ∈ chunks, ∃ l, 10 ∉ l ∧ c = l ++ [10]) :
    splitLines (chunks.flatten ++ tail) = chunks ++ splitLines tail := by
  induction chunks with
  | nil => simp
  | cons c cs ih =>
    obtain ⟨l, hl, rfl⟩ := h c (by simp)
    have := ih (fun c hc => h c (List.mem_cons_of_mem _ hc))
    simp only [List.flatten_cons, List.append_assoc, List.cons_append, List.nil_append]
    rw [splitLines_line l hl, this]

/-- complete lines of a buffer and the unterminated remainder -/
def splitComplete : Bytes → List Bytes × Bytes
  | [] => ([], [])
  | b :: bs =>
    if b = 10 then ([10] :: (splitComplete bs).1, (splitComplete bs).2)
    else match (splitComplete bs).1 with
      | [] => ([], b :: (splitComplete bs).2)
      | l :: ls => ((b :: l) :: ls, (splitComplete bs).2)

theorem splitComplete_rest_no_nl (buf : Bytes) : 10 ∉ (splitComplete buf).2 := by
  induction buf with
  | nil => simp [splitComplete]
  | cons b bs ih =>
    unfold splitComplete
    split
    · exact ih
    · rename_i hb
      split
      · simp only [List.mem_cons, not_or]; exact ⟨fun e => hb e.symm, ih⟩
      · exact ih

theorem splitLines_eq_complete (buf : Bytes) :
    splitLines buf = (splitComplete buf).1 ++
      (if (splitComplete buf).2 = [] then [] else [(splitComplete buf).2]) := by
  induction buf with
  | nil => simp [splitLines, splitComplete]
  | cons b bs ih =>
    unfold splitLines splitComplete
    split
    · simp [ih]
    · rw [ih]
      cases h1 : (splitComplete bs).1 with
      | nil =>
        cases h2 : (splitComplete bs).2 with
        | nil => simp
        | cons x xs => simp
      | cons l ls => simp

theorem takeLine_some {buf l rest : Bytes} (h : takeLine buf = some (l, rest)) :
    buf = l ++ rest ∧ l ≠ [] ∧
    splitComplete buf = (l :: (splitComplete rest).1, (splitComplete rest).2) ∧
    splitLines buf = l :: splitLines rest := by
  induction buf generalizing l with
  | nil => simp [takeLine] at h
  | cons b bs ih =>
    unfold takeLine at h
    split at h
    · rename_i hb
      simp only [Option.some.injEq, Prod.mk.injEq] at h
      obtain ⟨rfl, rfl⟩ := h
      subst hb
      simp [splitComplete, splitLines]
    · rename_i hb
      cases ht : takeLine bs with
      | none => simp [ht] at h
      | some p =>
        obtain ⟨l', r'⟩ := p
        simp only [ht, Option.map_some, Option.some.injEq, Prod.mk.injEq] at h
        obtain ⟨rfl, rfl⟩ := h
        obtain ⟨e1, _, e3, e4⟩ := ih ht
        refine ⟨by simp [e1], by simp, ?_, ?_⟩
        · rw [splitComplete, if_neg hb, e3]
        · rw [splitLines, if_neg hb, e4]

theorem takeLine_none {buf : Bytes} (h : takeLine buf = none) :
    splitComplete buf = ([], buf) ∧ splitLines buf = (if buf = [] then [] else [buf]) := by
  induction buf with
  | nil => simp [splitComplete, splitLines]
  | cons b bs ih =>
    unfold takeLine at h
    split at h
    · simp at h
    · rename_i hb
      have ht : takeLine bs = none := by
        cases hh : takeLine bs with
        | none => rfl
        | some p => simp [hh] at h
      obtain ⟨e1, e2⟩ := ih ht
      constructor
      · rw [splitComplete, if_neg hb, e1]
      · rw [splitLines, if_neg hb, e2]
        cases bs with
        | nil => simp
        | cons y ys => simp

theorem takeLine_length {buf l rest : Bytes} (h : takeLine buf = some (l, rest)) :
    rest.length < buf.length := by
  obtain ⟨e, hne, _, _⟩ := takeLine_some h
  subst e
  cases l with
  | nil => exact absurd rfl hne
  | cons x xs => simp; omega

/-! ### the reader -/

theorem drain_open (n : Nat) (buf : Bytes) (hn : buf.length < n) :
    drain n ⟨buf, false⟩ = ((splitComplete buf).1, ⟨(splitComplete buf).2, false⟩) := by
  induction n generalizing buf with
  | zero => omega
  | succ k ih =>
    unfold drain Reader.readline
    simp only
    cases ht : takeLine buf with
    | none =>
      obtain ⟨e, _⟩ := takeLine_none ht
      simp [e]
    | some p =>
      obtain ⟨l, rest⟩ := p
      obtain ⟨_, hne, e3, _⟩ := takeLine_some ht
      have hl := takeLine_length ht
      have hemp : l.isEmpty = false := by cases l <;> simp_all
      simp only [hemp]
      rw [ih rest (by omega), e3]
      simp

theorem drain_eof (n : Nat) (buf : Bytes) (hn : buf.length < n) :
    (drain n ⟨buf, true⟩).1 = splitLines buf := by
  induction n generalizing buf with
  | zero => omega
  | succ k ih =>
    unfold drain Reader.readline
    simp only
    cases ht : takeLine buf with
    | none =>
      obtain ⟨_, e⟩ := takeLine_none ht
      simp only [if_true]
      cases buf with
      | nil => simp [e]
      | cons b bs =>
        have : k ≠ 0 := by simp at hn; omega
        obtain ⟨m, rfl⟩ := Nat.exists_eq_succ_of_ne_zero this
        simp [e, drain, Reader.readline, takeLine]
    | some p =>
      obtain ⟨l, rest⟩ := p
      obtain ⟨_, hne, _, e4⟩ := takeLine_some ht
      have hl := takeLine_length ht
      have hemp : l.isEmpty = false := by cases l <;> simp_all
      simp only [hemp]
      rw [e4]
      simp [ih rest (by omega)]

theorem splitComplete_append (a b : Bytes) :
    splitComplete (a ++ b) =
      ((splitComplete a).1 ++ (splitComplete ((splitComplete a).2 ++ b)).1,
       (splitComplete ((splitComplete a).2 ++ b)).2) := by
  induction a with
  | nil => simp [splitComplete]
  | cons x xs ih =>
    simp only [List.cons_append]
    by_cases hx : x = 10
    · subst hx
      simp [splitComplete, ih]
    · rw [splitComplete, if_neg hx, ih]
      conv => rhs; rw [splitComplete, if_neg hx]
      cases h1 : (splitComplete xs).1 with
      | nil =>
        simp only [List.nil_append, List.cons_append]
        rw [splitComplete, if_neg hx]
      | cons l ls => simp

theorem takeLine_none_of_no_nl {p : Bytes} (hp : 10 ∉ p) : takeLine p = none := by
  induction p with
  | nil => rfl
  | cons b bs ih =>
    simp only [List.mem_cons, not_or] at hp
    rw [takeLine, if_neg (fun e => hp.1 e.symm), ih hp.2]
    rfl

theorem feedAll_spec (segs : List Bytes) (p : Bytes) (hp : 10 ∉ p) :
    feedAll ⟨p, false⟩ segs =
      ((splitComplete (p ++ segs.flatten)).1, ⟨(splitComplete (p ++ segs.flatten)).2, false⟩) := by
  induction segs generalizing p with
  | nil =>
    simp [feedAll, (takeLine_none (takeLine_none_of_no_nl hp)).1]
  | cons s ss ih =>
    unfold feedAll
    simp only [Reader.feed]
    rw [drain_open _ _ (Nat.lt_succ_self _)]
    simp only
    rw [ih _ (splitComplete_rest_no_nl _)]
    simp only [List.flatten_cons]
    rw [← List.append_assoc, splitComplete_append (p ++ s) ss.flatten]

/-- **the reader delivers the line structure of the concatenation**, however it was cut -/
theorem readlines_eq_splitLines (segs : List Bytes) : readlines segs = splitLines segs.flatten := by
  unfold readlines
  have h := feedAll_spec segs [] (by simp)
  simp only [List.nil_append] at h
  have h' : feedAll {} segs = feedAll ⟨[], false⟩ segs := rfl
  rw [h', h]
  simp only [Reader.feedEof]
  rw [drain_eof _ _ (Nat.lt_succ_self _), splitLines_eq_complete segs.flatten]
  congr 1
  have := takeLine_none (takeLine_none_of_no_nl (splitComplete_rest_no_nl segs.flatten))
  exact this.2

/-! ### the loop of `parse_response` -/

/-- the loop condition `rest.startswith("-") or not curr_code.isdigit()` -/
@[reducible] def Open (rest curr : Str) : Prop := (startsWith rest ['-'] || !isDigit curr) = true

theorem parseLoop_open {enc : Encoding} {code : Str} {info : List Str} {rest curr : Str}
    (h : Open rest curr) (l : Bytes) (ls : List Bytes) :
    parseLoop enc code info rest curr (l :: ls) =
      match parseLine1 enc l with
      | .error e => (.error e, ls)
      | .ok (c, r) =>
        if isDigit c then
          if c ≠ code then (.error (.statusCode [code] c (info ++ [r])), ls)
          else parseLoop enc code (info ++ [r]) r c ls
        else parseLoop enc code (info ++ [c ++ r]) r c ls := by
  rw [parseLoop, if_pos h]
  rfl

theorem parseLoop_closed {enc : Encoding} {code : Str} {info : List Str} {rest curr : Str}
    (h : ¬ Open rest curr) (ls : List Bytes) :
    parseLoop enc code info rest curr ls = (.ok (code, info), ls) := by
  rw [parseLoop.eq_def, if_neg h]

/-- a line that continues a reply: `code-l` (any mode) or the list-mode body line `" " + l`,
    with the info entry the client records for it -/
inductive ContLine (code : Str) : Str → Str → Prop
  | hdr (l : Str) : ContLine code (code ++ '-' :: l) ('-' :: rstrip l)
  | body (l : Str) : ContLine code (' ' :: l) (rstrip (' ' :: l))
  /-- a body line as another server may write it: any text whose first three characters are not all digits -/
  | raw (l : Str) (h : isDigit ((rstrip l).take 3) = false) : ContLine code l (rstrip l)

theorem isDigit_take3_space (l : Str) : isDigit ((rstrip (' ' :: l)).take 3) = false := by
  rw [rstrip_cons_space_char]
  split
  · rfl
  · have : isDigitCh ' ' = false := by decide
    simp [Py.isDigit, this]

theorem cont_step {enc : Encoding} {code text entry : Str} {ch : Bytes} (hc : Digits3 code)
    (hl : ContLine code text entry) (he : encode enc (text ++ eol) = some ch)
    {rest curr : Str} (ho : Open rest curr) :
    ∃ rest' curr', Open rest' curr' ∧ ∀ (info : List Str) (R : List Bytes),
      parseLoop enc code info rest curr (ch :: R) = parseLoop enc code (info ++ [entry]) rest' curr' R := by
  cases hl with
  | hdr l =>
    refine ⟨'-' :: rstrip l, code, by simp [Open, startsWith], ?_⟩
    intro info R
    rw [parseLoop_open ho, parseLine1_written he, rstrip_code_dash, hc.take, hc.drop]
    simp [hc.isDigit]
  | body l =>
    refine ⟨(rstrip (' ' :: l)).drop 3, (rstrip (' ' :: l)).take 3, by simp [Open, isDigit_take3_space], ?_⟩
    intro info R
    rw [parseLoop_open ho, parseLine1_written he]
    simp [isDigit_take3_space, List.take_append_drop]
  | raw _ h =>
    refine ⟨(rstrip text).drop 3, (rstrip text).take 3, by simp [Open, h], ?_⟩
    intro info R
    rw [parseLoop_open ho, parseLine1_written he]
    simp [h, List.take_append_drop]

theorem cont_run {enc : Encoding} {code : Str} (hc : Digits3 code) (steps : List (Str × Str × Bytes))
    (h : ∀ p ∈ steps, ContLine code p.1 p.2.1 ∧ encode enc (p.1 ++ eol) = some p.2.2)
    {rest curr : Str} (ho : Open rest curr) :
    ∃ rest' curr', Open rest' curr' ∧ ∀ (info : List Str) (R : List Bytes),
      parseLoop enc code info rest curr (steps.map (·.2.2) ++ R) =
        parseLoop enc code (info ++ steps.map (·.2.1)) rest' curr' R := by
  induction steps generalizing rest curr with
  | nil => exact ⟨rest, curr, ho, by simp⟩
  | cons p ps ih =>
    obtain ⟨hp1, hp2⟩ := h p (by simp)
    obtain ⟨r1, c1, ho1, e1⟩ := cont_step hc hp1 hp2 ho
    obtain ⟨r2, c2, ho2, e2⟩ := ih (fun q hq => h q (List.mem_cons_of_mem _ hq)) ho1
    refine ⟨r2, c2, ho2, ?_⟩
    intro info R
    rw [List.map_cons, List.cons_append, e1, e2]
    simp

theorem final_step {enc : Encoding} {code t : Str} {ch : Bytes} (hc : Digits3 code)
    (he : encode enc ((code ++ ' ' :: t) ++ eol) = some ch) {rest curr : Str} (ho : Open rest curr)
    (info : List Str) (R : List Bytes) :
    parseLoop enc code info rest curr (ch :: R) = (.ok (code, info ++ [lastInfo t]), R) := by
  rw [parseLoop_open ho, parseLine1_written he, rstrip_code_space hc, hc.take, hc.drop]
  simp only [hc.isDigit, if_true, ne_eq, not_true_eq_false, if_false]
  rw [parseLoop_closed]
  simp [Open, lastInfo_no_dash, hc.isDigit]

theorem bad_step {enc : Encoding} {code bad : Str} {ch : Bytes}
    (he : encode enc (bad ++ eol) = some ch) (hd : isDigit ((rstrip bad).take 3) = true)
    (hne : (rstrip bad).take 3 ≠ code) {rest curr : Str} (ho : Open rest curr)
    (info : List Str) (R : List Bytes) :
    parseLoop enc code info rest curr (ch :: R) =
      (.error (.statusCode [code] ((rstrip bad).take 3) (info ++ [(rstrip bad).drop 3])), R) := by
  rw [parseLoop_open ho, parseLine1_written he]
  simp [hd, hne]

theorem parseResponse_first {enc : Encoding} {text : Str} {ch : Bytes}
    (he : encode enc (text ++ eol) = some ch) (R : List Bytes) :
    parseResponse enc (ch :: R) =
      parseLoop enc ((rstrip text).take 3) [(rstrip text).drop 3] ((rstrip text).drop 3) ((rstrip text).take 3) R := by
  simp [parseResponse, parseLine, parseLine1_written he]

/-! ### what `write_response` writes -/

theorem splitLast_concat {α : Type} (xs : List α) (t : α) : splitLast (xs ++ [t]) = some (xs, t) := by
  induction xs with
  | nil => rfl
  | cons x xs ih =>
    cases xs with
    | nil => rfl
    | cons y ys =>
      simp only [List.cons_append] at ih ⊢
      rw [splitLast, ih]
      rfl

theorem splitLast_none {α : Type} (xs : List α) (h : splitLast xs = none) : xs = [] := by
  cases xs with
  | nil => rfl
  | cons x xs =>
    obtain ⟨ys, y, hy⟩ : ∃ ys y, x :: xs = ys ++ [y] := by
      rcases List.eq_nil_or_concat (x :: xs) with h' | ⟨ys, y, h'⟩
      · simp at h'
      · exact ⟨ys, y, by simpa using h'⟩
    rw [hy, splitLast_concat] at h
    simp at h

theorem exists_concat_of_length {α : Type} (xs : List α) (h : 1 ≤ xs.length) : ∃ ys y, xs = ys ++ [y] := by
  rcases List.eq_nil_or_concat xs with h' | ⟨ys, y, h'⟩
  · subst h'; simp at h
  · exact ⟨ys, y, by simpa using h'⟩

/-- text of a continuation line for the line `l` of the reply, and the entry the client records -/
def contText (code : Str) (list : Bool) (l : Str) : Str := if list then ' ' :: l else code ++ '-' :: l
def contEntry (list : Bool) (l : Str) : Str := if list then rstrip (' ' :: l) else '-' :: rstrip l

theorem contLine_cont (code : Str) (list : Bool) (l : Str) :
    ContLine code (contText code list l) (contEntry list l) := by
  cases list
  · exact ContLine.hdr l
  · exact ContLine.body l

theorem responseLines_multi (code l0 : Str) (mid : List Str) (t : Str) (list : Bool) :
    responseLines code (l0 :: mid ++ [t]) list =
      .ok ((code ++ '-' :: l0) :: mid.map (contText code list) ++ [code ++ ' ' :: t]) := by
  unfold responseLines
  cases list
  · have : l0 :: mid ++ [t] = (l0 :: mid) ++ [t] := rfl
    simp only [Bool.false_eq_true, if_false]
    rw [this, splitLast_concat]
    simp [contText]
  · simp only [if_true, List.cons_append]
    rw [splitLast_concat]
    simp [contText]

theorem responseLines_single (code t : Str) :
    responseLines code [t] false = .ok [code ++ ' ' :: t] := rfl

/-- the payload `write_line` produces for a text line (when it is encodable) -/
def encLine (enc : Encoding) (t : Str) : Bytes := (encode enc (t ++ eol)).getD []

theorem encLine_spec {enc : Encoding} {t : Str} (h : (encode enc (t ++ eol)).isSome = true) :
    encode enc (t ++ eol) = some (encLine enc t) := by
  unfold encLine
  cases he : encode enc (t ++ eol) with
  | none => simp [he] at h
  | some b => rfl

theorem writeLines_eq (enc : Encoding) (texts : List Str)
    (h : ∀ t ∈ texts, (encode enc (t ++ eol)).isSome = true) :
    writeLines enc texts = (texts.map (encLine enc), none) := by
  induction texts with
  | nil => rfl
  | cons t ts ih =>
    rw [writeLines, encLine_spec (h t (by simp)), ih (fun x hx => h x (List.mem_cons_of_mem _ hx))]
    rfl

/-- every character has an encoding -/
@[reducible] def Encodable (enc : Encoding) (s : Str) : Prop := ∀ c ∈ s, (encodeCh enc c).isSome = true

theorem encode_isSome {enc : Encoding} {s : Str} (h : Encodable enc s) : (encode enc s).isSome = true := by
  induction s with
  | nil => rfl
  | cons c cs ih =>
    have h1 := h c (by simp)
    have h2 := ih (fun x hx => h x (List.mem_cons_of_mem _ hx))
    cases e1 : encodeCh enc c with
    | none => simp [e1] at h1
    | some a =>
      cases e2 : encode enc cs with
      | none => simp [e2] at h2
      | some b => simp [encode, e1, e2]

theorem Encodable.append {enc : Encoding} {s t : Str} (hs : Encodable enc s) (ht : Encodable enc t) :
    Encodable enc (s ++ t) := by
  intro c hc
  rcases List.mem_append.mp hc with h | h
  · exact hs c h
  · exact ht c h

theorem encodable_ascii (enc : Encoding) (c : Char) (h : c.toNat < 256) : (encodeCh enc c).isSome = true := by
  cases enc <;> simp [encodeCh, h]

theorem Encodable.utf8 (s : Str) : Encodable .utf8 s := fun _ _ => rfl

theorem encodable_eol (enc : Encoding) : Encodable enc eol := by
  intro c hc
  have : c = '\r' ∨ c = '\n' := by
    have : eol = ['\r', '\n'] := by decide
    rw [this] at hc
    simpa using hc
  rcases this with rfl | rfl <;> exact encodable_ascii enc _ (by decide)

theorem line_isSome {enc : Encoding} {t : Str} (h : Encodable enc t) :
    (encode enc (t ++ eol)).isSome = true :=
  encode_isSome (h.append (encodable_eol enc))

theorem encLine_shape {enc : Encoding} {t : Str} (h : Encodable enc t) (hnl : '\n' ∉ t) :
    ∃ l, 10 ∉ l ∧ encLine enc t = l ++ [10] := by
  obtain ⟨bl, hbl, hch⟩ := encode_line_shape (encLine_spec (line_isSome h))
  refine ⟨bl ++ [13], ?_, by simp [hch]⟩
  simp only [List.mem_append, List.mem_singleton, not_or]
  exact ⟨encode_no_nl hbl hnl, by decide⟩

/-! ### decoding what was written (line level) -/

theorem parse_written_single {enc : Encoding} {code : Str} (hc : Digits3 code) (t : Str)
    (he : (encode enc ((code ++ ' ' :: t) ++ eol)).isSome = true) (R : List Bytes) :
    parseResponse enc (encLine enc (code ++ ' ' :: t) :: R) = (.ok (code, [lastInfo t]), R) := by
  rw [parseResponse_first (encLine_spec he), rstrip_code_space hc, hc.take, hc.drop, parseLoop_closed]
  simp [Open, lastInfo_no_dash, hc.isDigit]

/-- head line, continuation lines, and whatever comes next -/
theorem parse_written_prefix {enc : Encoding} {code : Str} (hc : Digits3 code) (l0 : Str) (mid : List Str)
    (list : Bool) (he0 : (encode enc ((code ++ '-' :: l0) ++ eol)).isSome = true)
    (hem : ∀ l ∈ mid, (encode enc (contText code list l ++ eol)).isSome = true) :
    ∃ rest' curr', Open rest' curr' ∧ ∀ R : List Bytes,
      parseResponse enc (encLine enc (code ++ '-' :: l0) :: (mid.map (contText code list)).map (encLine enc) ++ R) =
        parseLoop enc code (('-' :: rstrip l0) :: mid.map (contEntry list)) rest' curr' R := by
  have ho : Open ('-' :: rstrip l0) code := by simp [Open, startsWith]
  obtain ⟨r', c', ho', e⟩ := cont_run (enc := enc) hc
    (mid.map fun l => (contText code list l, contEntry list l, encLine enc (contText code list l)))
    (by
      intro p hp
      obtain ⟨l, hl, rfl⟩ := List.mem_map.mp hp
      exact ⟨contLine_cont code list l, encLine_spec (hem l hl)⟩) ho
  refine ⟨r', c', ho', ?_⟩
  intro R
  rw [List.cons_append, parseResponse_first (encLine_spec he0), rstrip_code_dash, hc.take, hc.drop]
  have := e ['-' :: rstrip l0] R
  simp only [List.map_map, Function.comp_def] at this ⊢
  rw [this]
  simp

theorem parse_written_multi {enc : Encoding} {code : Str} (hc : Digits3 code) (l0 : Str) (mid : List Str)
    (t : Str) (list : Bool)
    (he : ∀ x ∈ (code ++ '-' :: l0) :: mid.map (contText code list) ++ [code ++ ' ' :: t],
      (encode enc (x ++ eol)).isSome = true) (R : List Bytes) :
    parseResponse enc
        (((code ++ '-' :: l0) :: mid.map (contText code list) ++ [code ++ ' ' :: t]).map (encLine enc) ++ R) =
      (.ok (code, ('-' :: rstrip l0) :: mid.map (contEntry list) ++ [lastInfo t]), R) := by
  obtain ⟨r', c', ho', e⟩ := parse_written_prefix (enc := enc) hc l0 mid list (he _ (by simp))
    (fun l hl => he _ (by simp; right; left; exact ⟨l, hl, rfl⟩))
  have hf := he (code ++ ' ' :: t) (by simp)
  have := e (encLine enc (code ++ ' ' :: t) :: R)
  simp only [List.map_cons, List.map_append, List.map_nil, List.cons_append, List.append_assoc,
    List.nil_append] at this ⊢
  rw [this, final_step hc (encLine_spec hf) ho']
  simp

/-- a multi-line reply in any spelling RFC 959 allows: `code-l0`, then any continuation lines (`code-…`, indented,
    or raw text that does not start with three digits), then `code t` -/
theorem parse_foreign_multi {enc : Encoding} {code : Str} (hc : Digits3 code) (l0 : Str) (mid : List (Str × Str))
    (t : Str) (hmid : ∀ p ∈ mid, ContLine code p.1 p.2)
    (he : ∀ x ∈ (code ++ '-' :: l0) :: mid.map (·.1) ++ [code ++ ' ' :: t],
      (encode enc (x ++ eol)).isSome = true) (R : List Bytes) :
    parseResponse enc
        (((code ++ '-' :: l0) :: mid.map (·.1) ++ [code ++ ' ' :: t]).map (encLine enc) ++ R) =
      (.ok (code, ('-' :: rstrip l0) :: mid.map (·.2) ++ [lastInfo t]), R) := by
  have ho : Open ('-' :: rstrip l0) code := by simp [Open, startsWith]
  obtain ⟨r', c', ho', e⟩ := cont_run (enc := enc) hc
    (mid.map fun p => (p.1, p.2, encLine enc p.1))
    (by
      intro q hq
      obtain ⟨p, hp, rfl⟩ := List.mem_map.mp hq
      exact ⟨hmid p hp, encLine_spec (he p.1 (by simp; right; left; exact ⟨p.2, hp⟩))⟩) ho
  have hf := he (code ++ ' ' :: t) (by simp)
  have h0 := he (code ++ '-' :: l0) (by simp)
  have := e ['-' :: rstrip l0] (encLine enc (code ++ ' ' :: t) :: R)
  simp only [List.map_cons, List.map_append, List.map_nil, List.cons_append, List.append_assoc,
    List.nil_append, List.map_map, Function.comp_def] at this ⊢
  rw [parseResponse_first (encLine_spec h0), rstrip_code_dash, hc.take, hc.drop, this,
    final_step hc (encLine_spec hf) ho']
  simp

theorem parse_written_bad {enc : Encoding} {code : Str} (hc : Digits3 code) (l0 : Str) (mid : List Str)
    (list : Bool) (bad : Str)
    (he : ∀ x ∈ (code ++ '-' :: l0) :: mid.map (contText code list) ++ [bad],
      (encode enc (x ++ eol)).isSome = true)
    (hd : isDigit ((rstrip bad).take 3) = true) (hne : (rstrip bad).take 3 ≠ code) (R : List Bytes) :
    parseResponse enc
        (((code ++ '-' :: l0) :: mid.map (contText code list) ++ [bad]).map (encLine enc) ++ R) =
      (.error (.statusCode [code] ((rstrip bad).take 3)
        (('-' :: rstrip l0) :: mid.map (contEntry list) ++ [(rstrip bad).drop 3])), R) := by
  obtain ⟨r', c', ho', e⟩ := parse_written_prefix (enc := enc) hc l0 mid list (he _ (by simp))
    (fun l hl => he _ (by simp; right; left; exact ⟨l, hl, rfl⟩))
  have hf := he bad (by simp)
  have := e (encLine enc bad :: R)
  simp only [List.map_cons, List.map_append, List.map_nil, List.cons_append, List.append_assoc,
    List.nil_append] at this ⊢
  rw [this, bad_step (encLine_spec hf) hd hne ho']
  simp

/-! ### Code.matches, the wait/expect loop, parse_command -/

theorem codeMatches_iff (code mask : Str) :
    codeMatches code mask = true ↔
      ∀ (i : Nat) (m c : Char), mask[i]? = some m → code[i]? = some c → isDigitCh m = true → m = c := by
  unfold codeMatches
  induction mask generalizing code with
  | nil => simp
  | cons m ms ih =>
    cases code with
    | nil => simp
    | cons c cs =>
      simp only [List.zip_cons_cons, List.all_cons, Bool.and_eq_true, ih cs]
      constructor
      · rintro ⟨h0, hr⟩ i m' c' hm hc hd
        cases i with
        | zero =>
          simp only [List.getElem?_cons_zero, Option.some.injEq] at hm hc
          subst hm; subst hc
          simp only [Bool.or_eq_true, Bool.not_eq_true', beq_iff_eq] at h0
          rcases h0 with h0 | h0
          · rw [h0] at hd; cases hd
          · exact h0
        | succ k =>
          simp only [List.getElem?_cons_succ] at hm hc
          exact hr k m' c' hm hc hd
      · intro h
        constructor
        · have := h 0 m c (by simp) (by simp)
          cases hd : isDigitCh m with
          | false => simp
          | true => simp [this hd]
        · intro i m' c' hm hc hd
          exact h (i + 1) m' c' (by simpa using hm) (by simpa using hc) hd

theorem commandLoop_ok {enc : Encoding} {wait : List Str} {lines r : List Bytes} {code : Str}
    {info : List Str} (h : parseResponse enc lines = (.ok (code, info), r)) :
    commandLoop enc wait lines =
      if wait.any (codeMatches code) then commandLoop enc wait r else (.ok (code, info), r) := by
  rw [commandLoop]
  split
  · rename_i e r' heq
    rw [h] at heq
    simp at heq
  · rename_i code' info' r' heq
    rw [h] at heq
    simp only [Prod.mk.injEq, Except.ok.injEq] at heq
    obtain ⟨⟨rfl, rfl⟩, rfl⟩ := heq
    rfl

theorem commandLoop_err {enc : Encoding} {wait : List Str} {lines r : List Bytes} {e : FErr}
    (h : parseResponse enc lines = (.error e, r)) :
    commandLoop enc wait lines = (.error e, r) := by
  rw [commandLoop]
  split
  · rename_i e' r' heq
    rw [h] at heq
    simp only [Prod.mk.injEq, Except.error.injEq] at heq
    obtain ⟨rfl, rfl⟩ := heq
    rfl
  · rename_i code' info' r' heq
    rw [h] at heq
    simp at heq

theorem partitionSpace_append (verb arg : Str) (h : ' ' ∉ verb) :
    partitionSpace (verb ++ ' ' :: arg) = (verb, arg) := by
  induction verb with
  | nil => simp [partitionSpace]
  | cons c cs ih =>
    simp only [List.mem_cons, not_or] at h
    simp only [List.cons_append]
    rw [partitionSpace, if_neg (fun e => h.1 e.symm), ih h.2]

theorem partitionSpace_nosep (verb : Str) (h : ' ' ∉ verb) : partitionSpace verb = (verb, []) := by
  induction verb with
  | nil => rfl
  | cons c cs ih =>
    simp only [List.mem_cons, not_or] at h
    rw [partitionSpace, if_neg (fun e => h.1 e.symm), ih h.2]

theorem parseCommand_written {enc : Encoding} {text : Str} {ch : Bytes}
    (he : encode enc (text ++ eol) = some ch) (R : List Bytes) :
    parseCommand enc (ch :: R) =
      (.ok (lowerFull (partitionSpace (rstrip text)).1, (partitionSpace (rstrip text)).2), R) := by
  obtain ⟨bl, _, hch⟩ := encode_line_shape he
  have hne : ch.isEmpty = false := by subst hch; simp
  simp only [parseCommand, hne, decode_encode enc _ _ he, rstrip_eol]
  simp

/-! ### a whole reply -/

/-- one `write_response` call -/
structure Rep where
  code : Str
  lines : List Str
  list : Bool

/-- the payloads `write_response` writes for `r` -/
def wire (enc : Encoding) (r : Rep) : List Bytes :=
  (writeResponse enc r.code (.many r.lines) r.list).1

/-- the `info` list the client is expected to return for the text lines `lines`:
    `-` + line on every line but the last (list-mode body lines: the line with its leading blank),
    ` ` + line on the last one — each stripped on the right as `parse_line` does -/
def infoOf (lines : List Str) (list : Bool) : List Str :=
  match splitLast lines with
  | none => []
  | some (init, t) =>
    (match init with
     | [] => []
     | l0 :: mid => ('-' :: rstrip l0) :: mid.map (contEntry list)) ++ [lastInfo t]

def decoded (r : Rep) : Reply := (r.code, infoOf r.lines r.list)

/-- the replies the theorems speak about -/
def InDomain (enc : Encoding) (r : Rep) : Prop :=
  Digits3 r.code ∧ Encodable enc r.code ∧
  (if r.list then 2 ≤ r.lines.length else 1 ≤ r.lines.length) ∧
  ∀ l ∈ r.lines, Encodable enc l ∧ '\n' ∉ l

theorem splitLast_cons_concat {α : Type} (x : α) (xs : List α) (t : α) :
    splitLast (x :: (xs ++ [t])) = some (x :: xs, t) := splitLast_concat (x :: xs) t

theorem tail_lastInfo (t : Str) : (lastInfo t).tail = rstrip t := by
  rw [← List.drop_one]; exact drop_one_lastInfo t

theorem tail_body (l : Str) : (rstrip (' ' :: l)).tail = rstrip l := by
  rw [← List.drop_one]; exact drop_one_body l

theorem Encodable.cons {enc : Encoding} {c : Char} {s : Str} (hc : c.toNat < 256) (hs : Encodable enc s) :
    Encodable enc (c :: s) := by
  intro x hx
  rcases List.mem_cons.mp hx with rfl | h
  · exact encodable_ascii enc _ hc
  · exact hs x h

theorem Digits3.no_nl {code : Str} (h : Digits3 code) : '\n' ∉ code := by
  intro hm
  have := h.2 _ hm
  have h' : isDigitCh '\n' = false := by decide
  rw [h'] at this
  cases this

theorem good_hdr {enc : Encoding} {code l : Str} (hc : Digits3 code) (hce : Encodable enc code)
    (hl : Encodable enc l ∧ '\n' ∉ l) (sep : Char) (hs : sep.toNat < 256) (hsn : sep ≠ '\n') :
    Encodable enc (code ++ sep :: l) ∧ '\n' ∉ code ++ sep :: l := by
  refine ⟨hce.append (Encodable.cons hs hl.1), ?_⟩
  simp only [List.mem_append, List.mem_cons, not_or]
  exact ⟨hc.no_nl, fun e => hsn e.symm, hl.2⟩

theorem good_body {enc : Encoding} {l : Str} (hl : Encodable enc l ∧ '\n' ∉ l) :
    Encodable enc (' ' :: l) ∧ '\n' ∉ ' ' :: l := by
  refine ⟨Encodable.cons (by decide) hl.1, ?_⟩
  simp only [List.mem_cons, not_or]
  exact ⟨by decide, hl.2⟩

theorem good_cont {enc : Encoding} {code l : Str} (hc : Digits3 code) (hce : Encodable enc code)
    (hl : Encodable enc l ∧ '\n' ∉ l) (list : Bool) :
    Encodable enc (contText code list l) ∧ '\n' ∉ contText code list l := by
  cases list
  · exact good_hdr hc hce hl '-' (by decide) (by decide)
  · exact good_body hl

/-- texts written for an in-domain reply -/
theorem InDomain.texts {enc : Encoding} {r : Rep} (h : InDomain enc r) :
    ∃ texts, responseLines r.code r.lines r.list = .ok texts ∧ texts.length = r.lines.length ∧
      (∀ x ∈ texts, Encodable enc x ∧ '\n' ∉ x) ∧
      ∀ R, parseResponse enc (texts.map (encLine enc) ++ R) = (.ok (decoded r), R) := by
  obtain ⟨hc, hce, hshape, hl⟩ := h
  obtain ⟨code, lines, list⟩ := r
  simp only at hc hce hshape hl ⊢
  have hlen : 1 ≤ lines.length := by
    cases list <;> simp at hshape <;> omega
  obtain ⟨ys, t, rfl⟩ := exists_concat_of_length lines hlen
  have ht := hl t (by simp)
  cases ys with
  | nil =>
    have hlist : list = false := by
      cases list
      · rfl
      · simp at hshape
    subst hlist
    have hg := good_hdr hc hce ht ' ' (by decide) (by decide)
    refine ⟨[code ++ ' ' :: t], rfl, rfl, by simpa using hg, ?_⟩
    intro R
    have := parse_written_single (enc := enc) hc t (line_isSome hg.1) R
    simpa [decoded, infoOf, splitLast] using this
  | cons l0 mid =>
    have h0 := hl l0 (by simp)
    have hmid : ∀ l ∈ mid, Encodable enc l ∧ '\n' ∉ l := fun l hm => hl l (by simp [hm])
    have hgood : ∀ x ∈ (code ++ '-' :: l0) :: mid.map (contText code list) ++ [code ++ ' ' :: t],
        Encodable enc x ∧ '\n' ∉ x := by
      intro x hx
      simp only [List.cons_append, List.mem_cons, List.mem_append, List.mem_map, List.mem_nil_iff,
        or_false] at hx
      rcases hx with rfl | ⟨l, hm, rfl⟩ | rfl
      · exact good_hdr hc hce h0 '-' (by decide) (by decide)
      · exact good_cont hc hce (hmid l hm) list
      · exact good_hdr hc hce ht ' ' (by decide) (by decide)
    refine ⟨_, responseLines_multi code l0 mid t list, by simp, hgood, ?_⟩
    intro R
    have := parse_written_multi (enc := enc) hc l0 mid t list (fun x hx => line_isSome (hgood x hx).1) R
    rw [this]
    simp [decoded, infoOf, splitLast_cons_concat]

theorem wire_spec {enc : Encoding} {r : Rep} (h : InDomain enc r) :
    (writeResponse enc r.code (.many r.lines) r.list).2 = none ∧
    (wire enc r).length = r.lines.length ∧
    (∀ c ∈ wire enc r, ∃ l, 10 ∉ l ∧ c = l ++ [10]) ∧
    ∀ R, parseResponse enc (wire enc r ++ R) = (.ok (decoded r), R) := by
  obtain ⟨texts, h1, h2, h3, h4⟩ := h.texts
  have hw : writeResponse enc r.code (.many r.lines) r.list = (texts.map (encLine enc), none) := by
    unfold writeResponse
    simp only [wrapWithContainer, h1]
    exact writeLines_eq enc texts (fun t ht => line_isSome (h3 t ht).1)
  refine ⟨by rw [hw], by simp [wire, hw, h2], ?_, by simpa [wire, hw] using h4⟩
  intro c hc
  simp only [wire, hw, List.mem_map] at hc
  obtain ⟨t, ht, rfl⟩ := hc
  obtain ⟨l, hl1, hl2⟩ := encLine_shape (h3 t ht).1 (h3 t ht).2
  exact ⟨l, hl1, hl2⟩

/-- text lines (info entries without their separator character) = the written lines, stripped -/
theorem infoOf_texts (lines : List Str) (list : Bool) :
    (infoOf lines list).map (List.drop 1) = lines.map rstrip := by
  unfold infoOf
  cases h : splitLast lines with
  | none => simp [splitLast_none lines h]
  | some p =>
    obtain ⟨init, t⟩ := p
    have : lines = init ++ [t] := by
      have hne : lines ≠ [] := by intro e; subst e; simp [splitLast] at h
      obtain ⟨ys, y, rfl⟩ := exists_concat_of_length lines (by
        cases lines with
        | nil => exact absurd rfl hne
        | cons a b => simp)
      rw [splitLast_concat] at h
      simp only [Option.some.injEq, Prod.mk.injEq] at h
      rw [h.1, h.2]
    subst this
    cases init with
    | nil => simp [tail_lastInfo]
    | cons l0 mid =>
      simp only [List.map_cons, List.map_append, List.map_map, List.map_nil, drop_one_lastInfo,
        List.cons_append, List.drop_succ_cons, List.drop_zero]
      congr 2
      apply List.map_congr_left
      intro l _
      cases list <;> simp [contEntry, tail_body]

end Model
