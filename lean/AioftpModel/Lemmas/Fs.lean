/-
  Lemmas about the flat tree `Fs`: the well-formedness invariant, what the Memory and the POSIX operations
  do to it, and where the two backends agree.
-/
import AioftpModel.Model.FsMem
import AioftpModel.Model.FsPosix
import AioftpModel.Model.Backend

namespace Model.FsLemmas
open Model Model.Fs Model.Backends

/-! ### well-formedness -/

/-- no duplicate keys; the root is implicit; the parent of every entry is the root or a directory entry.
    (All ancestors are then directories and nothing lies below a file: `WF.isDir_take`, `WF.no_child_of_file`.) -/
structure WF (fs : Fs) : Prop where
  nodup : fs.Pairwise (fun a b => a.1 ≠ b.1)
  nonroot : ∀ x ∈ fs, x.1 ≠ []
  parent : ∀ x ∈ fs, x.1.dropLast = [] ∨ (x.1.dropLast, Entry.dir) ∈ fs

/-! ### lookup -/

theorem find_key_of_mem {fs : Fs} (hnd : fs.Pairwise (fun a b => a.1 ≠ b.1)) {p : Path} {e : Entry}
    (hx : (p, e) ∈ fs) : fs.find? (fun x => decide (x.1 = p)) = some (p, e) := by
  induction fs with
  | nil => cases hx
  | cons y ys ih =>
    rw [List.pairwise_cons] at hnd
    rcases List.mem_cons.mp hx with h | h
    · subst h; simp
    · have hne : y.1 ≠ p := fun h' => hnd.1 (p, e) h h'
      rw [List.find?_cons]
      simp only [hne, decide_false]
      exact ih hnd.2 h

theorem lookup_of_mem {fs : Fs} (h : WF fs) {p : Path} {e : Entry} (hx : (p, e) ∈ fs) :
    lookup fs p = some e := by
  have hp : p ≠ [] := h.nonroot _ hx
  simp only [lookup, hp, if_false]
  rw [find_key_of_mem h.nodup hx]; rfl

theorem mem_of_lookup {fs : Fs} {p : Path} {e : Entry} (hp : p ≠ []) (h : lookup fs p = some e) :
    (p, e) ∈ fs := by
  simp only [lookup, hp, if_false] at h
  cases hf : fs.find? (fun x => decide (x.1 = p)) with
  | none => rw [hf] at h; cases h
  | some y =>
    rw [hf] at h
    have h1 := List.find?_some hf
    have h2 := List.mem_of_find?_eq_some hf
    simp only [Option.map_some, Option.some.injEq] at h
    simp only [decide_eq_true_eq] at h1
    have : y = (p, e) := by cases y; simp_all
    rw [← this]; exact h2

theorem lookup_none_iff {fs : Fs} {p : Path} : lookup fs p = none ↔ p ≠ [] ∧ ∀ e, (p, e) ∉ fs := by
  constructor
  · intro h
    have hp : p ≠ [] := by
      intro hp; simp [lookup, hp] at h
    refine ⟨hp, ?_⟩
    intro e he
    simp only [lookup, hp, if_false, Option.map_eq_none_iff] at h
    have := List.find?_eq_none.mp h (p, e) he
    simp at this
  · rintro ⟨hp, hn⟩
    cases hl : lookup fs p with
    | none => rfl
    | some e => exact absurd (mem_of_lookup hp hl) (hn e)

theorem lookup_nil (fs : Fs) : lookup fs [] = some .dir := by simp [lookup]

theorem isDir_iff {fs : Fs} {p : Path} : isDir fs p = true ↔ lookup fs p = some .dir := by
  simp [isDir]

theorem isDir_nil (fs : Fs) : isDir fs [] = true := by simp [isDir, lookup]

theorem isFile_iff {fs : Fs} {p : Path} : isFile fs p = true ↔ ∃ c, lookup fs p = some (.file c) := by
  unfold isFile
  cases lookup fs p with
  | none => simp
  | some e => cases e <;> simp

theorem exists_iff {fs : Fs} {p : Path} : exists_ fs p = true ↔ ∃ e, lookup fs p = some e := by
  simp [exists_, Option.isSome_iff_exists]

theorem exists_false_iff {fs : Fs} {p : Path} : exists_ fs p = false ↔ lookup fs p = none := by
  simp [exists_]

theorem isFile_false_of_none {fs : Fs} {p : Path} (h : lookup fs p = none) : isFile fs p = false := by
  simp [isFile, h]

theorem isDir_false_of_none {fs : Fs} {p : Path} (h : lookup fs p = none) : isDir fs p = false := by
  simp [isDir, h]

/-! ### ancestors -/

theorem take_dropLast {α : Type} (l : List α) (i : Nat) (hi : i < l.length) : l.dropLast.take i = l.take i := by
  rw [List.dropLast_eq_take, List.take_take]
  congr 1
  omega

theorem WF.isDir_parent {fs : Fs} (h : WF fs) {p : Path} {e : Entry} (hx : (p, e) ∈ fs) :
    isDir fs p.dropLast = true := by
  rcases h.parent _ hx with h0 | h1
  · simp only at h0; rw [h0]; exact isDir_nil fs
  · exact isDir_iff.mpr (lookup_of_mem h h1)

/-- every prefix of a directory is a directory -/
theorem WF.isDir_take {fs : Fs} (h : WF fs) : ∀ (n : Nat) (p : Path), p.length = n → isDir fs p = true →
    ∀ i, isDir fs (p.take i) = true := by
  intro n
  induction n with
  | zero =>
    intro p hp _ i
    have : p = [] := List.length_eq_zero_iff.mp hp
    subst this; simpa using isDir_nil fs
  | succ n ih =>
    intro p hp hd i
    have hne : p ≠ [] := by intro h0; subst h0; simp at hp
    have hmem := mem_of_lookup hne (isDir_iff.mp hd)
    have hpar := h.isDir_parent hmem
    by_cases hi : i < p.length
    · rw [← take_dropLast p i hi]
      exact ih p.dropLast (by simp [hp]) hpar i
    · rw [List.take_of_length_le (by omega)]; exact hd

/-- every proper prefix of an existing path is a directory -/
theorem WF.isDir_take_of_lookup {fs : Fs} (h : WF fs) {p : Path} {e : Entry} (hl : lookup fs p = some e)
    (i : Nat) (hi : i < p.length) : isDir fs (p.take i) = true := by
  have hne : p ≠ [] := by intro h0; subst h0; simp at hi
  have hpar := h.isDir_parent (mem_of_lookup hne hl)
  rw [← take_dropLast p i hi]
  exact h.isDir_take _ _ rfl hpar i

/-- nothing lies below a file -/
theorem WF.no_child_of_file {fs : Fs} (h : WF fs) {p q : Path} {e : Entry} (hq : lookup fs q = some e)
    (i : Nat) (hi : i < q.length) (hp : q.take i = p) : isFile fs p = false := by
  have hd := h.isDir_take_of_lookup hq i hi
  rw [hp] at hd
  have := isDir_iff.mp hd
  simp [isFile, this]

/-! ### kernel path resolution -/

theorem find_range_some {f : Nat → Bool} : ∀ {n i : Nat}, (List.range n).find? f = some i →
    f i = true ∧ i < n ∧ ∀ j, j < i → f j = false := by
  intro n
  induction n with
  | zero => intro i h; simp at h
  | succ n ih =>
    intro i h
    rw [List.range_succ, List.find?_append] at h
    cases hf : (List.range n).find? f with
    | some i' =>
      rw [hf] at h
      simp only [Option.some_or, Option.some.injEq] at h
      subst h
      obtain ⟨h1, h2, h3⟩ := ih hf
      exact ⟨h1, by omega, h3⟩
    | none =>
      rw [hf] at h
      simp only [Option.none_or] at h
      rw [List.find?_cons] at h
      cases hfn : f n with
      | false => simp [hfn] at h
      | true =>
        simp only [hfn, Option.some.injEq] at h
        subst h
        refine ⟨hfn, by omega, ?_⟩
        intro j hj
        have := List.find?_eq_none.mp hf j (List.mem_range.mpr hj)
        simpa using this

theorem dirPart_ok_iff {fs : Fs} {p : Path} :
    Posix.dirPart fs p = .ok () ↔ ∀ i, i < p.length → isDir fs (p.take i) = true := by
  unfold Posix.dirPart
  cases hf : (List.range p.length).find? (fun i => !isDir fs (p.take i)) with
  | none =>
    simp only [true_iff]
    intro i hi
    have := List.find?_eq_none.mp hf i (List.mem_range.mpr hi)
    simpa using this
  | some i =>
    obtain ⟨h1, h2, _⟩ := find_range_some hf
    constructor
    · intro h; simp only at h; split at h <;> cases h
    · intro h
      have := h i h2
      simp [this] at h1

theorem dirPart_ok_of_parent {fs : Fs} (h : WF fs) {p : Path} (hd : isDir fs p.dropLast = true) :
    Posix.dirPart fs p = .ok () := by
  rw [dirPart_ok_iff]
  intro i hi
  rw [← take_dropLast p i hi]
  exact h.isDir_take _ _ rfl hd i

theorem parent_of_dirPart_ok {fs : Fs} {p : Path} (h : Posix.dirPart fs p = .ok ()) :
    isDir fs p.dropLast = true := by
  rw [dirPart_ok_iff] at h
  by_cases hp : p = []
  · subst hp; simpa using isDir_nil fs
  · have hl : 0 < p.length := List.length_pos_iff.mpr hp
    have := h (p.length - 1) (by omega)
    rwa [← List.dropLast_eq_take] at this

theorem dirPart_ok_iff_parent {fs : Fs} (h : WF fs) {p : Path} :
    Posix.dirPart fs p = .ok () ↔ isDir fs p.dropLast = true :=
  ⟨parent_of_dirPart_ok, dirPart_ok_of_parent h⟩

theorem dirPart_ok_of_lookup {fs : Fs} (h : WF fs) {p : Path} {e : Entry} (hl : lookup fs p = some e) :
    Posix.dirPart fs p = .ok () := by
  rw [dirPart_ok_iff]; exact fun i hi => h.isDir_take_of_lookup hl i hi

/-- the three outcomes, with what each says about the tree -/
theorem dirPart_cases (fs : Fs) (p : Path) :
    Posix.dirPart fs p = .ok () ∨
    (Posix.dirPart fs p = .error .ENOTDIR ∧ ∃ i, i < p.length ∧ isFile fs (p.take i) = true) ∨
    (Posix.dirPart fs p = .error .ENOENT ∧ ∃ i, i < p.length ∧ lookup fs (p.take i) = none ∧
      ∀ j, j < i → isDir fs (p.take j) = true) := by
  unfold Posix.dirPart
  cases hf : (List.range p.length).find? (fun i => !isDir fs (p.take i)) with
  | none => left; rfl
  | some i =>
    obtain ⟨h1, h2, h3⟩ := find_range_some hf
    right
    simp only
    by_cases hfile : isFile fs (p.take i) = true
    · left; simp only [hfile, if_true]; exact ⟨trivial, i, h2, hfile⟩
    · right
      simp only [hfile]
      refine ⟨by simp, i, h2, ?_, ?_⟩
      · cases hl : lookup fs (p.take i) with
        | none => rfl
        | some e =>
          cases e with
          | dir => simp [isDir, hl] at h1
          | file c => exact absurd (isFile_iff.mpr ⟨c, hl⟩) hfile
      · intro j hj; simpa using h3 j hj

theorem resolve_of_lookup {fs : Fs} (h : WF fs) {p : Path} {e : Entry} (hl : lookup fs p = some e) :
    Posix.resolve fs p = .ok e := by
  unfold Posix.resolve
  rw [dirPart_ok_of_lookup h hl]; simp [hl]

theorem resolve_of_none {fs : Fs} {p : Path} (hl : lookup fs p = none) :
    ∃ er, Posix.resolve fs p = .error er := by
  unfold Posix.resolve
  cases Posix.dirPart fs p with
  | error er => exact ⟨er, rfl⟩
  | ok u => simp [hl]

theorem posix_exists_eq {fs : Fs} (h : WF fs) (p : Path) : Posix.exists_ fs p = exists_ fs p := by
  unfold Posix.exists_ exists_
  cases hl : lookup fs p with
  | none => obtain ⟨er, he⟩ := resolve_of_none hl; simp [he]
  | some e => simp [resolve_of_lookup h hl]

theorem posix_isDir_eq {fs : Fs} (h : WF fs) (p : Path) : Posix.isDir fs p = isDir fs p := by
  unfold Posix.isDir isDir
  cases hl : lookup fs p with
  | none => obtain ⟨er, he⟩ := resolve_of_none hl; simp [he]
  | some e => rw [resolve_of_lookup h hl]; cases e <;> simp

theorem posix_isFile_eq {fs : Fs} (h : WF fs) (p : Path) : Posix.isFile fs p = isFile fs p := by
  unfold Posix.isFile isFile
  cases hl : lookup fs p with
  | none => obtain ⟨er, he⟩ := resolve_of_none hl; simp [he]
  | some e => rw [resolve_of_lookup h hl]; cases e <;> rfl

/-! ### where the two backends agree, operation by operation -/

theorem prefix_iff {a b : Path} : a.isPrefixOf b = true ↔ a <+: b := List.isPrefixOf_iff_prefix

theorem dropLast_of_prefix_succ {p x : Path} (hp : p <+: x) (hl : x.length = p.length + 1) : x.dropLast = p := by
  obtain ⟨t, rfl⟩ := hp
  have ht : t.length = 1 := by simp at hl; omega
  match t, ht with
  | [a], _ => simp

theorem children_nil_of_not_dir {fs : Fs} (h : WF fs) {p : Path} (hnd : isDir fs p = false) :
    children fs p = [] := by
  unfold children
  rw [List.map_eq_nil_iff, List.filter_eq_nil_iff]
  intro x hx hc
  simp only [Bool.and_eq_true, decide_eq_true_eq] at hc
  have hdl := dropLast_of_prefix_succ (prefix_iff.mp hc.2) hc.1
  have := h.isDir_parent (p := x.1) (e := x.2) hx
  rw [hdl, hnd] at this
  cases this

theorem posix_list_eq {fs : Fs} (h : WF fs) (p : Path) : Posix.list fs p = children fs p := by
  unfold Posix.list
  rw [posix_isDir_eq h]
  cases hd : isDir fs p with
  | true => simp
  | false => simp [children_nil_of_not_dir h hd]

theorem posix_rmdir_eq {fs : Fs} (h : WF fs) (p : Path) : Backend.ofRes (Posix.rmdir fs p) = Fs.rmdir fs p := by
  unfold Posix.rmdir Fs.rmdir
  by_cases hp : p = []
  · simp [hp, Backend.ofRes]
  · simp only [hp, if_false]
    cases hl : lookup fs p with
    | none =>
      obtain ⟨er, he⟩ := resolve_of_none hl
      simp [he, Backend.ofRes, isDir_false_of_none hl]
    | some e =>
      rw [resolve_of_lookup h hl]
      cases e with
      | dir =>
        have hd : isDir fs p = true := isDir_iff.mpr hl
        simp only [hd]
        cases (children fs p).isEmpty <;> simp [Backend.ofRes]
      | file c =>
        have hd : isDir fs p = false := by simp [isDir, hl]
        simp [hd, Backend.ofRes]

theorem posix_unlink_eq {fs : Fs} (h : WF fs) (p : Path) : Backend.ofRes (Posix.unlink fs p) = Fs.unlink fs p := by
  unfold Posix.unlink Fs.unlink
  cases hl : lookup fs p with
  | none =>
    obtain ⟨er, he⟩ := resolve_of_none hl
    simp [he, Backend.ofRes, isFile_false_of_none hl]
  | some e =>
    rw [resolve_of_lookup h hl]
    cases e with
    | dir => simp [isFile, hl, Backend.ofRes]
    | file c => simp [isFile, hl, Backend.ofRes]

/-- `open`: the two backends agree, for every path and mode (since `r+b` no longer creates on Memory: F7-c) -/
theorem posix_openFile_eq {fs : Fs} (h : WF fs) (p : Path) (mode : Nat) :
    Backend.ofRes (Posix.openFile fs p mode) = Fs.openFile fs p mode := by
  unfold Posix.openFile Fs.openFile
  match mode with
  | 0 =>
    simp only [Nat.reduceEqDiff, or_self, if_false]
    cases hl : lookup fs p with
    | none => obtain ⟨er, he⟩ := resolve_of_none hl; simp [he, Backend.ofRes]
    | some e => rw [resolve_of_lookup h hl]; cases e <;> simp [Backend.ofRes]
  | 1 =>
    by_cases hp : p = []
    · simp [hp, Backend.ofRes]
    · simp only [true_or, if_true, hp, if_false]
      cases hl : lookup fs p with
      | none =>
        cases hd : isDir fs p.dropLast with
        | true => rw [dirPart_ok_of_parent h hd]; simp [Backend.ofRes]
        | false =>
          cases hdp : Posix.dirPart fs p with
          | error er => simp [Backend.ofRes]
          | ok u => have := parent_of_dirPart_ok hdp; rw [hd] at this; cases this
      | some e =>
        rw [dirPart_ok_of_lookup h hl]
        cases e <;> simp [Backend.ofRes]
  | 2 =>
    by_cases hp : p = []
    · simp [hp, Backend.ofRes]
    · simp only [Nat.reduceEqDiff, or_true, if_true, hp, if_false]
      cases hl : lookup fs p with
      | none =>
        cases hd : isDir fs p.dropLast with
        | true => rw [dirPart_ok_of_parent h hd]; simp [Backend.ofRes]
        | false =>
          cases hdp : Posix.dirPart fs p with
          | error er => simp [Backend.ofRes]
          | ok u => have := parent_of_dirPart_ok hdp; rw [hd] at this; cases this
      | some e =>
        rw [dirPart_ok_of_lookup h hl]
        cases e <;> simp [Backend.ofRes]
  | m + 3 =>
    have h1 : ¬ (m + 3 = 1 ∨ m + 3 = 2) := by omega
    simp only [h1, if_false]
    by_cases hp : p = []
    · subst hp
      simp [Posix.resolve, Posix.dirPart, lookup, Backend.ofRes]
    · simp only [hp, if_false]
      cases hl : lookup fs p with
      | none =>
        obtain ⟨er, he⟩ := resolve_of_none hl
        simp [he, h1, Backend.ofRes]
      | some e =>
        rw [resolve_of_lookup h hl]
        cases e with
        | dir => simp [Backend.ofRes]
        | file c =>
          have h2 : ¬ (m + 3 = 1) := by omega
          have h3 : ¬ (m + 3 = 2) := by omega
          simp [Backend.ofRes, h2, h3]

theorem exists_of_isDir {fs : Fs} {p : Path} (h : isDir fs p = true) : exists_ fs p = true :=
  exists_iff.mpr ⟨_, isDir_iff.mp h⟩

theorem isFile_nil (fs : Fs) : isFile fs [] = false := by simp [isFile, lookup]

/-- the step of `mkdir(parents=True)` -/
def mkStep (acc : Fs) (q : Path) : Fs := if exists_ acc q then acc else acc ++ [(q, Entry.dir)]

theorem createMissing_eq (fs : Fs) (p : Path) : Posix.createMissing fs p = (prefixes p).foldl mkStep fs := rfl

theorem foldl_mkStep_all_exist (fs : Fs) : ∀ (L : List Path), (∀ q ∈ L, exists_ fs q = true) → L.foldl mkStep fs = fs := by
  intro L
  induction L with
  | nil => intro _; rfl
  | cons q qs ih =>
    intro h
    have hq := h q (by simp)
    simp only [List.foldl_cons, mkStep, hq, if_true]
    exact ih (fun x hx => h x (by simp [hx]))

theorem prefixes_succ (p : Path) (n : Nat) (hn : p.length = n + 1) :
    prefixes p = (List.range n).map (fun i => p.take (i + 1)) ++ [p] := by
  unfold prefixes
  rw [hn, List.range_succ, List.map_append]
  simp only [List.map_cons, List.map_nil]
  rw [List.take_of_length_le (by omega)]

theorem mem_prefixes {p q : Path} : q ∈ prefixes p ↔ ∃ i, i < p.length ∧ q = p.take (i + 1) := by
  unfold prefixes
  simp only [List.mem_map, List.mem_range]
  constructor
  · rintro ⟨i, hi, rfl⟩; exact ⟨i, hi, rfl⟩
  · rintro ⟨i, hi, rfl⟩; exact ⟨i, hi, rfl⟩

/-- all proper prefixes exist, the path itself does not: only the path is created -/
theorem createMissing_last {fs : Fs} {p : Path} (hp : p ≠ [])
    (hpre : ∀ i, i < p.length → isDir fs (p.take i) = true) (hl : lookup fs p = none) :
    Posix.createMissing fs p = fs ++ [(p, Entry.dir)] := by
  obtain ⟨n, hn⟩ : ∃ n, p.length = n + 1 := ⟨p.length - 1, by have := List.length_pos_iff.mpr hp; omega⟩
  have h1 : ((List.range n).map (fun i => p.take (i + 1))).foldl mkStep fs = fs := by
    apply foldl_mkStep_all_exist
    intro q hq
    simp only [List.mem_map, List.mem_range] at hq
    obtain ⟨i, hi, rfl⟩ := hq
    exact exists_of_isDir (hpre (i + 1) (by omega))
  rw [createMissing_eq, prefixes_succ p n hn, List.foldl_append, h1]
  simp [mkStep, exists_false_iff.mpr hl]

theorem take_take_of_le {α : Type} (l : List α) {i j : Nat} (h : i ≤ j) : (l.take j).take i = l.take i := by
  rw [List.take_take]; congr 1; omega

/-- `mkdir(parents=True)`: the two backends agree everywhere -/
theorem posix_mkdirParents_eq {fs : Fs} (h : WF fs) (p : Path) :
    Backend.ofRes (Posix.mkdir fs p true false) = Fs.mkdirParents fs p := by
  unfold Posix.mkdir Fs.mkdirParents
  by_cases hp : p = []
  · subst hp; simp [Backend.ofRes, exists_, lookup]
  · simp only [hp, if_false]
    rcases dirPart_cases fs p with hok | ⟨herr, i, hi, hfile⟩ | ⟨herr, i, hi, hnone, hbefore⟩
    · rw [hok]
      have hpre := dirPart_ok_iff.mp hok
      cases hl : lookup fs p with
      | some e =>
        have hex : exists_ fs p = true := exists_iff.mpr ⟨e, hl⟩
        cases e <;> simp [hex, Backend.ofRes]
      | none =>
        have hex : exists_ fs p = false := exists_false_iff.mpr hl
        have hany : (prefixes p).any (fun q => isFile fs q) = false := by
          rw [List.any_eq_false]
          intro q hq
          obtain ⟨j, hj, rfl⟩ := mem_prefixes.mp hq
          by_cases hjl : j + 1 < p.length
          · have := isDir_iff.mp (hpre (j + 1) hjl)
            simp [isFile, this]
          · rw [List.take_of_length_le (by omega)]
            simp [isFile, hl]
        have hcm := createMissing_last hp hpre hl
        rw [createMissing_eq] at hcm
        simp only [hex, hany, Bool.false_eq_true, if_false, Backend.ofRes]
        rw [← hcm]; rfl
    · rw [herr]
      simp only [Backend.ofRes]
      by_cases hex : exists_ fs p = true
      · simp [hex]
      · have hi0 : i ≠ 0 := by
          intro h0; subst h0; simp [isFile_nil] at hfile
        have hany : (prefixes p).any (fun q => isFile fs q) = true := by
          rw [List.any_eq_true]
          refine ⟨p.take i, mem_prefixes.mpr ⟨i - 1, by omega, by congr 1; omega⟩, hfile⟩
        simp [hex, hany]
    · rw [herr]
      have hex : exists_ fs p = false := by
        rw [exists_false_iff]
        cases hl : lookup fs p with
        | none => rfl
        | some e =>
          have := isDir_iff.mp (h.isDir_take_of_lookup hl i hi)
          rw [hnone] at this; cases this
      have hany : (prefixes p).any (fun q => isFile fs q) = false := by
        rw [List.any_eq_false]
        intro q hq
        obtain ⟨j, hj, rfl⟩ := mem_prefixes.mp hq
        intro hf
        obtain ⟨c, hc⟩ := isFile_iff.mp hf
        by_cases hji : j + 1 < i
        · have := isDir_iff.mp (hbefore (j + 1) hji)
          rw [hc] at this; cases this
        · by_cases hje : j + 1 = i
          · rw [hje, hnone] at hc; cases hc
          · have hlen : i < (p.take (j + 1)).length := by simp; omega
            have := isDir_iff.mp (h.isDir_take_of_lookup hc i hlen)
            rw [take_take_of_le p (by omega), hnone] at this
            cases this
      simp only [if_true, Backend.ofRes, hex, hany, Bool.false_eq_true, if_false]
      rfl

/-- a proper prefix of an existing path is a directory -/
theorem WF.isDir_of_proper_prefix {fs : Fs} (h : WF fs) {p q : Path} {e : Entry} (hl : lookup fs q = some e)
    (hpq : p <+: q) (hne : p ≠ q) : isDir fs p = true := by
  have hlen : p.length < q.length := by
    have := hpq.length_le
    rcases Nat.lt_or_eq_of_le this with h1 | h1
    · exact h1
    · exact absurd (hpq.eq_of_length h1) hne
  have := h.isDir_take_of_lookup hl p.length hlen
  rwa [← List.prefix_iff_eq_take.mp hpq] at this

/-- `rename`, destination not existing (the RNTO guard): the two backends agree — for every source and
    destination (since the Memory backend refuses what the filesystem refuses: F7 a, b, d) -/
theorem posix_rename_eq {fs : Fs} (h : WF fs) (src dst : Path) (hdst : lookup fs dst = none) :
    Backend.posix.rename fs src dst = Fs.rename fs src dst := by
  have hdne : dst ≠ [] := (lookup_none_iff.mp hdst).1
  simp only [Backend.posix]
  unfold Posix.rename Fs.rename
  by_cases hs : src = []
  · subst hs
    have : lookup fs [] = some .dir := by simp [lookup]
    simp [this, Ne.symm hdne]
  · simp only [hs, hdne, or_self, if_false]
    cases hls : lookup fs src with
    | none =>
      cases Posix.dirPart fs src <;> cases Posix.dirPart fs dst <;> simp
    | some se =>
      have hne : src ≠ dst := by
        intro e; rw [e, hdst] at hls; cases hls
      have hexs : exists_ fs src = true := exists_iff.mpr ⟨se, hls⟩
      rw [dirPart_ok_of_lookup h hls]
      simp only [hne, if_false]
      cases hlp : lookup fs dst.dropLast with
      | none =>
        cases hdp : Posix.dirPart fs dst with
        | error er => simp
        | ok u =>
          have := isDir_iff.mp (parent_of_dirPart_ok hdp)
          rw [hlp] at this; cases this
      | some dp =>
        have hsp : exists_ fs src.dropLast = true := exists_of_isDir (h.isDir_parent (mem_of_lookup hs hls))
        cases dp with
        | file c =>
          cases hdp : Posix.dirPart fs dst with
          | error er => simp
          | ok u =>
            have := isDir_iff.mp (parent_of_dirPart_ok hdp)
            rw [hlp] at this; cases this
        | dir =>
          have hdd : isDir fs dst.dropLast = true := isDir_iff.mpr hlp
          rw [dirPart_ok_of_parent h hdd]
          cases hp : src.isPrefixOf dst with
          | true => simp
          | false =>
            have hnp2 : dst.isPrefixOf src = false := by
              cases hp2 : dst.isPrefixOf src with
              | false => rfl
              | true =>
                have := isDir_iff.mp (h.isDir_of_proper_prefix hls (prefix_iff.mp hp2) (Ne.symm hne))
                rw [hdst] at this; cases this
            simp [hsp, hnp2, hdst]

/-- a failing `rename` on the POSIX side never changes the tree -/
theorem posix_rename_false (fs : Fs) (src dst : Path) (h : (Backend.posix.rename fs src dst).2 = false) :
    (Backend.posix.rename fs src dst).1 = fs := by
  simp only [Backend.posix] at *
  cases hr : Posix.rename fs src dst with
  | ok fs' => rw [hr] at h; cases h
  | error er => rfl

/-- a failing `rename` on Memory never changes the tree (the refusals come before anything is detached) -/
theorem mem_rename_false (fs : Fs) (src dst : Path) (h : (Fs.rename fs src dst).2 = false) :
    (Fs.rename fs src dst).1 = fs := by
  unfold Fs.rename at *
  repeat' split
  all_goals first | rfl | (simp_all)

/-! ### the invariant is preserved by every operation -/

theorem WF.unique {fs : Fs} (h : WF fs) {p : Path} {e1 e2 : Entry} (h1 : (p, e1) ∈ fs) (h2 : (p, e2) ∈ fs) :
    e1 = e2 := by
  have a := lookup_of_mem h h1
  have b := lookup_of_mem h h2
  rw [a] at b; exact Option.some.inj b

theorem mem_erase {fs : Fs} {p : Path} {x : Path × Entry} : x ∈ erase fs p ↔ x ∈ fs ∧ x.1 ≠ p := by
  simp [erase, List.mem_filter]

theorem dropLast_ne_self {p : Path} (hp : p ≠ []) : p.dropLast ≠ p := by
  intro h
  have := congrArg List.length h
  have hl := List.length_pos_iff.mpr hp
  simp at this; omega

theorem WF.erase {fs : Fs} (h : WF fs) {p : Path} (hno : ∀ x ∈ fs, x.1.dropLast ≠ p) : WF (erase fs p) where
  nodup := List.Pairwise.filter _ h.nodup
  nonroot := fun x hx => h.nonroot x (mem_erase.mp hx).1
  parent := by
    intro x hx
    obtain ⟨hx1, _⟩ := mem_erase.mp hx
    rcases h.parent x hx1 with h0 | h1
    · left; exact h0
    · right; exact mem_erase.mpr ⟨h1, hno x hx1⟩

theorem WF.append {fs : Fs} (h : WF fs) {p : Path} {e : Entry} (hp : p ≠ []) (hl : lookup fs p = none)
    (hd : isDir fs p.dropLast = true) : WF (fs ++ [(p, e)]) where
  nodup := by
    rw [List.pairwise_append]
    refine ⟨h.nodup, by simp, ?_⟩
    intro a ha b hb
    simp only [List.mem_singleton] at hb
    subst hb
    intro hk
    exact (lookup_none_iff.mp hl).2 a.2 (by simp only at hk; rw [← hk]; exact ha)
  nonroot := by
    intro x hx
    rcases List.mem_append.mp hx with h1 | h1
    · exact h.nonroot x h1
    · simp only [List.mem_singleton] at h1; subst h1; exact hp
  parent := by
    intro x hx
    rcases List.mem_append.mp hx with h1 | h1
    · rcases h.parent x h1 with h0 | h2
      · left; exact h0
      · right; exact List.mem_append.mpr (Or.inl h2)
    · simp only [List.mem_singleton] at h1; subst h1
      by_cases h0 : p.dropLast = []
      · left; exact h0
      · right; exact List.mem_append.mpr (Or.inl (mem_of_lookup h0 (isDir_iff.mp hd)))

theorem any_key_of_lookup {fs : Fs} {p : Path} {e : Entry} (hp : p ≠ []) (hl : lookup fs p = some e) :
    fs.any (fun x => decide (x.1 = p)) = true := by
  rw [List.any_eq_true]
  exact ⟨(p, e), mem_of_lookup hp hl, by simp⟩

theorem set_of_lookup {fs : Fs} {p : Path} {e e' : Entry} (hp : p ≠ []) (hl : lookup fs p = some e) :
    Fs.set fs p e' = fs.map (fun x => if x.1 = p then (p, e') else x) := by
  unfold Fs.set
  rw [any_key_of_lookup hp hl]; simp

/-- replacing the content of a file -/
theorem WF.set_file {fs : Fs} (h : WF fs) {p : Path} {c c' : Bytes} (hl : lookup fs p = some (.file c)) :
    WF (Fs.set fs p (.file c')) ∧ lookup (Fs.set fs p (.file c')) p = some (.file c') := by
  have hp : p ≠ [] := by intro h0; subst h0; simp [lookup] at hl
  have hmem := mem_of_lookup hp hl
  rw [set_of_lookup hp hl]
  have hkey : ∀ x : Path × Entry, (if x.1 = p then (p, Entry.file c') else x).1 = x.1 := by
    intro x; split <;> simp_all
  have hwf : WF (fs.map (fun x => if x.1 = p then (p, Entry.file c') else x)) := by
    refine ⟨?_, ?_, ?_⟩
    · rw [List.pairwise_map]
      exact h.nodup.imp (fun {a b} hab => by rw [hkey a, hkey b]; exact hab)
    · intro x hx
      obtain ⟨y, hy, rfl⟩ := List.mem_map.mp hx
      rw [hkey y]; exact h.nonroot y hy
    · intro x hx
      obtain ⟨y, hy, rfl⟩ := List.mem_map.mp hx
      rw [hkey y]
      rcases h.parent y hy with h0 | h1
      · left; exact h0
      · right
        refine List.mem_map.mpr ⟨(y.1.dropLast, Entry.dir), h1, ?_⟩
        have : y.1.dropLast ≠ p := by
          intro heq
          rw [heq] at h1
          have := h.unique h1 hmem
          cases this
        simp [this]
  refine ⟨hwf, lookup_of_mem hwf ?_⟩
  exact List.mem_map.mpr ⟨(p, .file c), hmem, by simp⟩

theorem isPrefixOf_dropLast {src x : Path} (h : src.isPrefixOf x.dropLast = true) : src.isPrefixOf x = true :=
  prefix_iff.mpr ((prefix_iff.mp h).trans (List.dropLast_prefix x))

/-- detaching a subtree -/
theorem WF.detach {fs : Fs} (h : WF fs) (src : Path) : WF (fs.filter (fun e => !src.isPrefixOf e.1)) where
  nodup := List.Pairwise.filter _ h.nodup
  nonroot := fun x hx => h.nonroot x (List.mem_filter.mp hx).1
  parent := by
    intro x hx
    obtain ⟨hx1, hx2⟩ := List.mem_filter.mp hx
    rcases h.parent x hx1 with h0 | h1
    · left; exact h0
    · right
      refine List.mem_filter.mpr ⟨h1, ?_⟩
      cases hp : src.isPrefixOf x.1.dropLast with
      | false => rfl
      | true => rw [isPrefixOf_dropLast hp] at hx2; cases hx2

theorem mem_moveSubtree {fs : Fs} {src dst : Path} {x : Path × Entry} :
    x ∈ moveSubtree fs src dst ↔
      (x ∈ fs ∧ src.isPrefixOf x.1 = false ∧ dst.isPrefixOf x.1 = false) ∨
      ∃ y ∈ fs, src.isPrefixOf y.1 = true ∧ x = (dst ++ y.1.drop src.length, y.2) := by
  unfold moveSubtree
  simp only [List.mem_append, List.mem_filter, List.mem_map, Bool.not_eq_true']
  constructor
  · rintro (⟨⟨h1, h2⟩, h3⟩ | ⟨y, ⟨hy1, hy2⟩, rfl⟩)
    · exact Or.inl ⟨h1, h2, h3⟩
    · exact Or.inr ⟨y, hy1, hy2, rfl⟩
  · rintro (⟨h1, h2, h3⟩ | ⟨y, hy1, hy2, rfl⟩)
    · exact Or.inl ⟨⟨h1, h2⟩, h3⟩
    · exact Or.inr ⟨y, ⟨hy1, hy2⟩, rfl⟩

theorem eq_append_drop_of_prefix {src x : Path} (h : src.isPrefixOf x = true) : x = src ++ x.drop src.length := by
  obtain ⟨t, rfl⟩ := prefix_iff.mp h
  simp

theorem isPrefixOf_append_self (a b : Path) : a.isPrefixOf (a ++ b) = true := prefix_iff.mpr (List.prefix_append a b)

/-- moving a subtree to a place whose parent is a directory outside the subtree -/
theorem WF.moveSubtree {fs : Fs} (h : WF fs) {src dst : Path} (hs : src ≠ []) (hd : dst ≠ [])
    (hdd : isDir fs dst.dropLast = true) (hnp : src.isPrefixOf dst = false) : WF (moveSubtree fs src dst) where
  nodup := by
    unfold Fs.moveSubtree
    rw [List.pairwise_append]
    refine ⟨List.Pairwise.filter _ (List.Pairwise.filter _ h.nodup), ?_, ?_⟩
    · rw [List.pairwise_map]
      have hp := List.Pairwise.filter (fun e : Path × Entry => src.isPrefixOf e.1) h.nodup
      refine hp.imp_of_mem ?_
      intro a b ha hb hab heq
      simp only [List.mem_filter] at ha hb
      simp only [List.append_cancel_left_eq] at heq
      apply hab
      rw [eq_append_drop_of_prefix ha.2, eq_append_drop_of_prefix hb.2, heq]
    · intro a ha b hb
      simp only [List.mem_filter, Bool.not_eq_true'] at ha
      obtain ⟨y, _, rfl⟩ := List.mem_map.mp hb
      intro heq
      have := isPrefixOf_append_self dst (y.1.drop src.length)
      simp only at heq
      rw [← heq, ha.2] at this
      cases this
  nonroot := by
    intro x hx
    rcases mem_moveSubtree.mp hx with ⟨h1, _, _⟩ | ⟨y, _, _, rfl⟩
    · exact h.nonroot x h1
    · simp [hd]
  parent := by
    intro x hx
    rcases mem_moveSubtree.mp hx with ⟨h1, h2, h3⟩ | ⟨y, hy1, hy2, rfl⟩
    · rcases h.parent x h1 with h0 | hp
      · left; exact h0
      · right
        refine mem_moveSubtree.mpr (Or.inl ⟨hp, ?_, ?_⟩)
        · cases hq : src.isPrefixOf x.1.dropLast with
          | false => rfl
          | true => rw [isPrefixOf_dropLast hq] at h2; cases h2
        · cases hq : dst.isPrefixOf x.1.dropLast with
          | false => rfl
          | true => rw [isPrefixOf_dropLast hq] at h3; cases h3
    · -- a moved entry
      have hy := eq_append_drop_of_prefix hy2
      generalize ht : y.1.drop src.length = t at hy ⊢
      by_cases ht0 : t = []
      · subst ht0
        simp only [List.append_nil]
        by_cases h0 : dst.dropLast = []
        · left; exact h0
        · right
          refine mem_moveSubtree.mpr (Or.inl ⟨mem_of_lookup h0 (isDir_iff.mp hdd), ?_, ?_⟩)
          · cases hq : src.isPrefixOf dst.dropLast with
            | false => rfl
            | true => rw [isPrefixOf_dropLast hq] at hnp; cases hnp
          · cases hq : dst.isPrefixOf dst.dropLast with
            | false => rfl
            | true =>
              have := (prefix_iff.mp hq).length_le
              have hl := List.length_pos_iff.mpr hd
              simp at this; omega
      · right
        simp only
        rw [List.dropLast_append_of_ne_nil ht0]
        have hpar : y.1.dropLast = src ++ t.dropLast := by
          rw [hy, List.dropLast_append_of_ne_nil ht0]
        rcases h.parent y hy1 with h0 | hp
        · rw [hpar] at h0; simp [hs] at h0
        · rw [hpar] at hp
          refine mem_moveSubtree.mpr (Or.inr ⟨(src ++ t.dropLast, Entry.dir), hp, isPrefixOf_append_self _ _, ?_⟩)
          simp

theorem dropLast_take_succ {α : Type} (l : List α) (m : Nat) (hm : m + 1 ≤ l.length) :
    (l.take (m + 1)).dropLast = l.take m := by
  rw [List.dropLast_eq_take, List.length_take, List.take_take]
  congr 1; omega

/-- invariant of the `mkdir(parents=True)` loop after `m` steps -/
theorem foldl_mkStep_inv {p : Path} {fs : Fs} (h : WF fs) (hnf : ∀ q ∈ prefixes p, isFile fs q = false) :
    ∀ m, m ≤ p.length →
      WF (((List.range m).map (fun i => p.take (i + 1))).foldl mkStep fs) ∧
      (∀ i, i ≤ m → isDir (((List.range m).map (fun i => p.take (i + 1))).foldl mkStep fs) (p.take i) = true) ∧
      (∀ q, isFile (((List.range m).map (fun i => p.take (i + 1))).foldl mkStep fs) q = true → isFile fs q = true) := by
  intro m
  induction m with
  | zero =>
    intro _
    refine ⟨by simpa using h, ?_, by simp⟩
    intro i hi
    have : i = 0 := by omega
    subst this; simpa using isDir_nil fs
  | succ m ih =>
    intro hm
    obtain ⟨hwf, hdirs, hfiles⟩ := ih (by omega)
    rw [List.range_succ, List.map_append, List.foldl_append]
    generalize ((List.range m).map (fun i => p.take (i + 1))).foldl mkStep fs = acc at hwf hdirs hfiles ⊢
    simp only [List.map_cons, List.map_nil, List.foldl_cons, List.foldl_nil]
    have hq : p.take (m + 1) ∈ prefixes p := mem_prefixes.mpr ⟨m, by omega, rfl⟩
    have hqne : p.take (m + 1) ≠ [] := by
      intro h0
      have hl : (p.take (m + 1)).length = m + 1 := by rw [List.length_take]; omega
      rw [h0] at hl; simp at hl
    unfold mkStep
    cases hex : exists_ acc (p.take (m + 1)) with
    | true =>
      simp only [if_true]
      refine ⟨hwf, ?_, hfiles⟩
      intro i hi
      by_cases him : i ≤ m
      · exact hdirs i him
      · have : i = m + 1 := by omega
        subst this
        obtain ⟨e, he⟩ := exists_iff.mp hex
        cases e with
        | dir => exact isDir_iff.mpr he
        | file c =>
          have := hfiles _ (isFile_iff.mpr ⟨c, he⟩)
          rw [hnf _ hq] at this; cases this
    | false =>
      simp only [Bool.false_eq_true, if_false]
      have hl : lookup acc (p.take (m + 1)) = none := exists_false_iff.mp hex
      have hpar : isDir acc (p.take (m + 1)).dropLast = true := by
        rw [dropLast_take_succ p m hm]; exact hdirs m (Nat.le_refl m)
      have hwf' := hwf.append (e := Entry.dir) hqne hl hpar
      refine ⟨hwf', ?_, ?_⟩
      · intro i hi
        by_cases him : i ≤ m
        · have hd := isDir_iff.mp (hdirs i him)
          by_cases h0 : p.take i = []
          · rw [h0]; exact isDir_nil _
          · exact isDir_iff.mpr (lookup_of_mem hwf' (List.mem_append.mpr (Or.inl (mem_of_lookup h0 hd))))
        · have : i = m + 1 := by omega
          subst this
          exact isDir_iff.mpr (lookup_of_mem hwf' (List.mem_append.mpr (Or.inr (by simp))))
      · intro q hf
        obtain ⟨c, hc⟩ := isFile_iff.mp hf
        have hq0 : q ≠ [] := by intro h0; subst h0; simp [lookup] at hc
        have hm' := mem_of_lookup hq0 hc
        rcases List.mem_append.mp hm' with h1 | h1
        · exact hfiles q (isFile_iff.mpr ⟨c, lookup_of_mem hwf h1⟩)
        · simp at h1

theorem WF.createMissing {fs : Fs} (h : WF fs) {p : Path} (hnf : ∀ q ∈ prefixes p, isFile fs q = false) :
    WF (Posix.createMissing fs p) := by
  have := (foldl_mkStep_inv h hnf p.length (Nat.le_refl _)).1
  exact this

/-! #### Memory operations -/

theorem any_isFile_false {fs : Fs} {p : Path} (h : (prefixes p).any (fun q => isFile fs q) = false) :
    ∀ q ∈ prefixes p, isFile fs q = false := by
  rw [List.any_eq_false] at h
  intro q hq
  cases hf : isFile fs q with
  | false => rfl
  | true => exact absurd hf (h q hq)

theorem wf_mem_mkdirParents {fs fs' : Fs} (h : WF fs) {p : Path} (hr : Fs.mkdirParents fs p = some fs') : WF fs' := by
  unfold Fs.mkdirParents at hr
  split at hr
  · cases hr
  · split at hr
    · cases hr
    · rename_i hany
      simp only [Option.some.injEq] at hr
      subst hr
      exact WF.createMissing h (any_isFile_false (by simpa using hany))

theorem no_child_of_empty {fs : Fs} (h : WF fs) {p : Path} (hc : (children fs p).isEmpty = true) :
    ∀ x ∈ fs, x.1.dropLast ≠ p := by
  intro x hx heq
  have hxne := h.nonroot x hx
  have hmem : x.1 ∈ children fs p := by
    unfold children
    refine List.mem_map.mpr ⟨x, List.mem_filter.mpr ⟨hx, ?_⟩, rfl⟩
    have hx' : x.1 = p ++ [x.1.getLast hxne] := by
      rw [← heq]; exact (List.dropLast_concat_getLast hxne).symm
    simp only [Bool.and_eq_true, decide_eq_true_eq]
    constructor
    · rw [hx']; simp
    · rw [hx']; exact isPrefixOf_append_self _ _
  rw [List.isEmpty_iff] at hc
  rw [hc] at hmem; cases hmem

theorem wf_mem_rmdir {fs fs' : Fs} (h : WF fs) {p : Path} (hr : Fs.rmdir fs p = some fs') : WF fs' := by
  unfold Fs.rmdir at hr
  split at hr
  · cases hr
  · rename_i hp
    split at hr
    · cases hr
    · split at hr
      · cases hr
      · rename_i hc
        simp only [Option.some.injEq] at hr
        subst hr
        exact h.erase (no_child_of_empty h (by simpa using hc))

theorem no_child_of_file {fs : Fs} (h : WF fs) {p : Path} (hf : isFile fs p = true) :
    ∀ x ∈ fs, x.1.dropLast ≠ p := by
  intro x hx heq
  obtain ⟨c, hc⟩ := isFile_iff.mp hf
  have hd := isDir_iff.mp (h.isDir_parent hx)
  rw [heq, hc] at hd; cases hd

theorem wf_mem_unlink {fs fs' : Fs} (h : WF fs) {p : Path} (hr : Fs.unlink fs p = some fs') : WF fs' := by
  unfold Fs.unlink at hr
  split at hr
  · rename_i hf
    simp only [Option.some.injEq] at hr
    subst hr
    exact h.erase (no_child_of_file h hf)
  · cases hr

theorem wf_mem_rename {fs : Fs} (h : WF fs) (src dst : Path) : WF (Fs.rename fs src dst).1 := by
  unfold Fs.rename
  split
  · exact h
  · split
    · exact h
    · split
      · exact h
      · rename_i hr
        have hs : src ≠ [] := fun h0 => hr (Or.inl h0)
        have hd : dst ≠ [] := fun h0 => hr (Or.inr h0)
        split
        · exact h
        · exact h
        · rename_i hlp
          split
          · exact h
          · rename_i hnp
            split
            · exact h
            · exact h.moveSubtree hs hd (isDir_iff.mpr hlp) (Bool.eq_false_iff.mpr hnp)

/-- a successful `open` for writing keeps the invariant and leaves a file at the path -/
theorem wf_mem_openFile {fs fs' : Fs} (h : WF fs) {p : Path} {mode : Nat} {c : Bytes} {pos : Nat}
    (hr : Fs.openFile fs p mode = some (fs', c, pos)) :
    WF fs' ∧ ∃ c', lookup fs' p = some (.file c') := by
  unfold Fs.openFile at hr
  match mode with
  | 0 =>
    simp only at hr
    split at hr
    · rename_i c0 hl
      simp only [Option.some.injEq, Prod.mk.injEq] at hr; rw [← hr.1]; exact ⟨h, c0, hl⟩
    · cases hr
    · cases hr
  | m + 1 =>
    simp only at hr
    split at hr
    · cases hr
    · rename_i hp
      split at hr
      · rename_i hl
        split at hr
        · split at hr
          · rename_i hd
            simp only [Option.some.injEq, Prod.mk.injEq] at hr
            rw [← hr.1]
            have hwf := h.append (e := Entry.file []) hp hl hd
            exact ⟨hwf, ⟨[], lookup_of_mem hwf (List.mem_append.mpr (Or.inr (by simp)))⟩⟩
          · cases hr
        · cases hr
      · cases hr
      · rename_i c0 hl
        split at hr
        · simp only [Option.some.injEq, Prod.mk.injEq] at hr
          rw [← hr.1]
          have := h.set_file (c' := []) hl
          exact ⟨this.1, ⟨[], this.2⟩⟩
        · split at hr
          · simp only [Option.some.injEq, Prod.mk.injEq] at hr
            rw [← hr.1]; exact ⟨h, ⟨c0, hl⟩⟩
          · simp only [Option.some.injEq, Prod.mk.injEq] at hr
            rw [← hr.1]; exact ⟨h, ⟨c0, hl⟩⟩

/-! #### POSIX operations -/

/-- when resolution stops at a missing component, no prefix of the path is a file -/
theorem no_file_prefix_of_enoent {fs : Fs} (h : WF fs) {p : Path} {i : Nat} (hnone : lookup fs (p.take i) = none)
    (hbefore : ∀ j, j < i → isDir fs (p.take j) = true) : ∀ q ∈ prefixes p, isFile fs q = false := by
  intro q hq
  obtain ⟨j, hj, rfl⟩ := mem_prefixes.mp hq
  cases hf : isFile fs (p.take (j + 1)) with
  | false => rfl
  | true =>
    obtain ⟨c, hc⟩ := isFile_iff.mp hf
    by_cases hji : j + 1 < i
    · have := isDir_iff.mp (hbefore (j + 1) hji)
      rw [hc] at this; cases this
    · by_cases hje : j + 1 = i
      · rw [hje, hnone] at hc; cases hc
      · have hlen : i < (p.take (j + 1)).length := by simp; omega
        have := isDir_iff.mp (h.isDir_take_of_lookup hc i hlen)
        rw [take_take_of_le p (by omega), hnone] at this
        cases this

theorem wf_posix_mkdir {fs fs' : Fs} (h : WF fs) {p : Path} {parents existOk : Bool}
    (hr : Posix.mkdir fs p parents existOk = .ok fs') : WF fs' := by
  unfold Posix.mkdir at hr
  by_cases hp : p = []
  · simp only [hp, if_true] at hr
    split at hr
    · cases hr; exact h
    · cases hr
  · simp only [hp, if_false] at hr
    rcases dirPart_cases fs p with hok | ⟨herr, _⟩ | ⟨herr, i, hi, hnone, hbefore⟩
    · rw [hok] at hr
      simp only at hr
      cases hl : lookup fs p with
      | none =>
        rw [hl] at hr
        simp only [Except.ok.injEq] at hr
        subst hr
        exact h.append hp hl (parent_of_dirPart_ok hok)
      | some e =>
        rw [hl] at hr
        cases e with
        | dir =>
          simp only at hr
          split at hr
          · cases hr; exact h
          · cases hr
        | file c => cases hr
    · rw [herr] at hr; cases hr
    · rw [herr] at hr
      simp only at hr
      split at hr
      · cases hr
        exact WF.createMissing h (no_file_prefix_of_enoent h hnone hbefore)
      · cases hr

theorem ofRes_ok {α : Type} {r : Posix.Res α} {a : α} (h : r = .ok a) : Backend.ofRes r = some a := by
  subst h; rfl

theorem wf_posix_rmdir {fs fs' : Fs} (h : WF fs) {p : Path} (hr : Posix.rmdir fs p = .ok fs') : WF fs' :=
  wf_mem_rmdir h (by rw [← posix_rmdir_eq h]; exact ofRes_ok hr)

theorem wf_posix_unlink {fs fs' : Fs} (h : WF fs) {p : Path} (hr : Posix.unlink fs p = .ok fs') : WF fs' :=
  wf_mem_unlink h (by rw [← posix_unlink_eq h]; exact ofRes_ok hr)

theorem wf_posix_rename {fs fs' : Fs} (h : WF fs) {src dst : Path} (hr : Posix.rename fs src dst = .ok fs') :
    WF fs' := by
  unfold Posix.rename at hr
  split at hr
  · cases hr
  · rename_i hro
    have hs : src ≠ [] := fun h0 => hro (Or.inl h0)
    have hd : dst ≠ [] := fun h0 => hro (Or.inr h0)
    split at hr
    · cases hr
    · split at hr
      · cases hr
      · rename_i hdp
        have hdd := parent_of_dirPart_ok hdp
        split at hr
        · cases hr
        · split at hr
          · cases hr; exact h
          · split at hr
            · cases hr
            · rename_i hnp
              have hnp' : src.isPrefixOf dst = false := Bool.eq_false_iff.mpr hnp
              split at hr
              · cases hr
              · split at hr
                · cases hr; exact h.moveSubtree hs hd hdd hnp'
                · cases hr
                · split at hr
                  · cases hr; exact h.moveSubtree hs hd hdd hnp'
                  · cases hr
                · cases hr
                · cases hr; exact h.moveSubtree hs hd hdd hnp'

theorem wf_posix_openFile {fs fs' : Fs} (h : WF fs) {p : Path} {mode : Nat} {c : Bytes} {pos : Nat}
    (hr : Posix.openFile fs p mode = .ok (fs', c, pos)) :
    WF fs' ∧ ∃ c', lookup fs' p = some (.file c') := by
  unfold Posix.openFile at hr
  split at hr
  · split at hr
    · cases hr
    · rename_i hp
      split at hr
      · cases hr
      · rename_i hdp
        split at hr
        · rename_i hl
          cases hr
          have hwf := h.append (e := Entry.file []) hp hl (parent_of_dirPart_ok hdp)
          exact ⟨hwf, ⟨[], lookup_of_mem hwf (List.mem_append.mpr (Or.inr (by simp)))⟩⟩
        · cases hr
        · rename_i c0 hl
          split at hr
          · cases hr
            have := h.set_file (c' := []) hl
            exact ⟨this.1, ⟨[], this.2⟩⟩
          · cases hr; exact ⟨h, ⟨_, hl⟩⟩
  · split at hr
    · cases hr
    · cases hr
    · rename_i c0 hres
      cases hr
      refine ⟨h, c, ?_⟩
      unfold Posix.resolve at hres
      split at hres
      · cases hres
      · split at hres
        · cases hres
        · rename_i e hl; cases hres; exact hl

theorem wf_posix_fileOp {fs : Fs} (h : WF fs) (p : Path) (mode : Nat) (seek : Option Nat) (act : Posix.Act) :
    WF (Posix.fileOp fs p mode seek act).1 := by
  unfold Posix.fileOp
  cases hr : Posix.openFile fs p mode with
  | error e => exact h
  | ok r =>
    obtain ⟨fs', c, pos⟩ := r
    obtain ⟨hwf, hfile⟩ := wf_posix_openFile h hr
    cases act with
    | nothing => exact hwf
    | read n => simp only; split <;> exact hwf
    | write d =>
      simp only
      split
      · exact hwf
      · rename_i hm
        obtain ⟨c', hc'⟩ := hfile
        exact (hwf.set_file hc').1

theorem wf_mem_fileOp {fs : Fs} (h : WF fs) (p : Path) (mode : Nat) (seek : Option Nat) (act : Posix.Act) :
    WF (MemApi.fileOp fs p mode seek act).1 := by
  unfold MemApi.fileOp
  cases hr : Fs.openFile fs p mode with
  | none => exact h
  | some r =>
    obtain ⟨fs', c, pos⟩ := r
    obtain ⟨hwf, hfile⟩ := wf_mem_openFile h hr
    cases act with
    | nothing => exact hwf
    | read n => exact hwf
    | write d =>
      obtain ⟨c', hc'⟩ := hfile
      exact (hwf.set_file hc').1

theorem wf_mem_mkdir {fs fs' : Fs} (h : WF fs) {p : Path} {parents existOk : Bool}
    (hr : MemApi.mkdir fs p parents existOk = some fs') : WF fs' := by
  unfold MemApi.mkdir at hr
  split at hr
  · split at hr
    · cases hr
    · cases hr; exact h
  · rename_i hl
    split at hr
    · split at hr
      · cases hr
      · cases hr
      · rename_i hpar
        cases hr
        exact h.append (lookup_none_iff.mp hl).1 hl (isDir_iff.mpr hpar)
    · split at hr
      · cases hr
      · rename_i hany
        cases hr
        exact WF.createMissing h (any_isFile_false (by simpa using hany))

end Model.FsLemmas
