/-
  Invariants of the pipelined-passive-commands model (Model/PassiveRace.lean).  Core Lean only.
-/
import AioftpModel.Model.PassiveRace

namespace Model.PassiveRace

/-- ports are never created or destroyed by a step, with or without the lock (a replaced listener's port is
    accounted for in `leaked`) -/
theorem step_total (locked : Bool) (s : St) (e : Ev) : (step locked s e).total = s.total := by
  cases e with
  | acquire =>
    by_cases hw : s.waiting = 0
    · simp [step, hw]
    · by_cases hl : (locked && s.lock) = true
      · simp [step, hw, hl]
      · simp [step, hw, hl, St.total]
  | check =>
    by_cases hc : s.checking = 0
    · simp [step, hc]
    · cases hl : s.listener with
      | some q => simp [step, hc, St.total, hl]
      | none =>
        cases hp : s.pool with
        | nil => simp [step, hc, St.total, hl, hp]
        | cons p r => simp [step, hc, St.total, hl, hp]; omega
  | finish k =>
    cases hk : s.starting[k]? with
    | none => simp [step, hk]
    | some p =>
      have hlt : k < s.starting.length := (List.getElem?_eq_some_iff.mp hk).1
      cases hl : s.listener with
      | none => simp [step, hk, St.total, hl, List.length_eraseIdx, hlt]; omega
      | some q => simp [step, hk, St.total, hl, List.length_eraseIdx, hlt]; omega

theorem run_total (locked : Bool) (s : St) (evs : List Ev) : (run locked s evs).total = s.total := by
  induction evs generalizing s with
  | nil => rfl
  | cons e t ih => simp only [run, List.foldl_cons] at ih ⊢; rw [ih, step_total]

/-- the invariant the lock buys: at most one handler is inside the region, it is there only while the lock is
    held, a sleeping start-up means no listener is recorded yet, and nothing has been replaced -/
structure Inv (s : St) : Prop where
  noLeak : s.leaked = []
  one    : s.checking + s.starting.length ≤ 1
  held   : s.lock = false → s.checking + s.starting.length = 0
  fresh  : s.starting ≠ [] → s.listener = none

theorem step_inv (s : St) (e : Ev) (h : Inv s) : Inv (step true s e) := by
  obtain ⟨h1, h2, h3, h4⟩ := h
  cases e with
  | acquire =>
    by_cases hw : s.waiting = 0
    · simpa [step, hw] using (⟨h1, h2, h3, h4⟩ : Inv s)
    · cases hl : s.lock with
      | true => simpa [step, hw, hl] using (⟨h1, h2, h3, h4⟩ : Inv s)
      | false =>
        have h0 := h3 hl
        have hs : s.starting = [] := List.length_eq_zero_iff.mp (by omega)
        have hc : s.checking = 0 := by omega
        refine ⟨?_, ?_, ?_, ?_⟩ <;> simp [step, hw, hl, h1, hs, hc]
  | check =>
    by_cases hc : s.checking = 0
    · simpa [step, hc] using (⟨h1, h2, h3, h4⟩ : Inv s)
    · have hst : s.starting = [] := List.length_eq_zero_iff.mp (by omega)
      have hc1 : s.checking = 1 := by omega
      have hlk : s.lock = true := by
        cases hl : s.lock with
        | true => rfl
        | false => have := h3 hl; omega
      cases hl : s.listener with
      | some q => refine ⟨?_, ?_, ?_, ?_⟩ <;> simp [step, hc, hl, h1, hst, hc1]
      | none =>
        cases hp : s.pool with
        | nil => refine ⟨?_, ?_, ?_, ?_⟩ <;> simp [step, hc, hl, hp, h1, hst, hc1]
        | cons p r => refine ⟨?_, ?_, ?_, ?_⟩ <;> simp [step, hc, hl, hp, h1, hst, hc1, hlk]
  | finish k =>
    cases hk : s.starting[k]? with
    | none => simpa [step, hk] using (⟨h1, h2, h3, h4⟩ : Inv s)
    | some p =>
      have hlt : k < s.starting.length := (List.getElem?_eq_some_iff.mp hk).1
      have hne : s.starting ≠ [] := by intro h0; rw [h0] at hlt; simp at hlt
      have hln := h4 hne
      have hlen : s.starting.length = 1 := by omega
      have hck : s.checking = 0 := by omega
      have her : s.starting.eraseIdx k = [] :=
        List.length_eq_zero_iff.mp (by rw [List.length_eraseIdx, if_pos hlt]; omega)
      refine ⟨?_, ?_, ?_, ?_⟩ <;> simp [step, hk, hln, h1, her, hck]

theorem init_inv (ports : List Nat) (n : Nat) : Inv (init ports n) :=
  ⟨rfl, by simp [init], by simp [init], by simp [init]⟩

theorem run_inv (s : St) (evs : List Ev) (h : Inv s) : Inv (run true s evs) := by
  induction evs generalizing s with
  | nil => exact h
  | cons e t ih => simp only [run, List.foldl_cons] at ih ⊢; exact ih _ (step_inv s e h)

/-- a step never invents a port: everything in the state was configured -/
def St.ports (s : St) : List Nat := s.pool ++ s.listener.toList ++ s.starting ++ s.leaked

theorem step_ports_subset (locked : Bool) (s : St) (e : Ev) : ∀ p ∈ (step locked s e).ports, p ∈ s.ports := by
  cases e with
  | acquire =>
    by_cases hw : s.waiting = 0
    · simp [step, hw]
    · by_cases hl : (locked && s.lock) = true
      · simp [step, hw, hl]
      · simp [step, hw, hl, St.ports]
  | check =>
    by_cases hc : s.checking = 0
    · simp [step, hc]
    · cases hl : s.listener with
      | some q => simp [step, hc, St.ports, hl]
      | none =>
        cases hp : s.pool with
        | nil => simp [step, hc, St.ports, hl, hp]
        | cons a r =>
          intro p h
          simp [step, hc, St.ports, hl, hp] at h ⊢
          rcases h with h | h | h | h
          · exact Or.inr (Or.inl h)
          · exact Or.inl h
          · exact Or.inr (Or.inr (Or.inl h))
          · exact Or.inr (Or.inr (Or.inr h))
  | finish k =>
    cases hk : s.starting[k]? with
    | none => simp [step, hk]
    | some q =>
      have hq : q ∈ s.starting := List.mem_of_getElem? hk
      intro p h
      simp [step, hk, St.ports] at h ⊢
      rcases h with h | h | h | h | h
      · exact Or.inl h
      · rw [h]; exact Or.inr (Or.inr (Or.inl hq))
      · exact Or.inr (Or.inr (Or.inl (List.mem_of_mem_eraseIdx h)))
      · exact Or.inr (Or.inl h)
      · exact Or.inr (Or.inr (Or.inr h))

theorem run_ports_subset (locked : Bool) (s : St) (evs : List Ev) : ∀ p ∈ (run locked s evs).ports, p ∈ s.ports := by
  induction evs generalizing s with
  | nil => exact fun _ h => h
  | cons e t ih =>
    intro p hp
    simp only [run, List.foldl_cons] at ih hp
    exact step_ports_subset locked s e p (ih _ p hp)

end Model.PassiveRace
