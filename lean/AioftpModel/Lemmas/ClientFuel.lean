/- Adequacy of the recursion bound of `remove` and `download`: started with `fuel = |tree| + 1` the model never
   reports `Err.fuel`, so "returns normally or raises what the code raises" is exhaustive. -/
import AioftpModel.Lemmas.ClientDownload

namespace Model
namespace ClientTree
open Py Fs

/-- every existing path has at most `N` components -/
def Bounded (N : Nat) (fs : Fs) : Prop := ∀ q, lookup fs q ≠ none → q.length ≤ N

theorem length_erase_lt (fs : Fs) (q : Path) (h : lk fs q ≠ none) : (erase fs q).length < fs.length := by
  induction fs with
  | nil => simp [lk_nil] at h
  | cons x t ih =>
    unfold erase at ih ⊢
    rw [List.filter_cons]
    by_cases hx : x.1 = q
    · simp only [hx, ne_eq, not_true_eq_false, decide_false, Bool.false_eq_true, ↓reduceIte, List.length_cons]
      exact Nat.lt_succ_of_le (List.length_filter_le _ _)
    · simp only [ne_eq, hx, not_false_eq_true, decide_true, ↓reduceIte, List.length_cons]
      rw [lk_cons, if_neg hx] at h
      exact Nat.succ_lt_succ (ih h)

/-- all non-empty prefixes of `q` exist -/
def Chain (fs : Fs) (q : Path) : Prop := ∀ p, p ≠ [] → p <+: q → lookup fs p ≠ none

theorem chain_length : ∀ (n : Nat) (fs : Fs) (q : Path), q.length = n → Chain fs q → q.length ≤ fs.length := by
  intro n
  induction n with
  | zero => intro fs q h _; rw [h]; exact Nat.zero_le _
  | succ n ih =>
    intro fs q hlen hch
    have hq : q ≠ [] := by intro h0; subst h0; cases hlen
    have hex := hch q hq (List.prefix_refl _)
    rw [lookup_ne_nil _ hq] at hex
    have hlt := length_erase_lt fs q hex
    have hch' : Chain (erase fs q) q.dropLast := by
      intro p hp hpre
      rw [lookup_erase _ _ _ hq]
      have hne : p ≠ q := by
        intro he
        have := hpre.length_le
        rw [he, List.length_dropLast, hlen] at this
        omega
      rw [if_neg hne]
      exact hch p hp (hpre.trans (List.dropLast_prefix q))
    have := ih (erase fs q) q.dropLast (by rw [List.length_dropLast, hlen]; rfl) hch'
    rw [List.length_dropLast, hlen] at this
    omega

theorem bounded_length (fs : Fs) (hpc : PC fs) : Bounded fs.length fs := by
  intro q hq
  apply chain_length q.length fs q rfl
  intro p _ hpre
  by_cases he : p = q
  · rw [he]; exact hq
  · rw [hpc.prefix_dir hq hpre he]; simp

/-! ### `remove` -/

theorem removeEntries_no_fuel (N f : Nat)
    (IH : ∀ (r : Remote) (p : PPath), RInv r → SafeP p → p.parts ≠ [] → Bounded N r.fs →
      N + 1 ≤ f + (landing r.cwd p).length → remove f r p ≠ .error .fuel) :
    ∀ (names : List (Str × Kind)) (r : Remote) (p : PPath), RInv r → SafeP p →
      (∀ x ∈ names, SafeName x.1) → Bounded N r.fs → N + 1 ≤ f + ((landing r.cwd p).length + 1) →
      forEach (fun (r' : Remote) (e : PPath × Kind) => remove f r' e.1) r
        (names.map (fun e => (p.join ⟨0, [e.1]⟩, e.2))) ≠ .error .fuel := by
  intro names
  induction names with
  | nil => intro r p _ _ _ _ _; simp [forEach]
  | cons x rest ih =>
    intro r p hr hp hsafe hb hf
    simp only [List.map_cons, forEach]
    have hxs : SafeName x.1 := hsafe x (by simp)
    have hno := IH r (p.join ⟨0, [x.1]⟩) hr (hp.join hxs) (join_parts_ne p x.1) hb
      (by rw [landing_join]; simpa using hf)
    cases h1 : remove f r (p.join ⟨0, [x.1]⟩) with
    | error e =>
      simp only
      intro he
      injection he with he
      rw [he] at h1; exact hno h1
    | ok r1 =>
      simp only
      obtain ⟨hc1, _, hrem1⟩ := remove_spec_aux f r r1 _ hr (hp.join hxs) (join_parts_ne p x.1) h1
      have hr1 : RInv r1 := hr.of_removed (by rw [landing_join]; simp) hc1 hrem1
      have hb1 : Bounded N r1.fs := by
        intro q hq
        apply hb q
        rw [hrem1] at hq
        split at hq
        · exact absurd rfl hq
        · exact hq
      exact ih r1 p hr1 hp (fun y hy => hsafe y (List.mem_cons_of_mem _ hy)) hb1 (by rw [hc1]; exact hf)

theorem remove_no_fuel (N : Nat) : ∀ (fuel : Nat) (r : Remote) (p : PPath), RInv r → SafeP p → p.parts ≠ [] →
    Bounded N r.fs → 1 ≤ fuel → N + 1 ≤ fuel + (landing r.cwd p).length → remove fuel r p ≠ .error .fuel := by
  intro fuel
  induction fuel with
  | zero => intro r p _ _ _ _ h; exact absurd h (by decide)
  | succ f IH =>
    intro r p hr hp hparts hb _ hf
    unfold remove
    rw [exists_eq r p hr.cwd hp hr.safe hr.pc (Or.inr hparts)]
    by_cases hex : lookup r.fs (landing r.cwd p) = none
    · simp [hex]
    · simp only [ne_eq, hex, not_false_eq_true, decide_true]
      rw [stat_eq r p hr.cwd hp hr.safe hr.pc (Or.inr hparts)]
      cases hl : lookup r.fs (landing r.cwd p) with
      | none => exact absurd hl hex
      | some e =>
        cases e with
        | file c =>
          simp only [kindOf]
          split <;> simp
        | dir =>
          simp only [kindOf]
          rw [listDir_eq r p hr.cwd hp hr.safe, if_neg hex]
          simp only
          -- either nothing is listed, or a child exists and bounds the remaining fuel from below
          cases hce : childEntries r.fs (landing r.cwd p) with
          | nil =>
            simp only [List.map_nil, forEach]
            split <;> simp
          | cons x0 rest0 =>
            have hx0 : x0 ∈ childEntries r.fs (landing r.cwd p) := by rw [hce]; simp
            have hchild := (childEntries_safe hr.safe hx0).2
            have hlen := hb _ hchild
            simp only [List.length_append, List.length_cons, List.length_nil] at hlen
            have hf1 : 1 ≤ f := by omega
            have hno := removeEntries_no_fuel N f
              (fun r p a b c d e => IH r p a b c d hf1 e)
              (x0 :: rest0) r p hr hp
              (fun x hx => (childEntries_safe hr.safe (by rw [hce]; exact hx)).1) hb (by omega)
            cases hfe : forEach (fun (r' : Remote) (e : PPath × Kind) => remove f r' e.1) r
                ((x0 :: rest0).map (fun e => (p.join ⟨0, [e.1]⟩, e.2))) with
            | error e =>
              simp only
              intro he
              injection he with he
              rw [he] at hfe; exact hno hfe
            | ok r1 =>
              simp only
              split <;> simp

/-- **adequacy**: `removeTop` never runs out of its recursion bound -/
theorem removeTop_no_fuel (r : Remote) (p : PPath) (hr : RInv r) (hp : SafeP p) (hparts : p.parts ≠ []) :
    removeTop r p ≠ .error .fuel :=
  remove_no_fuel r.fs.length _ r p hr hp hparts (bounded_length r.fs hr.pc) (by omega) (by omega)

/-! ### `download` -/

theorem streamCheck_err {codes : List Nat} {e : Err} (h : streamCheck codes = .error e) : e ≠ .fuel := by
  unfold streamCheck at h
  split at h
  · injection h with h; rw [← h]; simp
  · split at h
    · injection h with h; rw [← h]; simp
    · split at h
      · injection h with h; rw [← h]; simp
      · split at h
        · cases h
        · injection h with h; rw [← h]; simp

theorem mkdirP_err {l : Local} {p : PPath} {e : Err} (h : l.mkdirP p = .error e) : e ≠ .fuel := by
  unfold Local.mkdirP at h
  split at h
  · injection h with h; rw [← h]; simp
  · split at h
    · split at h
      · cases h
      · injection h with h; rw [← h]; simp
    · split at h
      · cases h
      · injection h with h; rw [← h]; simp

theorem openWrite_err {l : Local} {p : PPath} {e : Err} (h : l.openWrite p = .error e) : e ≠ .fuel := by
  unfold Local.openWrite at h
  split at h
  · injection h with h; rw [← h]; simp
  · split at h
    · cases h
    · injection h with h; rw [← h]; simp

theorem downloadFile_no_fuel (l : Local) (r : Remote) (source destination : PPath) :
    downloadFile l r source destination ≠ .error .fuel := by
  unfold downloadFile
  intro h
  split at h
  · rename_i e he
    injection h with h; exact mkdirP_err he h
  · split at h
    · rename_i e he
      injection h with h; exact openWrite_err he h
    · simp only at h
      split at h
      · rename_i e he
        injection h with h; exact streamCheck_err he h
      · cases h

theorem downloadEntries_no_fuel (r : Remote) (N f : Nat)
    (IH : ∀ (l : Local) (source dest : PPath), SafeP source → source.parts ≠ [] →
      N + 1 ≤ f + (landing r.cwd source).length → download r f l source dest true ≠ .error .fuel) :
    ∀ (names : List (Str × Kind)) (l : Local) (source destination : PPath), SafeP source →
      (∀ x ∈ names, SafeName x.1) → N + 1 ≤ f + ((landing r.cwd source).length + 1) →
      forEach (fun (l' : Local) (e : PPath × Kind) =>
          match e.1.relativeTo? source with
          | none => .error .valueError
          | some rel => download r f l' e.1 (destination.join rel) true)
        l (names.map (fun e => (source.join ⟨0, [e.1]⟩, e.2))) ≠ .error .fuel := by
  intro names
  induction names with
  | nil => intro l source destination _ _ _; simp [forEach]
  | cons x rest ih =>
    intro l source destination hp hsafe hf
    simp only [List.map_cons, forEach, relativeTo_join]
    have hxs : SafeName x.1 := hsafe x (by simp)
    have hno := IH l (source.join ⟨0, [x.1]⟩) (destination.join ⟨0, [x.1]⟩) (hp.join hxs)
      (join_parts_ne source x.1) (by rw [landing_join]; simpa using hf)
    cases h1 : download r f l (source.join ⟨0, [x.1]⟩) (destination.join ⟨0, [x.1]⟩) true with
    | error e =>
      simp only
      intro he
      injection he with he
      rw [he] at h1; exact hno h1
    | ok l1 =>
      simp only
      exact ih l1 source destination hp (fun y hy => hsafe y (List.mem_cons_of_mem _ hy)) hf

theorem download_no_fuel (r : Remote) (hr : RInv r) (N : Nat) (hb : Bounded N r.fs) :
    ∀ (fuel : Nat) (l : Local) (source dest : PPath) (wi : Bool), SafeP source → source.parts ≠ [] →
      1 ≤ fuel → N + 1 ≤ fuel + (landing r.cwd source).length →
      download r fuel l source dest wi ≠ .error .fuel := by
  intro fuel
  induction fuel with
  | zero => intro l source dest wi _ _ h; exact absurd h (by decide)
  | succ f IH =>
    intro l source dest wi hp hparts _ hf
    unfold download
    rw [stat_eq r source hr.cwd hp hr.safe hr.pc (Or.inr hparts)]
    cases hsrc : lookup r.fs (landing r.cwd source) with
    | none => simp
    | some e =>
      cases e with
      | file c =>
        simp only [kindOf]
        exact downloadFile_no_fuel _ _ _ _
      | dir =>
        simp only [kindOf]
        split
        · rename_i e he
          intro h
          injection h with h; exact mkdirP_err he h
        · rename_i l1 _
          rw [listDir_eq r source hr.cwd hp hr.safe, if_neg (by rw [hsrc]; simp)]
          simp only
          cases hce : childEntries r.fs (landing r.cwd source) with
          | nil => simp [forEach]
          | cons x0 rest0 =>
            have hx0 : x0 ∈ childEntries r.fs (landing r.cwd source) := by rw [hce]; simp
            have hchild := (childEntries_safe hr.safe hx0).2
            have hlen := hb _ hchild
            simp only [List.length_append, List.length_cons, List.length_nil] at hlen
            have hf1 : 1 ≤ f := by omega
            exact downloadEntries_no_fuel r N f
              (fun l source dest a b c => IH l source dest true a b hf1 c)
              (x0 :: rest0) l1 source _ hp
              (fun x hx => (childEntries_safe hr.safe (by rw [hce]; exact hx)).1) (by omega)

/-- **adequacy**: `downloadTop` never runs out of its recursion bound -/
theorem downloadTop_no_fuel (l : Local) (r : Remote) (source dest : PPath) (wi : Bool) (hr : RInv r)
    (hp : SafeP source) (hparts : source.parts ≠ []) : downloadTop l r source dest wi ≠ .error .fuel :=
  download_no_fuel r hr r.fs.length (bounded_length r.fs hr.pc) _ l source dest wi hp hparts (by omega) (by omega)

end ClientTree
end Model
