/-
  Helper lemmas for C15 (speed limits).  Proof file: single Mathlib modules allowed.
-/
import AioftpModel.Model.Throttle
import Mathlib.Tactic.Linarith
import Mathlib.Tactic.Ring
import Mathlib.Tactic.FieldSimp
import Mathlib.Algebra.Order.Field.Rat

namespace Model.Throttling
open Py

/-! ## `round` -/

theorem floor_le' (x : Rat) : (x.floor : Rat) ≤ x := Rat.floor_le x

theorem lt_floor_add_one' (x : Rat) : x < (x.floor : Rat) + 1 := by
  have := Rat.lt_floor_add_one x
  push_cast at this
  exact this

/-- Python's `round` is within one half of its argument -/
theorem round_err (x : Rat) :
    x - 1 / 2 ≤ (roundHalfEven x : Rat) ∧ (roundHalfEven x : Rat) ≤ x + 1 / 2 := by
  have h1 := floor_le' x
  have h2 := lt_floor_add_one' x
  unfold roundHalfEven
  simp only
  split_ifs with a b c
  · constructor <;> linarith
  · push_cast; constructor <;> linarith
  · have : x - (x.floor : Rat) = 1 / 2 := le_antisymm (not_lt.mp b) (not_lt.mp a)
    constructor <;> linarith
  · have : x - (x.floor : Rat) = 1 / 2 := le_antisymm (not_lt.mp b) (not_lt.mp a)
    push_cast; constructor <;> linarith

theorem floor_intCast' (n : Int) : ((n : Rat)).floor = n := by
  have h1 := floor_le' (n : Rat)
  have h2 := lt_floor_add_one' (n : Rat)
  have a : ((n : Rat)).floor ≤ n := by exact_mod_cast h1
  have b : n < ((n : Rat)).floor + 1 := by exact_mod_cast h2
  omega

/-- on integers `round` is the identity: a fold whose elapsed·limit is an integer costs no slack -/
theorem round_int (n : Int) : roundHalfEven (n : Rat) = n := by
  unfold roundHalfEven
  simp only [floor_intCast', sub_self]
  norm_num

/-! ## one throttle -/

theorem on_iff (t : Throttle) : t.on = true ↔ ∃ l, t.limit = some l ∧ 0 < l := by
  unfold Throttle.on
  cases h : t.limit <;> simp

theorem on_truthy (t : Throttle) (h : t.on = true) : t.truthy = true := by
  obtain ⟨l, hl, hp⟩ := (on_iff t).1 h
  simp [Throttle.truthy, hl]; omega

/-- `wait` on a limited throttle with memory returns at `max now (start + sum/limit)` -/
theorem waitUntil_on (t : Throttle) (l : Int) (s now : Rat) (hl : t.limit = some l) (hp : 0 < l)
    (hs : t.start = some s) :
    t.waitUntil now = max now (s + (t.sum : Rat) / (l : Rat)) := by
  simp only [Throttle.waitUntil, Throttle.waitDelay, hl, hs, hp, if_true]
  rcases le_total (s + (t.sum : Rat) / (l : Rat) - now) 0 with h1 | h1
  · rw [max_eq_left h1, max_eq_left (by linarith)]; ring
  · rw [max_eq_right h1, max_eq_right (by linarith)]; ring

/-- no positive limit, or no memory yet: `wait` does not sleep -/
theorem waitUntil_off (t : Throttle) (now : Rat) (h : t.on = false ∨ t.start = none) :
    t.waitUntil now = now := by
  unfold Throttle.waitUntil Throttle.waitDelay
  rcases h with h | h
  · unfold Throttle.on at h
    cases hl : t.limit with
    | none => simp
    | some l =>
      simp only [hl, decide_eq_false_iff_not] at h
      cases t.start <;> simp [h]
  · simp [h]

theorem waitUntil_ge (t : Throttle) (now : Rat) : now ≤ t.waitUntil now := by
  unfold Throttle.waitUntil Throttle.waitDelay
  split
  · rename_i d hd
    split at hd
    · split at hd
      · cases hd; have := le_max_left (0 : Rat) (‹Rat› + (t.sum : Rat) / ((‹Int› : Int) : Rat) - now); linarith
      · cases hd
    · cases hd
  · exact le_refl _

/-- the three facts about a wait on a limited throttle: it ends no earlier than asked, not before
    the accounted bytes are paid for, and — if it made the caller wait at all — exactly then. -/
theorem wait_spec (t : Throttle) (l : Int) (s now : Rat) (hl : t.limit = some l) (hp : 0 < l)
    (hs : t.start = some s) :
    now ≤ t.waitUntil now ∧ (l : Rat) * s + t.sum ≤ (l : Rat) * t.waitUntil now ∧
      (now < t.waitUntil now → (l : Rat) * t.waitUntil now = (l : Rat) * s + t.sum) := by
  have hl' : (0 : Rat) < (l : Rat) := by exact_mod_cast hp
  rw [waitUntil_on t l s now hl hp hs]
  have key : (l : Rat) * (s + (t.sum : Rat) / (l : Rat)) = (l : Rat) * s + t.sum := by
    field_simp
  refine ⟨le_max_left _ _, ?_, ?_⟩
  · calc (l : Rat) * s + t.sum = (l : Rat) * (s + (t.sum : Rat) / (l : Rat)) := key.symm
      _ ≤ (l : Rat) * max now (s + (t.sum : Rat) / (l : Rat)) :=
        mul_le_mul_of_nonneg_left (le_max_right _ _) (le_of_lt hl')
  · intro h
    have : max now (s + (t.sum : Rat) / (l : Rat)) = s + (t.sum : Rat) / (l : Rat) := by
      rcases le_total now (s + (t.sum : Rat) / (l : Rat)) with h1 | h1
      · exact max_eq_right h1
      · rw [max_eq_left h1] at h; exact absurd h (lt_irrefl _)
    rw [this, key]

/-- shape of `append` on a limited throttle -/
theorem append_on (t : Throttle) (l : Int) (n : Nat) (st : Rat) (hl : t.limit = some l) (hp : 0 < l) :
    (t.append n st).limit = some l ∧ (t.append n st).resetRate = t.resetRate ∧
    ((t.start = none ∧ (t.append n st).start = some st ∧ (t.append n st).sum = t.sum + n) ∨
     (∃ s, t.start = some s ∧ t.folds st = false ∧
        (t.append n st).start = some s ∧ (t.append n st).sum = t.sum + n) ∨
     (∃ s, t.start = some s ∧ t.folds st = true ∧ (t.append n st).start = some st ∧
        (t.append n st).sum = t.sum - roundHalfEven ((st - s) * (l : Rat)) + n)) := by
  unfold Throttle.append Throttle.folds
  simp only [hl, hp, if_true, decide_true, Bool.true_and]
  cases hs : t.start with
  | none =>
    refine ⟨trivial, trivial, Or.inl ⟨rfl, ?_⟩⟩
    simp only [Option.getD_none, sub_self]
    split_ifs with h
    · have : roundHalfEven 0 = 0 := by simpa using round_int 0
      simp [this]
    · simp
  | some s =>
    simp only [Option.getD_some]
    by_cases h : t.resetRate < st - s
    · refine ⟨trivial, trivial, Or.inr (Or.inr ⟨s, rfl, by simp [h], ?_⟩)⟩
      simp [h]
    · refine ⟨trivial, trivial, Or.inr (Or.inl ⟨s, rfl, by simp [h], ?_⟩)⟩
      simp [h]

/-- `append` on a throttle without a positive limit changes nothing -/
theorem append_off (t : Throttle) (n : Nat) (st : Rat) (h : t.on = false) : t.append n st = t := by
  unfold Throttle.append
  unfold Throttle.on at h
  cases hl : t.limit with
  | none => rfl
  | some l =>
    simp only [hl, decide_eq_false_iff_not] at h
    simp [h]

/-! ## store updates -/

theorem updAt_length {α : Type} (f : α → α) (l : List α) (i : Nat) : (updAt f l i).length = l.length := by
  induction l generalizing i with
  | nil => rfl
  | cons a l ih => cases i <;> simp [updAt, ih]

theorem updAt_get {α : Type} (f : α → α) (l : List α) (i k : Nat) :
    (updAt f l i)[k]? = if k = i then l[k]?.map f else l[k]? := by
  induction l generalizing i k with
  | nil => simp [updAt]
  | cons a l ih =>
    cases i with
    | zero => cases k <;> simp [updAt]
    | succ i =>
      cases k with
      | zero => simp [updAt]
      | succ k => simp [updAt, ih]

theorem appendAll_get_not_mem (store : Store) (ids : List Nat) (n : Nat) (st : Rat) (x : Nat)
    (hx : x ∉ ids) : (appendAll store ids n st)[x]? = store[x]? := by
  unfold appendAll
  induction ids generalizing store with
  | nil => rfl
  | cons i ids ih =>
    simp only [List.foldl_cons]
    rw [ih _ (fun h => hx (List.mem_cons_of_mem _ h)), updAt_get]
    have : x ≠ i := fun h => hx (h ▸ List.mem_cons_self)
    simp [this]

theorem appendAll_get_mem (store : Store) (ids : List Nat) (n : Nat) (st : Rat) (x : Nat)
    (hx : x ∈ ids) (hn : ids.Nodup) :
    (appendAll store ids n st)[x]? = store[x]?.map (fun t => t.append n st) := by
  unfold appendAll
  induction ids generalizing store with
  | nil => cases hx
  | cons i ids ih =>
    simp only [List.foldl_cons]
    rw [List.nodup_cons] at hn
    rcases List.mem_cons.1 hx with rfl | h
    · have := appendAll_get_not_mem (updAt (fun t => t.append n st) store x) ids n st x hn.1
      unfold appendAll at this
      rw [this, updAt_get]; simp
    · rw [ih _ h hn.2, updAt_get]
      have : x ≠ i := fun e => hn.1 (e ▸ h)
      simp [this]

/-! ## `ThrottleStreamIO.wait` -/

private def waitStep (store : Store) (now : Rat) (acc : Rat) (i : Nat) : Rat :=
  match store[i]? with
  | some t => if t.truthy then max acc (t.waitUntil now) else acc
  | none => acc

private theorem waitAll_eq (store : Store) (ids : List Nat) (now : Rat) :
    waitAll store ids now = ids.foldl (waitStep store now) now := rfl

private theorem foldl_waitStep_ge (store : Store) (now : Rat) (ids : List Nat) (acc : Rat) :
    acc ≤ ids.foldl (waitStep store now) acc := by
  induction ids generalizing acc with
  | nil => exact le_refl _
  | cons i ids ih =>
    simp only [List.foldl_cons]
    refine le_trans ?_ (ih _)
    unfold waitStep
    split
    · split
      · exact le_max_left _ _
      · exact le_refl _
    · exact le_refl _

theorem waitAll_ge_now (store : Store) (ids : List Nat) (now : Rat) : now ≤ waitAll store ids now :=
  foldl_waitStep_ge store now ids now

private theorem foldl_waitStep_ge_each (store : Store) (now : Rat) (ids : List Nat) (acc : Rat)
    (x : Nat) (t : Throttle) (hx : x ∈ ids) (ht : store[x]? = some t) (htr : t.truthy = true) :
    t.waitUntil now ≤ ids.foldl (waitStep store now) acc := by
  induction ids generalizing acc with
  | nil => cases hx
  | cons i ids ih =>
    simp only [List.foldl_cons]
    rcases List.mem_cons.1 hx with rfl | h
    · refine le_trans ?_ (foldl_waitStep_ge store now ids _)
      simp only [waitStep, ht, htr, if_true]
      exact le_max_right _ _
    · exact ih _ h

/-- the stream starts no earlier than any of its limited throttles allows -/
theorem waitAll_ge_each (store : Store) (ids : List Nat) (now : Rat) (x : Nat) (t : Throttle)
    (hx : x ∈ ids) (ht : store[x]? = some t) (htr : t.truthy = true) :
    t.waitUntil now ≤ waitAll store ids now :=
  foldl_waitStep_ge_each store now ids now x t hx ht htr

private theorem foldl_waitStep_tight (store : Store) (now : Rat) (ids : List Nat) (acc : Rat) :
    ids.foldl (waitStep store now) acc = acc ∨
      ∃ x t, x ∈ ids ∧ store[x]? = some t ∧ t.truthy = true ∧
        ids.foldl (waitStep store now) acc = t.waitUntil now := by
  induction ids generalizing acc with
  | nil => exact Or.inl rfl
  | cons i ids ih =>
    simp only [List.foldl_cons]
    rcases ih (waitStep store now acc i) with h | ⟨x, t, hx, ht, htr, he⟩
    · rw [h]
      unfold waitStep
      cases hs : store[i]? with
      | none => exact Or.inl rfl
      | some t =>
        simp only
        by_cases htr : t.truthy = true
        · simp only [htr, if_true]
          rcases le_total acc (t.waitUntil now) with h1 | h1
          · right
            exact ⟨i, t, List.mem_cons_self, hs, htr, max_eq_right h1⟩
          · left; exact max_eq_left h1
        · simp [htr]
    · exact Or.inr ⟨x, t, List.mem_cons_of_mem _ hx, ht, htr, he⟩

/-- `wait(name)` ends either at once or exactly when its slowest limited throttle is done:
    the start is the maximum, nothing is added on top -/
theorem waitAll_tight (store : Store) (ids : List Nat) (now : Rat) :
    waitAll store ids now = now ∨
      ∃ x t, x ∈ ids ∧ store[x]? = some t ∧ t.truthy = true ∧ waitAll store ids now = t.waitUntil now :=
  foldl_waitStep_tight store now ids now

private theorem foldl_waitStep_congr (store store' : Store) (now : Rat) (ids : List Nat) (acc : Rat)
    (h : ∀ i ∈ ids, store[i]? = store'[i]?) :
    ids.foldl (waitStep store now) acc = ids.foldl (waitStep store' now) acc := by
  induction ids generalizing acc with
  | nil => rfl
  | cons i ids ih =>
    simp only [List.foldl_cons]
    have : waitStep store now acc i = waitStep store' now acc i := by
      unfold waitStep; rw [h i List.mem_cons_self]
    rw [this]
    exact ih _ (fun k hk => h k (List.mem_cons_of_mem _ hk))

/-- the end of a stream's wait is a function of the throttles it holds, of nothing else -/
theorem waitAll_congr (store store' : Store) (ids : List Nat) (now : Rat)
    (h : ∀ i ∈ ids, store[i]? = store'[i]?) : waitAll store ids now = waitAll store' ids now :=
  foldl_waitStep_congr store store' now ids now h

end Model.Throttling
