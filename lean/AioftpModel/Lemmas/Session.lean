import AioftpModel.Model.Session

namespace Model
namespace Session
open Py Generated

theorem all_verbs (v : Verb) : v ∈ Verb.all := by cases v <;> decide

/-- state invariant: a logged-in session has a user, and a user index is always valid -/
def Inv (cfg : Cfg) (s : SState) : Prop :=
  (s.logged = true → s.user.isSome = true) ∧ ∀ i, s.user = some i → (cfg.users[i]?).isSome = true

@[simp] theorem resetRestart_logged (name : Str) (s : SState) : (resetRestart name s).logged = s.logged := by
  rfl
@[simp] theorem resetRestart_user (name : Str) (s : SState) : (resetRestart name s).user = s.user := by
  rfl
@[simp] theorem resetRestart_cwd (name : Str) (s : SState) : (resetRestart name s).cwd = s.cwd := by
  rfl
@[simp] theorem resetRestart_renameFrom (name : Str) (s : SState) :
    (resetRestart name s).renameFrom = s.renameFrom := by
  rfl
@[simp] theorem resetRestart_passive (name : Str) (s : SState) : (resetRestart name s).passive = s.passive := by
  rfl
@[simp] theorem resetRestart_dataConn (name : Str) (s : SState) :
    (resetRestart name s).dataConn = s.dataConn := by
  rfl
@[simp] theorem resetRestart_alive (name : Str) (s : SState) : (resetRestart name s).alive = s.alive := by
  rfl
@[simp] theorem resetRestart_acquired (name : Str) (s : SState) :
    (resetRestart name s).acquired = s.acquired := by
  rfl

theorem Inv.resetRestart {cfg : Cfg} {s : SState} (h : Inv cfg s) (name : Str) :
    Inv cfg (resetRestart name s) := by
  unfold Inv at *; simpa using h

/-! ### guard stacks: table facts (decided over the regenerated table) and their consequences -/

def guardOk : Guard → Bool
  | .perm [] => false
  | .conn _ _ code => code == 503
  | _ => true

/-- no handler has an empty permission list; every top-level `ConnectionConditions` answers 503 -/
theorem guards_wellformed_b : ∀ v ∈ Verb.all, v.guards.all guardOk = true := by decide

/-- a stack is "login first" when it has no path/perm guard, or starts with a conn guard requiring `logged` -/
def noPathPerm (gs : List Guard) : Bool :=
  gs.all (fun g => match g with | .path _ => false | .perm _ => false | _ => true)

def loginFirst (gs : List Guard) : Bool :=
  noPathPerm gs || (match gs with
    | .conn fs _ _ :: _ => fs.contains .logged
    | _ => false)

theorem login_first_b : ∀ v ∈ Verb.all, loginFirst v.guards = true := by decide

/-- outcomes of a conn guard -/
theorem runGuard_conn_cases (cfg : Cfg) (w : World) (s : SState) (arg : PPath) (fs : List Field) (wt : Bool)
    (code : Nat) :
    (runGuard cfg w s arg (.conn fs wt code) = .pass ∧ ∀ f ∈ fs, fieldSet s f = true) ∨
    runGuard cfg w s arg (.conn fs wt code) = .fail code := by
  simp only [runGuard]
  cases hf : fs.find? (fun f => !fieldSet s f) with
  | none =>
    left
    refine ⟨rfl, ?_⟩
    intro f hfm
    have := List.find?_eq_none.mp hf f hfm
    simpa using this
  | some x => right; rfl

theorem runGuard_path_cases (cfg : Cfg) (w : World) (s : SState) (arg : PPath) (conds : List PathCond)
    (i : Nat) (hu : s.user = some i) :
    runGuard cfg w s arg (.path conds) = .pass ∨ runGuard cfg w s arg (.path conds) = .fail 550 := by
  simp only [runGuard, hu]
  cases conds.find? (fun c => !checkPathCond w.fs (resolve s arg) c) with
  | none => left; rfl
  | some x => right; rfl

theorem runGuard_perm_cases (cfg : Cfg) (w : World) (s : SState) (arg : PPath) (p : Perm) (ps : List Perm)
    (i : Nat) (hu : s.user = some i) (hv : (cfg.users[i]?).isSome = true) :
    runGuard cfg w s arg (.perm (p :: ps)) = .pass ∨ runGuard cfg w s arg (.perm (p :: ps)) = .fail 550 := by
  obtain ⟨u, hu'⟩ := Option.isSome_iff_exists.mp hv
  simp only [runGuard, hu, Option.bind, hu']
  split
  · left; rfl
  · right; rfl

theorem runGuard_perm_nil (cfg : Cfg) (w : World) (s : SState) (arg : PPath)
    (i : Nat) (hu : s.user = some i) (hv : (cfg.users[i]?).isSome = true) :
    runGuard cfg w s arg (.perm []) = .silent := by
  obtain ⟨u, hu'⟩ := Option.isSome_iff_exists.mp hv
  simp only [runGuard, hu, Option.bind, hu']

theorem runGuard_conn_pass {cfg : Cfg} {w : World} {s : SState} {arg : PPath} {fs : List Field} {wt : Bool}
    {code : Nat} (h : runGuard cfg w s arg (.conn fs wt code) = .pass) : ∀ f ∈ fs, fieldSet s f = true := by
  rcases runGuard_conn_cases cfg w s arg fs wt code with ⟨_, h2⟩ | h2
  · exact h2
  · rw [h2] at h; simp at h

theorem runGuards_cons (cfg : Cfg) (w : World) (s : SState) (arg : PPath) (g : Guard) (t : List Guard) :
    runGuards cfg w s arg (g :: t) = match runGuard cfg w s arg g with
      | .pass => runGuards cfg w s arg t
      | r => r := by
  rw [runGuards]
  cases runGuard cfg w s arg g <;> rfl

/-- with a valid user no guard crashes -/
theorem runGuards_no_crash_of_user (cfg : Cfg) (w : World) (s : SState) (arg : PPath) (i : Nat)
    (hu : s.user = some i) (hv : (cfg.users[i]?).isSome = true) (gs : List Guard) :
    runGuards cfg w s arg gs ≠ .crash := by
  induction gs with
  | nil => simp [runGuards]
  | cons g t ih =>
    rw [runGuards_cons]
    cases g with
    | conn fs wt code =>
      rcases runGuard_conn_cases cfg w s arg fs wt code with ⟨h, _⟩ | h <;> rw [h] <;> simp [ih]
    | path conds =>
      rcases runGuard_path_cases cfg w s arg conds i hu with h | h <;> rw [h] <;> simp [ih]
    | perm perms =>
      cases perms with
      | nil => rw [runGuard_perm_nil cfg w s arg i hu hv]; simp
      | cons p ps =>
        rcases runGuard_perm_cases cfg w s arg p ps i hu hv with h | h <;> rw [h] <;> simp [ih]
    | worker => simp [runGuard, ih]

theorem runGuards_no_crash_noPathPerm (cfg : Cfg) (w : World) (s : SState) (arg : PPath) (gs : List Guard)
    (h : noPathPerm gs = true) : runGuards cfg w s arg gs ≠ .crash := by
  induction gs with
  | nil => simp [runGuards]
  | cons g t ih =>
    simp only [noPathPerm, List.all_cons, Bool.and_eq_true] at h
    have iht := ih (by simpa [noPathPerm] using h.2)
    rw [runGuards_cons]
    cases g with
    | conn fs wt code =>
      rcases runGuard_conn_cases cfg w s arg fs wt code with ⟨h', _⟩ | h' <;> rw [h'] <;> simp [iht]
    | path conds => simp at h
    | perm perms => simp at h
    | worker => simp [runGuard, iht]

theorem runGuards_no_crash (cfg : Cfg) (w : World) (s : SState) (arg : PPath) (hinv : Inv cfg s)
    (gs : List Guard) (hl : loginFirst gs = true) : runGuards cfg w s arg gs ≠ .crash := by
  unfold loginFirst at hl
  rcases Bool.or_eq_true _ _ |>.mp hl with h | h
  · exact runGuards_no_crash_noPathPerm cfg w s arg gs h
  · cases gs with
    | nil => simp [runGuards]
    | cons g t =>
      cases g with
      | conn fs wt code =>
        rw [runGuards_cons]
        rcases runGuard_conn_cases cfg w s arg fs wt code with ⟨h', hall⟩ | h'
        · rw [h']
          have hlog : s.logged = true := by
            have := hall Field.logged (by simpa using h)
            simpa [fieldSet] using this
          obtain ⟨i, hi⟩ := Option.isSome_iff_exists.mp (hinv.1 hlog)
          simpa using runGuards_no_crash_of_user cfg w s arg i hi (hinv.2 i hi) t
        · rw [h']; simp
      | path conds => simp at h
      | perm perms => simp at h
      | worker => simp at h

theorem runGuard_not_silent (cfg : Cfg) (w : World) (s : SState) (arg : PPath) (g : Guard)
    (h : guardOk g = true) : runGuard cfg w s arg g ≠ .silent := by
  cases g with
  | conn fs wt code =>
    rcases runGuard_conn_cases cfg w s arg fs wt code with ⟨h', _⟩ | h' <;> rw [h'] <;> simp
  | path conds =>
    simp only [runGuard]
    cases s.user with
    | none => simp
    | some i =>
      simp only []
      cases conds.find? (fun c => !checkPathCond w.fs (resolve s arg) c) <;> simp
  | perm perms =>
    cases perms with
    | nil => simp [guardOk] at h
    | cons p ps =>
      simp only [runGuard]
      cases s.user.bind (cfg.users[·]?) with
      | none => simp
      | some u => simp only []; split <;> simp
  | worker => simp [runGuard]

theorem runGuards_not_silent (cfg : Cfg) (w : World) (s : SState) (arg : PPath) (gs : List Guard)
    (h : gs.all guardOk = true) : runGuards cfg w s arg gs ≠ .silent := by
  induction gs with
  | nil => simp [runGuards]
  | cons g t ih =>
    simp only [List.all_cons, Bool.and_eq_true] at h
    rw [runGuards_cons]
    have hg := runGuard_not_silent cfg w s arg g h.1
    cases hr : runGuard cfg w s arg g with
    | pass => simpa using ih h.2
    | fail c => simp
    | crash => simp
    | silent => exact absurd hr hg

theorem runGuard_fail_code (cfg : Cfg) (w : World) (s : SState) (arg : PPath) (g : Guard)
    (h : guardOk g = true) (c : Nat) (hf : runGuard cfg w s arg g = .fail c) : c = 503 ∨ c = 550 := by
  cases g with
  | conn fs wt code =>
    simp only [guardOk, beq_iff_eq] at h
    rcases runGuard_conn_cases cfg w s arg fs wt code with ⟨h', _⟩ | h'
    · rw [h'] at hf; simp at hf
    · rw [h'] at hf; simp only [GuardResult.fail.injEq] at hf; left; rw [← hf, h]
  | path conds =>
    simp only [runGuard] at hf
    cases hu : s.user with
    | none => simp [hu] at hf
    | some i =>
      simp only [hu] at hf
      cases hfind : conds.find? (fun c => !checkPathCond w.fs (resolve s arg) c) with
      | none => simp [hfind] at hf
      | some x => simp [hfind] at hf; right; exact hf.symm
  | perm perms =>
    simp only [runGuard] at hf
    cases hu : s.user.bind (cfg.users[·]?) with
    | none => simp [hu] at hf
    | some u =>
      simp only [hu] at hf
      cases perms with
      | nil => simp at hf
      | cons p ps =>
        simp only [] at hf
        split at hf
        · simp at hf
        · simp at hf; right; exact hf.symm
  | worker => simp [runGuard] at hf

/-- a failing stack of well-formed guards answers 503 or 550 -/
theorem runGuards_fail_code (cfg : Cfg) (w : World) (s : SState) (arg : PPath) (gs : List Guard)
    (h : gs.all guardOk = true) (c : Nat) (hf : runGuards cfg w s arg gs = .fail c) : c = 503 ∨ c = 550 := by
  induction gs with
  | nil => simp [runGuards] at hf
  | cons g t ih =>
    simp only [List.all_cons, Bool.and_eq_true] at h
    rw [runGuards_cons] at hf
    cases hr : runGuard cfg w s arg g with
    | pass => rw [hr] at hf; exact ih h.2 hf
    | crash => rw [hr] at hf; simp at hf
    | silent => rw [hr] at hf; simp at hf
    | fail c' =>
      rw [hr] at hf
      simp only [GuardResult.fail.injEq] at hf
      subst hf
      exact runGuard_fail_code cfg w s arg g h.1 c' hr

/-- what a passing stack guarantees about the fields its first conn guard names -/
theorem runGuards_pass_first_conn {cfg : Cfg} {w : World} {s : SState} {arg : PPath} {fs : List Field}
    {wt : Bool} {code : Nat} {t : List Guard}
    (h : runGuards cfg w s arg (.conn fs wt code :: t) = .pass) : ∀ f ∈ fs, fieldSet s f = true := by
  rw [runGuards_cons] at h
  rcases runGuard_conn_cases cfg w s arg fs wt code with ⟨_, h2⟩ | h2
  · exact h2
  · rw [h2] at h; simp at h

/-! ### `int()` on what `str.isdecimal()` lets through -/

/-- every code point of a decimal range is one of the ten digits of some script (generated tables) -/
def rangeCovered (r : Nat × Nat) : Bool :=
  (List.range' r.1 (r.2 - r.1 + 1)).all (fun n => Generated.pyDecimalZeros.any (fun z => z ≤ n && n ≤ z + 9))

theorem decimal_ranges_covered : Generated.pyDecimalRanges.all rangeCovered = true := by decide +kernel

theorem decimal_has_value (c : Char) (h : isDecimalCh c = true) : (decimalValue? c).isSome = true := by
  unfold isDecimalCh inRanges at h
  rw [List.any_eq_true] at h
  obtain ⟨r, hr, hin⟩ := h
  have hc := List.all_eq_true.mp decimal_ranges_covered r hr
  unfold rangeCovered at hc
  simp only [Bool.and_eq_true, decide_eq_true_eq] at hin
  have hmem : c.toNat ∈ List.range' r.1 (r.2 - r.1 + 1) := by
    rw [List.mem_range'_1]; omega
  have := List.all_eq_true.mp hc c.toNat hmem
  rw [List.any_eq_true] at this
  obtain ⟨z, hz, hzc⟩ := this
  unfold decimalValue?
  cases hf : Generated.pyDecimalZeros.find? (fun z => z ≤ c.toNat && c.toNat ≤ z + 9) with
  | some z' => rfl
  | none =>
    have := List.find?_eq_none.mp hf z hz
    simp_all

theorem intOfDigits_foldl_some (s : Str) (acc : Nat) (h : s.all isDecimalCh = true) :
    ∃ n, s.foldl digitStep (some acc) = some n := by
  induction s generalizing acc with
  | nil => exact ⟨acc, rfl⟩
  | cons c t ih =>
    simp only [List.all_cons, Bool.and_eq_true] at h
    obtain ⟨d, hd⟩ := Option.isSome_iff_exists.mp (decimal_has_value c h.1)
    simp only [List.foldl_cons, digitStep, hd]
    exact ih _ h.2

/-- `int(rest)` cannot fail on a string that `rest.isdecimal()` accepted -/
theorem int_of_decimal_total (s : Str) (h : isDecimal s = true) : (intOfDigits? s).isSome = true := by
  unfold isDecimal at h
  simp only [Bool.and_eq_true] at h
  obtain ⟨n, hn⟩ := intOfDigits_foldl_some s 0 h.2
  unfold intOfDigits?
  rw [hn]; rfl

end Session
end Model
