/-
  Helper lemmas for C01: `BytesIO.write` composes, the upload loop is one write of the concatenation,
  the block iterator stops exactly at the first empty read, the download loop tiles the rest of the file.
  Core-only (no Mathlib needed).
-/
import AioftpModel.Model.Transfer
namespace Model.Transfer
open Py Py.BytesIO

theorem writeAt_nil (c : Bytes) (p : Nat) : writeAt c p [] = c := by simp [writeAt]

theorem pad_eq (c : Bytes) (p : Nat) :
    (if p > c.length then c ++ List.replicate (p - c.length) 0 else c) = c ++ zeros (p - c.length) := by
  unfold zeros
  split
  · rfl
  · have : p - c.length = 0 := by omega
    simp [this]

theorem writeAt_eq (c : Bytes) (p : Nat) (d : Bytes) (hd : d ≠ []) :
    writeAt c p d = (c ++ zeros (p - c.length)).take p ++ d ++ c.drop (p + d.length) := by
  unfold writeAt
  have : d.isEmpty = false := by cases d <;> simp_all
  simp only [this, Bool.false_eq_true, ↓reduceIte]
  rw [pad_eq]
  congr 1
  unfold zeros
  rw [List.drop_append]
  have : List.drop (p + d.length - c.length) (List.replicate (p - c.length) 0) = [] := by
    apply List.drop_eq_nil_of_le
    simp only [List.length_replicate]; omega
  rw [this, List.append_nil]

theorem length_pad_take (c : Bytes) (p : Nat) : ((c ++ zeros (p - c.length)).take p).length = p := by
  simp [zeros]; omega

theorem writeAt_length (c : Bytes) (p : Nat) (d : Bytes) (hd : d ≠ []) :
    (writeAt c p d).length = max c.length (p + d.length) := by
  rw [writeAt_eq c p d hd]
  simp only [List.length_append, length_pad_take, List.length_drop]
  omega

/-- two consecutive writes are one write of the concatenation -/
theorem writeAt_writeAt (c : Bytes) (p : Nat) (a b : Bytes) :
    writeAt (writeAt c p a) (p + a.length) b = writeAt c p (a ++ b) := by
  by_cases ha : a = []
  · subst ha; simp [writeAt_nil]
  by_cases hb : b = []
  · subst hb; simp [writeAt_nil]
  have hab : a ++ b ≠ [] := by simp [ha]
  rw [writeAt_eq _ _ b hb, writeAt_eq c p (a ++ b) hab]
  have hl : (writeAt c p a).length = max c.length (p + a.length) := writeAt_length c p a ha
  have hz : p + a.length - (writeAt c p a).length = 0 := by rw [hl]; omega
  rw [hz]
  simp only [zeros, List.replicate_zero, List.append_nil]
  rw [writeAt_eq c p a ha]
  have hP := length_pad_take c p
  generalize hPd : (c ++ zeros (p - c.length)).take p = P at hP
  simp only [zeros] at hPd
  rw [hPd]
  have h1 : (P ++ a ++ List.drop (p + a.length) c).take (p + a.length) = P ++ a := by
    rw [List.take_append_of_le_length (by simp [hP])]
    apply List.take_of_length_le; simp [hP]
  have h2 : (P ++ a ++ List.drop (p + a.length) c).drop (p + a.length + b.length)
      = c.drop (p + (a ++ b).length) := by
    rw [List.drop_append]
    have : (P ++ a).drop (p + a.length + b.length) = [] := by
      apply List.drop_eq_nil_of_le; simp [hP]
    rw [this]
    simp only [List.nil_append, List.length_append, hP, List.drop_drop]
    congr 1; omega
  rw [h1, h2]
  simp [List.append_assoc]


/-- the upload loop over ANY list of blocks (empty ones included) is one write of their concatenation -/
theorem storLoop_eq (blocks : List Bytes) (c : Bytes) (p : Nat) :
    storLoop ⟨c, p⟩ blocks = ⟨writeAt c p blocks.flatten, p + blocks.flatten.length⟩ := by
  induction blocks generalizing c p with
  | nil => simp [storLoop, writeAt_nil]
  | cons b bs ih =>
    have : storLoop ⟨c, p⟩ (b :: bs) = storLoop ⟨writeAt c p b, p + b.length⟩ bs := by
      simp [storLoop, BytesIO.write]
    rw [this, ih, writeAt_writeAt]
    simp [Nat.add_assoc]

theorem iterByBlock_of_nonempty (chunks : List Bytes) (rest : List Bytes) (h : ∀ c ∈ chunks, c ≠ []) :
    iterByBlock (chunks ++ [] :: rest) = chunks := by
  induction chunks with
  | nil => simp [iterByBlock]
  | cons c cs ih =>
    have hc : c ≠ [] := h c (by simp)
    have : c.isEmpty = false := by cases c <;> simp_all
    simp only [List.cons_append, iterByBlock, this, Bool.false_eq_true, ↓reduceIte]
    rw [ih (fun x hx => h x (by simp [hx]))]

/-- the iterator never stops at a non-empty read, however short -/
theorem iterByBlock_cons_nonempty (d : Bytes) (rest : List Bytes) (hd : d ≠ []) :
    iterByBlock (d :: rest) = d :: iterByBlock rest := by
  have : d.isEmpty = false := by cases d <;> simp_all
  simp [iterByBlock, this]

theorem iterByBlock_cons_nil (rest : List Bytes) : iterByBlock ([] :: rest) = [] := by
  simp [iterByBlock]

theorem iterByBlock_eq_takeWhile (reads : List Bytes) :
    iterByBlock reads = reads.takeWhile (fun d => !d.isEmpty) := by
  induction reads with
  | nil => rfl
  | cons d rest ih =>
    by_cases h : d.isEmpty <;> simp [iterByBlock, h, ih]


theorem read_fst (f : BytesIO) (n : Nat) : (f.read n).1 = (f.data.drop f.pos).take n := rfl
theorem read_snd (f : BytesIO) (n : Nat) : (f.read n).2 = ⟨f.data, f.pos + ((f.data.drop f.pos).take n).length⟩ := rfl

/-- a read with a positive count is empty only at (or after) the end of the file -/
theorem read_eq_nil_iff (f : BytesIO) (n : Nat) (hn : 0 < n) : (f.read n).1 = [] ↔ f.data.length ≤ f.pos := by
  rw [read_fst]
  constructor
  · intro h
    have := congrArg List.length h
    simp only [List.length_take, List.length_drop, List.length_nil] at this
    omega
  · intro h
    simp [List.drop_eq_nil_of_le h]

theorem retrLoop_nil (f : BytesIO) (bs : Nat) (h : (f.read bs).1 = []) : retrLoop f bs = [] := by
  rw [retrLoop]; simp [h]

theorem retrLoop_cons (f : BytesIO) (bs : Nat) (h : (f.read bs).1 ≠ []) :
    retrLoop f bs = (f.read bs).1 :: retrLoop (f.read bs).2 bs := by
  rw [retrLoop]; simp [h]

theorem retrLoop_flatten (f : BytesIO) (bs : Nat) (hbs : 0 < bs) :
    (retrLoop f bs).flatten = f.data.drop f.pos := by
  induction f using retrLoop.induct (bs := bs) with
  | case1 f h =>
    rw [retrLoop_nil f bs h]
    have := (read_eq_nil_iff f bs hbs).mp h
    simp [List.drop_eq_nil_of_le this]
  | case2 f h ih =>
    rw [retrLoop_cons f bs h, List.flatten_cons, ih, read_fst, read_snd]
    simp only
    rw [← List.drop_drop]
    generalize f.data.drop f.pos = R
    by_cases hR : bs ≤ R.length
    · rw [List.length_take, Nat.min_eq_left hR, List.take_append_drop]
    · have : R.take bs = R := List.take_of_length_le (by omega)
      rw [this]; simp

theorem retrLoop_blocks (f : BytesIO) (bs : Nat) :
    ∀ b ∈ retrLoop f bs, b ≠ [] ∧ b.length ≤ bs := by
  induction f using retrLoop.induct (bs := bs) with
  | case1 f h => rw [retrLoop_nil f bs h]; simp
  | case2 f h ih =>
    rw [retrLoop_cons f bs h]
    intro b hb
    rcases List.mem_cons.mp hb with rfl | hb
    · exact ⟨h, by rw [read_fst]; simp [List.length_take]; omega⟩
    · exact ih b hb

/-- every block but the last is a full block -/
theorem retrLoop_full (f : BytesIO) (bs : Nat) :
    ∀ b ∈ (retrLoop f bs).dropLast, b.length = bs := by
  induction f using retrLoop.induct (bs := bs) with
  | case1 f h => rw [retrLoop_nil f bs h]; simp
  | case2 f h ih =>
    rw [retrLoop_cons f bs h]
    by_cases h2 : ((f.read bs).2.read bs).1 = []
    · rw [retrLoop_nil _ bs h2]; simp
    · rw [retrLoop_cons _ bs h2] at ih ⊢
      rw [List.dropLast_cons_cons]
      intro b hb
      rcases List.mem_cons.mp hb with rfl | hb
      · -- the next read is non-empty, so this one was not cut short by the end of the file
        rw [read_fst] at h2 ⊢
        rw [read_snd] at h2
        simp only at h2
        rw [List.length_take]
        by_cases hlt : bs ≤ (f.data.drop f.pos).length
        · exact Nat.min_eq_left hlt
        · exfalso
          apply h2
          have : ((f.data.drop f.pos).take bs).length = (f.data.drop f.pos).length := by
            rw [List.length_take]; omega
          rw [this, List.length_drop]
          have : List.drop (f.pos + (f.data.length - f.pos)) f.data = [] := by
            apply List.drop_eq_nil_of_le; omega
          rw [this]; simp
      · exact ih b hb

theorem retrLoop_length (f : BytesIO) (bs : Nat) (hbs : 0 < bs) :
    (retrLoop f bs).length = (f.data.length - f.pos + bs - 1) / bs := by
  induction f using retrLoop.induct (bs := bs) with
  | case1 f h =>
    rw [retrLoop_nil f bs h]
    have := (read_eq_nil_iff f bs hbs).mp h
    have h0 : f.data.length - f.pos + bs - 1 = bs - 1 := by omega
    rw [h0, List.length_nil]
    exact (Nat.div_eq_of_lt (by omega)).symm
  | case2 f h ih =>
    have hpos : f.pos < f.data.length := by
      have h' := mt (read_eq_nil_iff f bs hbs).mpr h; omega
    rw [retrLoop_cons f bs h, List.length_cons, ih, read_snd]
    simp only [List.length_take, List.length_drop]
    by_cases hlt : bs ≤ f.data.length - f.pos
    · rw [Nat.min_eq_left hlt]
      have : f.data.length - f.pos + bs - 1 = (f.data.length - (f.pos + bs) + bs - 1) + bs := by omega
      rw [this, Nat.add_div_right _ hbs]
    · have hm : min bs (f.data.length - f.pos) = f.data.length - f.pos := by omega
      rw [hm]
      have h1 : f.data.length - (f.pos + (f.data.length - f.pos)) + bs - 1 = bs - 1 := by omega
      rw [h1, Nat.div_eq_of_lt (by omega)]
      have h2 : f.data.length - f.pos + bs - 1 = (f.data.length - f.pos - 1) + bs := by omega
      rw [h2, Nat.add_div_right _ hbs, Nat.div_eq_of_lt (by omega)]


/-! ### the three start positions -/

theorem writeAt_empty_zero (d : Bytes) : writeAt [] 0 d = d := by
  by_cases hd : d = []
  · subst hd; rfl
  · rw [writeAt_eq _ _ _ hd]; simp [zeros]

theorem writeAt_end (c d : Bytes) : writeAt c c.length d = c ++ d := by
  by_cases hd : d = []
  · subst hd; simp [writeAt_nil]
  · rw [writeAt_eq _ _ _ hd]
    have : List.drop (c.length + d.length) c = [] := List.drop_eq_nil_of_le (by omega)
    simp [zeros, this]

/-- the upload result for ANY sequence of read results, in terms of one `write` -/
theorem storResult_eq_writeAt (be : Backend) (old : Option Bytes) (v : UpVerb) (k : Nat) (reads : List Bytes) :
    storResult be old v k reads =
      (storHandle be old v k).map fun f => writeAt f.data f.pos (iterByBlock reads).flatten := by
  unfold storResult
  cases storHandle be old v k with
  | none => rfl
  | some f => cases f with | mk c p => simp [storLoop_eq]

theorem storHandle_zero_stor (be : Backend) (old : Option Bytes) :
    storHandle be old .stor 0 = some ⟨[], 0⟩ := rfl

theorem storHandle_zero_appe (be : Backend) (old : Option Bytes) :
    storHandle be old .appe 0 = some ⟨old.getD [], (old.getD []).length⟩ := rfl

theorem storHandle_offset_some (be : Backend) (c : Bytes) (v : UpVerb) (k : Nat) (hk : k ≠ 0) :
    storHandle be (some c) v k = some ⟨c, k⟩ := by
  simp [storHandle, fileMode, hk, openFile, BytesIO.ofBytes, BytesIO.seek]

theorem storHandle_offset_none (be : Backend) (v : UpVerb) (k : Nat) (hk : k ≠ 0) :
    storHandle be none v k = none := by
  simp [storHandle, fileMode, hk, openFile]

/-- a single write at `k` against the arithmetic specification -/
theorem writeAt_spec (c : Bytes) (v : UpVerb) (k : Nat) (hk : k ≠ 0) (payload : Bytes) :
    writeAt c k payload = storSpec c v k payload := by
  unfold storSpec
  simp only [hk, ↓reduceIte]
  by_cases hp : payload = []
  · subst hp; simp [writeAt_nil]
  · simp only [hp, ↓reduceIte]; exact writeAt_eq c k payload hp

/-- the upload result equals the specification, for ANY sequence of read results, whenever the open succeeds -/
theorem storResult_eq_spec (be : Backend) (old : Option Bytes) (v : UpVerb) (k : Nat) (reads : List Bytes)
    (hopen : ¬ (old = none ∧ k ≠ 0)) :
    storResult be old v k reads = some (storSpec (old.getD []) v k (iterByBlock reads).flatten) := by
  rw [storResult_eq_writeAt]
  by_cases hk : k = 0
  · subst hk
    cases v with
    | stor => simp [storHandle_zero_stor, writeAt_empty_zero, storSpec]
    | appe => simp [storHandle_zero_appe, writeAt_end, storSpec]
  · cases old with
    | some c => simp [storHandle_offset_some be c v k hk, writeAt_spec c v k hk]
    | none => exact absurd ⟨rfl, hk⟩ hopen

/-! ### event order -/

def Ev.writeSize : Ev → Option Nat
  | .fileWrite n => some n
  | _ => none

theorem storLoopEvents_no_reply (reads : List Bytes) : ∀ e ∈ storLoopEvents reads, e.isReply = false := by
  induction reads with
  | nil => simp [storLoopEvents]
  | cons d rest ih =>
    unfold storLoopEvents
    by_cases h : d.isEmpty
    · simp [h, Ev.isReply]
    · simp only [h, Bool.false_eq_true, ↓reduceIte, List.mem_cons]
      rintro e (rfl | rfl | he)
      · rfl
      · rfl
      · exact ih e he

/-- the writes of the loop are exactly the non-empty blocks before the first empty read, in order -/
theorem storLoopEvents_writes (reads : List Bytes) :
    (storLoopEvents reads).filterMap Ev.writeSize = (iterByBlock reads).map List.length := by
  induction reads with
  | nil => simp [storLoopEvents, iterByBlock]
  | cons d rest ih =>
    unfold storLoopEvents iterByBlock
    by_cases h : d.isEmpty
    · simp [h, Ev.writeSize]
    · simp only [h, Bool.false_eq_true, ↓reduceIte, List.map_cons]
      rw [List.filterMap_cons, List.filterMap_cons]
      simp only [Ev.writeSize, ih]

theorem retrLoopEvents_no_reply (f : BytesIO) (bs : Nat) : ∀ e ∈ retrLoopEvents f bs, e.isReply = false := by
  intro e he
  unfold retrLoopEvents at he
  rcases List.mem_append.mp he with h | h
  · obtain ⟨b, _, hb⟩ := List.mem_flatMap.mp h
    simp only [List.mem_cons, List.not_mem_nil, or_false] at hb
    rcases hb with rfl | rfl <;> rfl
  · simp only [List.mem_cons, List.not_mem_nil, or_false] at h
    subst h; rfl

end Model.Transfer
