/- `Client.upload` of a directory: when the `relative` computation lands where the destination is, the remote
   tree becomes the old one overlaid with the local subtree.  (F5 is exactly the failure of that hypothesis.) -/
import AioftpModel.Lemmas.ClientDownload
import AioftpModel.Lemmas.ClientList

namespace Model
namespace ClientTree
open Py Fs

/-- the fixed data of one `upload` call of a directory -/
structure UCtx where
  l : Local
  source : PPath
  destination : PPath
  wi : Bool
  S : Path          -- where `source` is in the local tree
  T : Path          -- where `destination` resolves on the server
  cwd : PPath       -- the connection's working directory (constant during the call)

/-- what `relative` is on the tree as it is now (the generated table has the one unconditional assignment
    `destination / path.relative_to(source)`) -/
theorem relativeOf_eq (s d p : PPath) (wi : Bool) :
    relativeOf s d p wi = (match p.relativeTo? s with
      | none => .error .valueError
      | some rel => .ok (d.join rel)) := by
  cases wi <;> rfl

/-- the `relative` computation lands below the destination -/
def RelGood (c : UCtx) : Prop :=
  ∀ rp : Path, rp ≠ [] → (∀ x ∈ rp, SafeName x) →
    ∃ rel', relativeOf c.source c.destination (ext c.source rp) c.wi = .ok rel' ∧ SafeP rel' ∧
      landing c.cwd rel' = c.T ++ rp

structure UCtx.OK (c : UCtx) : Prop where
  node : c.l.node c.source = some c.S
  lpc : PC c.l.fs
  lsafe : SafeV c.l.fs
  rel : RelGood c

/-- `fs'` differs from `fs` only at images of existing local entries, where it holds the local entry -/
def Upd (c : UCtx) (fs fs' : Fs) : Prop :=
  ∀ q, lookup fs' q = lookup fs q ∨
    ∃ rp, q = c.T ++ rp ∧ lookup c.l.fs (c.S ++ rp) ≠ none ∧ lookup fs' q = lookup c.l.fs (c.S ++ rp)

/-- an image that is already right stays right -/
def Stab (c : UCtx) (fs fs' : Fs) : Prop :=
  ∀ rp, lookup c.l.fs (c.S ++ rp) ≠ none → lookup fs (c.T ++ rp) = lookup c.l.fs (c.S ++ rp) →
    lookup fs' (c.T ++ rp) = lookup c.l.fs (c.S ++ rp)

/-- where the local tree has a directory the remote tree has no file -/
def NoClash (c : UCtx) (fs : Fs) : Prop :=
  ∀ rp, lookup c.l.fs (c.S ++ rp) = some .dir → ∀ d, lookup fs (c.T ++ rp) ≠ some (.file d)

theorem Upd.refl (c : UCtx) (fs : Fs) : Upd c fs fs := fun _ => Or.inl rfl
theorem Stab.refl (c : UCtx) (fs : Fs) : Stab c fs fs := fun _ _ h => h

theorem Upd.trans {c : UCtx} {a b d : Fs} (h1 : Upd c a b) (h2 : Upd c b d) : Upd c a d := by
  intro q
  rcases h2 q with h | h
  · rcases h1 q with h' | ⟨rp, hq, hl, he⟩
    · exact Or.inl (h.trans h')
    · exact Or.inr ⟨rp, hq, hl, h.trans he⟩
  · exact Or.inr h

theorem Stab.trans {c : UCtx} {a b d : Fs} (h1 : Stab c a b) (h2 : Stab c b d) : Stab c a d :=
  fun rp hl h => h2 rp hl (h1 rp hl h)

theorem NoClash.of_upd {c : UCtx} {fs fs' : Fs} (h : NoClash c fs) (hu : Upd c fs fs') : NoClash c fs' := by
  intro rp hd d hf
  rcases hu (c.T ++ rp) with h' | ⟨rp2, hq, _, he⟩
  · rw [h'] at hf; exact h rp hd d hf
  · have : rp = rp2 := List.append_cancel_left hq
    subst this
    rw [he, hd] at hf; cases hf

/-- a single image is set to the local entry, nothing else moves -/
theorem upd_of_point {c : UCtx} {fs fs' : Fs} {rp : Path} (hl : lookup c.l.fs (c.S ++ rp) ≠ none)
    (hpt : lookup fs' (c.T ++ rp) = lookup c.l.fs (c.S ++ rp))
    (hother : ∀ q, q ≠ c.T ++ rp → lookup fs' q = lookup fs q) : Upd c fs fs' ∧ Stab c fs fs' := by
  constructor
  · intro q
    by_cases hq : q = c.T ++ rp
    · exact Or.inr ⟨rp, hq, hl, by rw [hq]; exact hpt⟩
    · exact Or.inl (hother q hq)
  · intro rp2 _ h
    by_cases hq : c.T ++ rp2 = c.T ++ rp
    · have : rp2 = rp := List.append_cancel_left hq
      subst this; exact hpt
    · rw [hother _ hq]; exact h

theorem node_ext {l : Local} {p : PPath} {S : Path} (h : l.node p = some S) (tail : Path) :
    l.node (ext p tail) = some (S ++ tail) := by
  unfold Local.node at h ⊢
  unfold ext PPath.isAbsolute at *
  simp only at h ⊢
  by_cases h0 : (p.root != 0) = true
  · rw [if_pos h0] at h ⊢
    simp only at h ⊢
    split at h
    · rename_i h1
      injection h with h
      rw [if_pos h1, h]
    · cases h
  · rw [if_neg h0] at h ⊢
    have hr : p.root = 0 := by simpa using h0
    unfold PPath.join at h ⊢
    simp only [hr, ne_eq, not_true_eq_false, ↓reduceIte] at h ⊢
    split at h
    · rename_i h1
      injection h with h
      rw [if_pos h1, ← h, List.append_assoc]
    · cases h

theorem ext_ext_join (p : PPath) (d : Path) (n : Str) (hn : SafeName n) :
    (ext p d).join (PPath.parse n) = ext p (d ++ [n]) := by
  rw [parse_name n hn, ext_join]

/-- `make_directory(relative)` for a local sub-directory whose parent's image exists -/
theorem childDir_step {c : UCtx} {r r' : Remote} {d : Path} {n : Str} {rel' : PPath} (hr : ROK r)
    (hcwd : r.cwd = c.cwd) (hrel : SafeP rel') (hland : landing c.cwd rel' = c.T ++ (d ++ [n]))
    (hpar : lookup r.fs (c.T ++ d) = some .dir) (hld : lookup c.l.fs (c.S ++ (d ++ [n])) = some .dir)
    (hnc : NoClash c r.fs) (h : makeDirectory r rel' = .ok r') :
    ROK r' ∧ r'.cwd = c.cwd ∧ r'.mlsx = r.mlsx ∧ Upd c r.fs r'.fs ∧ Stab c r.fs r'.fs ∧
      lookup r'.fs (c.T ++ (d ++ [n])) = some .dir := by
  obtain ⟨hc, hm, hlk, hr'⟩ := makeDirectory_spec hr hrel h
  rw [hcwd, hland] at hlk
  have hpt : lookup r'.fs (c.T ++ (d ++ [n])) = some .dir := by
    rw [hlk]; unfold ensured
    by_cases habs : lookup r.fs (c.T ++ (d ++ [n])) = none
    · rw [if_pos ⟨by simp, List.prefix_refl _, habs⟩]
    · rw [if_neg (by simp [habs])]
      cases he : lookup r.fs (c.T ++ (d ++ [n])) with
      | none => exact absurd he habs
      | some e =>
        cases e with
        | dir => rfl
        | file dd => exact absurd he (hnc _ hld dd)
  have hother : ∀ q, q ≠ c.T ++ (d ++ [n]) → lookup r'.fs q = lookup r.fs q := by
    intro q hq
    rw [hlk]; unfold ensured
    rw [if_neg]
    rintro ⟨_, hpre, habs⟩
    have hqd : q <+: c.T ++ d := by
      have := (prefix_dropLast_iff hq).mp hpre
      rw [← List.append_assoc, List.dropLast_concat] at this
      exact this
    by_cases hqe : q = c.T ++ d
    · rw [hqe, hpar] at habs; cases habs
    · have := hr.pc.prefix_dir (by rw [hpar]; simp) hqd hqe
      rw [this] at habs; cases habs
  obtain ⟨hu, hs⟩ := upd_of_point (c := c) (rp := d ++ [n]) (by rw [hld]; simp) (by rw [hpt, hld]) hother
  exact ⟨hr', by rw [hc, hcwd], hm, hu, hs, hpt⟩

/-- the nested `upload(path, relative, write_into=True)` for a local file whose parent's image exists -/
theorem childFile_step {c : UCtx} {r r' : Remote} {d : Path} {n : Str} {rel' : PPath} {path : PPath} (hr : ROK r)
    (hcwd : r.cwd = c.cwd) (hrel : SafeP rel') (hland : landing c.cwd rel' = c.T ++ (d ++ [n]))
    (hpar : lookup r.fs (c.T ++ d) = some .dir) (hnode : c.l.node path = some (c.S ++ (d ++ [n])))
    (h : uploadFile c.l r path rel' = .ok r') :
    ROK r' ∧ r'.cwd = c.cwd ∧ r'.mlsx = r.mlsx ∧ Upd c r.fs r'.fs ∧ Stab c r.fs r'.fs ∧
      lookup r'.fs (c.T ++ (d ++ [n])) = lookup c.l.fs (c.S ++ (d ++ [n])) := by
  obtain ⟨data, hread, _, hc, hm, hr', hlk⟩ := uploadFile_spec hr hrel h
  rw [hcwd, hland] at hlk
  have hdata : lookup c.l.fs (c.S ++ (d ++ [n])) = some (.file data) := by
    unfold Local.read at hread
    rw [hnode] at hread
    simp only at hread
    split at hread
    · rename_i fs' c0 pos ho
      injection hread with hread
      subst hread
      exact openFile_rb ho
    · cases hread
  have hdl : (c.T ++ (d ++ [n])).dropLast = c.T ++ d := by
    rw [← List.append_assoc, List.dropLast_concat]
  rw [hdl] at hlk
  have hother : ∀ q, q ≠ c.T ++ (d ++ [n]) → lookup r'.fs q = lookup r.fs q := by
    intro q hq
    rw [hlk, if_neg hq, ensured_of_exists hr.pc (by rw [hpar]; simp)]
  have hpt : lookup r'.fs (c.T ++ (d ++ [n])) = lookup c.l.fs (c.S ++ (d ++ [n])) := by
    rw [hlk, if_pos rfl, hdata]
  obtain ⟨hu, hs⟩ := upd_of_point (c := c) (rp := d ++ [n]) (by rw [hdata]; simp) hpt hother
  exact ⟨hr', by rw [hc, hcwd], hm, hu, hs, hpt⟩

theorem dir_of_upd {c : UCtx} {fs fs' : Fs} {d : Path} (hu : Upd c fs fs') (h : lookup fs (c.T ++ d) = some .dir)
    (hl : lookup c.l.fs (c.S ++ d) = some .dir) : lookup fs' (c.T ++ d) = some .dir := by
  rcases hu (c.T ++ d) with h' | ⟨rp, hq, _, he⟩
  · rw [h', h]
  · have : d = rp := List.append_cancel_left hq
    subst this
    rw [he, hl]

theorem local_isDir_ext {c : UCtx} (hc : c.OK) (tail : Path) :
    c.l.isDir (ext c.source tail) = (lookup c.l.fs (c.S ++ tail) == some .dir) := by
  unfold Local.isDir
  rw [node_ext hc.node]
  rfl

theorem local_isFile_ext {c : UCtx} (hc : c.OK) (tail : Path) :
    c.l.isFile (ext c.source tail) = Fs.isFile c.l.fs (c.S ++ tail) := by
  unfold Local.isFile
  rw [node_ext hc.node]

/-- the body of `async for path in self.path_io.list(src)` over the children of the local directory `S ++ d` -/
theorem uploadChildren_spec (c : UCtx) (hc : c.OK) (d : Path) (hd : ∀ x ∈ d, SafeName x)
    (hld : lookup c.l.fs (c.S ++ d) = some .dir) :
    ∀ (names : List (Str × Kind)) (r r' : Remote) (dirs : List PPath),
      ROK r → r.cwd = c.cwd → lookup r.fs (c.T ++ d) = some .dir → NoClash c r.fs →
      (∀ x ∈ names, SafeName x.1 ∧ lookup c.l.fs (c.S ++ (d ++ [x.1])) ≠ none) →
      uploadChildren c.l c.source c.destination c.wi r (names.map (fun e => ext c.source (d ++ [e.1]))) =
        .ok (r', dirs) →
      ROK r' ∧ r'.cwd = c.cwd ∧ r'.mlsx = r.mlsx ∧ Upd c r.fs r'.fs ∧ Stab c r.fs r'.fs ∧
      dirs = (names.filter (fun e => lookup c.l.fs (c.S ++ (d ++ [e.1])) == some .dir)).map
        (fun e => ext c.source (d ++ [e.1])) ∧
      (∀ x ∈ names, lookup r'.fs (c.T ++ (d ++ [x.1])) = lookup c.l.fs (c.S ++ (d ++ [x.1]))) := by
  intro names
  induction names with
  | nil =>
    intro r r' dirs hr hcwd _ _ _ h
    simp only [List.map_nil, uploadChildren] at h
    injection h with h
    injection h with h1 h2
    subst h1; subst h2
    exact ⟨hr, hcwd, rfl, Upd.refl _ _, Stab.refl _ _, by simp, by simp⟩
  | cons x rest ih =>
    intro r r' dirs hr hcwd hpar hnc hnames h
    obtain ⟨hxs, hxl⟩ := hnames x (by simp)
    have hrp : ∀ y ∈ d ++ [x.1], SafeName y := by
      intro y hy
      rcases List.mem_append.mp hy with hy | hy
      · exact hd y hy
      · simp at hy; subst hy; exact hxs
    obtain ⟨rel', hrel, hsafe', hland⟩ := hc.rel (d ++ [x.1]) (by simp) hrp
    simp only [List.map_cons, uploadChildren, hrel] at h
    rw [local_isDir_ext hc, local_isFile_ext hc] at h
    by_cases hxd : lookup c.l.fs (c.S ++ (d ++ [x.1])) = some .dir
    · have hb : (lookup c.l.fs (c.S ++ (d ++ [x.1])) == some Entry.dir) = true := by rw [hxd]; rfl
      rw [if_pos hb] at h
      split at h
      · cases h
      · rename_i r1 hmk
        obtain ⟨hr1, hc1, hm1, hu1, hs1, hp1⟩ := childDir_step hr hcwd hsafe' hland hpar hxd hnc hmk
        split at h
        · cases h
        · rename_i r2 dirs' hrest
          injection h with h
          injection h with h1 h2
          subst h1; subst h2
          obtain ⟨hr2, hc2, hm2, hu2, hs2, hdirs, hP⟩ := ih r1 r2 dirs' hr1 hc1 (dir_of_upd hu1 hpar hld)
            (hnc.of_upd hu1) (fun y hy => hnames y (List.mem_cons_of_mem _ hy)) hrest
          refine ⟨hr2, hc2, hm2.trans hm1, hu1.trans hu2, hs1.trans hs2, ?_, ?_⟩
          · rw [List.filter_cons, if_pos hb, List.map_cons, hdirs]
          · intro y hy
            rcases List.mem_cons.mp hy with hy | hy
            · subst hy
              exact hs2 _ hxl (by rw [hp1, hxd])
            · exact hP y hy
    · have hb : ¬ (lookup c.l.fs (c.S ++ (d ++ [x.1])) == some Entry.dir) = true := by
        intro hb; exact hxd (by simpa using hb)
      rw [if_neg hb] at h
      have hfile : Fs.isFile c.l.fs (c.S ++ (d ++ [x.1])) = true := by
        rw [isFile_iff]
        cases he : lookup c.l.fs (c.S ++ (d ++ [x.1])) with
        | none => exact absurd he hxl
        | some e =>
          cases e with
          | dir => exact absurd he hxd
          | file dd => exact ⟨dd, rfl⟩
      rw [if_pos hfile] at h
      split at h
      · cases h
      · rename_i r1 hup
        obtain ⟨hr1, hc1, hm1, hu1, hs1, hp1⟩ := childFile_step hr hcwd hsafe' hland hpar
          (node_ext hc.node (d ++ [x.1])) hup
        obtain ⟨hr2, hc2, hm2, hu2, hs2, hdirs, hP⟩ := ih r1 r' dirs hr1 hc1 (dir_of_upd hu1 hpar hld)
          (hnc.of_upd hu1) (fun y hy => hnames y (List.mem_cons_of_mem _ hy)) h
        refine ⟨hr2, hc2, hm2.trans hm1, hu1.trans hu2, hs1.trans hs2, ?_, ?_⟩
        · rw [List.filter_cons, if_neg hb, hdirs]
        · intro y hy
          rcases List.mem_cons.mp hy with hy | hy
          · subst hy
            exact hs2 _ hxl hp1
          · exact hP y hy

theorem local_list_ext {c : UCtx} (hc : c.OK) (d : Path) (hld : lookup c.l.fs (c.S ++ d) = some .dir) :
    c.l.list (ext c.source d) =
      (childEntries c.l.fs (c.S ++ d)).map (fun e => ext c.source (d ++ [e.1])) := by
  unfold Local.list
  rw [node_ext hc.node]
  simp only
  rw [if_pos ((isDir_iff _ _).mpr hld)]
  apply List.map_congr_left
  intro e he
  exact ext_ext_join c.source d e.1 (childEntries_safe hc.lsafe he).1

/-- the `while sources:` loop -/
theorem uploadLoop_spec (c : UCtx) (hc : c.OK) : ∀ (fuel : Nat) (Q : List Path) (r r' : Remote),
    ROK r → r.cwd = c.cwd → NoClash c r.fs →
    (∀ d ∈ Q, (∀ x ∈ d, SafeName x) ∧ lookup c.l.fs (c.S ++ d) = some .dir ∧
      lookup r.fs (c.T ++ d) = some .dir) →
    uploadLoop c.l c.source c.destination c.wi fuel r (Q.map (ext c.source)) = .ok r' →
    ROK r' ∧ r'.cwd = c.cwd ∧ r'.mlsx = r.mlsx ∧ Upd c r.fs r'.fs ∧ Stab c r.fs r'.fs ∧
    (∀ rp, (∃ d ∈ Q, d <+: rp ∧ d ≠ rp) → lookup c.l.fs (c.S ++ rp) ≠ none →
      lookup r'.fs (c.T ++ rp) = lookup c.l.fs (c.S ++ rp)) := by
  intro fuel
  induction fuel with
  | zero =>
    intro Q r r' hr hcwd _ _ h
    cases Q with
    | nil =>
      simp only [List.map_nil, uploadLoop] at h
      injection h with h; subst h
      exact ⟨hr, hcwd, rfl, Upd.refl _ _, Stab.refl _ _, by simp⟩
    | cons d Q' => simp [uploadLoop] at h
  | succ fuel IH =>
    intro Q r r' hr hcwd hnc hQ h
    cases Q with
    | nil =>
      simp only [List.map_nil, uploadLoop] at h
      injection h with h; subst h
      exact ⟨hr, hcwd, rfl, Upd.refl _ _, Stab.refl _ _, by simp⟩
    | cons d Q' =>
      obtain ⟨hd, hld, hrd⟩ := hQ d (by simp)
      simp only [List.map_cons, uploadLoop] at h
      rw [local_list_ext hc d hld] at h
      split at h
      · cases h
      · rename_i r1 dirs hch
        have hnames : ∀ x ∈ childEntries c.l.fs (c.S ++ d),
            SafeName x.1 ∧ lookup c.l.fs (c.S ++ (d ++ [x.1])) ≠ none := by
          intro x hx
          have := childEntries_safe hc.lsafe hx
          rw [List.append_assoc] at this
          exact this
        obtain ⟨hr1, hc1, hm1, hu1, hs1, hdirs, hP1⟩ :=
          uploadChildren_spec c hc d hd hld _ r r1 dirs hr hcwd hrd hnc hnames hch
        -- the new queue as tails
        have hq : Q'.map (ext c.source) ++ dirs =
            (Q' ++ ((childEntries c.l.fs (c.S ++ d)).filter
              (fun e => lookup c.l.fs (c.S ++ (d ++ [e.1])) == some .dir)).map (fun e => d ++ [e.1])).map
              (ext c.source) := by
          rw [List.map_append, List.map_map, hdirs]; rfl
        rw [hq] at h
        obtain ⟨hr2, hc2, hm2, hu2, hs2, hcov⟩ := IH _ r1 r' hr1 hc1 (hnc.of_upd hu1)
          (by
            intro d' hd'
            rcases List.mem_append.mp hd' with hd' | hd'
            · obtain ⟨a, b, e⟩ := hQ d' (List.mem_cons_of_mem _ hd')
              exact ⟨a, b, dir_of_upd hu1 e b⟩
            · obtain ⟨e, he, rfl⟩ := List.mem_map.mp hd'
              obtain ⟨hmem, hdir⟩ := List.mem_filter.mp he
              have hdir' : lookup c.l.fs (c.S ++ (d ++ [e.1])) = some .dir := by simpa using hdir
              refine ⟨?_, hdir', ?_⟩
              · intro y hy
                rcases List.mem_append.mp hy with hy | hy
                · exact hd y hy
                · simp at hy; subst hy; exact (hnames e hmem).1
              · rw [hP1 e hmem, hdir'])
          h
        refine ⟨hr2, hc2, hm2.trans hm1, hu1.trans hu2, hs1.trans hs2, ?_⟩
        rintro rp ⟨d', hd', hpre, hne⟩ hl
        rcases List.mem_cons.mp hd' with hd' | hd'
        · subst hd'
          obtain ⟨n, hn⟩ := prefix_cons_child hpre hne
          -- the child of d' on the way to rp exists locally, so it was listed
          have hpre2 : c.S ++ (d' ++ [n]) <+: c.S ++ rp := (List.prefix_append_right_inj _).mpr hn
          have hchild : lookup c.l.fs (c.S ++ (d' ++ [n])) ≠ none := by
            by_cases heq : c.S ++ (d' ++ [n]) = c.S ++ rp
            · rw [heq]; exact hl
            · rw [hc.lpc.prefix_dir hl hpre2 heq]; simp
          have hmem : ∃ k, (n, k) ∈ childEntries c.l.fs (c.S ++ d') := by
            have hne' : c.S ++ d' ++ [n] ≠ [] := by simp
            rw [← List.append_assoc, lookup_ne_nil _ hne'] at hchild
            cases hlk : lk c.l.fs (c.S ++ d' ++ [n]) with
            | none => exact absurd hlk hchild
            | some e' => exact ⟨kindOf e', mem_childEntries.mpr ⟨_, lk_some_mem hlk, n, rfl, rfl⟩⟩
          obtain ⟨k, hk⟩ := hmem
          have hPn := hP1 (n, k) hk
          simp only at hPn
          by_cases hreln : d' ++ [n] = rp
          · subst hreln
            exact hs2 _ hl hPn
          · apply hcov rp _ hl
            refine ⟨d' ++ [n], ?_, hn, hreln⟩
            apply List.mem_append_right
            apply List.mem_map.mpr
            refine ⟨(n, k), ?_, rfl⟩
            rw [List.mem_filter]
            refine ⟨hk, ?_⟩
            have : lookup c.l.fs (c.S ++ (d' ++ [n])) = some .dir := by
              apply hc.lpc.prefix_dir hl hpre2
              intro heq
              exact hreln (List.append_cancel_left heq)
            rw [this]; rfl
        · exact hcov rp ⟨d', List.mem_append_left _ hd', hpre, hne⟩ hl

/-- the directory branch of `upload`, from the state after `make_directory(destination)` -/
theorem uploadDir_core (c : UCtx) (hc : c.OK) (hS : lookup c.l.fs c.S = some .dir) {fuel : Nat} {r1 r' : Remote}
    (hr1 : ROK r1) (hcwd : r1.cwd = c.cwd) (hT : lookup r1.fs c.T = some .dir) (hnc : NoClash c r1.fs)
    (h : uploadLoop c.l c.source c.destination c.wi fuel r1 [c.source] = .ok r') :
    ROK r' ∧ r'.cwd = c.cwd ∧ r'.mlsx = r1.mlsx ∧
    ∀ q, lookup r'.fs q =
      if c.T <+: q then
        (match lookup c.l.fs (c.S ++ q.drop c.T.length) with
          | some e => some e
          | none => lookup r1.fs q)
      else lookup r1.fs q := by
  have h' : uploadLoop c.l c.source c.destination c.wi fuel r1 ([([] : Path)].map (ext c.source)) = .ok r' := by
    simpa [ext_nil] using h
  obtain ⟨hr', hc', hm', hu, hs, hcov⟩ := uploadLoop_spec c hc fuel [[]] r1 r' hr1 hcwd hnc
    (by intro d hd; simp at hd; subst hd; simpa using ⟨hS, hT⟩) h'
  refine ⟨hr', hc', hm', ?_⟩
  intro q
  by_cases hpre : c.T <+: q
  · rw [if_pos hpre]
    obtain ⟨rp, rfl⟩ := hpre
    simp only [List.drop_left']
    cases hl : lookup c.l.fs (c.S ++ rp) with
    | none =>
      simp only
      rcases hu (c.T ++ rp) with h1 | ⟨rp2, hq, hl2, _⟩
      · exact h1
      · have : rp = rp2 := List.append_cancel_left hq
        subst this; exact absurd hl hl2
    | some e =>
      simp only
      by_cases hrp : rp = []
      · subst hrp
        simp only [List.append_nil] at hl ⊢
        rw [hS] at hl
        injection hl with hl
        subst hl
        have := dir_of_upd (d := []) hu (by simpa using hT) (by simpa using hS)
        simpa using this
      · rw [← hl]
        apply hcov rp ⟨[], by simp, List.nil_prefix, fun h => hrp h.symm⟩
        rw [hl]; simp
  · rw [if_neg hpre]
    rcases hu q with h1 | ⟨rp, hq, _, _⟩
    · exact h1
    · exact absurd (hq ▸ List.prefix_append _ _) hpre

end ClientTree
end Model
