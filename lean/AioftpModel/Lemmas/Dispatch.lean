/-
  Invariants of the dispatch model.  Core Lean only.
-/
import AioftpModel.Model.Dispatch

namespace Model.Dispatch

/-- what the sequential dispatcher keeps -/
structure Inv (s : St) : Prop where
  one     : s.running.length ≤ 1
  order   : s.started ++ s.backlog = s.received
  busy    : s.backlog ≠ [] → s.running ≠ []

theorem init_inv : Inv init := ⟨by simp [init], by simp [init], by simp [init]⟩

theorem pump_inv (s : St) (h1 : s.running.length ≤ 1) (h2 : s.started ++ s.backlog = s.received) : Inv (pump s) := by
  unfold pump
  cases hr : s.running with
  | nil =>
    cases hb : s.backlog with
    | nil => exact ⟨by simp [hr], by simpa [hb] using h2, by simp [hb]⟩
    | cons c rest =>
      refine ⟨by simp, ?_, by simp⟩
      simp only [List.append_assoc, List.singleton_append]
      rw [← h2, hb]
  | cons a t =>
    refine ⟨by simpa [hr] using h1, h2, ?_⟩
    intro _; simp [hr]

theorem step_inv (s : St) (e : Ev) (h : Inv s) : Inv (step true s e) := by
  obtain ⟨h1, h2, h3⟩ := h
  cases e with
  | recv c =>
    simp only [step, if_true]
    apply pump_inv
    · exact h1
    · simp only [← List.append_assoc, h2]
  | done k =>
    simp only [step]
    by_cases hk : k < s.running.length
    · simp only [hk, if_true]
      apply pump_inv
      · simp only [List.length_eraseIdx, hk, if_true]; omega
      · exact h2
    · simp only [hk, if_false]; exact ⟨h1, h2, h3⟩

theorem run_inv (s : St) (evs : List Ev) (h : Inv s) : Inv (run true s evs) := by
  induction evs generalizing s with
  | nil => exact h
  | cons e t ih => simp only [run, List.foldl_cons] at ih ⊢; exact ih _ (step_inv s e h)

/-- `received` only grows by `recv` -/
theorem run_received (b : Bool) (s : St) (evs : List Ev) :
    (run b s evs).received = s.received ++ recvs evs := by
  unfold recvs
  induction evs generalizing s with
  | nil => simp [run]
  | cons e t ih =>
    simp only [run, List.foldl_cons] at ih ⊢
    rw [ih]
    cases e with
    | recv c =>
      cases b <;> simp [step, pump] <;> (try split) <;> simp
    | done k =>
      cases b <;> simp only [step] <;> (split <;> simp [pump]) <;> (try split) <;> simp

end Model.Dispatch
