/-
  String-level lemmas for Model/ListDate.lean: what the strptime model returns on the strings the
  strftime model produces, and that formats without a ':' are rejected by the two `%H:%M` formats.
  Core tactics only.
-/
import AioftpModel.Model.ListDate
import AioftpModel.Lemmas.Calendar

namespace Model.ListDate
open Py Py.Time Model.Cal

/-! ### digit characters -/

private theorem digits_facts : ∀ i, i < 10 →
    Char.ofNat (48 + i) ≠ ':' ∧ isSpace (Char.ofNat (48 + i)) = false ∧
    decimalValue? (Char.ofNat (48 + i)) = some i ∧ (Char.ofNat (48 + i)).toNat = 48 + i := by
  decide

theorem digitChar_ne_colon (n : Nat) : digitChar n ≠ ':' :=
  (digits_facts (n % 10) (Nat.mod_lt _ (by decide))).1

theorem digitChar_not_space (n : Nat) : isSpace (digitChar n) = false :=
  (digits_facts (n % 10) (Nat.mod_lt _ (by decide))).2.1

theorem decimalValue_digitChar (n : Nat) : decimalValue? (digitChar n) = some (n % 10) :=
  (digits_facts (n % 10) (Nat.mod_lt _ (by decide))).2.2.1

theorem digitChar_mod (n : Nat) : digitChar (n % 10) = digitChar n := by
  simp [digitChar]

/-! ### decimal strings -/

theorem decStr_4 (n : Nat) (h1 : 1000 ≤ n) (h2 : n < 10000) :
    decStr n = [digitChar (n / 1000), digitChar (n / 100), digitChar (n / 10), digitChar n] := by
  obtain ⟨f, rfl⟩ : ∃ f, n = f + 4 := ⟨n - 4, by omega⟩
  have e1 : (f + 4) / 10 / 10 = (f + 4) / 100 := by omega
  have e2 : (f + 4) / 10 / 10 / 10 = (f + 4) / 1000 := by omega
  simp only [decStr, decAux]
  rw [if_neg (by omega), if_neg (by omega), if_neg (by omega)]
  cases f with
  | zero => omega
  | succ g =>
    simp only [decAux]
    rw [if_pos (by omega)]
    have e3 : (g + 1 + 4) / 100 / 10 = (g + 1 + 4) / 1000 := by omega
    simp only [e1, e3, List.cons_append, List.nil_append]

theorem pad2_lt100 (p : Char) (n : Nat) (h : n < 100) :
    ∃ x y, pad2 p n = [x, y] ∧ y = digitChar n ∧ (10 ≤ n → x = digitChar (n / 10)) ∧ (n < 10 → x = p) := by
  unfold pad2
  by_cases h10 : n < 10
  · rw [if_pos h10]; exact ⟨_, _, rfl, rfl, by omega, fun _ => rfl⟩
  · rw [if_neg h10, if_pos h]; exact ⟨_, _, rfl, rfl, fun _ => rfl, by omega⟩

theorem pad2_zero (n : Nat) (h : n < 100) : pad2 '0' n = [digitChar (n / 10), digitChar n] := by
  unfold pad2
  by_cases h10 : n < 10
  · rw [if_pos h10]
    have : n / 10 = 0 := by omega
    rw [this]; rfl
  · rw [if_neg h10, if_pos h]

/-! ### backtracking combinators -/

theorem firstSome_of_head {α β : Type} {k : α → Option β} {l : List α} {a : α} {b : β}
    (hl : l.head? = some a) (h : k a = some b) : firstSome k l = some b := by
  cases l with
  | nil => simp at hl
  | cons x t =>
    simp only [List.head?_cons, Option.some.injEq] at hl
    subst hl
    simp [firstSome, h]

theorem firstSome_none {α β : Type} {k : α → Option β} {l : List α}
    (h : ∀ a ∈ l, k a = none) : firstSome k l = none := by
  induction l with
  | nil => rfl
  | cons x t ih =>
    have hx := h x (List.mem_cons_self ..)
    simp only [firstSome, hx]
    exact ih (fun a ha => h a (List.mem_cons_of_mem _ ha))

theorem space_isSpace : isSpace ' ' = true := by decide

theorem wsStage_one {β : Type} (k : Str → Option β) (x : Char) (r : Str) (hx : isSpace x = false) :
    wsStage k (' ' :: x :: r) = k (x :: r) := by
  simp only [wsStage, List.takeWhile, space_isSpace, hx, List.length_cons, List.length_nil,
    downFrom, firstSome, List.drop]
  cases k (x :: r) <;> rfl

theorem wsStage_two_some {β : Type} (k : Str → Option β) (x : Char) (r : Str) (v : β)
    (hx : isSpace x = false) (h : k (x :: r) = some v) :
    wsStage k (' ' :: ' ' :: x :: r) = some v := by
  simp only [wsStage, List.takeWhile, space_isSpace, hx, List.length_cons, List.length_nil,
    downFrom, firstSome, List.drop, h]

theorem litStage_self {β : Type} (c : Char) (k : Str → Option β) (r : Str) :
    litStage c k (c :: r) = k r := by simp [litStage]

theorem altStage_cons2 {β : Type} (alts : Option Char → Option Char → List (Nat × Nat))
    (k : Nat → Str → Option β) (x y : Char) (r : Str) :
    altStage alts k (x :: y :: r) =
      firstSome (fun p => k p.1 ((x :: y :: r).drop p.2)) (alts (some x) (some y)) := rfl

/-! ### directive tables on formatted fields (finite, by evaluation) -/

set_option maxRecDepth 4000 in
private theorem day2_head : ∀ d, d < 32 → 10 ≤ d →
    (dayAlts (some (digitChar (d / 10))) (some (digitChar d))).head? = some (d, 2) := by decide

set_option maxRecDepth 4000 in
private theorem day1_head : ∀ d, d < 10 → 1 ≤ d →
    (dayAlts (some (digitChar d)) (some ' ')).head? = some (d, 1) := by decide

set_option maxRecDepth 4000 in
private theorem hour_head : ∀ h, h < 24 →
    (hourAlts (some (digitChar (h / 10))) (some (digitChar h))).head? = some (h, 2) := by decide

set_option maxRecDepth 8000 in
private theorem minute_head : ∀ m, m < 60 →
    (minuteAlts (some (digitChar (m / 10))) (some (digitChar m))).head? = some (m, 2) := by decide

theorem monthAbbr_facts : ∀ mo, mo < 13 → 1 ≤ mo →
    ∃ a b c, monthAbbr mo = [a, b, c] ∧ monthOfAbbr a b c = some mo ∧ isSpace a = false ∧
      a ≠ ':' ∧ b ≠ ':' ∧ c ≠ ':' := by
  intro mo h1 h2
  have : mo = 1 ∨ mo = 2 ∨ mo = 3 ∨ mo = 4 ∨ mo = 5 ∨ mo = 6 ∨ mo = 7 ∨ mo = 8 ∨ mo = 9 ∨
      mo = 10 ∨ mo = 11 ∨ mo = 12 := by omega
  rcases this with h | h | h | h | h | h | h | h | h | h | h | h <;> subst h <;>
    exact ⟨_, _, _, rfl, by decide, by decide, by decide, by decide, by decide⟩

/-! ### stages succeed on formatted fields -/

theorem minute_ok {β : Type} (k : Nat → Str → Option β) (mi : Nat) (hmi : mi < 60) (r : Str) (v : β)
    (hk : k mi r = some v) : altStage minuteAlts k (pad2 '0' mi ++ r) = some v := by
  rw [pad2_zero mi (by omega)]
  show altStage minuteAlts k (_ :: _ :: r) = some v
  rw [altStage_cons2]
  exact firstSome_of_head (minute_head mi hmi) hk

theorem hour_ok {β : Type} (k : Nat → Str → Option β) (h : Nat) (hh : h < 24) (r : Str) (v : β)
    (hk : k h r = some v) : wsStage (altStage hourAlts k) (' ' :: pad2 '0' h ++ r) = some v := by
  rw [pad2_zero h (by omega)]
  show wsStage _ (' ' :: _ :: _ :: r) = some v
  rw [wsStage_one _ _ _ (digitChar_not_space _), altStage_cons2]
  exact firstSome_of_head (hour_head h hh) hk

theorem day_ok {β : Type} (k : Nat → Str → Option β) (d : Nat) (h1 : 1 ≤ d) (h2 : d ≤ 31) (r : Str) (v : β)
    (hk : k d (' ' :: r) = some v) :
    wsStage (altStage dayAlts k) (' ' :: pad2 ' ' d ++ ' ' :: r) = some v := by
  unfold pad2
  by_cases h10 : d < 10
  · rw [if_pos h10]
    show wsStage _ (' ' :: ' ' :: digitChar d :: ' ' :: r) = some v
    apply wsStage_two_some _ _ _ _ (digitChar_not_space _)
    rw [altStage_cons2]
    exact firstSome_of_head (day1_head d h10 h1) hk
  · rw [if_neg h10, if_pos (by omega)]
    show wsStage _ (' ' :: digitChar (d / 10) :: digitChar d :: ' ' :: r) = some v
    rw [wsStage_one _ _ _ (digitChar_not_space _), altStage_cons2]
    exact firstSome_of_head (day2_head d (by omega) (by omega)) hk

theorem year4_fmtY {β : Type} (k : Nat → Str → Option β) (y : Nat) (h1 : 1000 ≤ y) (h2 : y < 10000)
    (r : Str) : year4Stage k (fmtY y ++ r) = k y r := by
  unfold fmtY
  rw [decStr_4 y h1 h2]
  show year4Stage k (_ :: _ :: _ :: _ :: r) = _
  simp only [year4Stage, decimalValue_digitChar]
  congr 1; omega

theorem monthStage_abbr {β : Type} (k : Nat → Str → Option β) (mo : Nat) (h1 : 1 ≤ mo) (h2 : mo ≤ 12)
    (r : Str) : monthStage k (monthAbbr mo ++ r) = k mo r := by
  obtain ⟨a, b, c, e, hm, _⟩ := monthAbbr_facts mo (by omega) h1
  rw [e]
  show monthStage k (a :: b :: c :: r) = _
  simp only [monthStage, hm]

/-! ### the three formats on the two listing forms -/

structure Fields (c : Civil) : Prop where
  mo1 : 1 ≤ c.month
  mo2 : c.month ≤ 12
  d1 : 1 ≤ c.day
  d2 : c.day ≤ 31
  h : c.hour < 24
  mi : c.minute < 60

theorem Fields.of_valid {c : Civil} (h : c.Valid) : Fields c := by
  obtain ⟨_, a, b, d, e, f, g, _⟩ := h
  rw [daysInMonth_eq] at e
  exact ⟨a, b, d, Nat.le_trans e (dimL_le _ _), f, g⟩

theorem strptime_bdHM_recent (c : Civil) (hf : Fields c) :
    strptime_bdHM (fmtRecent c) = mkDatetime 1900 c.month c.day c.hour c.minute := by
  have : monthStage (fun mo => wsStage (altStage dayAlts fun d => wsStage (altStage hourAlts fun h =>
      litStage ':' (altStage minuteAlts fun mi rest => some ((1900, mo, d, h, mi), rest)))))
      (fmtRecent c) = some ((1900, c.month, c.day, c.hour, c.minute), []) := by
    unfold fmtRecent
    rw [monthStage_abbr _ _ hf.mo1 hf.mo2]
    apply day_ok _ _ hf.d1 hf.d2
    apply hour_ok _ _ hf.h
    rw [litStage_self, ← List.append_nil (pad2 '0' c.minute)]
    exact minute_ok _ _ hf.mi _ _ rfl
  simp only [strptime_bdHM, this, finish]

theorem strptime_YbdHM_recent (c : Civil) (hf : Fields c) (p : Nat) (h1 : 1000 ≤ p) (h2 : p < 10000) :
    strptime_YbdHM (decStr p ++ ' ' :: fmtRecent c) = mkDatetime p c.month c.day c.hour c.minute := by
  have : year4Stage (fun y => wsStage (monthStage fun mo => wsStage (altStage dayAlts fun d =>
      wsStage (altStage hourAlts fun h =>
        litStage ':' (altStage minuteAlts fun mi rest => some ((y, mo, d, h, mi), rest))))))
      (decStr p ++ ' ' :: fmtRecent c) = some ((p, c.month, c.day, c.hour, c.minute), []) := by
    have := year4_fmtY (β := (Nat × Nat × Nat × Nat × Nat) × Str)
    unfold fmtY at this
    rw [this _ p h1 h2]
    unfold fmtRecent
    obtain ⟨a, b, cc, e, hm, hsp, _⟩ := monthAbbr_facts c.month (by have := hf.mo2; omega) hf.mo1
    rw [e]
    show wsStage _ (' ' :: a :: b :: cc :: _) = _
    rw [wsStage_one _ _ _ hsp]
    show monthStage _ (a :: b :: cc :: _) = _
    simp only [monthStage, hm]
    apply day_ok _ _ hf.d1 hf.d2
    apply hour_ok _ _ hf.h
    rw [litStage_self, ← List.append_nil (pad2 '0' c.minute)]
    exact minute_ok _ _ hf.mi _ _ rfl
  simp only [strptime_YbdHM, this, finish]

theorem strptime_bdY_old (c : Civil) (hf : Fields c) (h1 : 1000 ≤ c.year) (h2 : c.year < 10000) :
    strptime_bdY (fmtOld c) = mkDatetime c.year c.month c.day 0 0 := by
  have : monthStage (fun mo => wsStage (altStage dayAlts fun d => wsStage (year4Stage fun y rest =>
      some ((y, mo, d, 0, 0), rest)))) (fmtOld c) = some ((c.year, c.month, c.day, 0, 0), []) := by
    unfold fmtOld
    rw [monthStage_abbr _ _ hf.mo1 hf.mo2]
    apply day_ok _ _ hf.d1 hf.d2
    have hy : fmtY c.year = [digitChar (c.year / 1000), digitChar (c.year / 100), digitChar (c.year / 10), digitChar c.year] :=
      decStr_4 _ h1 h2
    have h4 := year4_fmtY (fun y rest => some ((y, c.month, c.day, 0, 0), rest)) c.year h1 h2 []
    rw [List.append_nil] at h4
    rw [hy] at h4 ⊢
    exact wsStage_two_some _ _ _ _ (digitChar_not_space _) h4
  simp only [strptime_bdY, this, finish]

/-! ### no ':' — no `%H:%M` -/

/-- a continuation that fails on every string without a colon -/
def NoColonFails {β : Type} (k : Str → Option β) : Prop := ∀ t : Str, ':' ∉ t → k t = none

theorem not_mem_drop {t : Str} (n : Nat) (h : ':' ∉ t) : ':' ∉ t.drop n :=
  fun hm => h (List.mem_of_mem_drop hm)

theorem litStage_noColon {β : Type} (k : Str → Option β) : NoColonFails (litStage ':' k) := by
  intro t ht
  cases t with
  | nil => rfl
  | cons x r =>
    have : x ≠ ':' := fun e => ht (e ▸ List.mem_cons_self ..)
    simp [litStage, this]

theorem altStage_noColon {β : Type} (alts : Option Char → Option Char → List (Nat × Nat))
    (k : Nat → Str → Option β) (h : ∀ v, NoColonFails (k v)) : NoColonFails (altStage alts k) := by
  intro t ht
  exact firstSome_none (fun p _ => h p.1 _ (not_mem_drop p.2 ht))

theorem wsStage_noColon {β : Type} (k : Str → Option β) (h : NoColonFails k) :
    NoColonFails (wsStage k) := by
  intro t ht
  exact firstSome_none (fun n _ => h _ (not_mem_drop n ht))

theorem monthStage_noColon {β : Type} (k : Nat → Str → Option β) (h : ∀ v, NoColonFails (k v)) :
    NoColonFails (monthStage k) := by
  intro t ht
  match t with
  | [] | [_] | [_, _] => rfl
  | a :: b :: c :: r =>
    simp only [monthStage]
    cases monthOfAbbr a b c with
    | none => rfl
    | some m =>
      exact h m r (fun hm => ht (List.mem_cons_of_mem _ (List.mem_cons_of_mem _ (List.mem_cons_of_mem _ hm))))

theorem year4Stage_noColon {β : Type} (k : Nat → Str → Option β) (h : ∀ v, NoColonFails (k v)) :
    NoColonFails (year4Stage k) := by
  intro t ht
  match t with
  | [] | [_] | [_, _] | [_, _, _] => rfl
  | a :: b :: c :: d :: r =>
    simp only [year4Stage]
    have hr : ':' ∉ r := fun hm => ht (List.mem_cons_of_mem _ (List.mem_cons_of_mem _
      (List.mem_cons_of_mem _ (List.mem_cons_of_mem _ hm))))
    cases decimalValue? a <;> cases decimalValue? b <;> cases decimalValue? c <;>
      cases decimalValue? d <;> first | rfl | exact h _ r hr

theorem strptime_bdHM_noColon (s : Str) (h : ':' ∉ s) : strptime_bdHM s = .error .valueError := by
  have : NoColonFails (monthStage (fun mo => wsStage (altStage dayAlts fun d => wsStage (altStage hourAlts fun h =>
      litStage ':' (altStage minuteAlts fun mi rest => some ((1900, mo, d, h, mi), rest)))))) :=
    monthStage_noColon _ fun _ => wsStage_noColon _ (altStage_noColon _ _ fun _ =>
      wsStage_noColon _ (altStage_noColon _ _ fun _ => litStage_noColon _))
  simp only [strptime_bdHM, this s h, finish]

theorem strptime_YbdHM_noColon (s : Str) (h : ':' ∉ s) : strptime_YbdHM s = .error .valueError := by
  have : NoColonFails (year4Stage (fun y => wsStage (monthStage fun mo => wsStage (altStage dayAlts fun d =>
      wsStage (altStage hourAlts fun h =>
        litStage ':' (altStage minuteAlts fun mi rest => some ((y, mo, d, h, mi), rest))))))) :=
    year4Stage_noColon _ fun _ => wsStage_noColon _ (monthStage_noColon _ fun _ => wsStage_noColon _
      (altStage_noColon _ _ fun _ => wsStage_noColon _ (altStage_noColon _ _ fun _ => litStage_noColon _)))
  simp only [strptime_YbdHM, this s h, finish]

/-! ### which branch of `parse_ls_date` a formatted string takes -/

def feb29 : Str := ['F','e','b',' ','2','9']

theorem isPrefixOf_append_same_length : ∀ (p a t : Str), a.length = p.length →
    p.isPrefixOf (a ++ t) = (p == a)
  | [], [], t, _ => by simp
  | [], _ :: _, _, h => by simp at h
  | _ :: _, [], _, h => by simp at h
  | x :: p, y :: a, t, h => by
    have ih := isPrefixOf_append_same_length p a t (by simpa using h)
    simp only [List.cons_append, List.isPrefixOf, ih]
    by_cases hxy : x = y
    · subst hxy; simp
    · simp

set_option maxRecDepth 8000 in
private theorem head6 : ∀ mo, mo < 13 → ∀ d, d < 32 → (1 ≤ mo ∧ 1 ≤ d) →
    ((monthAbbr mo ++ (' ' :: pad2 ' ' d)).length = 6 ∧
     (feb29 == (monthAbbr mo ++ (' ' :: pad2 ' ' d))) = decide (mo = 2 ∧ d = 29)) := by decide

theorem startsWith_recent (c : Civil) (hf : Fields c) :
    startsWith (fmtRecent c) feb29 = decide (c.month = 2 ∧ c.day = 29) := by
  have h := head6 c.month (by have := hf.mo2; omega) c.day (by have := hf.d2; omega) ⟨hf.mo1, hf.d1⟩
  have e : fmtRecent c = (monthAbbr c.month ++ (' ' :: pad2 ' ' c.day)) ++
      (' ' :: (pad2 '0' c.hour ++ (':' :: pad2 '0' c.minute))) := by
    simp [fmtRecent, List.append_assoc]
  rw [startsWith, e, isPrefixOf_append_same_length _ _ _ (by rw [h.1]; rfl), h.2]

/-! ### year inference: the arithmetic core -/

theorem year_mono {a b : Nat} (h : a ≤ b) : (ofSeconds a).year ≤ (ofSeconds b).year := by
  apply Nat.le_of_not_lt
  intro hlt
  have ba := ofSeconds_year_bounds a
  have bb := ofSeconds_year_bounds b
  have := daysBeforeYear_lt (ofSeconds_valid b).1 hlt
  omega

theorem year_le_succ {a b : Nat} (hg : b < a + 365 * 86400) :
    (ofSeconds b).year ≤ (ofSeconds a).year + 1 := by
  apply Nat.le_of_not_lt
  intro hlt
  have ba := ofSeconds_year_bounds a
  have bb := ofSeconds_year_bounds b
  have hya := (ofSeconds_valid a).1
  have h1 := daysBeforeYear_mono (y := (ofSeconds a).year + 1 + 1) (y' := (ofSeconds b).year) (by omega) (by omega)
  have h2 := daysBeforeYear_succ ((ofSeconds a).year + 1) (by omega)
  have h3 := yearLen_pos ((ofSeconds a).year + 1)
  omega

theorem ok_bind {ε α β : Type} (v : α) (f : α → Except ε β) : (Except.ok v >>= f) = f v := rfl

theorem mkDatetime_ok {y mo d h mi : Nat} (h1 : 1 ≤ y) (h2 : y ≤ 9999) (h3 : 1 ≤ mo) (h4 : mo ≤ 12)
    (h5 : 1 ≤ d) (h6 : d ≤ daysInMonth y mo) (h7 : h < 24) (h8 : mi < 60) :
    mkDatetime y mo d h mi = .ok ⟨y, mo, d, h, mi, 0⟩ := by
  unfold mkDatetime; rw [if_pos ⟨h1, h2, h3, h4, h5, h6, h7, h8⟩]

theorem replaceYear_ok {c : Civil} {y : Nat} (h1 : 1 ≤ y) (h2 : y ≤ 9999) (h3 : c.day ≤ daysInMonth y c.month) :
    replaceYear c y = .ok { c with year := y } := by
  unfold replaceYear; rw [if_pos ⟨h1, h2, h3⟩]

theorem diffGt_false {now d : Civil} {us lim : Nat} (h : toSeconds now < toSeconds d + lim) :
    diffGt now us d lim = false := by
  simp only [diffGt, Bool.or_eq_false_iff, Bool.and_eq_false_iff, decide_eq_false_iff_not]
  omega

theorem diffLt_false {now d : Civil} {us lim : Nat} (h : toSeconds d ≤ toSeconds now + lim) :
    diffLt now us d lim = false := by
  simp only [diffLt, decide_eq_false_iff_not]
  omega

theorem diffLt_true {now d : Civil} {us lim : Nat} (h : toSeconds now + lim < toSeconds d) :
    diffLt now us d lim = true := by
  simp only [diffLt, decide_eq_true_eq]
  omega

theorem half_val : Generated.halfYearSeconds = 15778476 := rfl
theorem two_val : Generated.twoYearsSeconds = 63115200 := rfl

/-- seconds of the broken-down time with the seconds field cleared -/
theorem toSeconds_clear_second (c : Civil) :
    toSeconds { c with second := 0 } = toSeconds c - c.second := by
  simp only [toSeconds]; omega

theorem try_recent_nonfeb (Lm Ln us : Nat) (hle : Lm ≤ Ln) (hgap : Ln < Lm / 60 * 60 + 15757524)
    (hYn : (ofSeconds Ln).year ≤ 9999)
    (hnf : ¬ ((ofSeconds Lm).month = 2 ∧ (ofSeconds Lm).day = 29)) :
    parseLsDateTry (fmtRecent (ofSeconds Lm)) (ofSeconds Ln) us = .ok (ofSeconds (Lm / 60 * 60)) := by
  have hv := ofSeconds_valid Lm
  have hvn := ofSeconds_valid Ln
  have hts := toSeconds_ofSeconds Lm
  have htn := toSeconds_ofSeconds Ln
  have hsec := ofSeconds_second Lm
  have hfl := ofSeconds_minuteFloor Lm
  have hym := year_mono hle
  have hys : (ofSeconds Ln).year ≤ (ofSeconds Lm).year + 1 := year_le_succ (by omega)
  generalize ofSeconds Ln = cn at *
  generalize hcm : ofSeconds Lm = cm at *
  obtain ⟨Y, mo, d, h, mi, s⟩ := cm
  obtain ⟨hy1, hmo1, hmo2, hd1, hd2, hh, hmi, hs⟩ := hv
  simp only at hy1 hmo1 hmo2 hd1 hd2 hh hmi hs hnf hym hys hsec
  have hF : toSeconds ⟨Y, mo, d, h, mi, 0⟩ = Lm / 60 * 60 := by
    have := toSeconds_clear_second ⟨Y, mo, d, h, mi, s⟩
    simp only at this; rw [this, hts, hsec]; omega
  have hf : Fields ⟨Y, mo, d, h, mi, s⟩ := Fields.of_valid ⟨hy1, hmo1, hmo2, hd1, hd2, hh, hmi, hs⟩
  unfold parseLsDateTry
  have hsw := startsWith_recent _ hf
  unfold feb29 at hsw
  rw [hsw, decide_eq_false hnf]
  simp only [Bool.false_eq_true, if_false]
  rw [strptime_bdHM_recent _ hf]
  simp only
  rw [mkDatetime_ok (by decide) (by decide) hmo1 hmo2 hd1 (day_fits_any_year hd2 hnf 1900) hh hmi]
  rw [ok_bind, replaceYear_ok (by omega) hYn (day_fits_any_year hd2 hnf cn.year), ok_bind]
  dsimp only
  rw [hfl]
  rcases Nat.lt_or_ge Y cn.year with hlt | hge
  · -- the file is from last year
    have hY : cn.year = Y + 1 := by omega
    have hΔ := ymd2ord_next_year Y mo d hy1
    have hpos : 1 ≤ ymd2ord Y mo d := by simp only [ymd2ord]; omega
    have hT : toSeconds ⟨Y + 1, mo, d, h, mi, 0⟩ = Lm / 60 * 60 + 365 * 86400 ∨
        toSeconds ⟨Y + 1, mo, d, h, mi, 0⟩ = Lm / 60 * 60 + 366 * 86400 := by
      rw [← hF]; simp only [toSeconds]; omega
    rw [hY]
    rw [diffGt_false (by rw [half_val]; omega)]
    simp only [Bool.false_eq_true, if_false]
    rw [diffLt_true (by rw [half_val]; omega)]
    simp only [if_true]
    rw [replaceYear_ok (by simpa using hy1) (by simp only [Nat.add_sub_cancel]; omega)
      (by simpa using hd2)]
    simp only [Nat.add_sub_cancel]
  · have hY : cn.year = Y := by omega
    rw [hY]
    rw [diffGt_false (by rw [half_val, hF]; omega)]
    simp only [Bool.false_eq_true, if_false]
    rw [diffLt_false (by rw [half_val, hF]; omega)]
    simp only [Bool.false_eq_true, if_false]
    rfl
open Py Py.Time Model.Cal

theorem prevLeap_of_leap {y : Nat} (hy : 1 ≤ y) (h : isLeap y = true) : prevLeap y = y := by
  obtain ⟨k, rfl⟩ : ∃ k, y = k + 1 := ⟨y - 1, by omega⟩
  simp [prevLeap, h]

theorem try_recent_feb (Lm Ln us : Nat) (hle : Lm ≤ Ln) (hgap : Ln < Lm / 60 * 60 + 15757524)
    (hY : 1000 ≤ (ofSeconds Lm).year) (hYn : (ofSeconds Ln).year ≤ 9999)
    (hfeb : (ofSeconds Lm).month = 2 ∧ (ofSeconds Lm).day = 29) :
    parseLsDateTry (fmtRecent (ofSeconds Lm)) (ofSeconds Ln) us = .ok (ofSeconds (Lm / 60 * 60)) := by
  have hv := ofSeconds_valid Lm
  have hts := toSeconds_ofSeconds Lm
  have htn := toSeconds_ofSeconds Ln
  have hsec := ofSeconds_second Lm
  have hfl := ofSeconds_minuteFloor Lm
  have hym := year_mono hle
  have bn := ofSeconds_year_bounds Ln
  generalize ofSeconds Ln = cn at *
  generalize hcm : ofSeconds Lm = cm at *
  obtain ⟨Y, mo, d, h, mi, s⟩ := cm
  obtain ⟨hy1, hmo1, hmo2, hd1, hd2, hh, hmi, hs⟩ := hv
  simp only at hy1 hmo1 hmo2 hd1 hd2 hh hmi hs hfeb hym hsec hY
  obtain ⟨rfl, rfl⟩ := hfeb
  have hleap : isLeap Y = true := feb29_leap hd2
  have hF : toSeconds ⟨Y, 2, 29, h, mi, 0⟩ = Lm / 60 * 60 := by
    have := toSeconds_clear_second ⟨Y, 2, 29, h, mi, s⟩
    simp only at this; rw [this, hts, hsec]; omega
  -- `now` is in the same (leap) year
  have hsame : cn.year = Y := by
    apply Nat.le_antisymm _ hym
    apply Nat.le_of_not_lt
    intro hlt
    have h1 := daysBeforeYear_mono (y := Y + 1) (y' := cn.year) (by omega) (by omega)
    have h2 := daysBeforeYear_succ Y hy1
    have h3 : yearLen Y = 366 := by simp [yearLen, hleap]
    have h4 : ymd2ord Y 2 29 = daysBeforeYear Y + 60 := by
      simp [ymd2ord, daysBeforeMonth_eq, dbmL, daysBeforeMonthTbl]
    have hF' := hF
    simp only [toSeconds, h4] at hF'
    omega
  have hf : Fields ⟨Y, 2, 29, h, mi, s⟩ := Fields.of_valid ⟨hy1, hmo1, hmo2, hd1, hd2, hh, hmi, hs⟩
  unfold parseLsDateTry
  have hsw := startsWith_recent _ hf
  unfold feb29 at hsw
  rw [hsw]
  simp only [and_self, decide_true, if_true]
  rw [hsame, prevLeap_of_leap hy1 hleap]
  rw [strptime_YbdHM_recent _ hf Y hY (by omega)]
  simp only
  rw [mkDatetime_ok hy1 (by omega) hmo1 hmo2 hd1 hd2 hh hmi]
  rw [ok_bind]
  rw [diffGt_false (by rw [two_val, hF]; omega), hfl]
  rfl

/-- the year form never gets through the `try:` block: it has no colon -/
theorem fmtOld_noColon (c : Civil) (hf : Fields c) (h1 : 1000 ≤ c.year) (h2 : c.year < 10000) :
    ':' ∉ fmtOld c := by
  obtain ⟨a, b, cc, e, _, _, ha, hb, hc⟩ := monthAbbr_facts c.month (by have := hf.mo2; omega) hf.mo1
  obtain ⟨x, y, ep, hy, hx1, hx2⟩ := pad2_lt100 ' ' c.day (by have := hf.d2; omega)
  have hxc : x ≠ ':' := by
    by_cases h10 : c.day < 10
    · rw [hx2 h10]; decide
    · rw [hx1 (by omega)]; exact digitChar_ne_colon _
  unfold fmtOld fmtY
  rw [e, ep, decStr_4 _ h1 h2, hy]
  simp only [List.cons_append, List.nil_append, List.mem_cons, List.not_mem_nil, or_false, not_or]
  refine ⟨Ne.symm ha, Ne.symm hb, Ne.symm hc, by decide, Ne.symm hxc, ?_, by decide, by decide, ?_, ?_, ?_, ?_⟩ <;>
    exact Ne.symm (digitChar_ne_colon _)

theorem decStr_noColon (n : Nat) : ':' ∉ decStr n := by
  have : ∀ f n, ':' ∉ decAux f n := by
    intro f
    induction f with
    | zero => intro n; simp [decAux, Ne.symm (digitChar_ne_colon n)]
    | succ f ih =>
      intro n
      simp only [decAux]
      split
      · simp [Ne.symm (digitChar_ne_colon n)]
      · simp [ih (n / 10), Ne.symm (digitChar_ne_colon n)]
  exact this n n

theorem try_old (c : Civil) (hf : Fields c) (h1 : 1000 ≤ c.year) (h2 : c.year < 10000)
    (now : Civil) (us : Nat) :
    parseLsDateTry (fmtOld c) now us = .error .valueError := by
  have hc := fmtOld_noColon c hf h1 h2
  have hc2 : ':' ∉ decStr (prevLeap now.year) ++ ' ' :: fmtOld c := by
    simp only [List.mem_append, List.mem_cons, not_or]
    exact ⟨decStr_noColon _, by decide, hc⟩
  unfold parseLsDateTry
  simp only [strptime_YbdHM_noColon _ hc2, strptime_bdHM_noColon _ hc]
  split <;> rfl

/-! ### helpers for Properties/C07.lean -/

theorem gmtime_some {t : Int} {c : Civil} (h : gmtime t = some c) :
    0 ≤ t + epochSeconds ∧ c = ofSeconds (t + epochSeconds).toNat := by
  unfold gmtime at h
  split at h
  · injection h with h; exact ⟨by assumption, h.symm⟩
  · exact absurd h (by simp)

theorem ediv_shift (a K : Int) (res : Nat) (hres : 0 < res) : (a - K * res) / (res : Int) = a / res - K := by
  have : a - K * res = a + (-K) * res := by rw [Int.neg_mul]; omega
  rw [this, Int.add_mul_ediv_right _ _ (by omega)]; omega


theorem strip_of_ends (a z : Char) (mid : Str) (ha : isSpace a = false) (hz : isSpace z = false) :
    strip (a :: (mid ++ [z])) = a :: (mid ++ [z]) := by
  have h1 : rstrip (a :: (mid ++ [z])) = a :: (mid ++ [z]) := by
    simp [rstrip, hz]
  simp [strip, h1, lstrip, ha]


theorem digit_facts2 : ∀ i, i < 10 →
    isDigitCh (Char.ofNat (48 + i)) = true ∧ (Char.ofNat (48 + i)).toNat - '0'.toNat = i := by decide

theorem decAux_value : ∀ f n, n ≤ f → natOfAsciiDigits (decAux f n) = n ∧ (decAux f n).all isDigitCh = true ∧
    intOfDigits? (decAux f n) = some n ∧ decAux f n ≠ [] := by
  intro f
  induction f with
  | zero =>
    intro n hn
    have : n = 0 := by omega
    subst this; decide
  | succ f ih =>
    intro n hn
    simp only [decAux]
    have hd := digit_facts2 (n % 10) (Nat.mod_lt _ (by decide))
    have hdv := decimalValue_digitChar n
    split
    · rename_i h10
      have : n % 10 = n := Nat.mod_eq_of_lt h10
      rw [this] at hd hdv
      simp only [digitChar, this] at hdv ⊢
      refine ⟨?_, ?_, ?_, by simp⟩
      · simp [natOfAsciiDigits]; exact hd.2
      · simp [hd.1]
      · simp [intOfDigits?, digitStep, hdv]
    · rename_i h10
      obtain ⟨i1, i2, i3, i4⟩ := ih (n / 10) (by omega)
      refine ⟨?_, ?_, ?_, by simp⟩
      · simp only [natOfAsciiDigits, List.foldl_append, List.foldl] at i1 ⊢
        rw [i1]; simp only [digitChar, hd.2]; omega
      · simp only [List.all_append, i2, List.all, digitChar, hd.1, Bool.and_true]
      · simp only [intOfDigits?, List.foldl_append, List.foldl] at i3 ⊢
        rw [i3]; simp only [digitStep, hdv, Option.some.injEq]; omega


theorem fileMode_perm_mod (m : Nat) : (fileMode m).drop 1 = (fileMode (m % 4096)).drop 1 := by
  have e : ∀ k, k = 1 ∨ k = 2 ∨ k = 4 ∨ k = 8 ∨ k = 16 ∨ k = 32 ∨ k = 64 ∨ k = 128 ∨ k = 256 ∨ k = 512 ∨
      k = 1024 ∨ k = 2048 → m % 4096 / k % 2 = m / k % 2 := by
    intro k hk
    rcases hk with h | h | h | h | h | h | h | h | h | h | h | h <;> subst h <;> omega
  simp only [fileMode, List.drop, e _ (Or.inl rfl), e 2 (by simp), e 4 (by simp), e 8 (by simp), e 16 (by simp),
    e 32 (by simp), e 64 (by simp), e 128 (by simp), e 256 (by simp), e 512 (by simp), e 1024 (by simp),
    e 2048 (by simp)]

/-- all 4096 permission words (set-uid, set-gid and sticky included), decided by the kernel -/
theorem mode_table_split : ∀ hi, hi < 8 → ∀ lo, lo < 512 →
    (parseUnixMode ((fileMode (hi * 512 + lo)).drop 1)).toOption = some (hi * 512 + lo) := by decide +kernel

theorem mode_table (p : Nat) (h : p < 4096) :
    (parseUnixMode ((fileMode p).drop 1)).toOption = some p := by
  have := mode_table_split (p / 512) (by omega) (p % 512) (Nat.mod_lt _ (by decide))
  have e : p / 512 * 512 + p % 512 = p := by omega
  rwa [e] at this

theorem toOption_some {ε α : Type} {x : Except ε α} {v : α} (h : x.toOption = some v) : x = .ok v := by
  cases x with
  | ok a => simp [Except.toOption] at h; rw [h]
  | error e => simp [Except.toOption] at h


end Model.ListDate
