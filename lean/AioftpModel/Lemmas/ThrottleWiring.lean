/-
  C15: what the server wiring (`Model.ServerW`) guarantees after any sequence of connections and
  logins: one server-wide pair for everybody, a fresh clone per connection.
-/
import AioftpModel.Lemmas.Throttle

namespace Model.Throttling

theorem mem_update_ne (d : ThrottleDict) (k : String) (v : StreamThrottle)
    (e : String × StreamThrottle) (h : e.1 ≠ k) : e ∈ d.update k v ↔ e ∈ d := by
  unfold ThrottleDict.update
  split
  · rw [List.mem_map]
    constructor
    · rintro ⟨a, ha, he⟩
      by_cases hk : a.1 == k
      · simp only [hk, if_true] at he
        exact absurd (by rw [← he]) h
      · simp only [hk] at he
        simpa [← he] using ha
    · intro he
      refine ⟨e, he, ?_⟩
      have : (e.1 == k) = false := by simpa using h
      simp [this]
  · rw [List.mem_append]
    constructor
    · rintro (he | he)
      · exact he
      · simp only [List.mem_singleton] at he
        exact absurd (by rw [he]) h
    · exact fun he => Or.inl he

/-- the shape every reachable wiring has -/
structure WiredOK (sv : ServerW) : Prop where
  glob : sv.throttle = ⟨0, 1⟩ ∧ sv.perConnection = ⟨2, 3⟩ ∧ 4 ≤ sv.store.length
  conn : ∀ (c : Nat) (d : ThrottleDict), sv.conns[c]? = some d →
    ("server_global", (⟨0, 1⟩ : StreamThrottle)) ∈ d ∧
    (∀ e ∈ d, e.1 = "server_global" → e.2 = ⟨0, 1⟩) ∧
    ∃ pc : StreamThrottle, ("server_per_connection", pc) ∈ d ∧
      (∀ e ∈ d, e.1 = "server_per_connection" → e.2 = pc) ∧
      4 ≤ pc.read ∧ pc.write = pc.read + 1 ∧ pc.write < sv.store.length
  apart : ∀ (c c' : Nat) (d d' : ThrottleDict) (pc pc' : StreamThrottle), c < c' →
    sv.conns[c]? = some d → sv.conns[c']? = some d' →
    ("server_per_connection", pc) ∈ d → ("server_per_connection", pc') ∈ d' → pc.write < pc'.read

theorem wired_init (r w rc wc : Option Int) : WiredOK (ServerW.init r w rc wc) := by
  refine ⟨⟨rfl, rfl, by simp [ServerW.init, StreamThrottle.fromLimits]⟩, ?_, ?_⟩
  · intro c d h; simp [ServerW.init, StreamThrottle.fromLimits] at h
  · intro c c' d d' pc pc' _ h; simp [ServerW.init, StreamThrottle.fromLimits] at h

theorem wired_connect (sv : ServerW) (h : WiredOK sv) : WiredOK sv.connect := by
  obtain ⟨hg1, hg2, hg3⟩ := h.glob
  have hstore : sv.connect.store.length = sv.store.length + 2 := by
    simp [ServerW.connect, StreamThrottle.clone]
  have hconns : sv.connect.conns = sv.conns ++
      [[("server_global", sv.throttle), ("server_per_connection", ⟨sv.store.length, sv.store.length + 1⟩)]] := by
    simp [ServerW.connect, StreamThrottle.clone]
  have hget : ∀ (c : Nat) (d : ThrottleDict), sv.connect.conns[c]? = some d →
      sv.conns[c]? = some d ∨ (c = sv.conns.length ∧
        d = [("server_global", sv.throttle), ("server_per_connection", ⟨sv.store.length, sv.store.length + 1⟩)]) := by
    intro c d hd
    rw [hconns, List.getElem?_append] at hd
    split at hd
    · exact Or.inl hd
    · rename_i hlt
      right
      have : c - sv.conns.length = 0 := by
        by_contra hne
        rw [List.getElem?_eq_none (by simp; omega)] at hd
        cases hd
      rw [this] at hd
      simp only [List.getElem?_cons_zero, Option.some.injEq] at hd
      exact ⟨by omega, hd.symm⟩
  refine ⟨⟨hg1, hg2, by rw [hstore]; omega⟩, ?_, ?_⟩
  · intro c d hd
    rcases hget c d hd with ho | ⟨_, rfl⟩
    · obtain ⟨a, b, pc, p1, p2, p3, p4, p5⟩ := h.conn c d ho
      exact ⟨a, b, pc, p1, p2, p3, p4, by rw [hstore]; omega⟩
    · rw [hg1]
      refine ⟨by simp, ?_, ⟨sv.store.length, sv.store.length + 1⟩, by simp, ?_, hg3, rfl, by rw [hstore]; simp⟩
      · intro e he hn
        simp only [List.mem_cons, List.not_mem_nil, or_false] at he
        rcases he with rfl | rfl
        · rfl
        · simp at hn
      · intro e he hn
        simp only [List.mem_cons, List.not_mem_nil, or_false] at he
        rcases he with rfl | rfl
        · simp at hn
        · rfl
  · intro c c' d d' pc pc' hlt hd hd' hp hp'
    rcases hget c d hd with ho | ⟨hc, _⟩
    · rcases hget c' d' hd' with ho' | ⟨_, rfl⟩
      · exact h.apart c c' d d' pc pc' hlt ho ho' hp hp'
      · obtain ⟨_, _, q, q1, q2, _, _, q5⟩ := h.conn c d ho
        have : pc = q := (q2 _ hp rfl)
        simp only [List.mem_cons, Prod.mk.injEq, List.not_mem_nil, or_false] at hp'
        rcases hp' with ⟨hn, _⟩ | ⟨_, rfl⟩
        · simp at hn
        · subst this; exact q5
    · -- c is the new (last) connection, nothing comes after it
      have : c' < sv.connect.conns.length := by
        rcases Nat.lt_or_ge c' sv.connect.conns.length with h' | h'
        · exact h'
        · rw [List.getElem?_eq_none h'] at hd'; cases hd'
      rw [hconns] at this
      simp at this
      omega

theorem wired_login (sv : ServerW) (h : WiredOK sv) (c u : Nat) (lim : UserLimits) :
    WiredOK (sv.login c u lim) := by
  obtain ⟨hg1, hg2, hg3⟩ := h.glob
  -- the store only grows, the two server-level pairs are untouched
  have hthr : (sv.login c u lim).throttle = sv.throttle := by
    unfold ServerW.login; cases sv.perUser.find? (fun e => e.1 == u) <;> rfl
  have hpc : (sv.login c u lim).perConnection = sv.perConnection := by
    unfold ServerW.login; cases sv.perUser.find? (fun e => e.1 == u) <;> rfl
  have hlen : sv.store.length ≤ (sv.login c u lim).store.length := by
    unfold ServerW.login
    cases sv.perUser.find? (fun e => e.1 == u) <;> simp [StreamThrottle.fromLimits]
  -- every dict of the new wiring is an old one, possibly with the two user keys updated
  have hconn : ∀ (k : Nat) (d' : ThrottleDict), (sv.login c u lim).conns[k]? = some d' →
      ∃ d, sv.conns[k]? = some d ∧ ∀ e : String × StreamThrottle,
        e.1 ≠ "user_global" → e.1 ≠ "user_per_connection" → (e ∈ d' ↔ e ∈ d) := by
    intro k d' hd'
    have hk : (sv.login c u lim).conns[k]? =
        if k = c then sv.conns[k]?.map (fun d => (d.update "user_global"
            (match sv.perUser.find? (fun e => e.1 == u) with
              | some e => e.2
              | none => (StreamThrottle.fromLimits sv.store lim.read lim.write).2)).update
            "user_per_connection" (StreamThrottle.fromLimits
              (match sv.perUser.find? (fun e => e.1 == u) with
                | some _ => sv.store
                | none => (StreamThrottle.fromLimits sv.store lim.read lim.write).1)
              lim.readPerConn lim.writePerConn).2) else sv.conns[k]? := by
      unfold ServerW.login
      cases sv.perUser.find? (fun e => e.1 == u) <;> simp only [] <;> rw [updAt_get]
    rw [hk] at hd'
    by_cases e : k = c
    · simp only [e, if_true] at hd'
      cases hd : sv.conns[c]? with
      | none => rw [hd] at hd'; cases hd'
      | some d =>
        rw [hd] at hd'
        simp only [Option.map_some, Option.some.injEq] at hd'
        refine ⟨d, by rw [e, hd], fun x h1 h2 => ?_⟩
        rw [← hd', mem_update_ne _ _ _ _ h2, mem_update_ne _ _ _ _ h1]
    · simp only [e, if_false] at hd'
      exact ⟨d', hd', fun _ _ _ => Iff.rfl⟩
  refine ⟨⟨by rw [hthr]; exact hg1, by rw [hpc]; exact hg2, le_trans hg3 hlen⟩, ?_, ?_⟩
  · intro k d' hd'
    obtain ⟨d, hd, hiff⟩ := hconn k d' hd'
    obtain ⟨a, b, pc, p1, p2, p3, p4, p5⟩ := h.conn k d hd
    refine ⟨(hiff _ (by simp) (by simp)).2 a, ?_, pc, (hiff _ (by simp) (by simp)).2 p1, ?_, p3, p4,
      lt_of_lt_of_le p5 hlen⟩
    · intro e he hn
      exact b e ((hiff e (by rw [hn]; decide) (by rw [hn]; decide)).1 he) hn
    · intro e he hn
      exact p2 e ((hiff e (by rw [hn]; decide) (by rw [hn]; decide)).1 he) hn
  · intro k k' d1 d2 pc pc' hlt hd1 hd2 hp hp'
    obtain ⟨e1, he1, hiff1⟩ := hconn k d1 hd1
    obtain ⟨e2, he2, hiff2⟩ := hconn k' d2 hd2
    exact h.apart k k' e1 e2 pc pc' hlt he1 he2 ((hiff1 _ (by simp) (by simp)).1 hp)
      ((hiff2 _ (by simp) (by simp)).1 hp')

theorem wired_apply (sv : ServerW) (h : WiredOK sv) (op : WireOp) : WiredOK (sv.apply op) := by
  cases op with
  | connect => exact wired_connect sv h
  | login c u lim => exact wired_login sv h c u lim

theorem wired_reachable (r w rc wc : Option Int) (ops : List WireOp) :
    WiredOK (ops.foldl ServerW.apply (ServerW.init r w rc wc)) := by
  have : ∀ sv, WiredOK sv → WiredOK (ops.foldl ServerW.apply sv) := by
    induction ops with
    | nil => exact fun _ h => h
    | cons op ops ih => exact fun sv h => ih _ (wired_apply sv h op)
  exact this _ (wired_init r w rc wc)

end Model.Throttling
