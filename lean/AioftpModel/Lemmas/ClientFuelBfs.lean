/- Adequacy of the loop bound of `list(recursive=True)`: the queue is served at most once per directory entry. -/
import AioftpModel.Lemmas.ClientList
import AioftpModel.Lemmas.ClientFuel

namespace Model
namespace ClientTree
open Py Fs

/-- number of directory entries at or below `t` -/
def W (fs : Fs) (t : Path) : Nat := fs.countP (fun e => decide (e.2 = Entry.dir) && t.isPrefixOf e.1)

/-- number of directory entries strictly below `t` -/
def Wstrict (fs : Fs) (t : Path) : Nat :=
  fs.countP (fun e => decide (e.2 = Entry.dir) && t.isPrefixOf e.1 && decide (t.length < e.1.length))

theorem countP_split {α : Type} (p q : α → Bool) (l : List α) :
    l.countP p = l.countP (fun a => p a && q a) + l.countP (fun a => p a && !q a) := by
  induction l with
  | nil => rfl
  | cons x t ih =>
    simp only [List.countP_cons, ih]
    cases hp : p x <;> cases hq : q x <;> simp <;> omega

theorem countP_or_disjoint {α : Type} (p q : α → Bool) (l : List α) (h : ∀ a ∈ l, ¬ (p a = true ∧ q a = true)) :
    l.countP (fun a => p a || q a) = l.countP p + l.countP q := by
  induction l with
  | nil => rfl
  | cons x t ih =>
    simp only [List.countP_cons, ih (fun a ha => h a (List.mem_cons_of_mem _ ha))]
    have := h x (by simp)
    cases hp : p x <;> cases hq : q x <;> simp_all <;> omega

theorem W_ge (fs : Fs) (t : Path) (ht : t ≠ []) (hd : lookup fs t = some .dir) : Wstrict fs t + 1 ≤ W fs t := by
  unfold W Wstrict
  rw [countP_split (fun e => decide (e.2 = Entry.dir) && t.isPrefixOf e.1)
    (fun e => decide (t.length < e.1.length)) fs]
  apply Nat.add_le_add_left
  apply List.countP_pos_iff.mpr
  rw [lookup_ne_nil _ ht] at hd
  refine ⟨(t, .dir), lk_some_mem hd, ?_⟩
  simp

/-- the directory entries below distinct children of `t` are disjoint parts of those strictly below `t` -/
theorem sum_W_children (fs : Fs) (t : Path) (cs : List Str) (hnd : cs.Nodup) :
    (cs.map (fun n => W fs (t ++ [n]))).sum ≤ Wstrict fs t := by
  have key : ∀ (cs : List Str), cs.Nodup →
      (cs.map (fun n => W fs (t ++ [n]))).sum =
        fs.countP (fun e => cs.any (fun n => decide (e.2 = Entry.dir) && (t ++ [n]).isPrefixOf e.1)) := by
    intro cs
    induction cs with
    | nil => intro _; simp
    | cons n rest ih =>
      intro hnd
      rw [List.nodup_cons] at hnd
      rw [List.map_cons, List.sum_cons, ih hnd.2]
      have : (fun (e : Path × Entry) => (n :: rest).any
            (fun m => decide (e.2 = Entry.dir) && (t ++ [m]).isPrefixOf e.1)) =
          (fun e => (decide (e.2 = Entry.dir) && (t ++ [n]).isPrefixOf e.1) ||
            rest.any (fun m => decide (e.2 = Entry.dir) && (t ++ [m]).isPrefixOf e.1)) := by
        funext e; simp [List.any_cons]
      rw [this, countP_or_disjoint]
      · rfl
      · intro e _ ⟨h1, h2⟩
        rw [List.any_eq_true] at h2
        obtain ⟨m, hm, hm2⟩ := h2
        simp only [Bool.and_eq_true, decide_eq_true_eq, List.isPrefixOf_iff_prefix] at h1 hm2
        obtain ⟨s1, hs1⟩ := h1.2
        obtain ⟨s2, hs2⟩ := hm2.2
        have : t ++ [n] ++ s1 = t ++ [m] ++ s2 := by rw [hs1, hs2]
        simp only [List.append_assoc, List.append_cancel_left_eq, List.cons_append, List.nil_append,
          List.cons.injEq] at this
        exact hnd.1 (this.1 ▸ hm)
  rw [key cs hnd]
  unfold Wstrict
  apply List.countP_mono_left
  intro e _ he
  rw [List.any_eq_true] at he
  obtain ⟨m, _, hm⟩ := he
  simp only [Bool.and_eq_true, decide_eq_true_eq, List.isPrefixOf_iff_prefix] at hm ⊢
  refine ⟨⟨hm.1, (List.prefix_append _ _).trans hm.2⟩, ?_⟩
  have := hm.2.length_le
  simp at this
  omega

/-- potential of a queue of tails below `t0` -/
def phi (fs : Fs) (t0 : Path) (Q : List Path) : Nat := (Q.map (fun d => W fs (t0 ++ d))).sum

theorem phi_append (fs : Fs) (t0 : Path) (a b : List Path) : phi fs t0 (a ++ b) = phi fs t0 a + phi fs t0 b := by
  simp [phi]

/-- the child directories of the tail `d`, as tails -/
def dirTails (fs : Fs) (t0 d : Path) : List Path :=
  ((childEntries fs (t0 ++ d)).filter (fun e => e.2 = Kind.dir)).map (fun e => d ++ [e.1])

theorem phi_dirTails (fs : Fs) (hnd : (fs.map (·.1)).Nodup) (t0 d : Path) :
    phi fs t0 (dirTails fs t0 d) ≤ Wstrict fs (t0 ++ d) := by
  unfold phi dirTails
  rw [List.map_map]
  have : ((fun d' => W fs (t0 ++ d')) ∘ fun (e : Str × Kind) => d ++ [e.1]) =
      (fun n => W fs ((t0 ++ d) ++ [n])) ∘ (fun (e : Str × Kind) => e.1) := by
    funext e; simp
  rw [this, ← List.map_map]
  apply sum_W_children
  exact List.Nodup.sublist (List.Sublist.map _ List.filter_sublist) (childNames_nodup fs hnd (t0 ++ d))

/-- one turn of the loop, in terms of tails -/
theorem listRecLoop_step (r : Remote) (hr : RInv r) (p0 : PPath) (hp0 : SafeP p0) (f : Nat) (d : Path) (Q' : List Path)
    (hd : ∀ x ∈ d, SafeName x) (hex : lookup r.fs (landing r.cwd p0 ++ d) ≠ none) :
    listRecLoop r (f + 1) ((d :: Q').map (ext p0)) =
      match listRecLoop r f ((Q' ++ dirTails r.fs (landing r.cwd p0) d).map (ext p0)) with
      | .error e => .error e
      | .ok more =>
        .ok ((childEntries r.fs (landing r.cwd p0 ++ d)).map (fun e => ((ext p0 d).join ⟨0, [e.1]⟩, e.2)) ++ more) := by
  simp only [List.map_cons, listRecLoop]
  rw [listDir_eq r (ext p0 d) hr.cwd (hp0.ext hd) hr.safe, landing_ext, if_neg hex]
  simp only
  have hq : Q'.map (ext p0) ++
      (((childEntries r.fs (landing r.cwd p0 ++ d)).map
        (fun e => ((ext p0 d).join ⟨0, [e.1]⟩, e.2))).filter (fun e => e.2 = Kind.dir)).map (·.1) =
      (Q' ++ dirTails r.fs (landing r.cwd p0) d).map (ext p0) := by
    unfold dirTails
    rw [List.map_append, List.filter_map, List.map_map, List.map_map]
    congr 1
    apply List.map_congr_left
    intro e _
    simp [ext_join]
  rw [hq]
  cases listRecLoop r f (List.map (ext p0) (Q' ++ dirTails r.fs (landing r.cwd p0) d)) <;> rfl

theorem listRecLoop_no_fuel (r : Remote) (hr : RInv r) (hnd : (r.fs.map (·.1)).Nodup) (p0 : PPath) (hp0 : SafeP p0) :
    ∀ (f : Nat) (Q : List Path),
      (∀ d ∈ Q, (∀ x ∈ d, SafeName x) ∧ lookup r.fs (landing r.cwd p0 ++ d) = some .dir ∧
        landing r.cwd p0 ++ d ≠ []) →
      phi r.fs (landing r.cwd p0) Q ≤ f →
      listRecLoop r f (Q.map (ext p0)) ≠ .error .fuel := by
  intro f
  induction f with
  | zero =>
    intro Q hQ hphi
    cases Q with
    | nil => simp [listRecLoop]
    | cons d Q' =>
      exfalso
      obtain ⟨_, hdir, hne⟩ := hQ d (by simp)
      have := W_ge r.fs _ hne hdir
      unfold phi at hphi
      simp only [List.map_cons, List.sum_cons] at hphi
      omega
  | succ f IH =>
    intro Q hQ hphi
    cases Q with
    | nil => simp [listRecLoop]
    | cons d Q' =>
      obtain ⟨hd, hdir, hne⟩ := hQ d (by simp)
      rw [listRecLoop_step r hr p0 hp0 f d Q' hd (by rw [hdir]; simp)]
      have hno := IH (Q' ++ dirTails r.fs (landing r.cwd p0) d)
        (by
          intro d' hd'
          rcases List.mem_append.mp hd' with hd' | hd'
          · exact hQ d' (List.mem_cons_of_mem _ hd')
          · unfold dirTails at hd'
            obtain ⟨e, he, rfl⟩ := List.mem_map.mp hd'
            obtain ⟨hmem, hk⟩ := List.mem_filter.mp he
            have hk' : e.2 = Kind.dir := by simpa using hk
            have hek : (e.1, Kind.dir) ∈ childEntries r.fs (landing r.cwd p0 ++ d) := by
              rw [← hk']; cases e; exact hmem
            obtain ⟨e', he', hke⟩ := (mem_childEntries_iff_lookup hnd).mp hek
            refine ⟨?_, ?_, by simp⟩
            · intro x hx
              rcases List.mem_append.mp hx with hx | hx
              · exact hd x hx
              · simp at hx; subst hx; exact (childEntries_safe hr.safe hmem).1
            · rw [← List.append_assoc, he']
              cases e' with
              | dir => rfl
              | file c => cases hke)
        (by
          rw [phi_append]
          have h1 := phi_dirTails r.fs hnd (landing r.cwd p0) d
          have h2 := W_ge r.fs _ hne hdir
          unfold phi at hphi
          simp only [List.map_cons, List.sum_cons] at hphi
          unfold phi at h1 ⊢
          omega)
      cases hrec : listRecLoop r f ((Q' ++ dirTails r.fs (landing r.cwd p0) d).map (ext p0)) with
      | error e =>
        simp only
        intro he
        injection he with he
        rw [he] at hrec; exact hno hrec
      | ok more => simp

/-- **adequacy**: `list(path, recursive=True)` never runs out of its loop bound -/
theorem listRecursive_no_fuel (r : Remote) (p : PPath) (hr : RInv r) (hnd : (r.fs.map (·.1)).Nodup) (hp : SafeP p) :
    listRecursive r p ≠ .error .fuel := by
  unfold listRecursive
  have h0 : [p] = ([([] : Path)] ++ []).map (ext p) := by simp [ext_nil]
  by_cases hex : lookup r.fs (landing r.cwd p) = none
  · -- the first stream is refused
    simp only [listRecLoop]
    rw [listDir_eq r p hr.cwd hp hr.safe, if_pos hex]
    simp
  · have hstep := listRecLoop_step r hr p hp r.fs.length [] [] (by simp) (by simpa using hex)
    simp only [List.map_cons, List.map_nil, ext_nil, List.nil_append, List.append_nil] at hstep
    rw [hstep]
    have hno := listRecLoop_no_fuel r hr hnd p hp r.fs.length (dirTails r.fs (landing r.cwd p) [])
      (by
        intro d' hd'
        unfold dirTails at hd'
        obtain ⟨e, he, rfl⟩ := List.mem_map.mp hd'
        obtain ⟨hmem, hk⟩ := List.mem_filter.mp he
        have hk' : e.2 = Kind.dir := by simpa using hk
        have hek : (e.1, Kind.dir) ∈ childEntries r.fs (landing r.cwd p ++ []) := by
          rw [← hk']; cases e; exact hmem
        obtain ⟨e', he', hke⟩ := (mem_childEntries_iff_lookup hnd).mp hek
        refine ⟨?_, ?_, by simp⟩
        · intro x hx
          simp at hx; subst hx; exact (childEntries_safe hr.safe hmem).1
        · simp only [List.append_nil, List.nil_append] at he' ⊢
          rw [he']
          cases e' with
          | dir => rfl
          | file c => cases hke)
      (by
        have h1 := phi_dirTails r.fs hnd (landing r.cwd p) []
        have h2 : Wstrict r.fs (landing r.cwd p ++ []) ≤ r.fs.length := List.countP_le_length
        omega)
    cases hrec : listRecLoop r r.fs.length ((dirTails r.fs (landing r.cwd p) []).map (ext p)) with
    | error e =>
      simp only
      intro he
      injection he with he
      rw [he] at hrec; exact hno hrec
    | ok more => simp

end ClientTree
end Model
