/-
  Helper lemmas for C10: counting under `List.set` / append, `updUser`, and the effect of ONE session step
  on the slot counters, stated as a relation `SlotStep` that is reflexive, transitive and is established
  separately for greeting, `USER`, every other verb, and the dispatcher's `finally`.
-/
import AioftpModel.Model.Counters
import AioftpModel.Lemmas.Session

namespace Model.Counters
open Py Generated Model.Session

/-! ### counting -/

theorem countP_set {α : Type} (p : α → Bool) (l : List α) (i : Nat) (a b : α) (h : l[i]? = some a) :
    (l.set i b).countP p + (p a).toNat = l.countP p + (p b).toNat := by
  induction l generalizing i with
  | nil => simp at h
  | cons x t ih =>
    cases i with
    | zero =>
      simp only [List.getElem?_cons_zero, Option.some.injEq] at h
      subst h
      simp only [List.set_cons_zero, List.countP_cons]
      cases p x <;> cases p b <;> simp <;> omega
    | succ k =>
      simp only [List.getElem?_cons_succ] at h
      have := ih k h
      simp only [List.set_cons_succ, List.countP_cons]
      omega

theorem countP_snoc {α : Type} (p : α → Bool) (l : List α) (b : α) :
    (l ++ [b]).countP p = l.countP p + (p b).toNat := by
  simp only [List.countP_append, List.countP_cons, List.countP_nil]
  cases p b <;> simp

theorem countP_eq_zero_of_all_false {α : Type} (p : α → Bool) (l : List α) (h : ∀ a ∈ l, p a = false) :
    l.countP p = 0 := by
  rw [List.countP_eq_zero]
  intro a ha
  simp [h a ha]

/-! ### `updUser` -/

@[simp] theorem updUser_length (l : List (Option Nat)) (i : Nat) (f : Option Nat → Option Nat) :
    (updUser l i f).length = l.length := by
  simp [updUser]

theorem updUser_getElem? (l : List (Option Nat)) (i j : Nat) (f : Option Nat → Option Nat) :
    (updUser l i f)[j]? = if j = i then (l[j]?).map f else l[j]? := by
  simp only [updUser, List.getElem?_mapIdx]
  cases l[j]? with
  | none => simp
  | some v => by_cases h : j = i <;> simp [h]

theorem updUser_same (l : List (Option Nat)) (i : Nat) (f : Option Nat → Option Nat) :
    (updUser l i f)[i]? = (l[i]?).map f := by
  rw [updUser_getElem?]; simp

theorem updUser_other (l : List (Option Nat)) (i j : Nat) (f : Option Nat → Option Nat) (h : j ≠ i) :
    (updUser l i f)[j]? = l[j]? := by
  rw [updUser_getElem?]; simp [h]

/-! ### one session step moves slots correctly -/

/-- `(w, s) ⟶ (w', s')` keeps "free + what this session holds" of every counter, keeps unlimited counters
    unlimited and keeps the number of per-user counters.  Note the equations are over `Nat` with the model's
    truncated `acquire`: they FAIL for a transition that applies `acquire` to `some 0`. -/
structure SlotStep (w : World) (s : SState) (w' : World) (s' : SState) : Prop where
  srv_none : w.serverFree = none → w'.serverFree = none
  srv_some : ∀ f, w.serverFree = some f →
    ∃ f', w'.serverFree = some f' ∧ f' + s'.acquired.toNat = f + s.acquired.toNat
  len : w'.userFree.length = w.userFree.length
  usr_none : ∀ (u : Nat), w.userFree[u]? = some none → w'.userFree[u]? = some none
  usr_some : ∀ (u f : Nat), w.userFree[u]? = some (some f) →
    ∃ f', w'.userFree[u]? = some (some f') ∧
      f' + (s'.user == some u).toNat = f + (s.user == some u).toNat

theorem SlotStep.of_eq {w w' : World} {s s' : SState} (h1 : w'.serverFree = w.serverFree)
    (h2 : w'.userFree = w.userFree) (h3 : s'.acquired = s.acquired) (h4 : s'.user = s.user) :
    SlotStep w s w' s' where
  srv_none h := by rw [h1, h]
  srv_some f h := ⟨f, by rw [h1, h], by rw [h3]⟩
  len := by rw [h2]
  usr_none u h := by rw [h2, h]
  usr_some u f h := ⟨f, by rw [h2, h], by rw [h4]⟩

theorem SlotStep.refl (w : World) (s : SState) : SlotStep w s w s := SlotStep.of_eq rfl rfl rfl rfl

theorem SlotStep.trans {w₀ w₁ w₂ : World} {s₀ s₁ s₂ : SState} (a : SlotStep w₀ s₀ w₁ s₁)
    (b : SlotStep w₁ s₁ w₂ s₂) : SlotStep w₀ s₀ w₂ s₂ where
  srv_none h := b.srv_none (a.srv_none h)
  srv_some f h := by
    obtain ⟨f₁, h₁, e₁⟩ := a.srv_some f h
    obtain ⟨f₂, h₂, e₂⟩ := b.srv_some f₁ h₁
    exact ⟨f₂, h₂, by omega⟩
  len := by rw [b.len, a.len]
  usr_none u h := b.usr_none u (a.usr_none u h)
  usr_some u f h := by
    obtain ⟨f₁, h₁, e₁⟩ := a.usr_some u f h
    obtain ⟨f₂, h₂, e₂⟩ := b.usr_some u f₁ h₁
    exact ⟨f₂, h₂, by omega⟩

/-- `notify_logout(connection.user)` + forgetting the user: the per-user part of `finalize` and the first
    half of `Server.user` -/
theorem slot_logout (w : World) (s s' : SState) (ha : s'.acquired = s.acquired) (hu : s'.user = none) :
    SlotStep w s
      (match s.user with
        | some i => { w with userFree := updUser w.userFree i release }
        | none => w) s' := by
  cases hsu : s.user with
  | none => exact SlotStep.of_eq rfl rfl ha (by rw [hu, hsu])
  | some i =>
    refine ⟨fun h => h, fun f h => ⟨f, h, by rw [ha]⟩, by simp, ?_, ?_⟩
    · intro u h
      by_cases hui : u = i
      · subst hui; simp [updUser_same, h, release]
      · simp only [updUser_other _ _ _ _ hui]; exact h
    · intro u f h
      by_cases hui : u = i
      · subst hui
        refine ⟨f + 1, by simp [updUser_same, h, release], ?_⟩
        simp [hu, hsu]
      · refine ⟨f, by simp only [updUser_other _ _ _ _ hui]; exact h, ?_⟩
        have : (some i == some u) = false := by simp; omega
        rw [hu, hsu, this]; simp

/-- the server part of `finalize`: `if connection.acquired: available_connections.release()` -/
theorem slot_release_server (w : World) (s s' : SState) (ha : s'.acquired = false) (hu : s'.user = s.user) :
    SlotStep w s (if s.acquired then { w with serverFree := release w.serverFree } else w) s' := by
  cases hacq : s.acquired with
  | false => exact SlotStep.of_eq rfl rfl (by rw [ha, hacq]) hu
  | true =>
    refine ⟨fun h => by simp [h, release], fun f h => ⟨f + 1, by simp [h, release], by simp [ha, hacq]⟩, rfl,
      fun u h => h, fun u f h => ⟨f, h, by rw [hu]⟩⟩

theorem slot_finalize (w : World) (s : SState) : SlotStep w s (finalize w s).1 (finalize w s).2 := by
  unfold finalize
  exact (slot_release_server w s { s with acquired := false } rfl rfl).trans
    (slot_logout _ { s with acquired := false } _ rfl rfl)

/-- `get_user` hands out a user only when that user's counter is not locked -/
theorem getUser_not_locked (cfg : Cfg) (w : World) (login : Str) (j : Nat)
    (h : (getUser cfg w login).2.1 = some j) : locked ((w.userFree[j]?).getD none) = false := by
  unfold getUser at h
  split at h
  · simp at h
  · rename_i i hi
    split at h
    · simp at h
    · split at h
      · simp at h
      · rename_i hl
        have hij : i = j := by
          split at h
          · simpa using h
          · split at h <;> simpa using h
        subst hij
        simpa using hl

/-- `get_user` hands out only configured users -/
theorem getUser_valid (cfg : Cfg) (w : World) (login : Str) (j : Nat)
    (h : (getUser cfg w login).2.1 = some j) : j < cfg.users.length := by
  unfold getUser at h
  split at h
  · simp at h
  · rename_i i hi
    split at h
    · simp at h
    · rename_i u hu
      have hlt : i < cfg.users.length := by
        rcases Nat.lt_or_ge i cfg.users.length with h' | h'
        · exact h'
        · rw [List.getElem?_eq_none h'] at hu; simp at hu
      split at h
      · simp at h
      · have hij : i = j := by
          split at h
          · simpa using h
          · split at h <;> simpa using h
        exact hij ▸ hlt

/-- second half of `Server.user`: `get_user` acquires the new user's slot unless it answers ERROR -/
theorem slot_login (cfg : Cfg) (w : World) (s s' : SState) (login : Str) (hs : s.user = none)
    (ha : s'.acquired = s.acquired) (hu : s'.user = (getUser cfg w login).2.1) :
    SlotStep w s
      (match (getUser cfg w login).2.1 with
        | some j => { w with userFree := updUser w.userFree j acquire }
        | none => w) s' := by
  cases hg : (getUser cfg w login).2.1 with
  | none => exact SlotStep.of_eq rfl rfl ha (by rw [hu, hg, hs])
  | some j =>
    have hnl := getUser_not_locked cfg w login j hg
    refine ⟨fun h => h, fun f h => ⟨f, h, by rw [ha]⟩, by simp, ?_, ?_⟩
    · intro u h
      by_cases huj : u = j
      · subst huj; simp [updUser_same, h, acquire]
      · simp only [updUser_other _ _ _ _ huj]; exact h
    · intro u f h
      by_cases huj : u = j
      · subst huj
        have hf : f ≠ 0 := by
          intro h0
          simp [h, h0, locked] at hnl
        refine ⟨f - 1, by simp [updUser_same, h, acquire], ?_⟩
        simp [hu, hg, hs]
        omega
      · refine ⟨f, by simp only [updUser_other _ _ _ _ huj]; exact h, ?_⟩
        have : (some j == some u) = false := by simp; omega
        simp [hu, hg, hs, this]

/-! ### the handler bodies -/

theorem worker_keeps (w : World) (s : SState) (t : Path) (v : Verb) (p : Bytes) :
    (worker w s t v p).1.serverFree = w.serverFree ∧ (worker w s t v p).1.userFree = w.userFree ∧
    (worker w s t v p).2.1.acquired = s.acquired ∧ (worker w s t v p).2.1.user = s.user := by
  unfold worker workerK
  split
  · exact ⟨rfl, rfl, rfl, rfl⟩
  · cases v <;> (try simp only []) <;> (try split) <;> simp

/-- every handler except `user` leaves both kinds of counters, `acquired` and `user` alone -/
theorem body_keeps (cfg : Cfg) (w : World) (s : SState) (v : Verb) (rest : Str) (arg : PPath) (p : Bytes)
    (hv : v ≠ .user) :
    (body cfg w s v rest arg p).1.serverFree = w.serverFree ∧
    (body cfg w s v rest arg p).1.userFree = w.userFree ∧
    (body cfg w s v rest arg p).2.1.acquired = s.acquired ∧
    (body cfg w s v rest arg p).2.1.user = s.user := by
  have hw := fun t v' => worker_keeps w s t v' p
  cases v
  case user => exact absurd rfl hv
  case list | mlsd | retr => delta body; dsimp only; exact hw _ _
  case stor | appe =>
    delta body; dsimp only
    split
    · exact hw _ _
    · simp
  all_goals (delta body; dsimp only; (repeat' split) <;> simp)

theorem slot_body_user (cfg : Cfg) (w : World) (s : SState) (rest : Str) (arg : PPath) (p : Bytes) :
    SlotStep w s (body cfg w s .user rest arg p).1 (body cfg w s .user rest arg p).2.1 := by
  delta body; dsimp only
  exact (slot_logout w s { s with user := none, logged := false } rfl rfl).trans
    (slot_login cfg _ { s with user := none, logged := false } _ rest rfl rfl rfl)

theorem slot_body (cfg : Cfg) (w : World) (s : SState) (v : Verb) (rest : Str) (arg : PPath) (p : Bytes) :
    SlotStep w s (body cfg w s v rest arg p).1 (body cfg w s v rest arg p).2.1 := by
  by_cases hv : v = .user
  · subst hv; exact slot_body_user cfg w s rest arg p
  · obtain ⟨h1, h2, h3, h4⟩ := body_keeps cfg w s v rest arg p hv
    exact SlotStep.of_eq h1 h2 h3 h4

theorem slot_runVerb (cfg : Cfg) (w : World) (s : SState) (v : Verb) (rest : Str) (p : Bytes) :
    SlotStep w s (runVerb cfg w s v rest p).1 (runVerb cfg w s v rest p).2.1 := by
  unfold runVerb
  split
  · exact SlotStep.refl w s
  · exact SlotStep.of_eq rfl rfl rfl rfl
  · exact SlotStep.refl w s
  · exact slot_body cfg w s v rest _ p

theorem slot_dispatch (cfg : Cfg) (w : World) (s : SState) (name rest : Str) (p : Bytes) :
    SlotStep w s (dispatch cfg w s name rest p).1 (dispatch cfg w s name rest p).2.1 := by
  unfold dispatch
  split
  · exact SlotStep.of_eq rfl rfl (by simp) (by simp)
  · rename_i v _
    have h := slot_runVerb cfg w (resetRestart name s) v rest p
    have h0 : SlotStep w s w (resetRestart name s) := SlotStep.of_eq rfl rfl (by simp) (by simp)
    exact h0.trans h

/-- greeting: accept (acquire, `acquired := True`) or refuse with 421 and touch nothing -/
theorem slot_connect (cfg : Cfg) (w : World) (s : SState) (hs : s.acquired = false) :
    SlotStep w s (step0 cfg w s .connect).1 (step0 cfg w s .connect).2.1 := by
  simp only [step0]
  split
  · exact SlotStep.of_eq rfl rfl rfl rfl
  · rename_i hl
    refine ⟨fun h => by simp [h, acquire], ?_, rfl, fun u h => h, fun u f h => ⟨f, h, rfl⟩⟩
    intro f h
    have hf : f ≠ 0 := by
      intro h0
      simp [h, h0, locked] at hl
    refine ⟨f - 1, by simp [h, acquire], ?_⟩
    simp [hs]
    omega

theorem slot_step0 (cfg : Cfg) (w : World) (s : SState) (ev : Event)
    (hc : ev = .connect → s.acquired = false) :
    SlotStep w s (step0 cfg w s ev).1 (step0 cfg w s ev).2.1 := by
  cases ev with
  | connect => exact slot_connect cfg w s (hc rfl)
  | dataConnect =>
    simp only [step0]
    split <;> exact SlotStep.of_eq rfl rfl rfl rfl
  | finish => exact slot_finalize w s
  | line raw payload => exact slot_dispatch cfg w s _ _ payload

/-- **one session step conserves slots**, whatever the event, the state and the tree are -/
theorem slot_step (cfg : Cfg) (w : World) (s : SState) (ev : Event)
    (hc : ev = .connect → s.acquired = false) :
    SlotStep w s (step cfg w s ev).1 (step cfg w s ev).2.1 := by
  have h0 := slot_step0 cfg w s ev hc
  unfold step
  dsimp only
  split
  · exact h0
  · exact h0.trans (slot_finalize _ _)


/-! ### which user a session can end up with; dead sessions hold nothing -/

theorem finalize_user (w : World) (s : SState) : (finalize w s).2.user = none := rfl
theorem finalize_acquired (w : World) (s : SState) : (finalize w s).2.acquired = false := rfl
theorem finalize_alive (w : World) (s : SState) : (finalize w s).2.alive = false := rfl

theorem body_user_valid (cfg : Cfg) (w : World) (s : SState) (v : Verb) (rest : Str) (arg : PPath) (p : Bytes)
    (u : Nat) (h : (body cfg w s v rest arg p).2.1.user = some u) : s.user = some u ∨ u < cfg.users.length := by
  by_cases hv : v = .user
  · subst hv
    right
    delta body at h; dsimp only at h
    exact getUser_valid cfg _ rest u h
  · left
    rw [← (body_keeps cfg w s v rest arg p hv).2.2.2]; exact h

theorem step0_user_valid (cfg : Cfg) (w : World) (s : SState) (ev : Event) (u : Nat)
    (h : (step0 cfg w s ev).2.1.user = some u) : s.user = some u ∨ u < cfg.users.length := by
  cases ev with
  | connect =>
    left
    simp only [step0] at h
    split at h <;> exact h
  | dataConnect =>
    left
    simp only [step0] at h
    split at h <;> exact h
  | finish => simp [step0, finalize] at h
  | line raw payload =>
    simp only [step0, dispatch] at h
    split at h
    · exact Or.inl h
    · unfold runVerb at h
      split at h
      · left; simpa using h
      · left; simpa using h
      · left; simpa using h
      · have := body_user_valid cfg w _ _ _ _ _ u h
        simpa using this

/-- after any step the session's user is the one it had, or a configured one (so that
    `available_connections[user]` in `notify_logout` is never a `KeyError`) -/
theorem step_user_valid (cfg : Cfg) (w : World) (s : SState) (ev : Event) (u : Nat)
    (h : (step cfg w s ev).2.1.user = some u) : s.user = some u ∨ u < cfg.users.length := by
  unfold step at h
  dsimp only at h
  split at h
  · exact step0_user_valid cfg w s ev u h
  · simp [finalize] at h

/-- a session that is not alive after a step has been through the dispatcher's `finally` -/
theorem step_dead_clean (cfg : Cfg) (w : World) (s : SState) (ev : Event)
    (h : (step cfg w s ev).2.1.alive = false) :
    (step cfg w s ev).2.1.acquired = false ∧ (step cfg w s ev).2.1.user = none := by
  unfold step at h ⊢
  dsimp only at h ⊢
  split
  · rename_i ha
    rw [if_pos ha] at h
    rw [ha] at h; cases h
  · exact ⟨rfl, rfl⟩

/-- holds nothing and is over -/
def Clean (s : SState) : Prop := s.alive = false ∧ s.acquired = false ∧ s.user = none

/-- `finish` (the `finally` block) leaves a clean session, whatever the session was doing -/
theorem step_finish_clean (cfg : Cfg) (w : World) (s : SState) : Clean (step cfg w s .finish).2.1 := by
  have ha : (step cfg w s .finish).2.1.alive = false := by
    unfold step
    dsimp only
    split
    · rename_i h; simp [step0, finalize] at h
    · rfl
  exact ⟨ha, step_dead_clean cfg w s .finish ha⟩

end Model.Counters
