/-
  `io.BytesIO` (and, for the operations used by the transfer workers, a regular file opened in binary
  mode by a single writer) as a pair (content, position).

  What is *assumed* (trusted base, sampled by the C01 correspondence run on all three backends):
  * `seek(k)` with `k ≥ 0` only moves the position (it may point past the end; nothing is allocated);
  * `read(n)` with `n ≥ 0` returns `min(n, remaining)` bytes — it is empty only when `n = 0` or the
    position is at/after the end — and advances the position by what it returned;
  * `write(b)` with `b` empty does nothing (no zero-fill, position unchanged); otherwise the gap between the
    end and a position past the end is filled with NUL bytes, the bytes are overwritten/appended at the
    position, and the position advances by `len(b)`.
  Negative arguments (`seek(-1)` raises `ValueError`, `read(-1)` reads everything) never reach these
  functions from the server: offsets come from `int()` of an `isdigit()` string and counts are the block size.
-/
namespace Py

structure BytesIO where
  data : List Nat
  pos : Nat
  deriving DecidableEq, Repr

namespace BytesIO

/-- `BytesIO(initial)` : position 0 -/
def ofBytes (b : List Nat) : BytesIO := ⟨b, 0⟩

/-- `f.seek(k)` (`io.SEEK_SET`) -/
def seek (f : BytesIO) (k : Nat) : BytesIO := { f with pos := k }

/-- `f.seek(0, io.SEEK_END)` -/
def seekEnd (f : BytesIO) : BytesIO := { f with pos := f.data.length }

/-- `f.read(n)` : (bytes returned, handle afterwards) -/
def read (f : BytesIO) (n : Nat) : List Nat × BytesIO :=
  let d := (f.data.drop f.pos).take n
  (d, { f with pos := f.pos + d.length })

/-- content after `write(data)` at position `pos` (zero-fill past the end; the empty write is a no-op) -/
def writeAt (c : List Nat) (pos : Nat) (data : List Nat) : List Nat :=
  if data.isEmpty then c else
  let padded := if pos > c.length then c ++ List.replicate (pos - c.length) 0 else c
  padded.take pos ++ data ++ padded.drop (pos + data.length)

/-- `f.write(b)` -/
def write (f : BytesIO) (b : List Nat) : BytesIO :=
  ⟨writeAt f.data f.pos b, f.pos + b.length⟩

end BytesIO
end Py
