/-
  Python `bytes` as `List Nat` (every element < 256 by convention) and the two text codecs aioftp is
  used with: `str.encode(encoding)` / `bytes.decode(encoding)` for "utf-8" and "latin-1", error
  handler "strict".  `none` stands for the exception the real call raises (UnicodeEncodeError /
  UnicodeDecodeError).

  Limits of the transcription (trusted base): a Lean `Char` is a Unicode scalar value, so Python
  strings containing lone surrogates are not representable (for them utf-8 `encode` raises and
  `decode` never produces them); all other behaviour is sampled by the correspondence run of C06.
-/
import AioftpModel.Py.Str

namespace Py

abbrev Bytes := List Nat

inductive Encoding where
  | utf8
  | latin1
  deriving DecidableEq, Repr, Inhabited

/-- UTF-8 encoding of one scalar value -/
def encodeChUtf8 (c : Char) : Bytes :=
  let n := c.toNat
  if n < 0x80 then [n]
  else if n < 0x800 then [0xC0 + n / 64, 0x80 + n % 64]
  else if n < 0x10000 then [0xE0 + n / 4096, 0x80 + n / 64 % 64, 0x80 + n % 64]
  else [0xF0 + n / 262144, 0x80 + n / 4096 % 64, 0x80 + n / 64 % 64, 0x80 + n % 64]

/-- one character; `none` = UnicodeEncodeError -/
def encodeCh : Encoding → Char → Option Bytes
  | .utf8, c => some (encodeChUtf8 c)
  | .latin1, c => if c.toNat < 256 then some [c.toNat] else none

/-- `s.encode(encoding)`; `none` = UnicodeEncodeError -/
def encode (e : Encoding) : Str → Option Bytes
  | [] => some []
  | c :: cs =>
    match encodeCh e c, encode e cs with
    | some a, some b => some (a ++ b)
    | _, _ => none

/-- UTF-8 continuation byte -/
def isCont (b : Nat) : Bool := 0x80 ≤ b && b < 0xC0

/-- strict UTF-8 decoder (Unicode table 3-7: no overlong forms, no surrogates, nothing above
    U+10FFFF, no truncated sequence); `none` = UnicodeDecodeError -/
def decodeUtf8 : Bytes → Option Str
  | [] => some []
  | b0 :: rest =>
    if b0 < 0x80 then (decodeUtf8 rest).map (Char.ofNat b0 :: ·)
    else if 0xC2 ≤ b0 && b0 < 0xE0 then
      match rest with
      | b1 :: rest1 =>
        if isCont b1 then
          (decodeUtf8 rest1).map (Char.ofNat ((b0 - 0xC0) * 64 + (b1 - 0x80)) :: ·)
        else none
      | [] => none
    else if 0xE0 ≤ b0 && b0 < 0xF0 then
      match rest with
      | b1 :: b2 :: rest2 =>
        let n := (b0 - 0xE0) * 4096 + (b1 - 0x80) * 64 + (b2 - 0x80)
        if isCont b1 && isCont b2 && 0x800 ≤ n && !(0xD800 ≤ n && n < 0xE000) then
          (decodeUtf8 rest2).map (Char.ofNat n :: ·)
        else none
      | _ => none
    else if 0xF0 ≤ b0 && b0 < 0xF5 then
      match rest with
      | b1 :: b2 :: b3 :: rest3 =>
        let n := (b0 - 0xF0) * 262144 + (b1 - 0x80) * 4096 + (b2 - 0x80) * 64 + (b3 - 0x80)
        if isCont b1 && isCont b2 && isCont b3 && 0x10000 ≤ n && n < 0x110000 then
          (decodeUtf8 rest3).map (Char.ofNat n :: ·)
        else none
      | _ => none
    else none

/-- latin-1: every byte is the code point -/
def decodeLatin1 : Bytes → Option Str
  | [] => some []
  | b :: rest => if b < 256 then (decodeLatin1 rest).map (Char.ofNat b :: ·) else none

/-- `b.decode(encoding)`; `none` = UnicodeDecodeError -/
def decode : Encoding → Bytes → Option Str
  | .utf8, b => decodeUtf8 b
  | .latin1, b => decodeLatin1 b

end Py
