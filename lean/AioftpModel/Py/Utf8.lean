/-
  `bytes.decode("utf-8")` (strict) as CPython implements it: shortest form only, no surrogates,
  nothing above U+10FFFF; any violation is `UnicodeDecodeError` (a `ValueError` subclass).
  RawLine are `Nat`s below 256 (anything ≥ 256 is treated as an invalid byte).  Core only.
-/
import AioftpModel.Py.Str
import AioftpModel.Py.Exc

namespace Py.Utf8
open Py

/-- strict UTF-8 decoder, one byte at a time (structural recursion, so the kernel can evaluate it):
    `k` continuation bytes are still owed, `acc` holds the code-point bits read so far, and the next
    byte must lie in `[lo, hi]` (this is how overlong forms, surrogates and > U+10FFFF are rejected:
    E0 → A0..BF, ED → 80..9F, F0 → 90..BF, F4 → 80..8F) -/
def decodeAux : List Nat → Nat → Nat → Nat → Nat → Except PyErr Str
  | [], 0, _, _, _ => .ok []
  | [], _ + 1, _, _, _ => .error .UnicodeDecodeError
  | b :: rest, 0, _, _, _ =>
    if b < 0x80 then (decodeAux rest 0 0 0 0).map (Char.ofNat b :: ·)
    else if 0xC2 ≤ b && b ≤ 0xDF then decodeAux rest 1 (b - 0xC0) 0x80 0xBF
    else if 0xE0 ≤ b && b ≤ 0xEF then
      decodeAux rest 2 (b - 0xE0) (if b = 0xE0 then 0xA0 else 0x80) (if b = 0xED then 0x9F else 0xBF)
    else if 0xF0 ≤ b && b ≤ 0xF4 then
      decodeAux rest 3 (b - 0xF0) (if b = 0xF0 then 0x90 else 0x80) (if b = 0xF4 then 0x8F else 0xBF)
    else .error .UnicodeDecodeError
  | b :: rest, k + 1, acc, lo, hi =>
    if lo ≤ b && b ≤ hi then
      if k = 0 then (decodeAux rest 0 0 0 0).map (Char.ofNat (acc * 64 + (b - 0x80)) :: ·)
      else decodeAux rest k (acc * 64 + (b - 0x80)) 0x80 0xBF
    else .error .UnicodeDecodeError

def decodeUtf8E (b : List Nat) : Except PyErr Str := decodeAux b 0 0 0 0

/-- `str.encode("utf-8")` (total on `Char`, which excludes surrogates) -/
def encodeUtf8Ch (c : Char) : List Nat :=
  let n := c.toNat
  if n < 0x80 then [n]
  else if n < 0x800 then [0xC0 + n / 64, 0x80 + n % 64]
  else if n < 0x10000 then [0xE0 + n / 4096, 0x80 + n / 64 % 64, 0x80 + n % 64]
  else [0xF0 + n / 262144, 0x80 + n / 4096 % 64, 0x80 + n / 64 % 64, 0x80 + n % 64]

def encodeUtf8 (s : Str) : List Nat := s.flatMap encodeUtf8Ch

end Py.Utf8
