/-
  `repr(str)` (CPython `unicode_repr`) restricted to ASCII strings; `none` = outside the modelled
  fragment (a non-ASCII character is present: its rendering depends on `str.isprintable`, which is
  not transcribed).
-/
import AioftpModel.Py.Str

namespace Py

def hexDigitLower (n : Nat) : Char :=
  if n < 10 then Char.ofNat (48 + n) else Char.ofNat (87 + n)

/-- one character inside the quotes -/
def reprEscape (q : Char) (c : Char) : Str :=
  if c = q || c = '\\' then ['\\', c]
  else if c = '\t' then ['\\', 't']
  else if c = '\n' then ['\\', 'n']
  else if c = '\r' then ['\\', 'r']
  else if c.toNat < 32 || c.toNat = 127 then
    ['\\', 'x', hexDigitLower (c.toNat / 16), hexDigitLower (c.toNat % 16)]
  else [c]

/-- `repr(s)`: single quotes unless the string has a `'` and no `"` -/
def reprAscii? (s : Str) : Option Str :=
  if s.all (fun c => c.toNat < 128) then
    let q : Char := if s.contains '\'' && !(s.contains '"') then '"' else '\''
    some (q :: (s.flatMap (reprEscape q) ++ [q]))
  else none

end Py
