/-
  Python `str` / `tuple` / `int` primitives that can raise, each with the exception class CPython 3.12
  raises.  Nothing here is totalised: the caller sees `Except PyErr _`.  Core only.
-/
import AioftpModel.Py.Str
import AioftpModel.Py.Exc

namespace Py.StrErr
open Py

/-- `s[i]` for `i ≥ 0` : IndexError past the end -/
def getIdx (s : Str) (i : Nat) : Except PyErr Char :=
  match s.drop i with
  | c :: _ => .ok c
  | [] => .error .IndexError

/-- `s[-k]` for `k ≥ 1` : IndexError when the string is shorter than `k` -/
def getIdxNeg (s : Str) (k : Nat) : Except PyErr Char :=
  if k = 0 ∨ s.length < k then .error .IndexError else getIdx s (s.length - k)

/-- `t[i]` on a tuple/list -/
def tupleIdx {α : Type} (t : List α) (i : Nat) : Except PyErr α :=
  match t.drop i with
  | x :: _ => .ok x
  | [] => .error .IndexError

/-- `s.index(ch)` : ValueError when absent -/
def index (ch : Char) (s : Str) : Except PyErr Nat :=
  match indexOf? ch s with
  | some i => .ok i
  | none => .error .ValueError

/-- position of the last occurrence of `pat` in `s`, scanning from offset `i` -/
def rfindFrom (pat : Str) : Str → Nat → Option Nat → Option Nat
  | [], i, last => if pat.isEmpty then some i else last
  | c :: cs, i, last =>
    rfindFrom pat cs (i + 1) (if pat.isPrefixOf (c :: cs) then some i else last)

/-- `s.rindex(pat)` : ValueError when absent -/
def rindex (pat : Str) (s : Str) : Except PyErr Nat :=
  match rfindFrom pat s 0 none with
  | some i => .ok i
  | none => .error .ValueError

/-- `s[a:b]` for `0 ≤ a`, `0 ≤ b` (never raises) -/
def slice (s : Str) (a b : Nat) : Str := (s.drop a).take (b - a)

/-- `s.replace(ch, "")` -/
def removeCh (ch : Char) (s : Str) : Str := s.filter (· ≠ ch)

/-! ### `int(s)` for a `str` argument (base 10) -/

/-- `Py_ISSPACE` : what `PyLong_FromString` skips -/
def isAsciiIntSpace (c : Char) : Bool := c = ' ' || (9 ≤ c.toNat && c.toNat ≤ 13)

/-- `_PyUnicode_TransformDecimalAndSpaceToASCII`, per character.  (For a pure-ASCII string CPython skips the
    transformation; code points below 127 are left alone here, and U+007F is rejected either way.) -/
def intCanonCh (c : Char) : Char :=
  if c.toNat < 127 then c
  else if isSpace c then ' '
  else match decimalValue? c with
    | some d => Char.ofNat (48 + d)
    | none => '?'

/-- sub-string test for a two-character pattern -/
def hasPair (a b : Char) : Str → Bool
  | x :: y :: r => (x = a && y = b) || hasPair a b (y :: r)
  | _ => false

/-- the digit/underscore run accepted by `long_from_string_base`: non-empty, starts and ends with a digit,
    no two underscores in a row -/
def intBodyOK : Str → Bool
  | [] => false
  | '_' :: _ => false
  | s => s.getLast? != some '_' && !(hasPair '_' '_' s)

/-- `sys.get_int_max_str_digits()` default -/
def intMaxStrDigits : Nat := 4300

/-- `int(s)` : ValueError on anything that is not `ws* [+-]? digit (_? digit)* ws*`, and on more than
    4300 digits (CPython ≥ 3.11 integer string conversion length limitation) -/
def pyInt (s : Str) : Except PyErr Int :=
  let t := (s.map intCanonCh).dropWhile isAsciiIntSpace
  let (neg, t) := match t with
    | '+' :: r => (false, r)
    | '-' :: r => (true, r)
    | _ => (false, t)
  let isBody := fun c => isAsciiDigit c || c = '_'
  let body := t.takeWhile isBody
  let rest := t.dropWhile isBody
  if !intBodyOK body then .error .ValueError
  else if !(rest.all isAsciiIntSpace) then .error .ValueError
  else
    let digits := body.filter isAsciiDigit
    if digits.length > intMaxStrDigits then .error .ValueError
    else
      let v : Int := Int.ofNat (natOfAsciiDigits digits)
      .ok (if neg then -v else v)

/-- `str(i)` for an int -/
def intToStr (i : Int) : Str :=
  match i with
  | .ofNat n => natToStr n
  | .negSucc n => '-' :: natToStr (n + 1)

/-- Python `a | b` on unbounded two's-complement ints -/
def pyOr (a b : Int) : Int :=
  match a, b with
  | .ofNat x, .ofNat y => Int.ofNat (x ||| y)
  | .ofNat x, .negSucc y => Int.negSucc (y - (y &&& x))      -- ~(~b & ~a), ~b = y
  | .negSucc x, .ofNat y => Int.negSucc (x - (x &&& y))
  | .negSucc x, .negSucc y => Int.negSucc (x &&& y)

end Py.StrErr
