/-
  Python exception classes as far as the client parsers can meet them, with the part of the
  class hierarchy that `except (ValueError, KeyError, IndexError)` depends on:

      ValueError ⊃ UnicodeError ⊃ UnicodeDecodeError
      LookupError ⊃ KeyError, IndexError
      AttributeError, TypeError, OverflowError, `Other cls` : none of the above

  Every primitive in `Py/*.lean` that can raise returns `Except PyErr _` with the class CPython 3.12
  raises; nothing is totalised.  (Core only.)
-/
namespace Py

inductive PyErr where
  | ValueError
  | UnicodeDecodeError
  | KeyError
  | IndexError
  | AttributeError
  | TypeError
  | OverflowError
  | Other (cls : String)
  deriving DecidableEq, Repr

/-- `isinstance(e, ValueError)` -/
def PyErr.isValueError : PyErr → Bool
  | .ValueError => true
  | .UnicodeDecodeError => true
  | _ => false

/-- what `except (ValueError, KeyError, IndexError)` catches (subclasses included) -/
def PyErr.caughtByListChain : PyErr → Bool
  | .ValueError => true
  | .UnicodeDecodeError => true
  | .KeyError => true
  | .IndexError => true
  | _ => false

/-- the name the harness prints for `type(e).__name__` -/
def PyErr.name : PyErr → String
  | .ValueError => "ValueError"
  | .UnicodeDecodeError => "UnicodeDecodeError"
  | .KeyError => "KeyError"
  | .IndexError => "IndexError"
  | .AttributeError => "AttributeError"
  | .TypeError => "TypeError"
  | .OverflowError => "OverflowError"
  | .Other c => "Other:" ++ c

/-- equality of results is decidable (used by `decide` in witnesses) -/
instance {ε α : Type} [DecidableEq ε] [DecidableEq α] : DecidableEq (Except ε α) := fun a b =>
  match a, b with
  | .ok x, .ok y => if h : x = y then isTrue (h ▸ rfl) else isFalse (fun e => h (Except.ok.inj e))
  | .error x, .error y => if h : x = y then isTrue (h ▸ rfl) else isFalse (fun e => h (Except.error.inj e))
  | .ok _, .error _ => isFalse (fun e => by cases e)
  | .error _, .ok _ => isFalse (fun e => by cases e)

end Py
