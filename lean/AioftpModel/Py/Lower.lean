/-
  Python `str.lower()` in full: the per-character mapping of the running interpreter (generated
  tables, including the one multi-character case U+0130) and CPython's final-sigma rule
  (`handle_capital_sigma` in unicodeobject.c): U+03A3 becomes U+03C2 when it is preceded by a cased
  character (skipping case-ignorable ones) and not followed by one, else U+03C3.

  `Py.lower` in Py/Str.lean is the coarser approximation used where only "can this spell a known
  verb" matters; `Py.lowerFull` is what `str.lower()` returns.
-/
import AioftpModel.Py.Str
import AioftpModel.Generated.UnicodeCase

namespace Py

def isCaseIgnorable (c : Char) : Bool := inRanges Generated.pyCaseIgnorableRanges c.toNat

/-- `_PyUnicode_IsCased` for a character that is not case-ignorable -/
def isCasedNI (c : Char) : Bool := inRanges Generated.pyCasedNotIgnorableRanges c.toNat

/-- `chr(c).lower()` for every character except U+03A3 -/
def lowerChFull (c : Char) : Str :=
  let n := c.toNat
  match Generated.pyLowerMulti.find? (fun p => p.1 = n) with
  | some p => p.2.map Char.ofNat
  | none =>
    match Generated.pyLowerRuns.find? (fun r => r.1 ≤ n && n ≤ r.2.1 && (n - r.1) % r.2.2.1 = 0) with
    | some r => [Char.ofNat (r.2.2.2 + (n - r.1))]
    | none => [c]

/-- `handle_capital_sigma`: `revBefore` = the characters before the sigma, nearest first -/
def finalSigma (revBefore after : Str) : Bool :=
  (match revBefore.dropWhile isCaseIgnorable with
    | [] => false
    | c :: _ => isCasedNI c) &&
  (match after.dropWhile isCaseIgnorable with
    | [] => true
    | c :: _ => !isCasedNI c)

def lowerAux (revBefore : Str) : Str → Str
  | [] => []
  | c :: cs =>
    (if c = 'Σ' then [if finalSigma revBefore cs then 'ς' else 'σ'] else lowerChFull c)
      ++ lowerAux (c :: revBefore) cs

/-- `s.lower()` -/
def lowerFull (s : Str) : Str := lowerAux [] s

end Py
