/-
  The pieces of `time.strftime` (glibc, C locale) and `datetime.strptime` (CPython 3.12 `_strptime.py`)
  that aioftp's listing code uses, on `List Char`.

  strftime: `%b` `%e` `%H` `%M` `%Y` `%m` `%d` `%S` only.
  strptime: the three formats `"%b %d %H:%M"`, `"%Y %b %d %H:%M"`, `"%b %d  %Y"`.  `_strptime` compiles
  a format to a regular expression, runs `re.match` (leftmost alternative first, backtracking, *not*
  anchored at the end) and then raises `ValueError` when unconverted data remains.  Every directive's
  alternatives are at most two characters long, so each directive is modelled as a table
  "first two characters ↦ list of (value, characters consumed) in priority order" and the regular
  expression as the backtracking composition of those tables.  `\d` is any Unicode decimal digit,
  `\s` is `str.isspace` (both from the generated tables); month names match ASCII-case-insensitively
  (the one non-ASCII case-fold partner, U+017F for `s`, makes the regex match and `a_month.index`
  raise — also `ValueError`).

  Trusted (sampled by the correspondence run): that these definitions are what the C library / CPython do.
  Core imports only.
-/
import AioftpModel.Py.Str
import AioftpModel.Model.Calendar

namespace Py.Time
open Py Model.Cal

/-- the exceptions this layer can raise -/
inductive DateErr where
  | valueError
  deriving DecidableEq, Repr

/-! ### strftime -/

def digitChar (n : Nat) : Char := Char.ofNat (48 + n % 10)

/-- decimal digits of `n`, most significant first; `fuel` bounds the recursion (`fuel = n` suffices) -/
def decAux : Nat → Nat → Str
  | 0, n => [digitChar n]
  | f + 1, n => if n < 10 then [digitChar n] else decAux f (n / 10) ++ [digitChar n]

/-- `str(n)` / `f"{n}"` / `"%d" % n` for a natural number (same function as `Py.natToStr`,
    written by structural recursion so that it can be reasoned about) -/
def decStr (n : Nat) : Str := decAux n n

/-- a numeric field of minimum width 2 with pad character (`%H %M %m %d %S`: `'0'`, `%e`: `' '`) -/
def pad2 (pad : Char) (n : Nat) : Str :=
  if n < 10 then [pad, digitChar n]
  else if n < 100 then [digitChar (n / 10), digitChar n]
  else decStr n

/-- `%Y` under glibc: the year in decimal, no padding -/
def fmtY (y : Nat) : Str := decStr y

/-- `%b` in the C locale (`?` is what glibc prints for an out-of-range `tm_mon`) -/
def monthAbbr : Nat → Str
  | 1 => ['J','a','n'] | 2 => ['F','e','b'] | 3 => ['M','a','r'] | 4 => ['A','p','r']
  | 5 => ['M','a','y'] | 6 => ['J','u','n'] | 7 => ['J','u','l'] | 8 => ['A','u','g']
  | 9 => ['S','e','p'] | 10 => ['O','c','t'] | 11 => ['N','o','v'] | 12 => ['D','e','c']
  | _ => ['?']

/-! ### strptime -/

def lowerAscii (c : Char) : Char :=
  if 'A' ≤ c ∧ c ≤ 'Z' then Char.ofNat (c.toNat + 32) else c

/-- `(?P<b>jan|feb|…|dec)` with `IGNORECASE`, then `a_month.index(found.lower())` -/
def monthOfAbbr (a b c : Char) : Option Nat :=
  let k := [lowerAscii a, lowerAscii b, lowerAscii c]
  if k = ['j','a','n'] then some 1 else if k = ['f','e','b'] then some 2
  else if k = ['m','a','r'] then some 3 else if k = ['a','p','r'] then some 4
  else if k = ['m','a','y'] then some 5 else if k = ['j','u','n'] then some 6
  else if k = ['j','u','l'] then some 7 else if k = ['a','u','g'] then some 8
  else if k = ['s','e','p'] then some 9 else if k = ['o','c','t'] then some 10
  else if k = ['n','o','v'] then some 11 else if k = ['d','e','c'] then some 12
  else none

/-- a character class `[lo-hi]` of ASCII digits: the digit's value -/
def cls (lo hi : Char) : Option Char → Option Nat
  | some c => if lo ≤ c ∧ c ≤ hi then some (c.toNat - 48) else none
  | none => none

/-- `\d` : any Unicode decimal digit, with the value `int()` gives it -/
def uniDigit : Option Char → Option Nat
  | some c => decimalValue? c
  | none => none

def two (a b : Option Nat) (len : Nat) : List (Nat × Nat) :=
  match a, b with
  | some x, some y => [(x * 10 + y, len)]
  | _, _ => []

def one (a : Option Nat) : List (Nat × Nat) :=
  match a with
  | some x => [(x, 1)]
  | none => []

/-- `(?P<d>3[0-1]|[1-2]\d|0[1-9]|[1-9]| [1-9])` -/
def dayAlts (c1 c2 : Option Char) : List (Nat × Nat) :=
  two (cls '3' '3' c1) (cls '0' '1' c2) 2 ++
  two (cls '1' '2' c1) (uniDigit c2) 2 ++
  two (cls '0' '0' c1) (cls '1' '9' c2) 2 ++
  one (cls '1' '9' c1) ++
  (if c1 = some ' ' then two (some 0) (cls '1' '9' c2) 2 else [])

/-- `(?P<H>2[0-3]|[0-1]\d|\d)` -/
def hourAlts (c1 c2 : Option Char) : List (Nat × Nat) :=
  two (cls '2' '2' c1) (cls '0' '3' c2) 2 ++
  two (cls '0' '1' c1) (uniDigit c2) 2 ++
  one (uniDigit c1)

/-- `(?P<M>[0-5]\d|\d)` -/
def minuteAlts (c1 c2 : Option Char) : List (Nat × Nat) :=
  two (cls '0' '5' c1) (uniDigit c2) 2 ++
  one (uniDigit c1)

/-- first alternative (in order) whose continuation succeeds: regular-expression backtracking -/
def firstSome {α β : Type} (k : α → Option β) : List α → Option β
  | [] => none
  | a :: l => match k a with
    | some b => some b
    | none => firstSome k l

def altStage {β : Type} (alts : Option Char → Option Char → List (Nat × Nat))
    (k : Nat → Str → Option β) (s : Str) : Option β :=
  firstSome (fun p => k p.1 (s.drop p.2)) (alts s.head? s.tail.head?)

/-- `[n, n-1, …, 1]` -/
def downFrom : Nat → List Nat
  | 0 => []
  | n + 1 => (n + 1) :: downFrom n

/-- `\s+` (greedy, gives back one character at a time) -/
def wsStage {β : Type} (k : Str → Option β) (s : Str) : Option β :=
  firstSome (fun n => k (s.drop n)) (downFrom (s.takeWhile isSpace).length)

def litStage {β : Type} (c : Char) (k : Str → Option β) : Str → Option β
  | x :: r => if x = c then k r else none
  | [] => none

def monthStage {β : Type} (k : Nat → Str → Option β) : Str → Option β
  | a :: b :: c :: r => match monthOfAbbr a b c with
    | some m => k m r
    | none => none
  | _ => none

/-- `(?P<Y>\d\d\d\d)` -/
def year4Stage {β : Type} (k : Nat → Str → Option β) : Str → Option β
  | a :: b :: c :: d :: r =>
    match decimalValue? a, decimalValue? b, decimalValue? c, decimalValue? d with
    | some w, some x, some y, some z => k (w * 1000 + x * 100 + y * 10 + z) r
    | _, _, _, _ => none
  | _ => none

/-- the `datetime(...)` constructor at the end of `strptime` / `datetime.replace` : range checks -/
def mkDatetime (y mo d h mi : Nat) : Except DateErr Civil :=
  if 1 ≤ y ∧ y ≤ 9999 ∧ 1 ≤ mo ∧ mo ≤ 12 ∧ 1 ≤ d ∧ d ≤ daysInMonth y mo ∧ h < 24 ∧ mi < 60 then
    .ok { year := y, month := mo, day := d, hour := h, minute := mi, second := 0 }
  else .error .valueError

/-- "match found" + "unconverted data remains" + constructor -/
def finish (r : Option ((Nat × Nat × Nat × Nat × Nat) × Str)) : Except DateErr Civil :=
  match r with
  | some ((y, mo, d, h, mi), []) => mkDatetime y mo d h mi
  | _ => .error .valueError

/-- `datetime.strptime(s, "%b %d %H:%M")` — the year defaults to 1900 (a `Feb 29` therefore raises) -/
def strptime_bdHM (s : Str) : Except DateErr Civil :=
  finish <|
    monthStage (fun mo => wsStage (altStage dayAlts fun d => wsStage (altStage hourAlts fun h =>
      litStage ':' (altStage minuteAlts fun mi rest => some ((1900, mo, d, h, mi), rest))))) s

/-- `datetime.strptime(s, "%Y %b %d %H:%M")` -/
def strptime_YbdHM (s : Str) : Except DateErr Civil :=
  finish <|
    year4Stage (fun y => wsStage (monthStage fun mo => wsStage (altStage dayAlts fun d =>
      wsStage (altStage hourAlts fun h =>
        litStage ':' (altStage minuteAlts fun mi rest => some ((y, mo, d, h, mi), rest)))))) s

/-- `datetime.strptime(s, "%b %d  %Y")` (the two blanks of the format become one `\s+`) -/
def strptime_bdY (s : Str) : Except DateErr Civil :=
  finish <|
    monthStage (fun mo => wsStage (altStage dayAlts fun d => wsStage (year4Stage fun y rest =>
      some ((y, mo, d, 0, 0), rest)))) s

/-- `d.replace(year=y)` -/
def replaceYear (c : Civil) (y : Nat) : Except DateErr Civil :=
  if 1 ≤ y ∧ y ≤ 9999 ∧ c.day ≤ daysInMonth y c.month then .ok { c with year := y }
  else .error .valueError

end Py.Time
