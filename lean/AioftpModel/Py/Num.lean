/-
  Python numeric primitives used by `aioftp.common.Throttle`, on exact rationals.
  Core imports only.  Assumed (trusted base, sampled by the C15 correspondence run):
  `round(x)` with one argument rounds to the nearest integer, ties to the even one, and returns an
  `int`; float `+ - * /` and comparisons are exact on the inputs the harness generates (dyadic
  times, power-of-two limits), so `Rat` arithmetic is what CPython computes there.
-/
namespace Py

/-- `round(x)` (one argument): nearest integer, ties go to the even integer -/
def roundHalfEven (x : Rat) : Int :=
  let f := x.floor
  let r := x - (f : Rat)
  if r < 1 / 2 then f
  else if 1 / 2 < r then f + 1
  else if f % 2 = 0 then f else f + 1

end Py
