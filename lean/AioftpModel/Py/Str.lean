/-
  Python `str` primitives used by aioftp, on `List Char`.
  Model files import nothing outside core so the driver stays Mathlib-free.
  What is *assumed* here (trusted base): that CPython's str methods behave as these
  definitions; the correspondence runs sample that assumption on every check.
-/
import AioftpModel.Generated.Unicode

namespace Py

abbrev Str := List Char

/-- membership of a code point in a sorted list of inclusive ranges -/
def inRanges (rs : List (Nat × Nat)) (n : Nat) : Bool :=
  rs.any fun r => r.1 ≤ n && n ≤ r.2

/-- `str.isspace()` on one character (table generated from the running interpreter) -/
def isSpace (c : Char) : Bool := inRanges Generated.pySpaceRanges c.toNat

/-- `c.isdigit()` on one character -/
def isDigitCh (c : Char) : Bool := inRanges Generated.pyDigitRanges c.toNat

/-- `c.isdecimal()` on one character (what `int()` accepts) -/
def isDecimalCh (c : Char) : Bool := inRanges Generated.pyDecimalRanges c.toNat

/-- `s.isdigit()` : non-empty and all characters are digits -/
def isDigit (s : Str) : Bool := !s.isEmpty && s.all isDigitCh

/-- `s.isdecimal()` : non-empty and all characters are decimal digits -/
def isDecimal (s : Str) : Bool := !s.isEmpty && s.all isDecimalCh

def isAsciiDigit (c : Char) : Bool := '0' ≤ c && c ≤ '9'

/-- `s.lstrip()` -/
def lstrip (s : Str) : Str := s.dropWhile isSpace

/-- `s.rstrip()` -/
def rstrip (s : Str) : Str := (s.reverse.dropWhile isSpace).reverse

/-- `s.strip()` -/
def strip (s : Str) : Str := lstrip (rstrip s)

/-- `s.rstrip("\r\n")` -/
def rstripCRLF (s : Str) : Str :=
  (s.reverse.dropWhile (fun c => c = '\r' || c = '\n')).reverse

/-- `s.partition(" ")` → (head, rest) ; the separator flag is dropped because the callers ignore it -/
def partitionSpace : Str → Str × Str
  | [] => ([], [])
  | c :: cs => if c = ' ' then ([], cs) else
      let (h, r) := partitionSpace cs
      (c :: h, r)

/-- `s.partition(ch)` with the found flag -/
def partitionCh (ch : Char) : Str → Str × Bool × Str
  | [] => ([], false, [])
  | c :: cs => if c = ch then ([], true, cs) else
      let (h, f, r) := partitionCh ch cs
      (c :: h, f, r)

/-- `s.split(ch)` for a single-character separator (always at least one piece) -/
def splitOn (ch : Char) : Str → List Str
  | [] => [[]]
  | c :: cs =>
    if c = ch then [] :: splitOn ch cs
    else match splitOn ch cs with
      | [] => [[c]]          -- unreachable, keeps the function total
      | h :: t => (c :: h) :: t

/-- `sep.join(parts)` for a single-character separator -/
def joinWith (ch : Char) : List Str → Str
  | [] => []
  | [x] => x
  | x :: y :: t => x ++ ch :: joinWith ch (y :: t)

/-- ASCII lower-casing plus the generated table of non-ASCII characters whose `lower()` is ASCII
    (e.g. U+212A KELVIN SIGN → 'k'); every other character is left alone — such characters can
    never spell a known verb, which is all the server uses `lower()` for. -/
def lowerCh (c : Char) : Char :=
  if 'A' ≤ c && c ≤ 'Z' then Char.ofNat (c.toNat + 32)
  else match Generated.pyLowerToAscii.find? (fun p => p.1 = c.toNat) with
    | some p => Char.ofNat p.2
    | none => c

def lower (s : Str) : Str := s.map lowerCh

def startsWith (s p : Str) : Bool := p.isPrefixOf s

/-- `s.index(ch)` : position of first occurrence, `none` = ValueError -/
def indexOf? (ch : Char) : Str → Option Nat
  | [] => none
  | c :: cs => if c = ch then some 0 else (indexOf? ch cs).map (· + 1)

/-- decimal value of a string all of whose characters are ASCII digits -/
def natOfAsciiDigits (s : Str) : Nat :=
  s.foldl (fun acc c => acc * 10 + (c.toNat - '0'.toNat)) 0

/-- `str(n)` for a natural number -/
def natToStr (n : Nat) : Str := (toString n).toList

/-- value of a decimal digit character per the generated `(lo, hi, zero)` table: code point − zero -/
def decimalValue? (c : Char) : Option Nat :=
  match Generated.pyDecimalZeros.find? (fun z => z ≤ c.toNat && c.toNat ≤ z + 9) with
  | some z => some (c.toNat - z)
  | none => none

def digitStep (acc : Option Nat) (c : Char) : Option Nat :=
  match acc, decimalValue? c with
  | some a, some d => some (a * 10 + d)
  | _, _ => none

/-- `int(s)` restricted to what `rest.isdigit()` / `rest.isdecimal()` lets through: `none` = ValueError.
    (No sign, no blanks, no underscores can be present when that predicate held.) -/
def intOfDigits? (s : Str) : Option Nat := s.foldl digitStep (some 0)

end Py
