/- Driver component `perms`: `User.get_permissions` and the `PathPermissions` wrapper (core only). -/
import AioftpModel.Driver.Codec
import AioftpModel.Model.Perms

namespace DriverPerms
open Codec Model Py

def encPP (p : PPath) : String := s!"{p.root}:{encStrs p.parts}"

def decPP (tok : String) : Option PPath :=
  match tok.splitOn ":" with
  | [r, ps] => match r.toNat?, decStrs ps with
    | some n, some l => some ⟨n, l⟩
    | _, _ => none
  | _ => none

/-- one entry: `<root>:<parts>:<r><w>` -/
def decEntry (tok : String) : Option Permission :=
  match tok.splitOn ":" with
  | [r, ps, fl] => match r.toNat?, decStrs ps, fl.toList with
    | some n, some l, [a, b] => match decBool (String.singleton a), decBool (String.singleton b) with
      | some ra, some wb => some ⟨⟨n, l⟩, ra, wb⟩
      | _, _ => none
    | _, _, _ => none
  | _ => none

def encEntry (e : Permission) : String :=
  s!"{encPP e.path}:{encBool e.readable}{encBool e.writable}"

/-- a table: `_` is the empty one, else `;`-separated entries -/
def decTable (tok : String) : Option (List Permission) :=
  if tok == "_" then some [] else
    (tok.splitOn ";").foldr (fun t acc => match acc, decEntry t with
      | some l, some e => some (e :: l)
      | _, _ => none) (some [])

/-- a permission tuple: letters `r`/`w`, `-` for the empty tuple -/
def decPerms (tok : String) : Option (List Perm) :=
  if tok == "-" then some [] else
    tok.toList.foldr (fun c acc => match acc with
      | none => none
      | some l => if c = 'r' then some (Perm.readable :: l) else if c = 'w' then some (Perm.writable :: l) else none)
      (some [])

def encOutcome : Option GuardOutcome → String
  | none => "EXC"
  | some .refused => "refused"
  | some .called => "called"
  | some .fellThrough => "fell"

def handlePerms : List String → Option String
  | ["get", table, path] => do
    let t ← decTable table; let p ← decPP path
    match getPermissions? (userPermissions t) p with
    | some e => pure (encEntry e)
    | none => pure "EXC"
  | ["isparent", entry, path] => do
    let e ← decEntry entry; let p ← decPP path
    pure (encBool (e.isParent p))
  | ["guard", verb, table, base, cwd, arg] => do
    let t ← decTable table; let b ← decPP base; let c ← decPP cwd; let a ← decStr arg
    match (verbOfName verb).bind (fun v => permOf v.guards) with
    | none => pure "noguard"
    | some ps => pure (encOutcome (permGuard? ps (userPermissions t) b c a))
  | ["guardP", verb, table, base, cwd, arg] => do
    let t ← decTable table; let b ← decPP base; let c ← decPP cwd; let a ← decPP arg
    match (verbOfName verb).bind (fun v => permOf v.guards) with
    | none => pure "noguard"
    | some ps => pure (encOutcome (permGuardP? ps (userPermissions t) b c a))
  | ["guardps", ps, table, base, cwd, arg] => do
    let ps ← decPerms ps
    let t ← decTable table; let b ← decPP base; let c ← decPP cwd; let a ← decStr arg
    pure (encOutcome (permGuard? ps (userPermissions t) b c a))
  | _ => none

end DriverPerms
