/- Driver components of C18:
   `sessp …` : the `sess` protocol, stepped with `stepB Backend.posix`;
   `bk …`    : backend-API level — a tree, a backend (`mem` | `posix`), one operation per line. -/
import AioftpModel.Driver.Codec
import AioftpModel.Driver.Session
import AioftpModel.Model.SessionB

namespace DriverBackends
open Codec Model Model.Session Model.SessionB Model.Backends Model.Posix Py

/-- `sess` with the POSIX backend: everything except `ev` is delegated -/
def handleSessP (st : DriverSession.DState) : List String → DriverSession.DState × Option String
  | "ev" :: sid :: rest =>
    match sid.toNat?.bind (fun i => (st.sessions[i]?).map (fun s => (i, s))) with
    | none => (st, none)
    | some (i, s) =>
      let ev : Option Event := match rest with
        | ["connect"] => some .connect
        | ["dataconnect"] => some .dataConnect
        | ["finish"] => some .finish
        | ["line", raw, payload] => match decStr raw, decBytes payload with
          | some r, some p => some (.line r p)
          | _, _ => none
        | _ => none
      match ev with
      | none => (st, none)
      | some ev =>
        let (w', s', o) := stepB Backend.posix st.cfg st.world s ev
        ({ st with world := w', sessions := DriverSession.setAt st.sessions i s' },
          some (DriverSession.encState w' s' o))
  | toks => DriverSession.handle st toks

structure ApiState where
  posix : Bool := false
  fs : Fs := []

def encErrno : Errno → String
  | .ENOENT => "ENOENT" | .ENOTDIR => "ENOTDIR" | .EEXIST => "EEXIST" | .EISDIR => "EISDIR"
  | .ENOTEMPTY => "ENOTEMPTY" | .EINVAL => "EINVAL" | .EBUSY => "EBUSY" | .EBADF => "EBADF"

def decOptNat (t : String) : Option (Option Nat) :=
  if t == "n" then some none else (t.toNat?).map some

def decAct : List String → Option Posix.Act
  | ["none"] => some .nothing
  | ["read", n] => (decOptNat n).map .read
  | ["write", d] => (decBytes d).map .write
  | _ => none

def encNames (l : List Path) : String :=
  let items := DriverSession.sortStrings (l.map (fun p => encStr (p.getLast?.getD [])))
  if items.isEmpty then "~" else "|".intercalate items

def line (res : String) (fs : Fs) : String := s!"res={res} fs={DriverSession.encFs fs}"

/-- unit-valued operation -/
def resUnitP (fs : Fs) : Posix.Res Fs → Fs × String
  | .ok fs' => (fs', "ok")
  | .error e => (fs, "err:" ++ encErrno e)

def resUnitM (fs : Fs) : Option Fs → Fs × String
  | some fs' => (fs', "ok")
  | none => (fs, "err")

def apiOp (st : ApiState) : List String → Option (Fs × String)
  | ["exists", p] => do
    let p ← decStrs p
    pure (st.fs, encBool (if st.posix then Posix.exists_ st.fs p else Fs.exists_ st.fs p))
  | ["is_dir", p] => do
    let p ← decStrs p
    pure (st.fs, encBool (if st.posix then Posix.isDir st.fs p else Fs.isDir st.fs p))
  | ["is_file", p] => do
    let p ← decStrs p
    pure (st.fs, encBool (if st.posix then Posix.isFile st.fs p else Fs.isFile st.fs p))
  | ["mkdir", p, par, eok] => do
    let p ← decStrs p; let par ← decBool par; let eok ← decBool eok
    pure (if st.posix then resUnitP st.fs (Posix.mkdir st.fs p par eok) else resUnitM st.fs (MemApi.mkdir st.fs p par eok))
  | ["rmdir", p] => do
    let p ← decStrs p
    pure (if st.posix then resUnitP st.fs (Posix.rmdir st.fs p) else resUnitM st.fs (Fs.rmdir st.fs p))
  | ["unlink", p] => do
    let p ← decStrs p
    pure (if st.posix then resUnitP st.fs (Posix.unlink st.fs p) else resUnitM st.fs (Fs.unlink st.fs p))
  | ["rename", a, b] => do
    let a ← decStrs a; let b ← decStrs b
    pure (if st.posix then resUnitP st.fs (Posix.rename st.fs a b)
      else
        let (fs', ok) := Fs.rename st.fs a b
        (fs', if ok then "ok" else "err"))
  | ["stat", p] => do
    let p ← decStrs p
    let enc : Option Nat → String := fun
      | none => "D"
      | some n => "F" ++ toString n
    pure (st.fs, if st.posix then
        (match Posix.stat st.fs p with
          | .ok r => enc r
          | .error e => "err:" ++ encErrno e)
      else
        (match MemApi.stat st.fs p with
          | some r => enc r
          | none => "err"))
  | ["list", p] => do
    let p ← decStrs p
    pure (st.fs, encNames (if st.posix then Posix.list st.fs p else MemApi.list st.fs p))
  | "file" :: p :: mode :: seek :: act => do
    let p ← decStrs p; let mode ← mode.toNat?; let seek ← decOptNat seek; let act ← decAct act
    pure (if st.posix then
        (match Posix.fileOp st.fs p mode seek act with
          | (fs', .ok b) => (fs', "ok:" ++ encBytes b)
          | (fs', .error e) => (fs', "err:" ++ encErrno e))
      else
        (match MemApi.fileOp st.fs p mode seek act with
          | (fs', some b) => (fs', "ok:" ++ encBytes b)
          | (fs', none) => (fs', "err")))
  | _ => none

def handleApi (st : ApiState) : List String → ApiState × Option String
  | ["init", which, entries] =>
    let es := if entries == "~" then some [] else (entries.splitOn ";").mapM DriverSession.decEntry
    match es with
    | some es => ({ posix := which == "posix", fs := es }, some "ok")
    | none => (st, none)
  | "op" :: rest =>
    match apiOp st rest with
    | some (fs', r) => ({ st with fs := fs' }, some (line r fs'))
    | none => (st, none)
  | _ => (st, none)

end DriverBackends
