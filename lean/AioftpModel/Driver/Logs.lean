/- Driver component `logs`: the records of `parse_command`, `BaseClient.command`, `parse_line`, a
   server-side login history and a whole `Client.login` exchange (core only). -/
import AioftpModel.Driver.Codec
import AioftpModel.Model.Logs

namespace DriverLogs
open Codec Model Model.Logs Py

/-- optional string: `*` is `None` -/
def decOptStr (tok : String) : Option (Option Str) :=
  if tok == "*" then some none else (decStr tok).map some

/-- one user `login/password` -/
def decUser (tok : String) : Option UserRec :=
  match tok.splitOn "/" with
  | [l, p] => match decOptStr l, decOptStr p with
    | some l, some p => some ⟨l, p⟩
    | _, _ => none
  | _ => none

/-- user table: `_` empty, else `;`-separated -/
def decUsers (tok : String) : Option (List UserRec) :=
  if tok == "_" then some [] else
    (tok.splitOn ";").foldr (fun t acc => match acc, decUser t with
      | some l, some u => some (u :: l)
      | _, _ => none) (some [])

def handleLogs : List String → Option String
  | ["parse", line] => do
    let l ← decStr line
    match recvCommand? censorList l with
    | none => pure "EXC:ConnectionResetError"
    | some r => pure s!"{encStr r.1} {encStr r.2.1} {encStr r.2.2}"
  | ["clientcmd", command, censor] => do
    let c ← decStr command
    let ca ← if censor == "*" then some none else censor.toNat?.map some
    match clientCommandOutcome c ca with
    | none => pure "EXC:ValueError"
    | some none => pure "none"
    | some (some r) => pure (encStr r)
  | ["clientline", line] => do
    let l ← decStr line
    match clientParseLine? l with
    | none => pure "EXC:ConnectionResetError"
    | some r => pure s!"{encStr r.1} {encStr r.2.1} {encStr r.2.2}"
  | ["serverrun", users, lines] => do
    let us ← decUsers users; let ls ← decStrs lines
    match serverRun (loginEnv us) initState ls with
    | none => pure "unmodelled"
    | some (recs, reps, st) => pure s!"{encStrs recs} {encStrs reps} {encBool st.user.isSome}{encBool st.logged}"
  | ["login", users, user, pw, account] => do
    let us ← decUsers users; let u ← decStr user; let p ← decStr pw; let a ← decStr account
    match loginSession (loginEnv us) initState u p a 16 with
    | none => pure "unmodelled"
    | some (c, s) => pure s!"{encStrs c} {encStrs s}"
  | _ => none

end DriverLogs
