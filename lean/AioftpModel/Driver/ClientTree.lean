/- Driver component `ct`: the client tree operations of `Model.ClientTree` on explicit (remote, local) trees. -/
import AioftpModel.Driver.Codec
import AioftpModel.Driver.Session
import AioftpModel.Model.ClientTree

namespace DriverClientTree
open Codec Model Model.ClientTree Py DriverSession

def decFs (tok : String) : Option Fs :=
  if tok == "~" then some [] else (tok.splitOn ";").mapM decEntry

def encErr : Err → String
  | .status c => s!"err StatusCodeError:{c}"
  | .pathIO => "err PathIOError"
  | .valueError => "err ValueError"
  | .fuel => "err Fuel"

def encKind : Kind → String
  | .file => "F"
  | .dir => "D"

def encListing (l : List (PPath × Kind)) : String :=
  let items := sortStrings (l.map fun e => encPPath e.1 ++ "=" ++ encKind e.2)
  if items.isEmpty then "~" else ";".intercalate items

def decRemote (mlsx cwd fs : String) : Option Remote := do
  let m ← decBool mlsx
  let c ← decStr cwd
  let f ← decFs fs
  pure { fs := f, cwd := PPath.parse c, mlsx := m }

def decLocal (cwd fs : String) : Option Local := do
  let c ← decStr cwd
  let f ← decFs fs
  pure { fs := f, cwd := PPath.parse c }

def handleClientTree : List String → Option String
  | ["upload", mlsx, rcwd, rfs, lcwd, lfs, src, dst, wi] => do
    let r ← decRemote mlsx rcwd rfs; let l ← decLocal lcwd lfs
    let s ← decStr src; let d ← decStr dst; let w ← decBool wi
    pure (match upload l r (PPath.parse s) (PPath.parse d) w with
      | .ok r' => "ok " ++ encFs r'.fs
      | .error e => encErr e)
  | ["download", mlsx, rcwd, rfs, lcwd, lfs, src, dst, wi] => do
    let r ← decRemote mlsx rcwd rfs; let l ← decLocal lcwd lfs
    let s ← decStr src; let d ← decStr dst; let w ← decBool wi
    pure (match downloadTop l r (PPath.parse s) (PPath.parse d) w with
      | .ok l' => "ok " ++ encFs l'.fs
      | .error e => encErr e)
  | ["list", mlsx, rcwd, rfs, path, recursive] => do
    let r ← decRemote mlsx rcwd rfs
    let p ← decStr path; let rc ← decBool recursive
    pure (match (if rc then listRecursive r (PPath.parse p) else listDir r (PPath.parse p)) with
      | .ok l => "ok " ++ encListing l
      | .error e => encErr e)
  | ["remove", mlsx, rcwd, rfs, path] => do
    let r ← decRemote mlsx rcwd rfs
    let p ← decStr path
    pure (match removeTop r (PPath.parse p) with
      | .ok r' => "ok " ++ encFs r'.fs
      | .error e => encErr e)
  | ["mkdir", mlsx, rcwd, rfs, path] => do
    let r ← decRemote mlsx rcwd rfs
    let p ← decStr path
    pure (match makeDirectory r (PPath.parse p) with
      | .ok r' => "ok " ++ encFs r'.fs
      | .error e => encErr e)
  | ["stat", mlsx, rcwd, rfs, path] => do
    let r ← decRemote mlsx rcwd rfs
    let p ← decStr path
    pure (match stat r (PPath.parse p) with
      | .ok k => "ok " ++ encKind k
      | .error e => encErr e)
  | _ => none

end DriverClientTree
