/- Driver component `xfer`: the pure transfer model on one line per transfer (core only, no Mathlib). -/
import AioftpModel.Driver.Codec
import AioftpModel.Model.Transfer

namespace DriverTransfer
open Codec Model Model.Transfer Py

/-- optional content: `n` = no such file, `s<hex>` = a file (`s-` = empty file) -/
def decOptBytes (t : String) : Option (Option Bytes) :=
  if t == "n" then some none
  else if t.startsWith "s" then (decBytes (t.drop 1).toString).map some else none

def encOptBytes : Option Bytes → String
  | none => "n"
  | some b => "s" ++ encBytes b

def decBackend (t : String) : Option Backend :=
  if t == "m" then some .memory else if t == "p" then some .posix else none

def decVerb (t : String) : Option UpVerb :=
  if t == "stor" then some .stor else if t == "appe" then some .appe else none

/-- observable events only: what the spying backend, the data transport and the client can see -/
def encEv : Ev → Option String
  | .open_ m => some s!"O{m.toNat}"
  | .openFailed m => some s!"F{m.toNat}"
  | .seek k => some s!"S{k}"
  | .fileRead req _ => some s!"R{req}"
  | .fileWrite n => some s!"W{n}"
  | .streamRead _ => none
  | .streamWrite n => some s!"w{n}"
  | .streamClose => some "X"
  | .fileClose => some "C"
  | .reply c => some s!"{c}"

def encTrace (t : List Ev) : String :=
  let l := t.filterMap encEv
  if l.isEmpty then "~" else ",".intercalate l

def handleTransfer : List String → Option String
  | ["stor", be, old, verb, off, bs, payload, sizes] => do
    let be ← decBackend be; let old ← decOptBytes old; let v ← decVerb verb
    let k ← off.toNat?; let bs ← bs.toNat?; let payload ← decBytes payload; let sizes ← decNats sizes
    let chunks := splitBySizes sizes payload
    let reads := chunks ++ [[]]
    let valid := decide (ValidChunking bs payload chunks)
    pure s!"stored={encOptBytes (storResult be old v k reads)} valid={encBool valid} trace={encTrace (storTrace be old v k reads)}"
  | ["retr", old, off, bs, n, sizes] => do
    let old ← decOptBytes old; let k ← off.toNat?; let bs ← bs.toNat?; let n ← n.toNat?; let sizes ← decNats sizes
    match retrBlocks old k bs with
    | none => pure s!"data=n blocks=~ trace={encTrace (retrTrace old k bs)} client=n valid=0"
    | some blocks =>
      let data := blocks.flatten
      let pieces := splitBySizes sizes data
      let valid := decide (ValidChunking n data pieces)
      pure s!"data=s{encBytes data} blocks={encNats (blocks.map List.length)} trace={encTrace (retrTrace old k bs)} client=s{encBytes (clientCollect (pieces ++ [[]]))} valid={encBool valid}"
  | ["spec", old, verb, off, payload] => do
    let old ← decOptBytes old; let v ← decVerb verb; let k ← off.toNat?; let payload ← decBytes payload
    pure (encBytes (storSpec (old.getD []) v k payload))
  | _ => none

end DriverTransfer
