/- Line protocol for the throttle model (C15).  Core + model imports only.

   rationals  `num/den` (or a bare integer);  optional values  `N` = None;
   throttle   `limit;reset;start;sum`;  store  `|`-separated throttles;  ids  `1,2` / `~`.  -/
import AioftpModel.Driver.Codec
import AioftpModel.Model.Throttle

namespace DriverThrottle
open Codec Model.Throttling Py

def decRat (tok : String) : Option Rat :=
  match tok.splitOn "/" with
  | [n] => (fun (i : Int) => (i : Rat)) <$> n.toInt?
  | [n, d] => match n.toInt?, d.toNat? with
    | some i, some k => if k = 0 then none else some (mkRat i k)
    | _, _ => none
  | _ => none

def encRat (r : Rat) : String := s!"{r.num}/{r.den}"

def decOpt {α : Type} (f : String → Option α) (tok : String) : Option (Option α) :=
  if tok == "N" then some none else some <$> f tok

def encOpt {α : Type} (f : α → String) : Option α → String
  | none => "N"
  | some a => f a

def decThrottle (tok : String) : Option Throttle :=
  match tok.splitOn ";" with
  | [l, r, s, m] => do
    let l ← decOpt decInt l; let r ← decRat r; let s ← decOpt decRat s; let m ← decInt m
    pure ⟨l, r, s, m⟩
  | _ => none

def encThrottle (t : Throttle) : String :=
  s!"{encOpt toString t.limit};{encRat t.resetRate};{encOpt encRat t.start};{t.sum}"

def decList {α : Type} (sep : String) (f : String → Option α) (tok : String) : Option (List α) :=
  if tok == "~" then some [] else (tok.splitOn sep).mapM f

def encList {α : Type} (sep : String) (f : α → String) (l : List α) : String :=
  if l.isEmpty then "~" else sep.intercalate (l.map f)

def decStore : String → Option Store := decList "|" decThrottle
def encStore : Store → String := encList "|" encThrottle

def encFlags (l : List Bool) : String :=
  if l.isEmpty then "-" else String.ofList (l.map fun b => if b then '1' else '0')

def decStep (tok : String) : Option IOStep :=
  match tok.splitOn ":" with
  | [n, d, g] => do
    let n ← n.toNat?; let d ← decRat d; let g ← decRat g
    pure ⟨n, d, g⟩
  | _ => none

def encRec (r : IORec) : String := s!"{encRat r.called}:{encRat r.start}:{encFlags r.folds}"

def decEv (tok : String) : Option Ev :=
  match tok.splitOn ":" with
  | ["c", j, w] => do pure (.call (← j.toNat?) (← decRat w))
  | ["b", j, t, n] => do pure (.begin (← j.toNat?) (← decRat t) (← n.toNat?))
  | ["d", j, e] => do pure (.done (← j.toNat?) (← decRat e))
  | _ => none

/-- what the harness can observe of one scheduler step -/
def evOut (s : Sys) (s' : Sys) : Ev → String
  | .call j _ => match s'.procs[j]? with
    | some ⟨_, .waiting u⟩ => encRat u
    | _ => "?"
  | .begin _ _ _ => "ok"
  | .done j _ => match s.procs[j]? with
    | some ⟨ids, .inflight st _⟩ =>
      encFlags (foldFlags s.store ids st) ++ ":" ++
        encList "+" (fun i => encOpt encThrottle s'.store[i]?) ids
    | _ => "?"

def runSys (s : Sys) (k : Nat) : List Ev → List String
  | [] => []
  | e :: es => match s.step e with
    | some s' => evOut s s' e :: runSys s' (k + 1) es
    | none => [s!"invalid@{k}"]

def decLimits4 (a b c d : String) : Option (Option Int × Option Int × Option Int × Option Int) := do
  pure (← decOpt decInt a, ← decOpt decInt b, ← decOpt decInt c, ← decOpt decInt d)

def decWOp (tok : String) : Option WireOp :=
  match tok.splitOn ":" with
  | ["C"] => some .connect
  | ["L", c, u, r, w, rc, wc] => do
    let (r, w, rc, wc) ← decLimits4 r w rc wc
    pure (.login (← c.toNat?) (← u.toNat?) ⟨r, w, rc, wc⟩)
  | _ => none

def firstIdx (l : List Nat) (x : Nat) : Nat := (l.takeWhile (· != x)).length

/-- object identity is reported as the position of the first occurrence in a fixed traversal -/
def encWiring (sv : ServerW) : String :=
  let trav : List Nat :=
    [sv.throttle.read, sv.throttle.write, sv.perConnection.read, sv.perConnection.write] ++
      sv.conns.flatMap (fun d => d.flatMap fun e => [e.2.read, e.2.write])
  let lab := firstIdx trav
  let lim (i : Nat) : String := match sv.store[i]? with
    | some t => s!"{encOpt toString t.limit}/{encRat t.resetRate}/{encOpt encRat t.start}/{t.sum}"
    | none => "?"
  let ent (e : String × StreamThrottle) : String :=
    s!"{e.1}={lab e.2.read}[{lim e.2.read}].{lab e.2.write}[{lim e.2.write}]"
  s!"{ent ("throttle", sv.throttle)} {ent ("throttle_per_connection", sv.perConnection)} " ++
    encList ";" (fun d => encList "," ent d) sv.conns

end DriverThrottle

open DriverThrottle Codec Model.Throttling Py in
def handleThrottle : List String → Option String
  | ["round", x] => do
    pure (toString (roundHalfEven (← decRat x)))
  | ["wait", t, now] => do
    let t ← decThrottle t; let now ← decRat now
    pure (match t.waitDelay now with | some d => encRat d | none => "nosleep")
  | ["append", t, n, st] => do
    let t ← decThrottle t; let n ← n.toNat?; let st ← decRat st
    pure s!"{encBool (t.folds st)} {encThrottle (t.append n st)}"
  | ["setlimit", t, v] => do
    let t ← decThrottle t; let v ← decOpt decInt v
    pure (encThrottle (t.setLimit v))
  | ["clone", t] => do
    pure (encThrottle (← decThrottle t).clone)
  | ["stream", store, ids, now, steps] => do
    let store ← decStore store; let ids ← decNats ids; let now ← decRat now
    let steps ← decList "|" decStep steps
    let (recs, sf, tf) := runStream store ids now steps
    pure s!"{encList "|" encRec recs} {encStore sf} {encRat tf}"
  | ["sys", store, procs, evs] => do
    let store ← decStore store
    let procs ← decList ";" decNats procs
    let evs ← decList "|" decEv evs
    let s : Sys := ⟨store, procs.map (fun ids => ⟨ids, .idle⟩), 0⟩
    pure (encList "|" id (runSys s 0 evs))
  | ["wiring", r, w, rc, wc, ops] => do
    let (r, w, rc, wc) ← decLimits4 r w rc wc
    let ops ← decList "|" decWOp ops
    let sv := ops.foldl ServerW.apply (ServerW.init r w rc wc)
    pure (encWiring sv)
  | ["client", r, w] => do
    let r ← decOpt decInt r; let w ← decOpt decInt w
    let c := ClientW.init r w
    let lim (i : Nat) : String := encOpt (fun (t : Throttle) => encThrottle t) c.store[i]?
    pure s!"{encList "," (fun (e : String × StreamThrottle) => s!"{e.1}={e.2.read}.{e.2.write}") c.streamDict} {lim c.throttle.read} {lim c.throttle.write}"
  | _ => none
