/- Driver component `fault`: backend-call sequence of a command and the outcome of a fault at call k. -/
import AioftpModel.Driver.Codec
import AioftpModel.Model.Faults
import AioftpModel.Model.ExcFunnel
import AioftpModel.Model.Session

namespace DriverFaults
open Codec Model Model.Faults Generated

def callName : Call → String
  | .exists_ => "exists" | .isDir => "is_dir" | .isFile => "is_file" | .stat => "stat" | .listStep => "list"
  | .mkdir => "mkdir" | .rmdir => "rmdir" | .unlink => "unlink" | .rename => "rename" | .open_ => "open"
  | .seek => "seek" | .read => "read" | .write => "write" | .close => "close"

def decShape (file entries blocks offset : String) : Option Shape := do
  let f ← decBool file
  let es ← if entries == "~" then some [] else (entries.splitOn ",").mapM decBool
  let b ← blocks.toNat?
  let o ← decBool offset
  pure { targetIsFile := f, entries := es, blocks := b, offset := o }

/-- `fault calls <verb> <file> <entries> <blocks> <offset>` → call names of the fault-free program
    `fault run <verb> <file> <entries> <blocks> <offset> <k|n>` → replies, dataClosed, faulted call -/
def handleFaults : List String → Option String
  | ["calls", verb, f, es, b, o] => do
    let v ← Session.verbOf verb.toList
    let sh ← decShape f es b o
    pure (",".intercalate ((backendCalls (program v sh)).map callName))
  | ["run", verb, f, es, b, o, k] => do
    let v ← Session.verbOf verb.toList
    let sh ← decShape f es b o
    let k ← if k == "n" then some none else (k.toNat?).map some
    let s := run v sh k
    let fc := match s.faulted with | some c => callName c | none => "n"
    pure s!"replies={encNats s.replies} dataclosed={encBool s.dataClosed} owns={encBool s.ownsData} faulted={fc}"
  | ["funnel", name] =>
    -- what leaves a backend method under `universal_exception` when it raises `name`, and the dispatcher's answer
    match Model.ExcFunnel.Exc.all.find? (fun e => e.sourceName == some name) with
    | none => none
    | some e =>
      let r := Model.ExcFunnel.universalException Generated.PathIO.universalExceptionPassThrough Generated.PathIO.universalExceptionWrapsTheRest e
      let rs := match r with | .pathIOError => "PathIOError" | .same _ => "same"
      let f := match Model.ExcFunnel.fateNow e with | .answered451 => "451" | .sessionEnds => "session-ends" | .propagates => "propagates"
      some s!"{rs} {f}"
  | _ => none

end DriverFaults
