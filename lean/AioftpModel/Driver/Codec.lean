/- Line-protocol codec shared by all driver components (core only). -/
import AioftpModel.Py.Str

namespace Codec
open Py

/-- a string travels as comma-separated decimal code points; `-` is the empty string -/
def decStr (tok : String) : Option Str :=
  if tok == "-" then some [] else
    (tok.splitOn ",").foldr (fun t acc => match acc, t.toNat? with
      | some l, some n => if n < 0xd800 || (0xdfff < n && n < 0x110000) then some (Char.ofNat n :: l) else none
      | _, _ => none) (some [])

def encStr (s : Str) : String :=
  if s.isEmpty then "-" else ",".intercalate (s.map fun c => toString c.toNat)

/-- a list of strings: `~` is the empty list, else `|`-separated encoded strings -/
def decStrs (tok : String) : Option (List Str) :=
  if tok == "~" then some [] else
    (tok.splitOn "|").foldr (fun t acc => match acc, decStr t with
      | some l, some s => some (s :: l)
      | _, _ => none) (some [])

def encStrs (l : List Str) : String :=
  if l.isEmpty then "~" else "|".intercalate (l.map encStr)

/-- bytes travel as hex; `-` is empty -/
def hexVal (c : Char) : Option Nat :=
  if '0' ≤ c && c ≤ '9' then some (c.toNat - '0'.toNat)
  else if 'a' ≤ c && c ≤ 'f' then some (c.toNat - 'a'.toNat + 10)
  else none

def decBytesAux : List Char → Option (List Nat)
  | [] => some []
  | [_] => none
  | a :: b :: r => match hexVal a, hexVal b, decBytesAux r with
    | some x, some y, some l => some ((x * 16 + y) :: l)
    | _, _, _ => none

def decBytes (tok : String) : Option (List Nat) :=
  if tok == "-" then some [] else decBytesAux tok.toList

def hexDigit (n : Nat) : Char :=
  if n < 10 then Char.ofNat (n + '0'.toNat) else Char.ofNat (n - 10 + 'a'.toNat)

def encBytes (l : List Nat) : String :=
  if l.isEmpty then "-" else String.ofList (l.flatMap fun b => [hexDigit (b / 16), hexDigit (b % 16)])

def decNats (tok : String) : Option (List Nat) :=
  if tok == "~" then some [] else
    (tok.splitOn ",").foldr (fun t acc => match acc, t.toNat? with
      | some l, some n => some (n :: l)
      | _, _ => none) (some [])

def encNats (l : List Nat) : String :=
  if l.isEmpty then "~" else ",".intercalate (l.map toString)

def decBool (tok : String) : Option Bool :=
  if tok == "1" then some true else if tok == "0" then some false else none

def encBool (b : Bool) : String := if b then "1" else "0"

def decInt (tok : String) : Option Int := tok.toInt?

end Codec
