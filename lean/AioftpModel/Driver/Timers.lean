/- Driver component `timers`: drop / 425 / give-up times predicted by the arming logic (milliseconds). -/
import AioftpModel.Driver.Codec
import AioftpModel.Model.Timers

namespace DriverTimers
open Codec Model.Timers

def decOpt (t : String) : Option (Option Nat) := if t == "n" then some none else (t.toNat?).map some
def encOpt : Option Nat → String
  | none => "n"
  | some k => toString k

def handleTimers : List String → Option String
  | ["idle", idle, t0, ls] => do
    let i ← decOpt idle; let t ← t0.toNat?; let l ← decNats ls
    pure s!"drop={encOpt (idleDrop i t l)} served={encNats (linesServed i t l)}"
  | ["wait", w, tau, conn] => do
    let w ← decOpt w; let t ← tau.toNat?; let c ← decOpt conn
    pure (match dataWait w t c with
      | none => "never"
      | some (.inl x) => s!"425@{x}"
      | some (.inr x) => s!"start@{x}")
  | ["stall", s, start, acts] => do
    let s ← decOpt s; let t ← start.toNat?; let a ← decNats acts
    pure s!"giveup={encOpt (dataStall s t a)}"
  | _ => none

end DriverTimers
