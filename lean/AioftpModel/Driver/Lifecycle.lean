/- Driver component `life`: the model's prediction of the ledger for a crash-point class. -/
import AioftpModel.Driver.Codec
import AioftpModel.Model.Lifecycle

namespace DriverLifecycle
open Codec Model.Lifecycle

/-- a representative state of the class (undispatched?, worker inside backend open?, handler inside listener
    start-up?, port pool configured?) -/
def rep (undisp inOpen inListener pool : Bool) : Sess :=
  { dispatched := !undisp,
    worker := if inOpen then some ⟨.opening⟩ else none,
    listener := if inListener then .starting pool else .none }

def handleLife : List String → Option String
  | ["cut", kind, u, o, l, p, h] => do
    let u ← decBool u; let o ← decBool o; let l ← decBool l; let p ← decBool p; let h ← decBool h
    let s := rep u o l p
    if kind == "vanish" then pure (if peerVanishVisible s h = [] then "clean" else "leak")
    else if kind == "close" then
      let r := serverClose [s]
      pure (if r.1 = [] && r.2 then "clean" else "leak")
    else none
  | _ => none

end DriverLifecycle
