/- Driver component `names`: C08 codecs and the C19 client parsers (core only, no Mathlib). -/
import AioftpModel.Driver.Codec
import AioftpModel.Model.ListingParse

namespace DriverNames
open Codec Model Model.Names Model.ListingParse Py Py.StrErr Py.Utf8

def encPPath (p : PPath) : String := s!"{p.root}:{encStrs p.parts}"

def decPPath (tok : String) : Option PPath :=
  match tok.splitOn ":" with
  | [r, ps] => match r.toNat?, decStrs ps with
    | some n, some l => some ⟨n, l⟩
    | _, _ => none
  | _ => none

def encDict (d : Info) : String := encStrs (d.flatMap fun p => [p.1, p.2])

def decDict (tok : String) : Option Info := do
  let l ← decStrs tok
  let rec go : List Str → Option Info
    | [] => some []
    | [_] => none
    | k :: v :: r => (go r).map ((k, v) :: ·)
  go l

def encErr (e : PyErr) : String := "err:" ++ e.name

def encEntry : Except PyErr ListEntry → String
  | .ok (p, d) => s!"ok {encPPath p} {encDict d}"
  | .error e => encErr e

/-- a recorded oracle for the opaque date parsers: alternating (argument, outcome); outcome is
    `o<text>` for a returned string or `e<Class>` for a raised exception.  An argument the real code
    never asked about is answered with `Other:date-query-mismatch`, which the harness reports. -/
def mkOracle (tbl : List Str) : Str → Except PyErr Str := fun q =>
  let rec go : List Str → Except PyErr Str
    | k :: v :: r =>
      if k = q then
        match v with
        | 'o' :: t => .ok t
        | 'e' :: t =>
          let n := String.ofList t
          if n = "ValueError" then .error .ValueError
          else if n = "KeyError" then .error .KeyError
          else if n = "IndexError" then .error .IndexError
          else if n = "TypeError" then .error .TypeError
          else if n = "OverflowError" then .error .OverflowError
          else .error (.Other n)
        | _ => .error (.Other "bad-oracle")
      else go r
    | _ => .error (.Other "date-query-mismatch")
  go tbl

def encInt (i : Int) : String := toString i

/-- a list of byte strings: `~` is the empty list, else `|`-separated hex strings -/
def decBytesList (tok : String) : Option (List RawLine) :=
  if tok == "~" then some [] else
    (tok.splitOn "|").foldr (fun t acc => match acc, decBytes t with
      | some l, some b => some (b :: l)
      | _, _ => none) (some [])

def encEntries (l : List ListEntry) : String :=
  if l.isEmpty then "~" else ";".intercalate (l.map fun e => s!"{encPPath e.1}/{encDict e.2}")

def handleNames : List String → Option String
  | ["valid", n] => do
    let n ← decStr n
    pure (encBool (decide (ValidName n)))
  | ["cmd", pre, st, typed, path] => do
    let pre ← decStr pre; let st ← decBool st; let typed ← decBool typed; let path ← decStr path
    let c := clientCmd pre st (clientArg typed path)
    let (v, r) := srvParseCommand (wireLine c)
    pure s!"{encStr c} {encStr v} {encStr r}"
  | ["cd", path] => do
    let path ← decStr path
    let c := changeDirectoryCmd path
    let (v, r) := srvParseCommand (wireLine c)
    pure s!"{encStr c} {encStr v} {encStr r}"
  | ["parsecmd", line] => do
    let line ← decStr line
    let (v, r) := srvParseCommand line
    pure s!"{encStr v} {encStr r}"
  | ["fmtpwd", p] => do
    let p ← decPPath p
    pure (encStr (replyRest ['2', '5', '7'] (fmtPwd p)))
  | ["pdr", s] => do
    let s ← decStr s
    pure (encPPath (parseDirectoryResponse s))
  | ["pwdrt", p] => do
    let p ← decPPath p
    pure (encPPath (pwdSeenByClient p))
  | ["mlsxbuild", facts, name] => do
    let f ← decDict facts; let n ← decStr name
    pure (encStr (buildMlsxString f n))
  | ["mlsxparse", s] => do
    let s ← decStr s
    let (p, d) := parseMlsxLine s
    pure s!"ok {encPPath p} {encDict d}"
  | ["mlsxbytes", b] => do
    let b ← decBytes b
    pure (encEntry (parseMlsxLineBytes b))
  | ["mlst", s] => do
    let s ← decStr s
    pure (encStr (mlstInfoLine s))
  | ["filemode", m] => do
    let m ← m.toNat?
    pure (encStr (filemode m))
  | ["listbuild", m, nl, sz, mt, n] => do
    let m ← m.toNat?; let nl ← nl.toNat?; let sz ← sz.toNat?; let mt ← decStr mt; let n ← decStr n
    pure (encStr (buildListString (filemode m) nl sz mt n))
  | ["unixmode", s] => do
    let s ← decStr s
    pure (match parseUnixMode s with | .ok m => s!"ok {m}" | .error e => encErr e)
  | ["listunix", b, dates] => do
    let b ← decBytes b; let t ← decStrs dates
    pure (encEntry (parseListLineUnix (mkOracle t) b))
  | ["listwin", b, dates] => do
    let b ← decBytes b; let t ← decStrs dates
    pure (encEntry (parseListLineWindows (mkOracle t) b))
  | ["listchain", b, ud, wd] => do
    let b ← decBytes b; let u ← decStrs ud; let w ← decStrs wd
    pure (encEntry (parseListLine (mkOracle u) (mkOracle w) b))
  | ["liststep", kind, path, b, ud, wd] => do
    let path ← decPPath path; let b ← decBytes b; let u ← decStrs ud; let w ← decStrs wd
    let parse : RawLine → Except PyErr ListEntry :=
      if kind = "mlsd" then parseMlsxLineBytes else parseListLine (mkOracle u) (mkOracle w)
    pure (match listStep parse path b with
      | .ok none => "skip"
      | .ok (some (p, d)) => s!"ok {encPPath p} {encDict d}"
      | .error e => encErr e)
  | ["listlines", kind, path, bs, ud, wd] => do
    let path ← decPPath path; let bs ← decBytesList bs; let u ← decStrs ud; let w ← decStrs wd
    let parse : RawLine → Except PyErr ListEntry :=
      if kind = "mlsd" then parseMlsxLineBytes else parseListLine (mkOracle u) (mkOracle w)
    pure (match listLines parse path bs with
      | .ok es => s!"ok {encEntries es}"
      | .error e => encErr e)
  | ["pasv", s] => do
    let s ← decStr s
    pure (match parsePasvResponse s with
      | .ok (ip, port) => s!"ok {encStr ip} {encInt port}"
      | .error e => encErr e)
  | ["epsv", s] => do
    let s ← decStr s
    pure (match parseEpsvResponse s with
      | .ok port => s!"ok {encInt port}"
      | .error e => encErr e)
  | ["decode", b] => do
    let b ← decBytes b
    pure (match decodeUtf8E b with | .ok s => s!"ok {encStr s}" | .error e => encErr e)
  | ["int", s] => do
    let s ← decStr s
    pure (match pyInt s with | .ok i => s!"ok {encInt i}" | .error e => encErr e)
  | _ => none

end DriverNames
