/- Driver component `sess`: stateful replay of event histories through `Model.Session.step`. -/
import AioftpModel.Driver.Codec
import AioftpModel.Model.Session

namespace DriverSession
open Codec Model Model.Session Py

structure DState where
  cfg : Cfg := { users := [], maxConn := none }
  world : World := { fs := [], serverFree := none, userFree := [] }
  sessions : List SState := []

def decOptNat (t : String) : Option (Option Nat) :=
  if t == "n" then some none else (t.toNat?).map some

def encOptNat : Option Nat → String
  | none => "n"
  | some k => toString k

def decOptStr (t : String) : Option (Option Str) :=
  if t == "n" then some none
  else if t.startsWith "s" then (decStr (t.drop 1).toString).map some else none

def decPPath (tok : String) : Option PPath :=
  match tok.splitOn ":" with
  | [r, ps] => match r.toNat?, decStrs ps with
    | some n, some l => some ⟨n, l⟩
    | _, _ => none
  | _ => none

def encPPath (p : PPath) : String := s!"{p.root}:{encStrs p.parts}"

def decPerm (t : String) : Option PermEntry :=
  match t.splitOn "^" with
  | [p, r, w] => do
    let p ← decPPath p; let r ← decBool r; let w ← decBool w
    pure ⟨p, r, w⟩
  | _ => none

def decUser (t : String) : Option UserCfg :=
  match t.splitOn ";" with
  | [login, pw, home, mc, perms] => do
    let login ← decOptStr login
    let pw ← decOptStr pw
    let home ← decPPath home
    let mc ← decOptNat mc
    let perms ← if perms == "~" then some [] else (perms.splitOn "+").mapM decPerm
    pure { login := login, password := pw, home := home, perms := perms, maxConn := mc }
  | _ => none

def decEntry (t : String) : Option (Path × Entry) :=
  match t.splitOn "=" with
  | [p, v] => do
    let p ← decStrs p
    if v == "D" then pure (p, .dir)
    else if v.startsWith "F" then do
      let b ← decBytes (v.drop 1).toString
      pure (p, .file b)
    else none
  | _ => none

def insertSorted (x : String) : List String → List String
  | [] => [x]
  | y :: ys => if x ≤ y then x :: y :: ys else y :: insertSorted x ys

def sortStrings (l : List String) : List String := l.foldr insertSorted []

def encFs (fs : Fs) : String :=
  let items := fs.map fun e => encStrs e.1 ++ "=" ++ (match e.2 with
    | .dir => "D"
    | .file c => "F" ++ encBytes c)
  if items.isEmpty then "~" else ";".intercalate (sortStrings items)

def encState (w : World) (s : SState) (o : Out) : String :=
  let rn := match s.renameFrom with
    | none => "n"
    | some p => "s" ++ encStrs p
  let listing := match o.listing with
    | none => "n"
    | some l => "s" ++ (let items := sortStrings (l.map encStr); if items.isEmpty then "~" else "|".intercalate items)
  s!"replies={encNats o.replies} crashed={encBool o.crashed} alive={encBool s.alive} user={encOptNat s.user} logged={encBool s.logged} cwd={encPPath s.cwd} rnfr={rn} rest={s.restartOffset} xfer={s.transferOffset} passive={encBool s.passive} data={encBool s.dataConn} out={encBytes o.data} listing={listing} srvfree={encOptNat w.serverFree} ufree={",".intercalate (w.userFree.map encOptNat)} fs={encFs w.fs}"

def setAt (l : List SState) (i : Nat) (s : SState) : List SState :=
  l.mapIdx (fun j x => if j = i then s else x)

def handle (st : DState) : List String → DState × Option String
  | "init" :: mc :: ipv6 :: users =>
    match decOptNat mc, decBool ipv6, users.mapM decUser with
    | some mc, some v6, some us =>
      let cfg : Cfg := { users := us, maxConn := mc, ipv6 := v6 }
      ({ cfg := cfg, world := { fs := [], serverFree := mc, userFree := us.map (·.maxConn) }, sessions := [] }, some "ok")
    | _, _, _ => (st, none)
  | ["fs", entries] =>
    let es := if entries == "~" then some [] else (entries.splitOn ";").mapM decEntry
    match es with
    | some es => ({ st with world := { st.world with fs := es } }, some "ok")
    | none => (st, none)
  | ["new"] =>
    ({ st with sessions := st.sessions ++ [{}] }, some (toString st.sessions.length))
  | "ev" :: sid :: rest =>
    match sid.toNat?.bind (fun i => (st.sessions[i]?).map (fun s => (i, s))) with
    | none => (st, none)
    | some (i, s) =>
      let ev : Option Event := match rest with
        | ["connect"] => some .connect
        | ["dataconnect"] => some .dataConnect
        | ["finish"] => some .finish
        | ["line", raw, payload] => match decStr raw, decBytes payload with
          | some r, some p => some (.line r p)
          | _, _ => none
        | _ => none
      match ev with
      | none => (st, none)
      | some ev =>
        let (w', s', o) := step st.cfg st.world s ev
        ({ st with world := w', sessions := setAt st.sessions i s' }, some (encState w' s' o))
  | _ => (st, none)

end DriverSession
