/- Driver component `framing` (C06): one operation per line, canonical one-line answers. Core only. -/
import AioftpModel.Driver.Codec
import AioftpModel.Model.Framing

namespace DriverFraming
open Codec Model Py

/-- list of byte strings: `~` empty list, else `|`-separated hex (`-` = empty byte string) -/
def decBytesList (tok : String) : Option (List Bytes) :=
  if tok == "~" then some [] else
    (tok.splitOn "|").foldr (fun t acc => match acc, decBytes t with
      | some l, some b => some (b :: l)
      | _, _ => none) (some [])

def encBytesList (l : List Bytes) : String :=
  if l.isEmpty then "~" else "|".intercalate (l.map encBytes)

def decEnc (tok : String) : Option Encoding :=
  if tok == "utf8" then some .utf8 else if tok == "latin1" then some .latin1 else none

/-- `s` = a bare `str`, `l` = an iterable of `str` -/
def decStrOrList (kind tok : String) : Option StrOrList :=
  if kind == "s" then (decStr tok).map .one
  else if kind == "l" then (decStrs tok).map .many
  else none

def encErr : FErr → String
  | .connectionReset => "err/ConnectionResetError"
  | .unicodeDecode => "err/UnicodeDecodeError"
  | .unicodeEncode => "err/UnicodeEncodeError"
  | .valueError => "err/ValueError"
  | .statusCode e r i => s!"err/StatusCodeError/{encStrs e}/{encStr r}/{encStrs i}"

def encReply : Except FErr Reply → String
  | .error e => encErr e
  | .ok (c, i) => s!"ok/{encStr c}/{encStrs i}"

def encOptReply : Except FErr (Option Reply) → String
  | .error e => encErr e
  | .ok none => "none"
  | .ok (some (c, i)) => s!"ok/{encStr c}/{encStrs i}"

def codeOfNat (n : Nat) : Str :=
  [Char.ofNat (48 + n / 100), Char.ofNat (48 + n / 10 % 10), Char.ofNat (48 + n % 10)]

def handleFraming : List String → Option String
  | ["write", enc, code, kind, lines, list] => do
    let e ← decEnc enc; let c ← decStr code; let ls ← decStrOrList kind lines; let l ← decBool list
    let (chunks, err) := writeResponse e c ls l
    pure s!"{encBytesList chunks} {match err with | none => "-" | some x => encErr x}"
  | ["readlines", segs] => do
    let s ← decBytesList segs
    pure (encBytesList (readlines s))
  | ["splitlines", b] => do
    let s ← decBytes b
    pure (encBytesList (splitLines s))
  | ["parse", enc, n, segs] => do
    let e ← decEnc enc; let n ← n.toNat?; let s ← decBytesList segs
    let (rs, rest) := parseN e n (readlines s)
    pure s!"{" ".intercalate (rs.map encReply)} {encBytes rest.flatten}"
  | ["command", enc, ek, exp, wk, wait, segs] => do
    let e ← decEnc enc; let ex ← decStrOrList ek exp; let w ← decStrOrList wk wait
    let s ← decBytesList segs
    let (r, rest) := command e ex w (readlines s)
    pure s!"{encOptReply r} {encBytes rest.flatten}"
  | ["matches", code, mask] => do
    let c ← decStr code; let m ← decStr mask
    pure (encBool (codeMatches c m))
  | ["matchrow", mask] => do
    let m ← decStr mask
    pure (String.ofList ((List.range 1000).map fun n => if codeMatches (codeOfNat n) m then '1' else '0'))
  | ["parsecmd", enc, segs] => do
    let e ← decEnc enc; let s ← decBytesList segs
    let (r, rest) := parseCommand e (readlines s)
    let out := match r with
      | .error x => encErr x
      | .ok (c, a) => s!"ok/{encStr c}/{encStr a}"
    pure s!"{out} {encBytes rest.flatten}"
  | ["lower", s] => do
    let s ← decStr s
    pure (encStr (lowerFull s))
  | ["encode", enc, s] => do
    let e ← decEnc enc; let s ← decStr s
    pure (match encode e s with | none => "err" | some b => encBytes b)
  | ["decode", enc, b] => do
    let e ← decEnc enc; let b ← decBytes b
    pure (match decode e b with | none => "err" | some s => encStr s)
  | _ => none

end DriverFraming
