/- Driver component `pool`: stateful replay of event histories through `Model.PortPool.step`.

   pool init <ports>                 ports: comma-separated naturals, `~` = empty list  -> state line
   pool ev connect
   pool ev pasv <sid>
   pool ev started <sid> ok|busy|other
   pool ev other <sid>
   pool ev finish <sid>                                                               -> state line

   state line:  reply=<none|created|already|421|crashed> loss=<port|-> pool=<prio:port,...|~> phases=<tok|tok...|~>
   phase tokens: i (idle)  s<port> (suspended in start_server for port)  l<port> (listening)  g (gone) -/
import AioftpModel.Driver.Codec
import AioftpModel.Model.PortPool

namespace DriverPortPool
open Codec Model.PortPool

structure DState where
  st : State := { pool := [], sessions := [] }

def encReply : Reply → String
  | .none => "none"
  | .created => "created"
  | .already => "already"
  | .noFreePorts => "421"
  | .crashed => "crashed"

def encPhase : Phase → String
  | .idle => "i"
  | .starting _ _ p => s!"s{p}"
  | .listening p => s!"l{p}"
  | .gone => "g"

def encPool (l : List Item) : String :=
  if l.isEmpty then "~" else ",".intercalate (l.map fun x => s!"{x.1}:{x.2}")

def encPhases (l : List Phase) : String :=
  if l.isEmpty then "~" else "|".intercalate (l.map encPhase)

def encLine (st : State) (r : Reply) (loss : Option Port) : String :=
  let l := match loss with
    | none => "-"
    | some p => toString p
  s!"reply={encReply r} loss={l} pool={encPool st.pool} phases={encPhases st.sessions}"

def decOutcome : String → Option Outcome
  | "ok" => some .ok
  | "busy" => some .addrInUse
  | "other" => some .otherOSError
  | _ => none

def decEvent : List String → Option Event
  | ["connect"] => some .connect
  | ["pasv", i] => i.toNat?.map .pasv
  | ["started", i, o] => do
    let i ← i.toNat?
    let o ← decOutcome o
    pure (.started i o)
  | ["other", i] => i.toNat?.map .other
  | ["finish", i] => i.toNat?.map .finish
  -- `EPSV <argument>`: 522; whether the handler ends the session is read off the source
  | ["epsvarg", i] =>
    if Generated.Verb.epsv.closingCodes.contains 522 then i.toNat?.map .finish else i.toNat?.map .other
  | _ => none

def handle (d : DState) : List String → DState × Option String
  | ["init", ports] =>
    match decNats ports with
    | some ps =>
      let st := initState ps
      ({ st := st }, some (encLine st .none none))
    | none => (d, none)
  | "ev" :: rest =>
    match decEvent rest with
    | some e =>
      let loss := lossOf facts d.st e
      let (st', r) := step facts d.st e
      ({ st := st' }, some (encLine st' r loss))
    | none => (d, none)
  | _ => (d, none)

/-- stateless entry point kept for the brief's interface: a whole history on one line,
    `run <ports> <ev>;<ev>;...` with `_` for the spaces inside an event -/
def handlePortPool : List String → Option String
  | ["run", ports, evs] => do
    let ps ← decNats ports
    let es ← (evs.splitOn ";").mapM (fun t => decEvent ((t.splitOn "_").filter (· ≠ "")))
    let st := run facts (initState ps) es
    pure (encLine st .none none)
  | _ => none

end DriverPortPool
