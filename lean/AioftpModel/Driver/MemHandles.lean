/- Driver component `memh`: one schedule of `Model.MemHandles` on a node, as the source has it now.

   memh <content hex> <events>       events: `,`-separated  o<h>:<k>  r<h>:<n>  p<k>   (`~` = none)
     -> for files 0..3, `|`-separated:  <got hex>:<done 0|1>:<start>:<pos>                                   -/
import AioftpModel.Driver.Codec
import AioftpModel.Model.MemHandles

namespace DriverMemHandles
open Codec Model.MemHandles

def decPair (s : String) : Option (Nat × Nat) :=
  match s.splitOn ":" with
  | [a, b] => match a.toNat?, b.toNat? with
    | some x, some y => some (x, y)
    | _, _ => none
  | _ => none

def decEv (tok : String) : Option Ev :=
  match tok.toList with
  | 'o' :: r => (decPair (String.ofList r)).map fun p => Ev.open p.1 p.2
  | 'r' :: r => (decPair (String.ofList r)).map fun p => Ev.read p.1 p.2
  | 'p' :: r => (String.ofList r).toNat?.map Ev.poke
  | _ => none

def decEvs (tok : String) : Option (List Ev) :=
  if tok == "~" then some [] else
    (tok.splitOn ",").foldr (fun t acc => match acc, decEv t with
      | some l, some e => some (e :: l)
      | _, _ => none) (some [])

def handleMemHandles : List String → Option String
  | [content, evs] => do
    let c ← decBytes content
    let es ← decEvs evs
    let s := runNow c es
    pure ("|".intercalate ((List.range 4).map fun h =>
      s!"{encBytes (s.got h)}:{if s.done h then 1 else 0}:{s.start h}:{s.pos h}"))
  | _ => none

end DriverMemHandles
