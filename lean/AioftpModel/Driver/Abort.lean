/- Driver component `abor`: outcome of ABOR for a verb's worker at a position. -/
import AioftpModel.Driver.Codec
import AioftpModel.Model.Abort
import AioftpModel.Model.Session

namespace DriverAbort
open Codec Model Model.Abort Generated

def handleAbort : List String → Option String
  | [verb, pos] => do
    let v ← Session.verbOf verb.toList
    let p ← match pos with
      | "none" => some Pos.none
      | "wait" => some Pos.waitData
      | "body" => some Pos.inBody
      | "unreaped" => some Pos.finishedUnreaped
      | _ => none
    let o := abor v.workerGuards p
    pure s!"replies={encNats o.replies} alive={encBool o.alive}"
  | _ => none

end DriverAbort
