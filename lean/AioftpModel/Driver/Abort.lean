/- Driver component `abor`: outcome of ABOR for a verb's worker at a position. -/
import AioftpModel.Driver.Codec
import AioftpModel.Model.Abort
import AioftpModel.Model.Session

namespace DriverAbort
open Codec Model Model.Abort Generated

def posOf : String → Option Pos
  | "none" => some Pos.none
  | "wait" => some Pos.waitData
  | "body" => some Pos.inBody
  | "unreaped" => some Pos.finishedUnreaped
  | _ => none

def handleAbort : List String → Option String
  | [verb, pos] => do
    let v ← Session.verbOf verb.toList
    let p ← posOf pos
    let o := abor v.workerGuards p
    pure s!"replies={encNats o.replies} alive={encBool o.alive}"
  | "many" :: verb :: poss => do
    let v ← Session.verbOf verb.toList
    let ps ← poss.mapM posOf
    let o := aborMany v.workerGuards ps
    pure s!"replies={encNats o.replies} alive={encBool o.alive}"
  | _ => none

end DriverAbort
