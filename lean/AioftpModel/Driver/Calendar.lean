/- Driver component `calendar`: calendar arithmetic, MLSx/LIST time formatting, `parse_ls_date`,
   `stat.filemode`, `parse_unix_mode`, decimal sizes.  Core + model imports only. -/
import AioftpModel.Driver.Codec
import AioftpModel.Model.ListDate

namespace DriverCalendar
open Codec Py Py.Time Model.Cal Model.ListDate

def encCivil (c : Civil) : String :=
  s!"{c.year} {c.month} {c.day} {c.hour} {c.minute} {c.second}"

def decNat (t : String) : Option Nat := t.toNat?

def decCivil : List String → Option Civil
  | [y, mo, d, h, mi, s] => do
    pure { year := ← decNat y, month := ← decNat mo, day := ← decNat d,
           hour := ← decNat h, minute := ← decNat mi, second := ← decNat s }
  | _ => none

def encOptStr : Option Str → String
  | some s => "ok " ++ encStr s
  | none => "out-of-domain"

def encDate : Except DateErr Str → String
  | .ok s => "ok " ++ encStr s
  | .error .valueError => "ValueError"

def encMode : Except ModeErr Nat → String
  | .ok n => s!"ok {n}"
  | .error .valueError => "ValueError"
  | .error .keyError => "KeyError"
  | .error .indexError => "IndexError"

end DriverCalendar

open DriverCalendar Codec Py Py.Time Model.Cal Model.ListDate in
def handleCalendar : List String → Option String
  | ["gmtime", t] => do
    let t ← decInt t
    pure (match gmtime t with | some c => encCivil c | none => "out-of-domain")
  | ["toseconds", y, mo, d, h, mi, s] => do
    let c ← decCivil [y, mo, d, h, mi, s]
    pure (if c.Valid then toString ((toSeconds c : Int) - epochSeconds) else "invalid")
  | ["mlsx", res, tt] => do
    let res ← decNat res; let tt ← decInt tt
    pure (encOptStr (formatMlsxTime res tt))
  | ["listmtime", res, off, mt, nowt] => do
    let res ← decNat res; let off ← decInt off; let mt ← decInt mt; let nowt ← decInt nowt
    pure (encOptStr (buildListMtime res off mt nowt))
  | ["lsdate", s, y, mo, d, h, mi, sec, us] => do
    let s ← decStr s; let c ← decCivil [y, mo, d, h, mi, sec]; let us ← decNat us
    pure (encDate (parseLsDate s c us))
  | ["roundtrip", res, off, mt, nowt, y, mo, d, h, mi, sec, us] => do
    let res ← decNat res; let off ← decInt off; let mt ← decInt mt; let nowt ← decInt nowt
    let c ← decCivil [y, mo, d, h, mi, sec]; let us ← decNat us
    pure (match buildListMtime res off mt nowt with
      | some s => encStr s ++ " " ++ encDate (parseLsDate s c us)
      | none => "out-of-domain")
  | ["hour24", h12, pm] => do
    let h ← decNat h12; let p ← decNat pm
    pure (toString (hour24 h (p != 0)))
  | ["filemode", m] => do
    let m ← decNat m
    pure (encStr (fileMode m))
  | ["unixmode", s] => do
    let s ← decStr s
    pure (encMode (parseUnixMode s))
  | ["decstr", n] => do
    let n ← decNat n
    pure (encStr (decStr n))
  | _ => none
