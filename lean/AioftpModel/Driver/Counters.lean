/- Driver components for C10.
   `sys`: stateful replay of multi-session histories through `Model.Counters.sysStepOut` (the very function the
          C10 theorems are about); configuration tokens are those of the `sess` component.
   `cnt`: `AvailableConnections.acquire/release/locked` with their error behaviour (pure). -/
import AioftpModel.Driver.Codec
import AioftpModel.Driver.Session
import AioftpModel.Model.Counters

namespace DriverCounters
open Codec Model Model.Session Model.Counters Py DriverSession

structure DState where
  cfg : Cfg := { users := [], maxConn := none }
  sys : Sys := { world := { fs := [], serverFree := none, userFree := [] }, sessions := [] }

def encSys (cfg : Cfg) (sys : Sys) (o : Out) : String :=
  let ss := sys.sessions
  let commaOr (l : List String) : String := if l.isEmpty then "~" else ",".intercalate l
  let att := (List.range cfg.users.length).map (fun u => toString (attached ss u))
  s!"replies={encNats o.replies} crashed={encBool o.crashed} srvfree={encOptNat sys.world.serverFree} ufree={",".intercalate (sys.world.userFree.map encOptNat)} holding={holding ss} attached={commaOr att} alive={commaOr (ss.map (fun s => encBool s.alive))} acq={commaOr (ss.map (fun s => encBool s.acquired))} users={commaOr (ss.map (fun s => encOptNat s.user))} logged={commaOr (ss.map (fun s => encBool s.logged))}"

def decEvent : List String → Option SysEvent
  | ["connect"] => some .connect
  | ["dataconnect", sid] => sid.toNat?.map .dataConnect
  | ["finish", sid] => sid.toNat?.map .finish
  | ["line", sid, raw, payload] =>
    match sid.toNat?, decStr raw, decBytes payload with
    | some i, some r, some p => some (.line i r p)
    | _, _, _ => none
  | _ => none

def handle (st : DState) : List String → DState × Option String
  | "init" :: mc :: ipv6 :: users =>
    match decOptNat mc, decBool ipv6, users.mapM decUser with
    | some mc, some v6, some us =>
      let cfg : Cfg := { users := us, maxConn := mc, ipv6 := v6 }
      ({ cfg := cfg, sys := initSys cfg [] }, some "ok")
    | _, _, _ => (st, none)
  | "ev" :: rest =>
    match decEvent rest with
    | none => (st, none)
    | some ev =>
      let r := sysStepOut st.cfg st.sys ev
      ({ st with sys := r.1 }, some (encSys st.cfg r.1 r.2))
  | _ => (st, none)

def encErr : CounterError → String
  | .tooManyAcquires => "ValueError:Too-many-acquires"
  | .tooManyReleases => "ValueError:Too-many-releases"
  | .typeError => "TypeError"

def encRes : Except CounterError (Option Nat) → String
  | .ok v => "ok:" ++ encOptNat v
  | .error e => "err:" ++ encErr e

def handleCnt : List String → Option String
  | ["acquire", v] => do
    let v ← decOptNat v
    pure (encRes (acquireE v))
  | ["release", mx, v] => do
    let mx ← decOptNat mx; let v ← decOptNat v
    pure (encRes (releaseE mx v))
  | ["locked", v] => do
    let v ← decOptNat v
    pure (encBool (locked v))
  | _ => none

end DriverCounters
