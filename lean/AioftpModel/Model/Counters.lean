/-
  The multi-session system over the sequential session model, and `AvailableConnections` with its real
  error behaviour.

  `Model.Session.step` already says what ONE session does to the two kinds of slot counters
  (`World.serverFree`, `World.userFree`) -- greeting, `USER`, and the dispatcher's `finally` (`finalize`).
  Here several sessions share one `World`; a system event either accepts a new connection (appends a fresh
  session and runs `.connect` on it) or delivers an event to one existing session.  The model is NOT forked:
  `sysStep` calls `Session.step` and nothing else.

  Atomicity: every event is one uninterrupted run of `step`.  In the code the counter updates of `greeting`,
  `user` and the `finally` block are not separated by a suspension point that lets another session's counter
  update in between *for the shipped `MemoryUserManager`* (its `get_user` / `notify_logout` never suspend);
  this is the stated assumption of C10 (DESIGN, "Partial").
-/
import AioftpModel.Model.Session

namespace Model.Counters
open Py Generated Model.Session

/-! ### `AvailableConnections` as the code has it: bounds crossing raises -/

/-- what `acquire()` / `release()` raise.  Both are `ValueError` in Python; `typeError` is
    `int > None`, which would need `value` set while `maximum_value` is `None` (the constructor sets both
    from the same argument). -/
inductive CounterError where
  | tooManyAcquires     -- ValueError("Too many acquires")
  | tooManyReleases     -- ValueError("Too many releases")
  | typeError
  deriving DecidableEq, Repr

/-- `AvailableConnections.acquire`: `value -= 1; if value < 0: raise ValueError` (no-op when `None`) -/
def acquireE (v : Option Nat) : Except CounterError (Option Nat) :=
  match v with
  | none => .ok none
  | some 0 => .error .tooManyAcquires
  | some (n + 1) => .ok (some n)

/-- `AvailableConnections.release`: `value += 1; if value > maximum_value: raise ValueError` -/
def releaseE (maximum : Option Nat) (v : Option Nat) : Except CounterError (Option Nat) :=
  match v with
  | none => .ok none
  | some n =>
    match maximum with
    | none => .error .typeError
    | some m => if n + 1 > m then .error .tooManyReleases else .ok (some (n + 1))

/-! ### the system -/

structure Sys where
  world : World
  sessions : List SState
  deriving Repr

inductive SysEvent where
  | connect                                       -- a new TCP connection: dispatcher starts, greeting runs
  | line (sid : Nat) (raw : Str) (payload : Bytes)   -- one command line on session `sid`
  | dataConnect (sid : Nat)
  | finish (sid : Nat)                            -- session `sid` ends, for any reason, at any time
  deriving Repr

/-- `Server.__init__` / `MemoryUserManager.__init__`: every counter starts at its configured maximum -/
def initWorld (cfg : Cfg) (fs : Fs) : World :=
  { fs := fs, serverFree := cfg.maxConn, userFree := cfg.users.map (·.maxConn) }

def initSys (cfg : Cfg) (fs : Fs) : Sys := { world := initWorld cfg fs, sessions := [] }

/-- deliver a session event to session `sid` (an unknown `sid` is not an event of the system) -/
def onSession (cfg : Cfg) (sys : Sys) (sid : Nat) (ev : Event) : Sys × Out :=
  match sys.sessions[sid]? with
  | none => (sys, {})
  | some s =>
    ({ world := (step cfg sys.world s ev).1, sessions := sys.sessions.set sid (step cfg sys.world s ev).2.1 },
     (step cfg sys.world s ev).2.2)

def sysStepOut (cfg : Cfg) (sys : Sys) : SysEvent → Sys × Out
  | .connect =>
    ({ world := (step cfg sys.world {} .connect).1,
       sessions := sys.sessions ++ [(step cfg sys.world {} .connect).2.1] },
     (step cfg sys.world {} .connect).2.2)
  | .line sid raw payload => onSession cfg sys sid (.line raw payload)
  | .dataConnect sid => onSession cfg sys sid .dataConnect
  | .finish sid => onSession cfg sys sid .finish

def sysStep (cfg : Cfg) (sys : Sys) (ev : SysEvent) : Sys := (sysStepOut cfg sys ev).1

def run (cfg : Cfg) (sys : Sys) (evs : List SysEvent) : Sys := evs.foldl (sysStep cfg) sys

/-! ### what is counted -/

/-- sessions that hold a server slot (`connection.acquired`) -/
def holding (ss : List SState) : Nat := ss.countP (·.acquired)

/-- sessions attached to user `u` (`connection.user` is set to `users[u]`) -/
def attached (ss : List SState) (u : Nat) : Nat := ss.countP (fun s => s.user == some u)

end Model.Counters
