/-
  The reply queue of one session (C12, C10, C19): `connection.response(...)` puts replies into an asyncio.Queue,
  the `response_writer` task takes them one at a time and writes them, and a command that ends the session
  (QUIT, a 421 refusal) makes the dispatcher wait in `await response_queue.join()` - watching nothing else -
  until the queue's count of unfinished items is back at zero.  If that count can stay positive for ever, the
  dispatcher never reaches its `finally` block: connection slot, listener, data port and the entry in
  `Server.connections` are never released.

  State and events follow asyncio.Queue (`put_nowait`: +1 unfinished; `task_done`: -1) and the writer loop
      while True:
          args = await response_queue.get()
          try:        await self.write_response(stream, *args)
          except BaseException:  <empty the queue, marking every item done>; raise        -- `drains`
          finally:    response_queue.task_done()                                           -- `finishes`
  plus the callable behind `connection.response`, which queues nothing once the writer task is done (`skips`).
  The three Booleans are regenerated from the source.  The scheduler is an arbitrary list of events; an event that
  is not enabled is a no-op.  Core Lean only.
-/
import AioftpModel.Generated.Server

namespace Model.ReplyQueue

structure Facts where
  finishes : Bool     -- task_done() in the finally of the try around write_response
  drains   : Bool     -- the failing writer empties the queue before re-raising
  skips    : Bool     -- connection.response queues nothing for a writer that is gone
  deriving DecidableEq, Repr

def facts : Facts :=
  { finishes := Generated.replyWriterFinishesInFinally,
    drains := Generated.replyWriterDrainsOnFailure,
    skips := Generated.replySkipsDeadWriter }

/-- the pinned tree: `finally: task_done()` only -/
def oldFacts : Facts := { finishes := true, drains := false, skips := false }

inductive Ev
  | put         -- some handler (or the dispatcher itself) calls connection.response
  | take        -- the writer's `get()` returns an item
  | writeOk     -- write_response returned
  | writeFail   -- write_response raised (connection reset, write timeout) or the writer was cancelled in it
  deriving DecidableEq, Repr

structure St where
  queued      : Nat      -- items in the queue
  inWrite     : Bool     -- the writer holds an item it is writing
  unfinished  : Nat      -- asyncio.Queue._unfinished_tasks: what join() waits for
  writerAlive : Bool
  deriving DecidableEq, Repr

def init : St := { queued := 0, inWrite := false, unfinished := 0, writerAlive := true }

def step (f : Facts) (s : St) : Ev → St
  | .put =>
    if f.skips && !s.writerAlive then s
    else { s with queued := s.queued + 1, unfinished := s.unfinished + 1 }
  | .take =>
    if s.writerAlive && !s.inWrite && decide (0 < s.queued) then { s with queued := s.queued - 1, inWrite := true }
    else s
  | .writeOk =>
    if s.inWrite then { s with inWrite := false, unfinished := s.unfinished - 1 } else s
  | .writeFail =>
    if s.inWrite then
      let s1 := if f.drains then { s with unfinished := s.unfinished - s.queued, queued := 0 } else s
      let s2 := if f.finishes then { s1 with unfinished := s1.unfinished - 1 } else s1
      { s2 with inWrite := false, writerAlive := false }
    else s

def run (f : Facts) (s : St) (evs : List Ev) : St := evs.foldl (step f) s

/-- `await response_queue.join()` returns (now, or as soon as the count gets there) -/
def St.joinReturns (s : St) : Prop := s.unfinished = 0

/-- the queue's count says exactly what is still to be written -/
def Exact (s : St) : Prop := s.unfinished = s.queued + (if s.inWrite then 1 else 0)

end Model.ReplyQueue
