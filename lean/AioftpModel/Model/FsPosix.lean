/-
  The POSIX subset that `PathIO` / `AsyncPathIO` can reach through `pathlib`, on the SAME flat
  representation as `Fs` (path ↦ entry, root implicit), so that the relation between a Memory tree and a
  filesystem tree is equality of the maps.

  What is transcribed from aioftp is only `path.<method>(…)` (the two classes have one-line bodies; the
  translator checks that they are the same bodies).  Everything below is a MODEL of CPython 3.12 `pathlib`
  on Linux (trusted, sampled by the backend-API correspondence run, errno by errno):

  * kernel path resolution walks the directory part left to right: first missing component → ENOENT,
    first non-directory component → ENOTDIR (`dirPart`);
  * `Path.exists/is_dir/is_file` swallow ENOENT and ENOTDIR;
  * `Path.mkdir(parents, exist_ok)` as written in pathlib (ENOENT → create the missing ancestors, then self;
    any other OSError is re-raised unless `exist_ok` and the path is a directory);
  * `rename(2)`: parents of both ends are resolved first, then the source is looked up, then
    source-is-ancestor-of-target → EINVAL, target-is-ancestor-of-source → ENOTEMPTY, same path → no-op,
    kind checks (EISDIR / ENOTDIR / ENOTEMPTY), otherwise the subtree moves and replaces the target;
  * `open` modes rb / wb / ab / r+b, `seek`, `read`, `write` (O_APPEND ignores the position), holes are
    zero-filled.

  The root `[]` (the base directory itself) is outside the property ("mutations aimed at the virtual root");
  `rmdir []`/`rename [] _` are given EBUSY here and are NOT validated against the real filesystem.
-/
import AioftpModel.Model.FsMem

namespace Model.Posix
open Model Model.Fs

inductive Errno where
  | ENOENT | ENOTDIR | EEXIST | EISDIR | ENOTEMPTY | EINVAL | EBUSY | EBADF
  deriving DecidableEq, Repr

abbrev Res (α : Type) := Except Errno α

/-- resolution of the directory part of `p`: every proper prefix must be a directory -/
def dirPart (fs : Fs) (p : Path) : Res Unit :=
  match (List.range p.length).find? (fun i => !Fs.isDir fs (p.take i)) with
  | none => .ok ()
  | some i => if Fs.isFile fs (p.take i) then .error .ENOTDIR else .error .ENOENT

/-- `stat(2)` -/
def resolve (fs : Fs) (p : Path) : Res Entry :=
  match dirPart fs p with
  | .error e => .error e
  | .ok _ =>
    match Fs.lookup fs p with
    | none => .error .ENOENT
    | some e => .ok e

/-- `Path.exists()` (ENOENT / ENOTDIR are swallowed; nothing else can arise here) -/
def exists_ (fs : Fs) (p : Path) : Bool :=
  match resolve fs p with
  | .ok _ => true
  | .error _ => false

def isDir (fs : Fs) (p : Path) : Bool :=
  match resolve fs p with
  | .ok .dir => true
  | _ => false

def isFile (fs : Fs) (p : Path) : Bool :=
  match resolve fs p with
  | .ok (.file _) => true
  | _ => false

/-- every missing non-empty prefix of `p` becomes a directory, shortest first -/
def createMissing (fs : Fs) (p : Path) : Fs :=
  (Fs.prefixes p).foldl (fun acc q => if Fs.exists_ acc q then acc else acc ++ [(q, .dir)]) fs

/-- `Path.mkdir(parents=…, exist_ok=…)` -/
def mkdir (fs : Fs) (p : Path) (parents existOk : Bool) : Res Fs :=
  if p = [] then (if existOk then .ok fs else .error .EEXIST)
  else
    match dirPart fs p with
    | .error .ENOENT => if parents then .ok (createMissing fs p) else .error .ENOENT
    | .error e => .error e
    | .ok _ =>
      match Fs.lookup fs p with
      | none => .ok (fs ++ [(p, .dir)])
      | some .dir => if existOk then .ok fs else .error .EEXIST
      | some (.file _) => .error .EEXIST

/-- `Path.rmdir()` -/
def rmdir (fs : Fs) (p : Path) : Res Fs :=
  if p = [] then .error .EBUSY
  else
    match resolve fs p with
    | .error e => .error e
    | .ok (.file _) => .error .ENOTDIR
    | .ok .dir => if (Fs.children fs p).isEmpty then .ok (Fs.erase fs p) else .error .ENOTEMPTY

/-- `Path.unlink()` -/
def unlink (fs : Fs) (p : Path) : Res Fs :=
  match resolve fs p with
  | .error e => .error e
  | .ok .dir => .error .EISDIR
  | .ok (.file _) => .ok (Fs.erase fs p)

/-- `Path.rename(destination)` -/
def rename (fs : Fs) (src dst : Path) : Res Fs :=
  if src = [] ∨ dst = [] then .error .EBUSY
  else
    match dirPart fs src with
    | .error e => .error e
    | .ok _ =>
      match dirPart fs dst with
      | .error e => .error e
      | .ok _ =>
        match Fs.lookup fs src with
        | none => .error .ENOENT
        | some se =>
          if src = dst then .ok fs
          else if src.isPrefixOf dst then .error .EINVAL
          else if dst.isPrefixOf src then .error .ENOTEMPTY
          else
            match Fs.lookup fs dst, se with
            | none, _ => .ok (Fs.moveSubtree fs src dst)
            | some .dir, .file _ => .error .EISDIR
            | some .dir, .dir =>
              if (Fs.children fs dst).isEmpty then .ok (Fs.moveSubtree fs src dst) else .error .ENOTEMPTY
            | some (.file _), .dir => .error .ENOTDIR
            | some (.file _), .file _ => .ok (Fs.moveSubtree fs src dst)

/-- `Path.open(mode)`: the tree after opening, the content behind the handle, the initial position.
    modes: 0 rb, 1 wb, 2 ab, 3 (and above) r+b -/
def openFile (fs : Fs) (p : Path) (mode : Nat) : Res (Fs × Bytes × Nat) :=
  if mode = 1 ∨ mode = 2 then
    -- O_WRONLY | O_CREAT | (O_TRUNC or O_APPEND)
    if p = [] then .error .EISDIR
    else
      match dirPart fs p with
      | .error e => .error e
      | .ok _ =>
        match Fs.lookup fs p with
        | none => .ok (fs ++ [(p, .file [])], [], 0)
        | some .dir => .error .EISDIR
        | some (.file c) => if mode = 1 then .ok (Fs.set fs p (.file []), [], 0) else .ok (fs, c, c.length)
  else
    -- O_RDONLY / O_RDWR: never creates
    match resolve fs p with
    | .error e => .error e
    | .ok .dir => .error .EISDIR
    | .ok (.file c) => .ok (fs, c, 0)

/-- `Path.stat()` reduced to what the property speaks about: kind and, for files, size -/
def stat (fs : Fs) (p : Path) : Res (Option Nat) :=
  match resolve fs p with
  | .error e => .error e
  | .ok .dir => .ok none
  | .ok (.file c) => .ok (some c.length)

/-- `Path.glob("*")`: children of a directory, nothing for anything else -/
def list (fs : Fs) (p : Path) : List Path :=
  if isDir fs p then Fs.children fs p else []

/-- what is done with an open handle before it is closed -/
inductive Act where
  | nothing
  | read (n : Option Nat)        -- `read(n)`; `none` = read to the end
  | write (data : Bytes)
  deriving Repr

/-- open, optional `seek(k)`, one action, close.  The tree keeps what `open` did even if the action fails. -/
def fileOp (fs : Fs) (p : Path) (mode : Nat) (seek : Option Nat) (act : Act) : Fs × Res Bytes :=
  match openFile fs p mode with
  | .error e => (fs, .error e)
  | .ok (fs', c, pos) =>
    let pos' := seek.getD pos
    match act with
    | .nothing => (fs', .ok [])
    | .read n =>
      if mode = 1 ∨ mode = 2 then (fs', .error .EBADF)       -- io.UnsupportedOperation: not readable
      else (fs', .ok (match n with
        | none => c.drop pos'
        | some k => (c.drop pos').take k))
    | .write d =>
      if mode = 0 then (fs', .error .EBADF)                  -- not writable
      else
        let at_ := if mode = 2 then c.length else pos'       -- O_APPEND
        (Fs.set fs' p (.file (Fs.writeAt c at_ d)), .ok [])

end Model.Posix
