/-
  C06  Reply framing.  Transcription of

    server.py  Server.write_line, Server.write_response (both modes, wrap_with_container),
               Server.parse_command
    client.py  Code.matches, BaseClient.parse_line, parse_response, check_codes,
               the wait/expect loop of BaseClient.command
    asyncio    StreamReader.feed_data / feed_eof / readline as far as framing needs it
               (lines end at b"\n"; at EOF the unterminated remainder is returned, then b"";
               the 64 KiB limit is NOT modelled: lines are assumed shorter)

  The control stream as the *consumer* sees it is a `List Bytes`: the successive results of
  `readline()`; after the list is exhausted `readline()` returns b"" (EOF).  `readlines` derives that
  list from the fed segments through the reader state machine.

  Core-only imports (no Mathlib): this file is also what the driver executes.
-/
import AioftpModel.Py.Str
import AioftpModel.Py.Bytes
import AioftpModel.Py.Lower
import AioftpModel.Generated.Server

namespace Model
open Py

/-- exceptions that can leave the modelled functions -/
inductive FErr where
  | connectionReset                                   -- ConnectionResetError
  | unicodeDecode                                     -- UnicodeDecodeError
  | unicodeEncode                                     -- UnicodeEncodeError
  | valueError                                        -- ValueError (tuple unpacking in write_response)
  | statusCode (expected : List Str) (received : Str) (info : List Str)  -- aioftp.StatusCodeError
  deriving DecidableEq, Repr

deriving instance DecidableEq for Except

/-! ### server side -/

/-- `END_OF_LINE` (generated from common.py) -/
def eol : Str := Generated.endOfLine.map Char.ofNat

/-- the `lines` argument of `write_response` / the masks of `command`: a `str` or an iterable -/
inductive StrOrList where
  | one (s : Str)
  | many (l : List Str)
  deriving Repr

/-- `wrap_with_container` -/
def wrapWithContainer : StrOrList → List Str
  | .one s => [s]
  | .many l => l

/-- `*body, tail = xs` ; `none` = ValueError (not enough values to unpack) -/
def splitLast {α : Type} : List α → Option (List α × α)
  | [] => none
  | [x] => some ([], x)
  | x :: y :: xs => (splitLast (y :: xs)).map fun p => (x :: p.1, p.2)

/-- the text lines `write_response` hands to `write_line`, in order; the unpacking happens before
    the first write, so a ValueError means nothing was written -/
def responseLines (code : Str) (lines : List Str) (list : Bool) : Except FErr (List Str) :=
  if list then
    match lines with
    | [] => .error .valueError
    | head :: rest =>
      match splitLast rest with
      | none => .error .valueError
      | some (body, tail) =>
        .ok ((code ++ '-' :: head) :: (body.map fun l => ' ' :: l) ++ [code ++ ' ' :: tail])
  else
    match splitLast lines with
    | none => .error .valueError
    | some (body, tail) => .ok ((body.map fun l => code ++ '-' :: l) ++ [code ++ ' ' :: tail])

/-- successive `write_line` calls: one `stream.write` payload per line, stopping at the first
    UnicodeEncodeError (what was written before it stays written) -/
def writeLines (enc : Encoding) : List Str → List Bytes × Option FErr
  | [] => ([], none)
  | l :: ls =>
    match encode enc (l ++ eol) with
    | none => ([], some .unicodeEncode)
    | some b => let r := writeLines enc ls; (b :: r.1, r.2)

/-- `Server.write_response(stream, code, lines, list)` : payloads written, exception raised -/
def writeResponse (enc : Encoding) (code : Str) (lines : StrOrList) (list : Bool) :
    List Bytes × Option FErr :=
  match responseLines code (wrapWithContainer lines) list with
  | .error e => ([], some e)
  | .ok ls => writeLines enc ls

/-! ### asyncio.StreamReader, as far as `readline` is concerned -/

/-- first line of a buffer, including its terminating `\n`, and what follows; `none` = no `\n` -/
def takeLine : Bytes → Option (Bytes × Bytes)
  | [] => none
  | b :: bs =>
    if b = 10 then some ([10], bs)
    else (takeLine bs).map fun p => (b :: p.1, p.2)

structure Reader where
  buf : Bytes := []
  eof : Bool := false
  deriving Repr

def Reader.feed (r : Reader) (seg : Bytes) : Reader := { r with buf := r.buf ++ seg }
def Reader.feedEof (r : Reader) : Reader := { r with eof := true }

/-- one `readline()`; `none` = the coroutine has to wait for more data -/
def Reader.readline (r : Reader) : Option (Bytes × Reader) :=
  match takeLine r.buf with
  | some (l, rest) => some (l, { r with buf := rest })
  | none => if r.eof then some (r.buf, { r with buf := [] }) else none

/-- a consumer that calls `readline()` as long as it does not have to wait and has not seen b"";
    `fuel` bounds the number of calls (buffer length + 1 always suffices, see Lemmas/Framing) -/
def drain : Nat → Reader → List Bytes × Reader
  | 0, r => ([], r)
  | n + 1, r =>
    match r.readline with
    | none => ([], r)
    | some (l, r') =>
      if l.isEmpty then ([], r')
      else let p := drain n r'; (l :: p.1, p.2)

/-- feed the segments one by one, the consumer draining after each -/
def feedAll (r : Reader) : List Bytes → List Bytes × Reader
  | [] => ([], r)
  | s :: ss =>
    let r1 := r.feed s
    let p := drain (r1.buf.length + 1) r1
    let q := feedAll p.2 ss
    (p.1 ++ q.1, q.2)

/-- everything `readline()` returns before b"" when `segs` arrive one by one and then EOF -/
def readlines (segs : List Bytes) : List Bytes :=
  let p := feedAll {} segs
  let r := p.2.feedEof
  p.1 ++ (drain (r.buf.length + 1) r).1

/-- specification of the line structure of a byte string: maximal chunks ending in `\n`, plus an
    unterminated last chunk if any -/
def splitLines : Bytes → List Bytes
  | [] => []
  | b :: bs =>
    if b = 10 then [10] :: splitLines bs
    else match splitLines bs with
      | [] => [[b]]
      | l :: ls => (b :: l) :: ls

/-! ### client side -/

/-- the body of `parse_line` once `readline()` has returned `line` -/
def parseLine1 (enc : Encoding) (line : Bytes) : Except FErr (Str × Str) :=
  if line.isEmpty then .error .connectionReset
  else match decode enc line with
    | none => .error .unicodeDecode
    | some s => let s := rstrip s; .ok (s.take 3, s.drop 3)

/-- `BaseClient.parse_line` : (Code(s[:3]), s[3:]) and the stream that remains -/
def parseLine (enc : Encoding) : List Bytes → Except FErr (Str × Str) × List Bytes
  | [] => (.error .connectionReset, [])
  | l :: ls => (parseLine1 enc l, ls)

abbrev Reply := Str × List Str

/-- the `while` loop of `parse_response` (state: `info`, `rest`, `curr_code`) -/
def parseLoop (enc : Encoding) (code : Str) (info : List Str) (rest curr : Str)
    (lines : List Bytes) : Except FErr Reply × List Bytes :=
  if startsWith rest ['-'] || !isDigit curr then
    match lines with
    | [] => (.error .connectionReset, [])
    | l :: ls =>
      match parseLine1 enc l with
      | .error e => (.error e, ls)
      | .ok (c, r) =>
        if isDigit c then
          if c ≠ code then (.error (.statusCode [code] c (info ++ [r])), ls)
          else parseLoop enc code (info ++ [r]) r c ls
        else parseLoop enc code (info ++ [c ++ r]) r c ls
  else (.ok (code, info), lines)

/-- `BaseClient.parse_response` -/
def parseResponse (enc : Encoding) (lines : List Bytes) : Except FErr Reply × List Bytes :=
  match parseLine enc lines with
  | (.error e, ls) => (.error e, ls)
  | (.ok (code, rest), ls) => parseLoop enc code [rest] rest code ls

/-- `n` successive `parse_response()` calls, each exception caught by the caller -/
def parseN (enc : Encoding) : Nat → List Bytes → List (Except FErr Reply) × List Bytes
  | 0, ls => ([], ls)
  | n + 1, ls =>
    let p := parseResponse enc ls
    let q := parseN enc n p.2
    (p.1 :: q.1, q.2)

/-- `Code(code).matches(mask)` : `all(map(lambda m, c: not m.isdigit() or m == c, mask, self))` -/
def codeMatches (code mask : Str) : Bool :=
  (mask.zip code).all fun p => !isDigitCh p.1 || p.1 == p.2

/-- `check_codes` -/
def checkCodes (expected : List Str) (code : Str) (info : List Str) : Except FErr Unit :=
  if !(expected.any (codeMatches code)) then .error (.statusCode expected code info) else .ok ()

theorem parseLoop_length (enc : Encoding) (code : Str) :
    ∀ (lines : List Bytes) (info : List Str) (rest curr : Str),
      (parseLoop enc code info rest curr lines).2.length ≤ lines.length := by
  intro lines
  induction lines with
  | nil => intro info rest curr; unfold parseLoop; split <;> simp
  | cons l ls ih =>
    intro info rest curr
    unfold parseLoop
    split
    · simp only
      split
      · simp
      · split
        · split
          · simp
          · exact Nat.le_succ_of_le (ih _ _ _)
        · exact Nat.le_succ_of_le (ih _ _ _)
    · simp

theorem parseResponse_ok_length {enc : Encoding} {lines r : List Bytes} {x : Reply}
    (h : parseResponse enc lines = (.ok x, r)) : r.length < lines.length := by
  unfold parseResponse at h
  cases lines with
  | nil => simp [parseLine] at h
  | cons l ls =>
    simp only [parseLine] at h
    split at h
    · simp at h
    · rename_i code rest ls' heq
      have : ls' = ls := by
        have := congrArg Prod.snd heq; simpa using this.symm
      subst this
      have := parseLoop_length enc code ls' [rest] rest code
      rw [h] at this
      exact Nat.lt_succ_of_le this

set_option linter.unusedVariables false in
/-- `code, info = parse_response(); while any(map(code.matches, wait)): code, info = parse_response()` -/
def commandLoop (enc : Encoding) (wait : List Str) (lines : List Bytes) :
    Except FErr Reply × List Bytes :=
  match h : parseResponse enc lines with
  | (.error e, r) => (.error e, r)
  | (.ok (code, info), r) =>
    if wait.any (codeMatches code) then commandLoop enc wait r
    else (.ok (code, info), r)
termination_by lines.length
decreasing_by exact parseResponse_ok_length h

/-- `BaseClient.command(None, expected_codes, wait_codes)` ; `ok none` = the method returned `None`
    without reading (both tuples empty) -/
def command (enc : Encoding) (expected wait : StrOrList) (lines : List Bytes) :
    Except FErr (Option Reply) × List Bytes :=
  let expected := wrapWithContainer expected
  let wait := wrapWithContainer wait
  if !expected.isEmpty || !wait.isEmpty then
    match commandLoop enc wait lines with
    | (.error e, r) => (.error e, r)
    | (.ok (code, info), r) =>
      if !expected.isEmpty then
        match checkCodes expected code info with
        | .error e => (.error e, r)
        | .ok () => (.ok (some (code, info)), r)
      else (.ok (some (code, info)), r)
  else (.ok none, lines)

/-! ### server side, inbound -/

/-- `Server.parse_command` : (cmd.lower(), rest) -/
def parseCommand (enc : Encoding) : List Bytes → Except FErr (Str × Str) × List Bytes
  | [] => (.error .connectionReset, [])
  | l :: ls =>
    if l.isEmpty then (.error .connectionReset, ls)
    else match decode enc l with
      | none => (.error .unicodeDecode, ls)
      | some s =>
        let p := partitionSpace (rstrip s)
        (.ok (lowerFull p.1, p.2), ls)

end Model
