/-
  The three configured timeouts, as arming / re-arming logic over (virtual) time in milliseconds.

  * control read  : every `parse_command` task reads one line under `wait_for(read_timeout)`, where
                    `read_timeout = idle_timeout or None` (StreamIO: `read_timeout or timeout`): the timer is
                    armed when the task starts, i.e. at connect and each time a full command line was parsed;
                    bytes that do not complete a line do not re-arm it.  Expiry raises TimeoutError in the
                    task, the dispatcher's generic handler ends the session.
  * data wait     : the nested worker waits for the data connection under `wait_for(wait_future_timeout)`;
                    expiry is answered 425 and the session goes on.  (`None` = for ever, `0` = at once.)
  * data transfer : the data stream is built with `timeout=socket_timeout`, and StreamIO computes
                    `read_timeout = read_timeout or timeout` = `None or socket_timeout`: the value is used AS IS,
                    so `0` here means "time out at once", unlike the control stream where `0 or None` is `None`.
                    Expiry raises TimeoutError out of the worker: the session is ended.
  Which constructor argument carries which timeout is regenerated from the source
  (`Generated.streamTimeoutKw`).
-/
import AioftpModel.Generated.Server

namespace Model
namespace Timers

/-- `x or None` of Python for a timeout value: `None` and `0` both mean "never" -/
def truthy (t : Option Nat) : Option Nat :=
  match t with
  | some 0 => none
  | t => t

/-- the control channel: connect at `t0`, complete command lines arrive at the (increasing) times `ls`.
    Returns the time at which the session is dropped for idleness, if it is. -/
def idleDrop (idle : Option Nat) (t0 : Nat) (ls : List Nat) : Option Nat :=
  match truthy idle with
  | none => none
  | some d =>
    let rec go (armed : Nat) : List Nat → Option Nat
      | [] => some (armed + d)
      | l :: rest => if l < armed + d then go l rest else some (armed + d)
    go t0 ls

/-- the lines that are still read (those that arrive before the drop) -/
def linesServed (idle : Option Nat) (t0 : Nat) (ls : List Nat) : List Nat :=
  match idleDrop idle t0 ls with
  | none => ls
  | some dt => ls.filter (· < dt)

/-- outcome of the worker's wait for the data connection: the transfer command was accepted at `tau`;
    the peer connects at `conn` (or never).  `inl t` = 425 at time t, `inr t` = transfer starts at t. -/
def dataWait (wait : Option Nat) (tau : Nat) (conn : Option Nat) : Option (Sum Nat Nat) :=
  match wait, conn with
  | none, none => none                      -- waits for ever
  | none, some c => some (.inr (max tau c))
  | some w, none => some (.inl (tau + w))
  | some w, some c => if c < tau + w then some (.inr (max tau c)) else some (.inl (tau + w))

/-- a data transfer whose peer moves at the times `acts` (increasing, the first I/O is started at `start`)
    and then stalls: time at which the server gives up -/
def dataStall (sock : Option Nat) (start : Nat) (acts : List Nat) : Option Nat :=
  match sock with
  | none => none
  | some d =>
    let rec go (armed : Nat) : List Nat → Option Nat
      | [] => some (armed + d)
      | a :: rest => if a < armed + d then go a rest else some (armed + d)
    go start acts

end Timers
end Model
