/-
  How the dispatcher turns the command lines it reads into running handlers (C05, C03, C14).

  Lines are read as they arrive (`recv`).  With the sequential dispatcher (`Generated.dispatcherOneCommandAtATime`)
  a line goes to a backlog and a handler is started only when none is running; the pinned tree started a handler per
  line at once, so handlers of pipelined commands ran side by side.  `done k` = the k-th running handler returns.
  The scheduler is an arbitrary list of events; an event that is not enabled is a no-op.  Commands are opaque (`Nat`).
  Core Lean only.
-/
import AioftpModel.Generated.Server

namespace Model.Dispatch

inductive Ev
  | recv (c : Nat)
  | done (k : Nat)
  deriving DecidableEq, Repr

structure St where
  received : List Nat     -- command lines in the order read
  backlog  : List Nat     -- read, handler not started yet
  running  : List Nat     -- handlers in progress
  started  : List Nat     -- handlers in the order they were started
  deriving DecidableEq, Repr

def init : St := { received := [], backlog := [], running := [], started := [] }

/-- `while command is None and backlog: start the next one` -/
def pump (s : St) : St :=
  match s.running, s.backlog with
  | [], c :: rest => { s with backlog := rest, running := [c], started := s.started ++ [c] }
  | _, _ => s

def step (sequential : Bool) (s : St) : Ev → St
  | .recv c =>
    if sequential then pump { s with received := s.received ++ [c], backlog := s.backlog ++ [c] }
    else { s with received := s.received ++ [c], running := s.running ++ [c], started := s.started ++ [c] }
  | .done k =>
    if k < s.running.length then
      let s' := { s with running := s.running.eraseIdx k }
      if sequential then pump s' else s'
    else s

def run (sequential : Bool) (s : St) (evs : List Ev) : St := evs.foldl (step sequential) s

/-- the command lines of a schedule, in arrival order -/
def recvs (evs : List Ev) : List Nat :=
  evs.filterMap (fun e => match e with | .recv c => some c | .done _ => none)

/-- as the source is now -/
def runNow (evs : List Ev) : St := run Generated.dispatcherOneCommandAtATime init evs

end Model.Dispatch
