/-
  namespaces: `Model.MemApi`, `Model.Backends`.
  (1) The rest of `MemoryPathIO`'s API that the session model does not need (`mkdir` with every
      `parents`/`exist_ok` combination, `stat`, `list`, handle operations), transcribed on the flat map of
      `FsMem.lean`;
  (2) `Backend`: the record of operations the FTP session model is parametrised over, with its two
      instances `Backend.mem` (the functions of `FsMem.lean`, unchanged) and `Backend.posix`.
-/
import AioftpModel.Model.FsMem
import AioftpModel.Model.FsPosix

namespace Model.MemApi
open Model Model.Fs

/-- `MemoryPathIO.mkdir(path, parents=…, exist_ok=…)` : `none` = exception -/
def mkdir (fs : Fs) (p : Path) (parents existOk : Bool) : Option Fs :=
  match Fs.lookup fs p with
  | some e =>
    -- `if node.type != "dir" or not exist_ok: raise FileExistsError`
    if e ≠ .dir ∨ !existOk then none else some fs
  | none =>
    if !parents then
      match Fs.lookup fs p.dropLast with
      | none => none                       -- FileNotFoundError
      | some (.file _) => none             -- NotADirectoryError
      | some .dir => some (fs ++ [(p, .dir)])
    else
      -- walk the parts, creating what is missing; a file on the way: NotADirectoryError
      if (Fs.prefixes p).any (fun q => Fs.isFile fs q) then none
      else some ((Fs.prefixes p).foldl (fun acc q => if Fs.exists_ acc q then acc else acc ++ [(q, .dir)]) fs)

/-- `MemoryPathIO.stat`: `none` = FileNotFoundError; `some none` = directory; `some (some n)` = file of size n -/
def stat (fs : Fs) (p : Path) : Option (Option Nat) :=
  match Fs.lookup fs p with
  | none => none
  | some .dir => some none
  | some (.file c) => some (some c.length)

/-- `MemoryPathIO.list`: `iter(())` for a missing node or a file -/
def list (fs : Fs) (p : Path) : List Path :=
  if Fs.isDir fs p then Fs.children fs p else []

/-- open, optional `seek(k)`, one action, `close` (a no-op).  The handle is the node's `BytesIO`: it is
    readable and writable whatever the mode was, and a write lands at the current position also in "ab". -/
def fileOp (fs : Fs) (p : Path) (mode : Nat) (seek : Option Nat) (act : Posix.Act) : Fs × Option Bytes :=
  match Fs.openFile fs p mode with
  | none => (fs, none)
  | some (fs', c, pos) =>
    let pos' := seek.getD pos
    match act with
    | .nothing => (fs', some [])
    | .read n => (fs', some (match n with
        | none => c.drop pos'
        | some k => (c.drop pos').take k))
    | .write d => (Fs.set fs' p (.file (Fs.writeAt c pos' d)), some [])

end Model.MemApi

namespace Model.Backends
open Model

/-- what the server asks of a storage backend, on the flat tree -/
structure Backend where
  exists_ : Fs → Path → Bool
  isDir : Fs → Path → Bool
  isFile : Fs → Path → Bool
  /-- `mkdir(path, parents=True)` -/
  mkdirParents : Fs → Path → Option Fs
  rmdir : Fs → Path → Option Fs
  unlink : Fs → Path → Option Fs
  /-- new tree and success flag: the tree may change even on failure -/
  rename : Fs → Path → Path → Fs × Bool
  /-- modes 0 rb, 1 wb, 2 ab, 3 r+b : tree after opening, content behind the handle, initial position -/
  openFile : Fs → Path → Nat → Option (Fs × Bytes × Nat)
  /-- `list(path)` -/
  children : Fs → Path → List Path

namespace Backend

/-- `MemoryPathIO` -/
def mem : Backend where
  exists_ := Fs.exists_
  isDir := Fs.isDir
  isFile := Fs.isFile
  mkdirParents := Fs.mkdirParents
  rmdir := Fs.rmdir
  unlink := Fs.unlink
  rename := Fs.rename
  openFile := Fs.openFile
  children := Fs.children

def ofRes {α : Type} : Posix.Res α → Option α
  | .ok a => some a
  | .error _ => none

/-- `PathIO` / `AsyncPathIO` on a POSIX filesystem: a failing call leaves the tree as it was -/
def posix : Backend where
  exists_ := Posix.exists_
  isDir := Posix.isDir
  isFile := Posix.isFile
  mkdirParents := fun fs p => ofRes (Posix.mkdir fs p true false)
  rmdir := fun fs p => ofRes (Posix.rmdir fs p)
  unlink := fun fs p => ofRes (Posix.unlink fs p)
  rename := fun fs s d =>
    match Posix.rename fs s d with
    | .ok fs' => (fs', true)
    | .error _ => (fs, false)
  openFile := fun fs p m => ofRes (Posix.openFile fs p m)
  children := Posix.list

end Backend
end Model.Backends
