/-
  `Permission`, `User.get_permissions` and the `PathPermissions` decorator of server.py,
  transcribed line by line (core-only imports).
-/
import AioftpModel.Model.Paths
import AioftpModel.Model.GuardTypes
import AioftpModel.Generated.Server

namespace Model
open Py

/-- `class Permission`: `self.path = PurePosixPath(path)`, two flags -/
structure Permission where
  path : PPath
  readable : Bool
  writable : Bool
  deriving DecidableEq, Repr

/-- `Permission()` : `path="/"`, `readable=True`, `writable=True` -/
def Permission.default : Permission := ⟨PPath.parse ['/'], true, true⟩

/-- `Permission.is_parent(other)`:
    `try: other.relative_to(self.path); return True / except ValueError: return False` -/
def Permission.isParent (e : Permission) (other : PPath) : Bool :=
  match other.relativeTo? e.path with
  | some _ => true
  | none => false

/-- the key of the `min`: `len(path.relative_to(p.path).parts)`; `none` = the ValueError of
    `relative_to` (it would escape `get_permissions`; shown impossible after the filter) -/
def relKey (path : PPath) (e : Permission) : Option Nat :=
  match path.relativeTo? e.path with
  | some r => some r.parts.length     -- a relative path has no anchor: `.parts` is the tail
  | none => none

/-- the loop of builtin `min`: keep the running best, replace it only when the new key is
    *strictly* smaller (`PyObject_RichCompare(val, maxval, Py_LT)`), so the first minimum wins -/
def minLoop {α : Type} (key : α → Option Nat) : α → Nat → List α → Option α
  | b, _, [] => some b
  | b, kb, x :: xs =>
    match key x with
    | none => none
    | some kx => if kx < kb then minLoop key x kx xs else minLoop key b kb xs

/-- `min(iterable, key=key, default=d)`; outer `none` = an exception raised by `key` -/
def pyMin {α : Type} (key : α → Option Nat) (d : α) : List α → Option α
  | [] => some d
  | x :: xs =>
    match key x with
    | none => none
    | some k => minLoop key x k xs

/-- `User.__init__`: `self.permissions = permissions or [Permission()]` -/
def userPermissions (given : List Permission) : List Permission :=
  if given.isEmpty then [Permission.default] else given

/-- `User.get_permissions(path)` on `self.permissions = perms`:
    ```
    parents = filter(lambda p: p.is_parent(path), self.permissions)
    perm = min(parents, key=lambda p: len(path.relative_to(p.path).parts), default=Permission())
    ```
    `none` = ValueError from the key function -/
def getPermissions? (perms : List Permission) (path : PPath) : Option Permission :=
  pyMin (relKey path) Permission.default (perms.filter (fun p => p.isParent path))

/-- `getattr(current_permission, permission)` for the two attribute names that exist -/
def Permission.flag (e : Permission) : Perm → Bool
  | .readable => e.readable
  | .writable => e.writable

/-- what the `PathPermissions` wrapper does after the lookup -/
inductive GuardOutcome where
  /-- `connection.response("550", "permission denied"); return True` -/
  | refused
  /-- `return await f(cls, connection, rest, *args)` -/
  | called
  /-- the `for` loop ended without `return`: the wrapper returns `None`, the handler is not
      called and no reply is queued -/
  | fellThrough
  deriving DecidableEq, Repr

/-- the loop of the wrapper, exactly as written — the `return await f(...)` sits *inside* the loop
    body, so only the first listed permission is ever looked at:
    ```
    for permission in self.permissions:
        if not getattr(current_permission, permission):
            connection.response("550", "permission denied")
            return True
        return await f(cls, connection, rest, *args)
    ```
-/
def permLoop (e : Permission) : List Perm → GuardOutcome
  | [] => .fellThrough
  | p :: _ => if !(e.flag p) then .refused else .called

/-- `PathPermissions(*ps)` applied to a request with a `str` argument:
    `virtual_path = get_paths(connection, rest)[1]`, lookup, loop.  `none` = exception -/
def permGuard? (ps : List Perm) (perms : List Permission) (base cwd : PPath) (arg : Str) :
    Option GuardOutcome :=
  match getPermissions? perms (getPaths base cwd arg).2 with
  | some e => some (permLoop e ps)
  | none => none

/-- the same for the path-typed argument CDUP passes (`connection.current_directory.parent`) -/
def permGuardP? (ps : List Perm) (perms : List Permission) (base cwd arg : PPath) :
    Option GuardOutcome :=
  match getPermissions? perms (getPathsP base cwd arg).2 with
  | some e => some (permLoop e ps)
  | none => none

/-- the permission list of the (first) `PathPermissions` decorator in a handler's stack -/
def permOf : List Guard → Option (List Perm)
  | [] => none
  | .perm ps :: _ => some ps
  | _ :: t => permOf t

/-- number of `PathPermissions` decorators in a stack -/
def permCount : List Guard → Nat
  | [] => 0
  | .perm _ :: t => permCount t + 1
  | _ :: t => permCount t

def isPermGuard : Guard → Bool
  | .perm _ => true
  | _ => false

/-- verb by its wire name (lower-cased by `parse_command`) -/
def verbOfName (n : String) : Option Generated.Verb :=
  Generated.Verb.all.find? (fun v => v.name == n)

end Model
