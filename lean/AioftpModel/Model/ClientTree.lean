/-
  The client's high-level tree operations (`aioftp/client.py`): `make_directory`, `stat`/`exists`,
  `list` (one level and `recursive=True`), `upload`, `download`, `remove`, transcribed as written.  The
  `relative = …` computation of `upload` is not transcribed by hand: the translator reads the assignments off
  the source (`Generated.uploadRelative`) and `evalRel` gives each recognised expression its meaning (the
  pinned tree's expressions forgot the destination's parents, finding F5, repaired in /repo bcdced1).

  The remote side is the server as a logged-in, all-permission session sees it: a tree `Fs`, the
  connection's working directory and whether MLST/MLSD are present in `commands_mapping`.  Every `srv*`
  function is one FTP command, guards and body as in `Model/Session.lean` (`runGuards` + `body`), reduced to
  the final reply code and the effect on the tree.  The local side is `MemoryPathIO` on another `Fs`.

  Not modelled here (other properties carry them): the reply/listing codecs and name quoting (C06–C08),
  byte-exactness of the data connection under block sizes (C01), permissions (C04).
-/
import AioftpModel.Model.Paths
import AioftpModel.Model.FsMem
import AioftpModel.Generated.Client

namespace Model
namespace ClientTree
open Py

inductive Kind where
  | file
  | dir
  deriving DecidableEq, Repr

def kindOf : Entry → Kind
  | .dir => .dir
  | .file _ => .file

/-- what the client raises -/
inductive Err where
  | status (code : Nat)   -- `aioftp.StatusCodeError`, `received_codes[-1]`
  | pathIO                -- `aioftp.PathIOError` from the local `path_io`
  | valueError            -- `PurePath.relative_to`
  | fuel                  -- model artefact (loop bound exhausted), never produced by the code
  deriving DecidableEq, Repr

abbrev M := Except Err

/-! ### the remote side: one function per FTP command -/

structure Remote where
  fs : Fs
  cwd : PPath
  mlsx : Bool          -- MLST and MLSD are in `server.commands_mapping`
  deriving DecidableEq, Repr

/-- `"VERB " + str(path)` on the wire, `parse_command` (`rstrip`, `partition(" ")`), `PurePosixPath(rest)` -/
def wire (p : PPath) : PPath := PPath.parse (rstrip p.str)

/-- resolved tail of `get_paths(connection, rest)` (as `Session.resolve`) -/
def Remote.target (r : Remote) (p : PPath) : Path := (getPathsP ⟨0, []⟩ r.cwd (wire p)).2.parts

/-- entries directly below `t`, in backend order, as (name, type) -/
def childEntries (fs : Fs) (t : Path) : List (Str × Kind) :=
  (fs.filter (fun e => e.1.length = t.length + 1 && t.isPrefixOf e.1)).map
    (fun e => (e.1.getLast?.getD [], kindOf e.2))

/-- MKD: `path_must_not_exists` → 550; `mkdir(parents=True)` → 257, exception → 451 -/
def srvMkd (r : Remote) (p : PPath) : Nat × Remote :=
  if r.fs.exists_ (r.target p) then (550, r)
  else match r.fs.mkdirParents (r.target p) with
    | some fs' => (257, { r with fs := fs' })
    | none => (451, r)

/-- RMD: `path_must_exists`, `path_must_be_dir` → 550; `rmdir` → 250, exception → 451 -/
def srvRmd (r : Remote) (p : PPath) : Nat × Remote :=
  if !r.fs.exists_ (r.target p) || !r.fs.isDir (r.target p) then (550, r)
  else match r.fs.rmdir (r.target p) with
    | some fs' => (250, { r with fs := fs' })
    | none => (451, r)

/-- DELE: `path_must_exists`, `path_must_be_file` → 550; `unlink` → 250 -/
def srvDele (r : Remote) (p : PPath) : Nat × Remote :=
  if !r.fs.exists_ (r.target p) || !r.fs.isFile (r.target p) then (550, r)
  else match r.fs.unlink (r.target p) with
    | some fs' => (250, { r with fs := fs' })
    | none => (451, r)

/-- MLST: absent from the mapping → 502; `path_must_exists` → 550; else 250 with the `Type` fact -/
def srvMlst (r : Remote) (p : PPath) : Nat × Option Kind :=
  if !r.mlsx then (502, none)
  else match r.fs.lookup (r.target p) with
    | none => (550, none)
    | some e => (250, some (kindOf e))

/-- MLSD and LIST have the same guard (`path_must_exists` → 550) and send one line per child of a
    directory, nothing for a file; reply 150 then 200 / 226.  Returned: first reply code, the lines. -/
def srvListing (r : Remote) (p : PPath) : Nat × List (Str × Kind) :=
  if !r.fs.exists_ (r.target p) then (550, [])
  else (150, childEntries r.fs (r.target p))

def srvMlsd (r : Remote) (p : PPath) : Nat × List (Str × Kind) :=
  if !r.mlsx then (502, []) else srvListing r p

/-- STOR (no restart offset): parent not a directory → 550; else 150, `open(wb)` fails → 451, else the
    payload becomes the content → 226.  Returned: the codes the client sees, the new tree. -/
def srvStor (r : Remote) (p : PPath) (data : Bytes) : List Nat × Remote :=
  if !r.fs.isDir (r.target p).dropLast then ([550], r)
  else match r.fs.openFile (r.target p) 1 with
    | none => ([150, 451], r)
    | some (fs', c, pos) => ([150, 226], { r with fs := fs'.set (r.target p) (.file (Fs.writeAt c pos data)) })

/-- RETR: `path_must_exists`, `path_must_be_file` → 550; 150, content, 226 -/
def srvRetr (r : Remote) (p : PPath) : List Nat × Bytes :=
  if !r.fs.exists_ (r.target p) || !r.fs.isFile (r.target p) then ([550], [])
  else match r.fs.openFile (r.target p) 0 with
    | none => ([150, 451], [])
    | some (_, c, _) => ([150, 226], c)

/-! ### `Code.matches` for the masks the client uses -/

def is1xx (c : Nat) : Bool := c / 100 == 1
def is2xx (c : Nat) : Bool := c / 100 == 2
def is50x (c : Nat) : Bool := c / 10 == 50

/-- the two-step check of a streamed command: first reply must be 1xx, the closing one 2xx -/
def streamCheck : List Nat → M Unit
  | [] => .error (.status 0)
  | c :: rest =>
    if !is1xx c then .error (.status c)
    else match rest with
      | [] => .error (.status 0)
      | d :: _ => if is2xx d then .ok () else .error (.status d)

/-! ### `Client.list` -/

/-- `parse_line` gives `PurePosixPath(name)`; `if str(name) in (".", ".."): continue` -/
def entryName (raw : Str) : Option PPath :=
  if (PPath.parse raw).str = ['.'] ∨ (PPath.parse raw).str = dotdot then none else some (PPath.parse raw)

/-- one `_new_stream(path)` read to its end: MLSD, on a 50x reply LIST; `stat = cls.path / name, info` -/
def listDir (r : Remote) (p : PPath) : M (List (PPath × Kind)) :=
  let first := srvMlsd r p
  let res := if is1xx first.1 then first else if is50x first.1 then srvListing r p else first
  if is1xx res.1 then
    .ok (res.2.filterMap (fun e => (entryName e.1).map (fun n => (p.join n, e.2))))
  else .error (.status res.1)

/-- `list(path, recursive=True)` collected eagerly: the first stream is `path`'s, then the `directories`
    deque is served from the left; every listed directory is appended. `queue` = streams still to open. -/
def listRecLoop (r : Remote) : Nat → List PPath → M (List (PPath × Kind))
  | 0, [] => .ok []
  | 0, _ :: _ => .error .fuel
  | _ + 1, [] => .ok []
  | fuel + 1, p :: queue =>
    match listDir r p with
    | .error e => .error e
    | .ok entries =>
      match listRecLoop r fuel (queue ++ (entries.filter (fun e => e.2 = .dir)).map (·.1)) with
      | .error e => .error e
      | .ok more => .ok (entries ++ more)

def listRecursive (r : Remote) (p : PPath) : M (List (PPath × Kind)) :=
  listRecLoop r (r.fs.length + 1) [p]

/-! ### `stat`, `exists`, `make_directory` -/

/-- `stat`: MLST, on 50x look the name up in a listing of the parent, else 550 -/
def stat (r : Remote) (p : PPath) : M Kind :=
  match srvMlst r p with
  | (code, some k) => if is2xx code then .ok k else .error (.status code)
  | (code, none) =>
    if !is50x code then .error (.status code)
    else match listDir r p.parent with
      | .error e => .error e
      | .ok entries =>
        match entries.find? (fun e => e.1.name = p.name) with
        | some e => .ok e.2
        | none => .error (.status 550)

/-- `exists`: `stat`, a 550 means no -/
def exists_ (r : Remote) (p : PPath) : M Bool :=
  match stat r p with
  | .ok _ => .ok true
  | .error (.status 550) => .ok false
  | .error e => .error e

/-- the `while path.name and not await self.exists(path)` loop of `make_directory`; the path is held as
    root + reversed parts so that `path.parent` is the tail. Result = `need_create` (deepest first). -/
def needCreate (r : Remote) (root : Nat) : List Str → M (List PPath)
  | [] => .ok []                       -- `path.name == ""`
  | x :: up =>
    match exists_ r ⟨root, (x :: up).reverse⟩ with
    | .error e => .error e
    | .ok true => .ok []
    | .ok false =>
      match needCreate r root up with
      | .error e => .error e
      | .ok more => .ok (⟨root, (x :: up).reverse⟩ :: more)

/-- `for path in need_create: await self.command("MKD " + str(path), "257")` -/
def mkdAll (r : Remote) : List PPath → M Remote
  | [] => .ok r
  | p :: rest =>
    let res := srvMkd r p
    if res.1 = 257 then mkdAll res.2 rest else .error (.status res.1)

/-- the same loop with the extra test `path.name != ".."`: a parent reference is never asked for, nor created -/
def needCreateSkip (r : Remote) (root : Nat) : List Str → M (List PPath)
  | [] => .ok []
  | x :: up =>
    if x = dotdot then .ok []
    else
      match exists_ r ⟨root, (x :: up).reverse⟩ with
      | .error e => .error e
      | .ok true => .ok []
      | .ok false =>
        match needCreateSkip r root up with
        | .error e => .error e
        | .ok more => .ok (⟨root, (x :: up).reverse⟩ :: more)

/-- the loop as the source has it now (`Generated.makeDirectoryStopsAtDotDot`) -/
def needCreateNow (r : Remote) (root : Nat) (rev : List Str) : M (List PPath) :=
  if Generated.makeDirectoryStopsAtDotDot then needCreateSkip r root rev else needCreate r root rev

def makeDirectory (r : Remote) (p : PPath) : M Remote :=
  match needCreateNow r p.root p.parts.reverse with
  | .error e => .error e
  | .ok need => mkdAll r need.reverse

/-! ### the local side (`MemoryPathIO`) -/

structure Local where
  fs : Fs
  cwd : PPath
  deriving DecidableEq, Repr

/-- `_absolute` then `get_node`'s walk over `path.parts`: the anchor must be the root node `/` -/
def Local.node (l : Local) (p : PPath) : Option Path :=
  let a := if p.isAbsolute then p else l.cwd.join p
  if a.root = 1 then some a.parts else none

def Local.isFile (l : Local) (p : PPath) : Bool :=
  match l.node p with
  | some t => l.fs.isFile t
  | none => false

def Local.isDir (l : Local) (p : PPath) : Bool :=
  match l.node p with
  | some t => l.fs.isDir t
  | none => false

/-- `path_io.list(path)`: `path / name` for each child, nothing for a file or a missing path -/
def Local.list (l : Local) (p : PPath) : List PPath :=
  match l.node p with
  | some t => if l.fs.isDir t then (childEntries l.fs t).map (fun e => p.join (PPath.parse e.1)) else []
  | none => []

/-- `open(path, "rb")` and read to the end -/
def Local.read (l : Local) (p : PPath) : M Bytes :=
  match l.node p with
  | none => .error .pathIO
  | some t => match l.fs.openFile t 0 with
    | some (_, c, _) => .ok c
    | none => .error .pathIO

/-- `mkdir(path, parents=True, exist_ok=True)` -/
def Local.mkdirP (l : Local) (p : PPath) : M Local :=
  match l.node p with
  | none => .error .pathIO      -- anchor other than `/`: outside the modelled domain
  | some t =>
    if l.fs.exists_ t then (if l.fs.isDir t then .ok l else .error .pathIO)
    else match l.fs.mkdirParents t with
      | some fs' => .ok { l with fs := fs' }
      | none => .error .pathIO

/-- `open(path, "wb")` -/
def Local.openWrite (l : Local) (p : PPath) : M (Local × Path) :=
  match l.node p with
  | none => .error .pathIO
  | some t => match l.fs.openFile t 1 with
    | some (fs', _, _) => .ok ({ l with fs := fs' }, t)
    | none => .error .pathIO

/-! ### `upload` -/

/-- the `is_file(source)` branch: `make_directory(destination.parent)`, open the local file, STOR -/
def uploadFile (l : Local) (r : Remote) (source destination : PPath) : M Remote :=
  match makeDirectory r destination.parent with
  | .error e => .error e
  | .ok r1 =>
    match l.read source with
    | .error e => .error e
    | .ok data =>
      let res := srvStor r1 destination data
      match streamCheck res.1 with
      | .error e => .error e
      | .ok _ => .ok res.2

/-- meaning of the right-hand sides `relative = <expr>` the translator may meet in `upload`; an expression
    it does not know evaluates to an error, so no theorem about a shape it cannot read goes through -/
def evalRel (e : String) (source destination path : PPath) : M PPath :=
  if e = "destination / path.relative_to(source)" then
    match path.relativeTo? source with
    | none => .error .valueError
    | some rel => .ok (destination.join rel)
  else if e = "destination.name / path.relative_to(source)" then
    match path.relativeTo? source with
    | none => .error .valueError
    | some rel => .ok ((PPath.parse destination.name).join rel)
  else if e = "path.relative_to(source.parent)" then
    match path.relativeTo? source.parent with
    | none => .error .valueError
    | some rel => .ok rel
  else .error .valueError

/-- does the guard the assignment sits under hold? ("" = unconditional) -/
def guardHolds (g : String) (writeInto : Bool) : Bool :=
  g = "" || (g = "write_into" && writeInto) || (g = "not write_into" && !writeInto)

/-- `relative` for a table of (guard, expression) assignments: the first whose guard holds -/
def relativeOfWith (tbl : List (String × String)) (source destination path : PPath) (writeInto : Bool) : M PPath :=
  match tbl.find? (fun ge => guardHolds ge.1 writeInto) with
  | none => .error .valueError
  | some ge => evalRel ge.2 source destination path

/-- `relative` as the source computes it now -/
def relativeOf (source destination path : PPath) (writeInto : Bool) : M PPath :=
  relativeOfWith Generated.uploadRelative source destination path writeInto

/-- the assignments of the pinned tree (finding F5) -/
def oldUploadRelative : List (String × String) :=
  [("write_into", "destination.name / path.relative_to(source)"), ("not write_into", "path.relative_to(source.parent)")]

/-- body of `async for path in self.path_io.list(src)`; returns the remote and the directories appended
    to `sources`.  The nested `self.upload(path, relative, write_into=True)` is entered with a `path` that
    is not a directory, so only its `is_file` branch (or nothing) can run. -/
def uploadChildren (l : Local) (source destination : PPath) (writeInto : Bool) :
    Remote → List PPath → M (Remote × List PPath)
  | r, [] => .ok (r, [])
  | r, path :: rest =>
    match relativeOf source destination path writeInto with
    | .error e => .error e
    | .ok relative =>
      if l.isDir path then
        match makeDirectory r relative with
        | .error e => .error e
        | .ok r1 =>
          match uploadChildren l source destination writeInto r1 rest with
          | .error e => .error e
          | .ok (r2, dirs) => .ok (r2, path :: dirs)
      else
        let step : M Remote := if l.isFile path then uploadFile l r path relative else .ok r
        match step with
        | .error e => .error e
        | .ok r1 => uploadChildren l source destination writeInto r1 rest

/-- `while sources: src = sources.popleft(); …` -/
def uploadLoop (l : Local) (source destination : PPath) (writeInto : Bool) :
    Nat → Remote → List PPath → M Remote
  | 0, r, [] => .ok r
  | 0, _, _ :: _ => .error .fuel
  | _ + 1, r, [] => .ok r
  | fuel + 1, r, src :: sources =>
    match uploadChildren l source destination writeInto r (l.list src) with
    | .error e => .error e
    | .ok (r1, dirs) => uploadLoop l source destination writeInto fuel r1 (sources ++ dirs)

/-- `Client.upload(source, destination, write_into=…)` -/
def upload (l : Local) (r : Remote) (source dest : PPath) (writeInto : Bool) : M Remote :=
  let destination := if writeInto then dest else dest.join (PPath.parse source.name)
  if l.isFile source then uploadFile l r source destination
  else if l.isDir source then
    match makeDirectory r destination with
    | .error e => .error e
    | .ok r1 => uploadLoop l source destination writeInto (l.fs.length + 1) r1 [source]
  else .ok r

/-! ### `download` -/

/-- the `is_file(source)` branch: local `mkdir(parent, parents, exist_ok)`, `open(destination, "wb")`,
    RETR, write -/
def downloadFile (l : Local) (r : Remote) (source destination : PPath) : M Local :=
  match l.mkdirP destination.parent with
  | .error e => .error e
  | .ok l1 =>
    match l1.openWrite destination with
    | .error e => .error e
    | .ok (l2, t) =>
      let res := srvRetr r source
      match streamCheck res.1 with
      | .error e => .error e
      | .ok _ => .ok { l2 with fs := l2.fs.set t (.file (Fs.writeAt [] 0 res.2)) }

/-- a `for` loop whose body may raise.  (`download` and `remove` guard the body with
    `if info["type"] in ("file", "dir")`; a listing of this tree model only has those two types.) -/
def forEach {σ α : Type} (f : σ → α → M σ) : σ → List α → M σ
  | s, [] => .ok s
  | s, a :: rest =>
    match f s a with
    | .error e => .error e
    | .ok s1 => forEach f s1 rest

/-- `Client.download(source, destination, write_into=…)`; `fuel` bounds the recursion depth.  The loop is
    `for name, info in await self.list(source): full = destination / name.relative_to(source); …` -/
def download (r : Remote) : Nat → Local → PPath → PPath → Bool → M Local
  | 0, _, _, _, _ => .error .fuel
  | fuel + 1, l, source, dest, writeInto =>
    match stat r source with                    -- `is_file(source)` (and `is_dir(source)`: same reply)
    | .error e => .error e
    | .ok .file => downloadFile l r source (if writeInto then dest else dest.join (PPath.parse source.name))
    | .ok .dir =>
      match l.mkdirP (if writeInto then dest else dest.join (PPath.parse source.name)) with
      | .error e => .error e
      | .ok l1 =>
        match listDir r source with
        | .error e => .error e
        | .ok entries =>
          forEach (fun (l' : Local) (e : PPath × Kind) =>
            match e.1.relativeTo? source with
            | none => .error .valueError
            | some rel =>
              download r fuel l' e.1
                ((if writeInto then dest else dest.join (PPath.parse source.name)).join rel) true)
            l1 entries

def downloadTop (l : Local) (r : Remote) (source dest : PPath) (writeInto : Bool) : M Local :=
  download r (r.fs.length + 1) l source dest writeInto

/-! ### `remove` -/

/-- `Client.remove(path)`; `fuel` bounds the recursion depth.  The loop is
    `for name, info in await self.list(path): await self.remove(name)` -/
def remove : Nat → Remote → PPath → M Remote
  | 0, _, _ => .error .fuel
  | fuel + 1, r, p =>
    match exists_ r p with
    | .error e => .error e
    | .ok false => .ok r
    | .ok true =>
      match stat r p with
      | .error e => .error e
      | .ok .file =>
        if is2xx (srvDele r p).1 then .ok (srvDele r p).2 else .error (.status (srvDele r p).1)
      | .ok .dir =>
        match listDir r p with
        | .error e => .error e
        | .ok entries =>
          match forEach (fun (r' : Remote) (e : PPath × Kind) => remove fuel r' e.1) r entries with
          | .error e => .error e
          | .ok r1 =>
            if (srvRmd r1 p).1 = 250 then .ok (srvRmd r1 p).2 else .error (.status (srvRmd r1 p).1)

def removeTop (r : Remote) (p : PPath) : M Remote := remove (r.fs.length + 1) r p

end ClientTree
end Model
