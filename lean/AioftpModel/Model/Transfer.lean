/-
  The data path of STOR / APPE / RETR as the code has it:

    server.py  stor_worker :  file_mode = "r+b" if connection.restart_offset else mode
                              async with stream, file_out:
                                  if connection.restart_offset: await file_out.seek(connection.restart_offset)
                                  async for data in stream.iter_by_block(connection.block_size):
                                      await file_out.write(data)
                              connection.response("226", ...)
               retr_worker :  file_in = open(real_path, "rb")
                              async with stream, file_in:
                                  if connection.restart_offset: await file_in.seek(connection.restart_offset)
                                  async for data in file_in.iter_by_block(connection.block_size):
                                      await stream.write(data)
                              connection.response("226", ...)
    common.py  AsyncStreamIterator.__anext__ : data = await read(); if data: return data else: stop
    pathio.py  MemoryPathIO._open / PathIO._open (modes rb, wb, ab, r+b)

  The network is an adversary: what successive `stream.read(block_size)` calls return is *any* list of
  pieces; asyncio guarantees only that a piece is non-empty and at most `block_size` long until EOF and
  empty at EOF (`ValidChunking`).  The backend file is `Py.BytesIO` (see the assumptions there).
-/
import AioftpModel.Py.BytesIO
import AioftpModel.Model.FsMem

namespace Model
namespace Transfer
open Py

/-- `open` modes the workers use -/
inductive Mode where
  | rb | wb | ab | rpb
  deriving DecidableEq, Repr

def Mode.ofString (s : String) : Option Mode :=
  if s = "rb" then some .rb else if s = "wb" then some .wb
  else if s = "ab" then some .ab else if s = "r+b" then some .rpb else none

def Mode.toNat : Mode → Nat
  | .rb => 0 | .wb => 1 | .ab => 2 | .rpb => 3

/-- the two upload verbs: `stor(mode="wb")`, `appe` = `stor(mode="ab")` -/
inductive UpVerb where
  | stor | appe
  deriving DecidableEq, Repr

def UpVerb.mode : UpVerb → Mode
  | .stor => .wb
  | .appe => .ab

/-- the shipped backends; they no longer differ in anything the workers can reach (on the pinned tree
    `MemoryPathIO._open("r+b")` created a missing file where `pathlib.Path.open("r+b")` raises — finding
    F7-c, repaired in /repo) -/
inductive Backend where
  | memory | posix
  deriving DecidableEq, Repr

/-- `if connection.restart_offset: file_mode = "r+b" else: file_mode = mode` -/
def fileMode (mode : Mode) (offset : Nat) : Mode := if offset ≠ 0 then .rpb else mode

/-- `path_io._open(path, mode)` on a path whose parent is a directory; `old = none` : no such file;
    result `none` : the open raises (`PathIOError`, answered 451 by the `worker` decorator) -/
def openFile (be : Backend) (old : Option Bytes) : Mode → Option BytesIO
  | .rb => old.map BytesIO.ofBytes
  | .wb => some (BytesIO.ofBytes [])
  | .ab => some ((BytesIO.ofBytes (old.getD [])).seekEnd)
  | .rpb =>
    match old with
    | some c => some (BytesIO.ofBytes c)
    | none => none        -- every shipped backend raises FileNotFoundError (MemoryPathIO used to create: F7-c)

/-- `AsyncStreamIterator` over the results of successive reads: stops at the FIRST empty one -/
def iterByBlock : List Bytes → List Bytes
  | [] => []
  | d :: rest => if d.isEmpty then [] else d :: iterByBlock rest

/-- `async for data in …: await file_out.write(data)` -/
def storLoop (f : BytesIO) (blocks : List Bytes) : BytesIO := blocks.foldl BytesIO.write f

/-- what the network may hand to successive `read(bs)` calls before EOF -/
def ValidChunking (bs : Nat) (payload : Bytes) (chunks : List Bytes) : Prop :=
  chunks.flatten = payload ∧ ∀ c ∈ chunks, c ≠ [] ∧ c.length ≤ bs

instance (bs : Nat) (payload : Bytes) (chunks : List Bytes) : Decidable (ValidChunking bs payload chunks) := by
  unfold ValidChunking; exact inferInstance

/-- the file handle the upload loop starts with -/
def storHandle (be : Backend) (old : Option Bytes) (v : UpVerb) (offset : Nat) : Option BytesIO :=
  (openFile be old (fileMode v.mode offset)).map fun f => if offset ≠ 0 then f.seek offset else f

/-- content of the target after the upload worker ran on the read results `reads`
    (`none` : the open failed, nothing was written, reply 451) -/
def storResult (be : Backend) (old : Option Bytes) (v : UpVerb) (offset : Nat) (reads : List Bytes) :
    Option Bytes :=
  (storHandle be old v offset).map fun f => (storLoop f (iterByBlock reads)).data

/-- `async for data in file_in.iter_by_block(bs)` : blocks read until the first empty read.
    Accepted by Lean's termination checker: every non-empty read moves the position towards the end. -/
def retrLoop (f : BytesIO) (bs : Nat) : List Bytes :=
  if (f.read bs).1 = [] then [] else (f.read bs).1 :: retrLoop (f.read bs).2 bs
termination_by f.data.length - f.pos
decreasing_by
  rename_i h
  have hlen : 0 < ((f.read bs).1).length := List.length_pos_iff.mpr h
  simp only [BytesIO.read] at hlen ⊢
  simp only [List.length_take, List.length_drop] at hlen ⊢
  omega

/-- blocks the download worker writes to the data connection (`none` : the open failed, 451) -/
def retrBlocks (old : Option Bytes) (offset bs : Nat) : Option (List Bytes) :=
  (openFile .posix old .rb).map fun f => retrLoop (if offset ≠ 0 then f.seek offset else f) bs

/-- what the client collects: its own successive `read(n)` results, iterated until the first empty one -/
def clientCollect (reads : List Bytes) : Bytes := (iterByBlock reads).flatten

/-! ### the order of events of one worker (what the spying backend, the data transport and the
     client can observe) -/

inductive Ev where
  | open_ (mode : Mode)
  | openFailed (mode : Mode)
  | seek (k : Nat)
  | fileRead (request got : Nat)
  | fileWrite (n : Nat)
  | streamRead (got : Nat)
  | streamWrite (n : Nat)
  | streamClose
  | fileClose
  | reply (code : Nat)
  deriving DecidableEq, Repr

def Ev.isReply : Ev → Bool
  | .reply _ => true
  | _ => false

/-- the read/write events of the upload loop: one `read` and one `write` per block, then the empty read -/
def storLoopEvents : List Bytes → List Ev
  | [] => []                                   -- (the reads ran out without an empty one: not reachable)
  | d :: rest => if d.isEmpty then [.streamRead 0] else .streamRead d.length :: .fileWrite d.length :: storLoopEvents rest

/-- `async with stream, file_out` enters the stream first and leaves it last; the 226 is queued after both exits.
    A failing open happens in `file_out.__aenter__`, inside the stream context: the data connection is closed
    before the 451 (the order is pinned against the source by `C01.generated_with_order`; the pinned tree had
    the items the other way round, finding F6). -/
def storTrace (be : Backend) (old : Option Bytes) (v : UpVerb) (offset : Nat) (reads : List Bytes) : List Ev :=
  match openFile be old (fileMode v.mode offset) with
  | none => [.openFailed (fileMode v.mode offset), .streamClose, .reply 451]
  | some _ =>
    [.open_ (fileMode v.mode offset)] ++ (if offset ≠ 0 then [.seek offset] else []) ++ storLoopEvents reads
      ++ [.fileClose, .streamClose, .reply 226]

/-- read requests of the download loop, each followed by the write of what it returned; then the empty read -/
def retrLoopEvents (f : BytesIO) (bs : Nat) : List Ev :=
  ((retrLoop f bs).flatMap fun b => [.fileRead bs b.length, .streamWrite b.length]) ++ [.fileRead bs 0]

def retrTrace (old : Option Bytes) (offset bs : Nat) : List Ev :=
  match openFile .posix old .rb with
  | none => [.openFailed .rb, .streamClose, .reply 451]
  | some f =>
    [.open_ .rb] ++ (if offset ≠ 0 then [.seek offset] else [])
      ++ retrLoopEvents (if offset ≠ 0 then f.seek offset else f) bs
      ++ [.fileClose, .streamClose, .reply 226]

/-! ### the arithmetic specification -/

def zeros (n : Nat) : Bytes := List.replicate n 0

/-- what the target must hold after an upload of `payload` (file absent = empty):
    * no offset, STOR : the payload; no offset, APPE : old content followed by the payload;
    * offset `k > 0` (either verb: the mode becomes `r+b`) and a non-empty payload : the first `k` bytes of the
      old content (NUL-filled up to `k` when shorter), the payload, then whatever the old content had after
      `k + |payload|`;
    * offset `k > 0` and an EMPTY payload : unchanged (no write is ever made, so no NUL fill either). -/
def storSpec (old : Bytes) (v : UpVerb) (k : Nat) (payload : Bytes) : Bytes :=
  if k = 0 then
    match v with
    | .stor => payload
    | .appe => old ++ payload
  else if payload = [] then old
  else (old ++ zeros (k - old.length)).take k ++ payload ++ old.drop (k + payload.length)

/-- the formula of the design text without the empty-payload case (kept to state that it is NOT what happens) -/
def naiveOffsetSpec (old : Bytes) (k : Nat) (payload : Bytes) : Bytes :=
  (old ++ zeros (k - old.length)).take k ++ payload ++ old.drop (k + payload.length)

/-- split a payload by a list of sizes (the write sizes the spying backend recorded) -/
def splitBySizes : List Nat → Bytes → List Bytes
  | [], _ => []
  | n :: ns, b => b.take n :: splitBySizes ns (b.drop n)

end Transfer
end Model
