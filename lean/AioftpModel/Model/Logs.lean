/-
  Every log record the two sides emit during a login exchange, as a function of the lines on the
  wire and of the user table: `Server.parse_command`, `Server.write_line`, the `user` / `pass_`
  handlers and `MemoryUserManager.get_user/authenticate` (server.py); `BaseClient.command`,
  `BaseClient.parse_line`, `Client.login` (client.py).  Core-only imports.

  Not modelled (they carry no client text, the harness checks that on every run): the INFO records
  `new connection from host:port` / `closing connection from host:port`, `serving on`, `waiting for
  %d tasks`, and the `logger.exception("dispatcher caught exception")` record with its traceback.
-/
import AioftpModel.Py.Str
import AioftpModel.Py.Repr
import AioftpModel.Generated.Server
import AioftpModel.Generated.Logs

namespace Model.Logs
open Py

/-- `"*" * n` -/
def stars (n : Nat) : Str := List.replicate n '*'

/-- `"%s %s" % (a, b)` for two `str` arguments -/
def fmt2 (a b : Str) : Str := a ++ ' ' :: b

/-- default `censor_commands` of `parse_command` (generated from the signature) -/
def censorList : List Str := Generated.censorCommands.map String.toList

/-- `Server.parse_command` after `readline`/`decode`:
    ```
    s = line.rstrip()
    cmd, _, rest = s.partition(" ")
    if cmd.lower() in censor_commands: stars = "*" * len(rest); logger.debug("%s %s", cmd, stars)
    else: logger.debug("%s %s", cmd, rest)
    return cmd.lower(), rest
    ```
    Result: (the record, (cmd.lower(), rest)). -/
def parseCommand (censor : List Str) (line : Str) : Str × (Str × Str) :=
  let s := rstrip line
  let cr := partitionSpace s
  let record := if censor.contains (lower cr.1) then fmt2 cr.1 (stars cr.2.length) else fmt2 cr.1 cr.2
  (record, (lower cr.1, cr.2))

/-- the head of `parse_command`: `line = await stream.readline(); if not line: raise ConnectionResetError`.
    `none` = ConnectionResetError (end of stream; the dispatcher ends the session) -/
def recvCommand? (censor : List Str) (line : Str) : Option (Str × (Str × Str)) :=
  if line.isEmpty then none else some (parseCommand censor line)

/-- `write_response(stream, code, info)` for a one-line `info`: the single line `code + " " + info`,
    which `write_line` logs verbatim (`logger.debug(line)`, no arguments, so no %-formatting) -/
def replyLine (code info : String) : Str := (code ++ " " ++ info).toList

/-! ### user table and the two login handlers -/

/-- the two fields of `aioftp.User` the login handlers read -/
structure UserRec where
  login : Option Str
  password : Option Str
  deriving DecidableEq, Repr

/-- `MemoryUserManager.__init__`: `self.users = users or [User()]` -/
def managerUsers (given : List UserRec) : List UserRec :=
  if given.isEmpty then [⟨none, none⟩] else given

/-- the search loop of `MemoryUserManager.get_user`:
    ```
    user = None
    for u in self.users:
        if u.login is None and user is None: user = u
        elif u.login == login: user = u; break
    ```
-/
def findUserLoop (login : Str) : List UserRec → Option UserRec → Option UserRec
  | [], acc => acc
  | u :: t, acc =>
    if u.login.isNone && acc.isNone then findUserLoop login t (some u)
    else if u.login == some login then some u
    else findUserLoop login t acc

def findUser (users : List UserRec) (login : Str) : Option UserRec := findUserLoop login users none

/-- connection state as far as login is concerned; `ext` stands for everything else a connection
    holds.  A typed password is never stored: `pass_` hands `rest` to `authenticate` and drops it. -/
structure LState (σ : Type) where
  /-- `connection.user` (`some` ⇔ `connection.future.user.done()`) -/
  user : Option UserRec
  /-- `connection.future.logged.done()` -/
  logged : Bool
  ext : σ
  deriving DecidableEq

/-- `Server.user` with `MemoryUserManager.get_user`, for users without a connection limit
    (`maximum_connections=None`, so `available_connections[user].locked()` is never true).
    `del connection.user; del connection.logged` happens before the lookup. -/
def userHandler {σ : Type} (users : List UserRec) (st : LState σ) (rest : Str) : List Str × LState σ :=
  match findUser users rest with
  | none => ([replyLine "530" "no such username"], { st with user := none, logged := false })
  | some u =>
    if u.login.isNone then
      ([replyLine "230" "anonymous login"], { st with user := some u, logged := true })
    else if u.password.isNone then
      ([replyLine "230" "login without password"], { st with user := some u, logged := true })
    else
      ([replyLine "331" "password required"], { st with user := some u, logged := false })

/-- `MemoryUserManager.authenticate`: `user.password == password` -/
def authenticate (u : UserRec) (typed : Str) : Bool := u.password == some typed

/-- `Server.pass_` under `@ConnectionConditions(user_required)` -/
def passHandler {σ : Type} (st : LState σ) (rest : Str) : List Str × LState σ :=
  match st.user with
  | none => ([replyLine "503" "bad sequence of commands (no user (use USER firstly))"], st)
  | some u =>
    if st.logged then ([replyLine "503" "already logged in"], st)
    else if authenticate u rest then ([replyLine "230" "normal login"], { st with logged := true })
    else ([replyLine "530" "wrong password"], st)

/-- what the server is, beyond the two login handlers -/
structure Env (σ : Type) where
  /-- `MemoryUserManager.users` -/
  users : List UserRec
  /-- every other branch of the dispatcher (all other handlers, and `502 {cmd!r} not implemented`):
      reply lines and the rest of the connection state as a function of the state, the lower-cased
      verb and its argument.  It cannot change `user` / `logged`: only `Server.user` and
      `Server.pass_` assign them (`Generated.loginStateWriters`).  `none` = outside the modelled
      fragment. -/
  other : LState σ → Str → Str → Option (List Str × σ)

def verbUser : Str := "user".toList
def verbPass : Str := "pass".toList

/-- dispatcher: `f = self.commands_mapping.get(cmd)` then `f(connection, rest)` -/
def dispatch {σ : Type} (env : Env σ) (st : LState σ) (cmd rest : Str) : Option (List Str × LState σ) :=
  if cmd = verbPass then some (passHandler st rest)
  else if cmd = verbUser then some (userHandler env.users st rest)
  else match env.other st cmd rest with
    | none => none
    | some (replies, e) => some (replies, { st with ext := e })

/-- one received line: the records it causes (command echo, then each reply line) and the reply
    lines that go back on the wire -/
def serverStep {σ : Type} (env : Env σ) (st : LState σ) (line : Str) :
    Option (List Str × List Str × LState σ) :=
  match recvCommand? censorList line with
  | none => none          -- end of stream: not an element of a history
  | some pc =>
    match dispatch env st pc.2.1 pc.2.2 with
    | none => none
    | some (replies, st') => some (pc.1 :: replies, replies, st')

/-- a history of received lines (client waits for each reply): all records, all replies, final state -/
def serverRun {σ : Type} (env : Env σ) : LState σ → List Str → Option (List Str × List Str × LState σ)
  | st, [] => some ([], [], st)
  | st, l :: t =>
    match serverStep env st l with
    | none => none
    | some (recs, reps, st') =>
      match serverRun env st' t with
      | none => none
      | some (recs', reps', st'') => some (recs ++ recs', reps ++ reps', st'')

/-! ### the client -/

/-- `BaseClient.command(command, …, censor_after)`: the record written before sending.
    `none` = nothing logged and nothing sent (`if command:` false) -/
def clientCommandRecord (command : Str) (censorAfter : Option Nat) : Option Str :=
  if command.isEmpty then none
  else match censorAfter with
    | none => some command
    | some n =>
      if n = 0 then some command     -- `if censor_after:` is false for 0
      else some (command.take n ++ stars (command.drop n).length)

/-- `BaseClient.parse_line`: `if not line: … raise ConnectionResetError` (= `none`), else
    `s = line.decode().rstrip(); logger.debug(s); return Code(s[:3]), s[3:]` -/
def clientParseLine? (line : Str) : Option (Str × Str × Str) :=
  if line.isEmpty then none
  else
    let s := rstrip line
    some (s, s.take 3, s.drop 3)

/-- what the server's `readline` loop sees of one client command: `command + "\r\n"` cut after every
    LF (each piece keeps its LF, so no piece is empty) -/
def wireLines (command : Str) : List Str :=
  ((splitOn '\n' (command ++ ['\r', '\n'])).dropLast).map (fun l => l ++ ['\n'])

/-- client + server + the reply lines not yet read by the client -/
structure Wire (σ : Type) where
  st : LState σ
  inbox : List Str
  cliRecs : List Str
  srvRecs : List Str

/-- one `command(...)` call that expects a reply: log, send, (server runs), read ONE one-line reply.
    Returns the new wire state and the reply code; `none` = outside the modelled fragment (multi-line
    reply, malformed code, no reply at all — the real client would block —, unmodelled handler). -/
def clientCommand {σ : Type} (env : Env σ) (w : Wire σ) (command : Str) (censorAfter : Option Nat) :
    Option (Wire σ × Str) :=
  match clientCommandRecord command censorAfter with
  | none => none
  | some crec =>
    match serverRun env w.st (wireLines command) with
    | none => none
    | some (srecs, reps, st') =>
      match w.inbox ++ reps with
      | [] => none
      | r :: inbox' =>
        match clientParseLine? (r ++ ['\r', '\n']) with     -- `write_line` appends END_OF_LINE
        | none => none
        | some pl =>
          if pl.2.2.head? = some '-' || !(isDigit pl.2.1) then none
          else some ({ st := st', inbox := inbox', cliRecs := w.cliRecs ++ [crec, pl.1],
                       srvRecs := w.srvRecs ++ srecs }, pl.2.1)

def code331 : Str := "331".toList
def code332 : Str := "332".toList
def mask230 : Str := "230".toList
def mask33x : Str := "33x".toList

/-- `Code.matches(mask)`: `all(map(lambda m, c: not m.isdigit() or m == c, mask, self))`
    (`map` over two iterables stops at the shorter one) -/
def codeMatches (code mask : Str) : Bool :=
  (mask.zip code).all (fun mc => !(isDigitCh mc.1) || mc.1 == mc.2)

/-- `BaseClient.command` raises ValueError — before its first logging call and before it writes to the stream —
    when the line contains one of the characters the translator found in its guard (now CR and LF) -/
def clientRejects (command : Str) : Bool := command.any (fun c => Generated.clientCommandRejects.contains c)

/-- the logging part of one `command(...)` call: `none` = ValueError raised with nothing logged and nothing
    sent; `some none` = nothing to send (`if command:` false); `some (some r)` = the record `r` -/
def clientCommandOutcome (command : Str) (censorAfter : Option Nat) : Option (Option Str) :=
  if !command.isEmpty && clientRejects command then none else some (clientCommandRecord command censorAfter)

/-- the `while code.matches("33x")` loop of `Client.login`; `fuel` bounds the number of rounds.
    Stops (returns the wire state) when the code is 230, or when `check_codes` / the `else` branch
    raises StatusCodeError — nothing is logged by either. -/
def loginLoop {σ : Type} (env : Env σ) (password account : Str) :
    Nat → Wire σ → Str → Option (Wire σ)
  | 0, _, _ => none
  | fuel + 1, w, code =>
    if !(codeMatches code mask230 || codeMatches code mask33x) then some w   -- check_codes raises
    else if !(codeMatches code mask33x) then some w             -- 230: done
    else if code = code331 then
      if clientRejects ("PASS ".toList ++ password) then some w     -- ValueError: nothing logged, nothing sent
      else match clientCommand env w ("PASS ".toList ++ password) (some 5) with
      | none => none
      | some (w', code') => loginLoop env password account fuel w' code'
    else if code = code332 then
      if clientRejects ("ACCT ".toList ++ account) then some w
      else match clientCommand env w ("ACCT ".toList ++ account) none with
      | none => none
      | some (w', code') => loginLoop env password account fuel w' code'
    else some w                                                 -- other 33x: raises

/-- `Client.login(user, password, account)` against the server model, starting after the greeting.
    Result: (client records, server records). -/
def loginSession {σ : Type} (env : Env σ) (st : LState σ) (user password account : Str) (fuel : Nat) :
    Option (List Str × List Str) :=
  if clientRejects ("USER ".toList ++ user) then some ([], []) else
  match clientCommand env ⟨st, [], [], []⟩ ("USER ".toList ++ user) none with
  | none => none
  | some (w, code) =>
    match loginLoop env password account fuel w code with
    | none => none
    | some w' => some (w'.cliRecs, w'.srvRecs)

/-! ### the concrete instance used by the driver -/

/-- is `cmd` a key of `commands_mapping`? -/
def knownVerb (cmd : Str) : Bool := Generated.Verb.all.any (fun v => v.name.toList == cmd)

/-- the dispatcher's `else` branch for unknown verbs; other known verbs are outside the fragment -/
def loginOther (_st : LState Unit) (cmd _rest : Str) : Option (List Str × Unit) :=
  if knownVerb cmd then none
  else match reprAscii? cmd with
    | none => none
    | some r => some (["502 ".toList ++ r ++ " not implemented".toList], ())

def loginEnv (users : List UserRec) : Env Unit := ⟨managerUsers users, loginOther⟩

def initState : LState Unit := ⟨none, false, ()⟩

end Model.Logs
