/-
  Several files opened on ONE node of `MemoryPathIO` (C18, C01).

  A node keeps its bytes in one `io.BytesIO`.  Until the repair b7a05f2 `_open` handed that very object to every
  opener, so all open files of a node shared its position.  Now `_open` returns a `MemoryFile(node, position)`:
  every method of it first seeks the node's BytesIO to the file's OWN position, works, and records where it ended.

  The schedule is an arbitrary list of events over any number of open files (no `await` inside one event, as in
  the code: the backend methods of `MemoryPathIO` never suspend):

    open h k     file `h` is opened for reading and positioned at `k` (`RETR` after `REST k`; `k = 0` without)
    read h n     `read(n)` on file `h` (one block of a transfer)
    poke k       anything else moves the position of the node's BytesIO to `k` (another user of the object)

  `own` says whether an opened file has a position of its own (the generated fact `memoryFileOwnPosition`).
  Core Lean only.
-/
import AioftpModel.Generated.PathIO

namespace Model.MemHandles

abbrev Bytes := List Nat

inductive Ev
  | open (h k : Nat)
  | read (h n : Nat)
  | poke (k : Nat)
  deriving DecidableEq, Repr

structure St where
  shared : Nat                  -- position of the node's BytesIO
  start  : Nat → Nat            -- where file h was positioned when it was opened
  pos    : Nat → Nat            -- file h's own position (meaningful when `own`)
  got    : Nat → Bytes          -- what file h's reads have returned so far, in order
  done   : Nat → Bool           -- a read of file h with n > 0 returned nothing: its reader takes that for the end

def upd {α : Type} (f : Nat → α) (h : Nat) (v : α) : Nat → α := fun i => if i = h then v else f i

def init : St := { shared := 0, start := fun _ => 0, pos := fun _ => 0, got := fun _ => [], done := fun _ => false }

/-- one event on a node holding `content` -/
def step (own : Bool) (content : Bytes) (s : St) : Ev → St
  | .open h k =>
    { s with shared := if own then s.shared else k,
             start := upd s.start h k, pos := upd s.pos h k, got := upd s.got h [], done := upd s.done h false }
  | .read h n =>
    let p := if own then s.pos h else s.shared
    let data := (content.drop p).take n
    { s with shared := p + data.length, pos := upd s.pos h (p + data.length),
             got := upd s.got h (s.got h ++ data),
             done := upd s.done h (s.done h || (decide (0 < n) && data.isEmpty)) }
  | .poke k => { s with shared := k }

def run (own : Bool) (content : Bytes) (s : St) (evs : List Ev) : St := evs.foldl (step own content) s

/-- the schedule as the source has it now -/
def runNow (content : Bytes) (evs : List Ev) : St := run Generated.PathIO.memoryFileOwnPosition content init evs

end Model.MemHandles
