/-
  Pipelined passive commands of ONE session (C11).

  Every command of a session runs as its own task, so `PASV\r\nEPSV\r\n` in one segment puts two handlers
  side by side.  Each handler is three atomic pieces (no `await` inside a piece):

    acquire   enter `async with connection.passive_lock` (only when the source has that lock)
    check     `if not connection.future.passive_server.done()` : either answer "already exists" (and leave the
              locked region), or take a port out of the pool (`get_nowait`; empty pool: 421) and go to sleep in
              `await asyncio.start_server(...)`
    finish    the awaited start-up returns: `connection.passive_server = <listener>` - which REPLACES an earlier
              listener of the session without closing it or returning its port - and the region is left

  Tasks are symmetric, so the state counts them (a counter abstraction); `starting` lists the ports of the
  start-ups that are asleep.  The scheduler is an arbitrary list of events; an event that is not enabled is a
  no-op.  Core Lean only.
-/
import AioftpModel.Generated.Server

namespace Model.PassiveRace

inductive Ev
  | acquire
  | check
  | finish (k : Nat)      -- the k-th sleeping start-up returns
  deriving DecidableEq, Repr

structure St where
  pool     : List Nat          -- ports available
  listener : Option Nat        -- port of the session's recorded listener
  lock     : Bool              -- the per-connection lock is held
  leaked   : List Nat          -- ports of listeners that were replaced: never closed, never returned
  waiting  : Nat               -- handlers that have not entered the region yet
  checking : Nat               -- handlers inside the region, before the test
  starting : List Nat          -- handlers asleep in start_server, with the port each took
  deriving DecidableEq, Repr

def init (ports : List Nat) (n : Nat) : St :=
  { pool := ports, listener := none, lock := false, leaked := [], waiting := n, checking := 0, starting := [] }

/-- one scheduler event; `locked` = the source has the per-connection lock around the region -/
def step (locked : Bool) (s : St) : Ev → St
  | .acquire =>
    if s.waiting = 0 then s
    else if locked && s.lock then s
    else { s with lock := locked, waiting := s.waiting - 1, checking := s.checking + 1 }
  | .check =>
    if s.checking = 0 then s
    else match s.listener with
      | some _ => { s with checking := s.checking - 1, lock := false }                 -- "already exists"
      | none =>
        match s.pool with
        | [] => { s with checking := s.checking - 1, lock := false }                   -- 421
        | p :: r => { s with checking := s.checking - 1, pool := r, starting := p :: s.starting }
  | .finish k =>
    match s.starting[k]? with
    | none => s
    | some p =>
      { s with starting := s.starting.eraseIdx k, listener := some p,
               leaked := s.listener.toList ++ s.leaked, lock := false }

def run (locked : Bool) (s : St) (evs : List Ev) : St := evs.foldl (step locked) s

/-- nothing of the pipelined batch is in flight any more -/
def St.quiescent (s : St) : Prop := s.waiting = 0 ∧ s.checking = 0 ∧ s.starting = []

instance (s : St) : Decidable s.quiescent := by unfold St.quiescent; infer_instance

/-- how many ports the state accounts for -/
def St.total (s : St) : Nat :=
  s.pool.length + s.listener.toList.length + s.starting.length + s.leaked.length

/-- the batch as the source has it now -/
def runNow (ports : List Nat) (n : Nat) (evs : List Ev) : St :=
  run Generated.passiveStartLocked (init ports n) evs

end Model.PassiveRace
