/-
  `pathlib.PurePosixPath` (CPython 3.12) as far as aioftp uses it, and `Server.get_paths`
  transcribed line by line.
-/
import AioftpModel.Py.Str

namespace Model
open Py

/-- normal form of a PurePosixPath: number of leading slashes kept as root (0, 1 or 2) and the tail -/
structure PPath where
  root : Nat
  parts : List Str
  deriving DecidableEq, Repr

/-- `posixpath.splitroot` -/
def splitroot : Str → Nat × Str
  | '/' :: '/' :: '/' :: r => (1, '/' :: '/' :: r)
  | '/' :: '/' :: r => (2, r)
  | '/' :: r => (1, r)
  | s => (0, s)

/-- the parts filter of `_parse_path`: drop `''` and `'.'` -/
def keepPart (x : Str) : Bool := !(x.isEmpty) && x != ['.']

/-- `PurePosixPath(s)` for a `str` argument -/
def PPath.parse (s : Str) : PPath :=
  ⟨(splitroot s).1, (splitOn '/' (splitroot s).2).filter keepPart⟩

def rootStr : Nat → Str
  | 0 => []
  | 1 => ['/']
  | _ => ['/', '/']

/-- `str(path)` -/
def PPath.str (p : PPath) : Str :=
  if p.root = 0 ∧ p.parts = [] then ['.'] else rootStr p.root ++ joinWith '/' p.parts

/-- `a / b` (also `PurePosixPath(a, b)`) -/
def PPath.join (a b : PPath) : PPath :=
  if b.root ≠ 0 then b else ⟨a.root, a.parts ++ b.parts⟩

/-- `path.parent` -/
def PPath.parent (p : PPath) : PPath := ⟨p.root, p.parts.dropLast⟩

def PPath.isAbsolute (p : PPath) : Bool := p.root != 0

/-- `path.name` -/
def PPath.name (p : PPath) : Str := p.parts.getLast?.getD []

/-- `path.parts[1:]` : the anchor, if any, is element 0 -/
def PPath.partsFrom1 (p : PPath) : List Str :=
  if p.root = 0 then p.parts.drop 1 else p.parts

/-- `other == self or other in self.parents` -/
def PPath.isRelativeTo (p other : PPath) : Bool :=
  p.root == other.root && other.parts.isPrefixOf p.parts

/-- `p.relative_to(other)` : `none` = ValueError -/
def PPath.relativeTo? (p other : PPath) : Option PPath :=
  if p.isRelativeTo other then some ⟨0, p.parts.drop other.parts.length⟩ else none

def dotdot : Str := ['.', '.']

/-- one iteration of the loop in `get_paths` on the tail of the resolved path (root is always "/") -/
def resolveStep (acc : List Str) (part : Str) : List Str :=
  if part = dotdot then acc.dropLast else acc ++ [part]

/-- the `for part in virtual_path.parts[1:]` loop -/
def resolveParts (ps : List Str) : List Str := ps.foldl resolveStep []

/-- `if not virtual_path.is_absolute(): virtual_path = connection.current_directory / virtual_path` -/
def underCwd (cwd arg : PPath) : PPath := if arg.isAbsolute then arg else cwd.join arg

/-- `Server.get_paths(connection, path)` with `connection.current_directory = cwd`,
    `connection.user.base_path = base`, `path` already a PurePosixPath (`arg`).
    Returns (real_path, resolved_virtual_path). -/
def getPathsP (base cwd arg : PPath) : PPath × PPath :=
  let v := underCwd cwd arg
  let resolved : PPath := ⟨1, resolveParts v.partsFrom1⟩
  -- str(resolved.relative_to("/")), then base / that string
  let rel : PPath := ⟨0, resolved.parts⟩
  let real := base.join (PPath.parse rel.str)
  if real.isRelativeTo base then (real, resolved) else (base, ⟨1, []⟩)

/-- `get_paths` on the raw command argument -/
def getPaths (base cwd : PPath) (arg : Str) : PPath × PPath :=
  getPathsP base cwd (PPath.parse arg)

/-! ### the independent reading of a path string ("walk") used as the specification -/

/-- walk one raw segment from a position given as the list of names below the virtual root -/
def walkSeg (pos : List Str) (seg : Str) : List Str :=
  if seg = [] ∨ seg = ['.'] then pos
  else if seg = dotdot then pos.dropLast
  else pos ++ [seg]

/-- start at `/` if the string starts with a slash, else at `cwd`; then walk the slash-separated segments -/
def walkStart (cwd : List Str) : Str → List Str
  | '/' :: _ => []
  | _ => cwd

def walk (cwd : List Str) (s : Str) : List Str :=
  (splitOn '/' s).foldl walkSeg (walkStart cwd s)

end Model
