/-
  Model of the passive data-port pool of `aioftp.Server` (property C11).

  Transcribed from src/aioftp/server.py:
    * `Server.__init__`               : `available_data_ports = PriorityQueue()`, `put_nowait((0, p))` per port
    * `Server._start_passive_server`  : the `while True` loop (take, viewed set, await `start_server`,
                                        `except QueueEmpty`, `except OSError`)
    * `Server.pasv` / `Server.epsv`   : `except NoAvailablePort -> 421, return False`
    * the dispatcher's `finally`      : `if connection.future.passive_server.done(): close(); put_nowait((0, port))`
  and from src/aioftp/errors.py the class facts the `except OSError` clause depends on, which are NOT written
  here by hand but taken from `Generated.Server` (regenerated from the live classes on every run).

  The code is followed as it is, including what it gets wrong: a `CancelledError` raised inside the awaited
  `asyncio.start_server` is not an `OSError`, so the port taken from the queue is neither put back nor recorded.

  Core imports only.
-/
import AioftpModel.Generated.Server

namespace Model.PortPool

abbrev Port := Nat
/-- queue entries are the tuples `(priority, port)` -/
abbrev Item := Nat × Port

/-- class-hierarchy facts the `except OSError` clause depends on -/
structure Facts where
  /-- `issubclass(NoAvailablePort, OSError)` -/
  naoIsOSError : Bool
  /-- `issubclass(asyncio.CancelledError, OSError)` -/
  cancelIsOSError : Bool
  /-- the try around `start_server` has a clause of its own for the cancellation that puts the port back
      with its old priority and re-raises -/
  cancelPutsBack : Bool := false
  deriving DecidableEq, Repr

/-- is a cancellation inside the awaited start-up met by some clause that gives the port back? -/
def Facts.cancelCaught (f : Facts) : Bool := f.cancelIsOSError || f.cancelPutsBack

/-- the priority the port goes back with: `priority + 1` through `except OSError`, `priority` through the
    cancellation clause -/
def Facts.cancelReturn (f : Facts) (prio : Nat) : Nat := if f.cancelIsOSError then prio + 1 else prio

/-- the facts of the tree under check (translator output) -/
def facts : Facts :=
  ⟨Generated.noAvailablePortIsOSError, Generated.cancelledIsOSError, Generated.passiveCancelReturnsPort⟩

/-- Python tuple order on `(priority, port)` (what `heapq` compares) -/
def Item.le (a b : Item) : Bool := a.1 < b.1 || (a.1 == b.1 && a.2 ≤ b.2)

/-- `PriorityQueue.put_nowait` (unbounded queue: never `QueueFull`).  The pool is kept as the sorted list
    of its entries; equal tuples are indistinguishable, so this is the queue up to heap layout. -/
def put (x : Item) : List Item → List Item
  | [] => [x]
  | y :: ys => if Item.le x y then x :: y :: ys else y :: put x ys

/-- `PriorityQueue.get_nowait`: the least tuple, `none` = `asyncio.QueueEmpty` -/
def get : List Item → Option (Item × List Item)
  | [] => none
  | x :: xs => some (x, xs)

/-- `Server.__init__`: `for data_port in data_ports: put_nowait((0, data_port))` (duplicates are kept) -/
def initPool (ports : List Port) : List Item := ports.foldl (fun q p => put (0, p) q) []

/-- what the synchronous part of one loop iteration of `_start_passive_server` ends in -/
inductive Search where
  /-- suspended in `await asyncio.start_server(..., port, ...)`; `pool` is the queue meanwhile -/
  | await (viewed : List Port) (prio : Nat) (port : Port) (pool : List Item)
  /-- `NoAvailablePort` leaves `_start_passive_server` -/
  | noPort (pool : List Item)
  deriving DecidableEq, Repr

/-- one pass from the top of the `while True` body up to the `await` or to the exception leaving the loop -/
def search (f : Facts) (viewed : List Port) (pool : List Item) : Search :=
  match get pool with
  | none => .noPort pool                        -- except asyncio.QueueEmpty: raise NoAvailablePort
  | some ((prio, port), rest) =>
    if viewed.contains port then
      -- `raise errors.NoAvailablePort` inside the `try`
      if f.naoIsOSError then
        -- caught by `except OSError as err`: put back with priority + 1; err.errno is None != EADDRINUSE: re-raised
        .noPort (put (prio + 1, port) rest)
      else
        -- not caught by any clause: the tuple just taken is dropped
        .noPort rest
    else
      .await (port :: viewed) prio port rest    -- viewed_ports.add(port); await asyncio.start_server(...)

/-- how the awaited `asyncio.start_server` ends when it is not cancelled -/
inductive Outcome where
  | ok
  | addrInUse       -- OSError with errno == EADDRINUSE
  | otherOSError    -- any other OSError (EACCES, EADDRNOTAVAIL, ...)
  deriving DecidableEq, Repr

/-- what a session has to do with the pool -/
inductive Phase where
  /-- no passive listener, no start-up in progress -/
  | idle
  /-- the PASV/EPSV handler task is suspended in `await asyncio.start_server` for `port`,
      taken from the queue as `(prio, port)`; `viewed` includes `port` -/
  | starting (viewed : List Port) (prio : Nat) (port : Port)
  /-- `connection.passive_server` is set and `connection.passive_server_port = port` -/
  | listening (port : Port)
  /-- the dispatcher has run its `finally` -/
  | gone
  deriving DecidableEq, Repr

structure State where
  pool : List Item
  sessions : List Phase
  deriving DecidableEq, Repr

inductive Event where
  /-- a control connection is accepted (and logs in): a new session, numbered in order of arrival -/
  | connect
  /-- session `sid` receives `PASV` or `EPSV` (no argument) while logged in -/
  | pasv (sid : Nat)
  /-- the `start_server` call session `sid` is suspended in finishes with `o` -/
  | started (sid : Nat) (o : Outcome)
  /-- anything else in session `sid`: data connection accepted, a transfer, any other command -/
  | other (sid : Nat)
  /-- session `sid` ends: QUIT, EOF, reset, idle timeout, `Server.close()`.  If a handler task is suspended
      in `start_server` it is cancelled there (the dispatcher's `finally` cancels all pending tasks). -/
  | finish (sid : Nat)
  deriving DecidableEq, Repr

/-- the observable answer to an event -/
inductive Reply where
  | none
  /-- 227 / 229 "listen socket created" -/
  | created
  /-- 227 / 229 "listen socket already exists" -/
  | already
  /-- 421 "no free ports", `return False` -/
  | noFreePorts
  /-- the handler task died with an exception that is not `NoAvailablePort`: no reply, the dispatcher logs it
      and ends the session -/
  | crashed
  deriving DecidableEq, Repr

def initState (ports : List Port) : State := { pool := initPool ports, sessions := [] }

def setPhase (st : State) (i : Nat) (ph : Phase) (pool : List Item) : State :=
  { pool := pool, sessions := st.sessions.set i ph }

/-- continue after a `search`: either suspended in the next `start_server`, or `NoAvailablePort` reaches
    `pasv`/`epsv`: 421, `return False`, and the dispatcher's `finally` finds no listener to give back -/
def afterSearch (st : State) (i : Nat) : Search → State × Reply
  | .await vs prio p pool => (setPhase st i (.starting vs prio p) pool, .none)
  | .noPort pool => (setPhase st i .gone pool, .noFreePorts)

def step (f : Facts) (st : State) : Event → State × Reply
  | .connect => ({ st with sessions := st.sessions ++ [.idle] }, .none)
  | .pasv i =>
    match st.sessions[i]? with
    | some .idle => afterSearch st i (search f [] st.pool)          -- viewed_ports = set()
    | some (.listening _) => (st, .already)                          -- passive_server future already done
    -- a second PASV/EPSV cannot arrive at a handler while the first is still suspended (`starting`): the dispatcher
    -- starts handlers one at a time (C05.pipelined_commands_handled_in_order) and the test-start-record section is
    -- under a per-connection lock (C11.pipelined_passive_conserves, Model/PassiveRace.lean); on the pinned tree two
    -- start-ups ran side by side and the later assignment replaced the earlier listener (F16)
    | _ => (st, .none)
  | .started i o =>
    match st.sessions[i]? with
    | some (.starting vs prio p) =>
      match o with
      | .ok => (setPhase st i (.listening p) st.pool, .created)      -- passive_server_port = port; break
      | .addrInUse =>
        -- except OSError: put_nowait((priority + 1, port)); errno == EADDRINUSE: next iteration
        afterSearch st i (search f vs (put (prio + 1, p) st.pool))
      | .otherOSError =>
        -- except OSError: put_nowait((priority + 1, port)); raise -> not NoAvailablePort: the handler dies
        (setPhase st i .gone (put (prio + 1, p) st.pool), .crashed)
    | _ => (st, .none)
  | .other _ => (st, .none)
  | .finish i =>
    match st.sessions[i]? with
    | some .idle => (setPhase st i .gone st.pool, .none)
    | some (.starting _ prio p) =>
      -- CancelledError raised at the `await`: `except OSError` (never) or a clause of its own gives the port back
      if f.cancelCaught then (setPhase st i .gone (put (f.cancelReturn prio, p) st.pool), .none)
      else (setPhase st i .gone st.pool, .none)
    | some (.listening p) => (setPhase st i .gone (put (0, p) st.pool), .none)  -- finally: put_nowait((0, port))
    | _ => (st, .none)

/-- run a history -/
def run (f : Facts) (st : State) : List Event → State
  | [] => st
  | e :: es => run f (step f st e).1 es

/-- run a history collecting the replies -/
def runOut (f : Facts) (st : State) : List Event → State × List Reply
  | [] => (st, [])
  | e :: es =>
    let (st', r) := step f st e
    let (st'', rs) := runOut f st' es
    (st'', r :: rs)

/-- ports in the pool, with multiplicity -/
def poolPorts (st : State) : List Port := st.pool.map Prod.snd

/-- the port a session has taken out of the pool and not given back -/
def Phase.holds : Phase → Option Port
  | .starting _ _ p => some p
  | .listening p => some p
  | _ => none

def Phase.holdsN (ph : Phase) (p : Port) : Nat := if ph.holds = some p then 1 else 0

/-- number of live sessions holding `p` (listening on it, or suspended in its start-up) -/
def held (st : State) (p : Port) : Nat := (st.sessions.map (·.holdsN p)).sum

def inPool (st : State) (p : Port) : Nat := (poolPorts st).count p

/-- the port an event makes disappear: the session is cancelled while suspended in `start_server` and
    no clause meets the cancellation -/
def lossOf (f : Facts) (st : State) : Event → Option Port
  | .finish i =>
    match st.sessions[i]? with
    | some (.starting _ _ p) => if f.cancelCaught then none else some p
    | _ => none
  | _ => none

/-- how often `p` is lost along a history (by cancellation inside the start-up only) -/
def lostIn (f : Facts) (st : State) (p : Port) : List Event → Nat
  | [] => 0
  | e :: es => (if lossOf f st e = some p then 1 else 0) + lostIn f (step f st e).1 p es

/-- the event ends a session that is suspended in `start_server` -/
def cancelsStartup (st : State) : Event → Bool
  | .finish i =>
    match st.sessions[i]? with
    | some (.starting _ _ _) => true
    | _ => false
  | _ => false

def noCancelInStartup (f : Facts) (st : State) : List Event → Bool
  | [] => true
  | e :: es => !cancelsStartup st e && noCancelInStartup f (step f st e).1 es

/-- the history never ends a session while it is suspended in `start_server` -/
def NoCancelInStartup (f : Facts) (st : State) (evs : List Event) : Prop := noCancelInStartup f st evs = true

instance (f : Facts) (st : State) (evs : List Event) : Decidable (NoCancelInStartup f st evs) := by
  unfold NoCancelInStartup; infer_instance

/-- the ports session `i` asked `start_server` for along a history (one entry per answered call) -/
def attempted (f : Facts) (st : State) (i : Nat) : List Event → List Port
  | [] => []
  | e :: es =>
    (match e with
      | .started j _ =>
        if j = i then
          match st.sessions[i]? with
          | some (.starting _ _ p) => [p]
          | _ => []
        else []
      | _ => []) ++ attempted f (step f st e).1 i es

end Model.PortPool
